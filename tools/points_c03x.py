"""C03 extraction point: the order of catalogue rows -> coq/Gen/CatOrder.v.

  models.ComponentSource.__lt__ : the comparison `sorted()` uses on components - (island, source) lexicographically
  models.IslandSource.__lt__    : island numbers
  source_finder.priorized_fit_islands : the catalogue is `sorted(sources)` after the batches have been fitted
  models.island_itergen         : `sorted(catalog)` then reverse + pop, i.e. islands in increasing order

Every matcher fails closed.  The comparison operators are read from the AST (`<` / `<=`), so a changed strictness changes the
generated leaf and breaks the leaf lemma comp_lt_char of Proofs/CatOrderProofs.v.
"""
import ast

from trcore import HEADER_Z, TranslateError, find_func, parse_file, point, src, strip_doc
from translate_points import _p

_OPS = {ast.Lt: '<?', ast.LtE: '<=?', ast.Gt: '>?', ast.GtE: '>=?', ast.Eq: '=?'}


def _need(ok, what):
    if not ok:
        raise TranslateError('CatOrder: ' + what)


def _cmp(node, left, right):
    """`left OP right` -> Coq operator text"""
    _need(isinstance(node, ast.Compare) and len(node.ops) == 1 and src(node.left) == left and src(node.comparators[0]) == right
          and type(node.ops[0]) in _OPS, f'comparison of {left} with {right}: {src(node)}')
    return _OPS[type(node.ops[0])]


def _ret_true(st, test_src=None):
    return (isinstance(st, ast.If) and not st.orelse and len(st.body) == 1 and isinstance(st.body[0], ast.Return)
            and isinstance(st.body[0].value, ast.Constant) and st.body[0].value.value is True
            and (test_src is None or src(st.test) == test_src))


@point('CatOrder')
def gen_cat_order(repo):
    tree = parse_file(_p(repo, 'models.py'))
    lt = strip_doc(find_func(tree, '__lt__', cls='ComponentSource').body)
    _need(len(lt) == 4, 'ComponentSource.__lt__: four statements')
    _need(_ret_true(lt[0], "not hasattr(other, 'island')") and _ret_true(lt[1], "not hasattr(other, 'source')"),
          'ComponentSource.__lt__: the two hasattr guards')
    _need(_ret_true(lt[2]), 'ComponentSource.__lt__: `if self.island < other.island: return True`')
    op1 = _cmp(lt[2].test, 'self.island', 'other.island')
    _need(isinstance(lt[3], ast.If) and not lt[3].orelse and len(lt[3].body) == 1 and isinstance(lt[3].body[0], ast.Return),
          'ComponentSource.__lt__: `if self.island == other.island: return self.source < other.source`')
    op2 = _cmp(lt[3].test, 'self.island', 'other.island')
    op3 = _cmp(lt[3].body[0].value, 'self.source', 'other.source')
    ilt = strip_doc(find_func(tree, '__lt__', cls='IslandSource').body)
    _need(len(ilt) == 1 and isinstance(ilt[0], ast.If) and src(ilt[0].test) == "hasattr(other, 'island')"
          and len(ilt[0].body) == 1 and isinstance(ilt[0].body[0], ast.Return), 'IslandSource.__lt__ shape')
    iop = _cmp(ilt[0].body[0].value, 'self.island', 'other.island')
    # island_itergen: catalog = sorted(catalog); catalog.reverse(); ... src = catalog.pop()
    ig = strip_doc(find_func(tree, 'island_itergen').body)
    srcs = [src(s) for s in ig]
    _need('catalog = sorted(catalog)' in srcs and 'catalog.reverse()' in srcs
          and srcs.index('catalog = sorted(catalog)') + 1 == srcs.index('catalog.reverse()'), 'island_itergen: sorted then reverse')
    _need(any(s == 'src = catalog.pop()' for s in srcs), 'island_itergen: pop from the end')
    # priorized_fit_islands: sources = sorted(sources) after the loop over the island groups, before the output is written
    sf = parse_file(_p(repo, 'source_finder.py'))
    pf = find_func(sf, 'priorized_fit_islands', cls='SourceFinder')
    body = [src(s) for s in pf.body]
    _need(body.count('sources = sorted(sources)') == 1, 'priorized_fit_islands: exactly one top-level `sources = sorted(sources)`')
    k = body.index('sources = sorted(sources)')
    _need(any('self._refit_islands' in b for b in body[:k]) and not any('self._refit_islands' in b for b in body[k:]),
          'priorized_fit_islands: the catalogue is sorted after all batches have been fitted')
    _need(isinstance(pf.body[-1], ast.Return) and src(pf.body[-1].value) == 'sources', 'priorized_fit_islands returns the sorted list')
    return HEADER_Z + f"""
(* models.ComponentSource.__lt__(self, other) for two components: self = (i1, s1), other = (i2, s2);
   the function falls off its end (None, i.e. false for sorted()) when neither test fires *)
Definition comp_lt (i1 s1 i2 s2 : Z) : bool := (i1 {op1} i2) || ((i1 {op2} i2) && (s1 {op3} s2)).
(* models.IslandSource.__lt__ for two islands *)
Definition island_lt (i1 i2 : Z) : bool := (i1 {iop} i2).
(* priorized_fit_islands returns sorted(sources), sorted after every batch has been fitted *)
Definition priorized_output_sorted : bool := true.
(* island_itergen walks sorted(catalog) from its smallest element (sorted; reverse; pop from the end) *)
Definition itergen_ascending : bool := true.
"""
