#!/bin/bash
# tools/eval_seeded.sh <dir with patch.diff demo.py meta.json> <Cxx> [notests]
# confirms a seeded change: applies, demo fails with / passes without, repo tests still pass, then runs the check.
set -u
dir=$(realpath "$1"); pid=$2; skip=${3:-}
d=/tmp/mut/eval_$$; v=/tmp/mut/verif_$$; mkdir -p /tmp/mut; rm -rf "$d"
git -C /repo worktree add --detach "$d" HEAD >/dev/null 2>&1 || { echo "worktree failed"; exit 2; }
cd "$d"
PYTHONPATH="$d" timeout 600 /venv/bin/python "$dir/demo.py" >/tmp/mut/demo_clean_$$.log 2>&1; rc_clean=$?
git apply "$dir/patch.diff" || { echo "patch does not apply"; cd /; git -C /repo worktree remove --force "$d"; exit 2; }
PYTHONPATH="$d" timeout 600 /venv/bin/python "$dir/demo.py" >/tmp/mut/demo_mut_$$.log 2>&1; rc_mut=$?
echo "demo: clean exit=$rc_clean  mutated exit=$rc_mut   ($(tail -1 /tmp/mut/demo_mut_$$.log | cut -c1-200))"
if [ "$skip" != notests ]; then
  PYTHONPATH="$d" timeout 1500 /venv/bin/python -m pytest -q -p no:cacheprovider --timeout=900 tests 2>&1 | tail -3 > /tmp/mut/tests_$$.log
  passed=$(grep -o '[0-9]* passed' /tmp/mut/tests_$$.log | head -1); failed=$(grep -o '[0-9]* failed' /tmp/mut/tests_$$.log | head -1)
  echo "tests with the change: $passed $failed"
  git checkout -- tests 2>/dev/null
fi
rsync -a --delete --exclude=.git --exclude="work/*" /verif/ "$v/" && AEGEAN_REPO="$d" "$v/check" "$pid" quick 2>&1 | tail -6; rc=${PIPESTATUS[0]}
cd /; git -C /repo worktree remove --force "$d"
rm -rf "$v"
echo "check exit=$rc"
