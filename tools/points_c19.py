"""C19 extraction points: AegeanTools/cluster.py (regroup_dbscan, regroup, regroup_vectorized, norm_dist,
sky_dist, resize) and the eps conversions of CLI/AeReg.py and source_finder.priorized_fit_islands.

Gen/ClusterShape.v (Z back end): sort keys, first labels, enumerated constants of the control skeletons.
Gen/ClusterR.v     (R back end): unit-vector embedding, eps conversion, resize and norm_dist formulas.
Every matcher fails closed: a statement that is not of the expected shape raises TranslateError."""
import ast

from trcore import (HEADER_R, HEADER_Z, Tr, TranslateError, block_lets, find_func, lets_text, parse_file, point,
                    src, strip_doc)
from translate_points import _p


def _is_log(st):
    """log.info(..) / log.debug(..) / self.log.debug(..) expression statements"""
    return (isinstance(st, ast.Expr) and isinstance(st.value, ast.Call) and
            isinstance(st.value.func, ast.Attribute) and st.value.func.attr in ('info', 'debug', 'warning', 'warn', 'error')
            and src(st.value.func.value) in ('log', 'self.log', 'logging'))


def _code(fn):
    return [s for s in strip_doc(fn.body) if not _is_log(s)]


def _expect(cond, msg):
    if not cond:
        raise TranslateError(msg)


def _relabel_loop(fn, groups_name='groups'):
    """for isle, group in enumerate(groups):
           for comp, src in enumerate(sorted(group, key=lambda x: <key>)):
               src.island = isle ; src.source = comp
           islands.append(group)
    returns (key text in Z over `flux`, reverse flag, first island label, first source label)"""
    loops = [s for s in _code(fn) if isinstance(s, ast.For) and isinstance(s.iter, ast.Call)
             and src(s.iter.func) == 'enumerate' and src(s.target) == '(isle, group)']
    _expect(len(loops) == 1, f"{fn.name}: expected exactly one `for isle, group in enumerate(..)` loop")
    lp = loops[0]
    _expect(not lp.orelse, f"{fn.name}: relabel loop has an else")
    en = lp.iter
    _expect(len(en.args) in (1, 2) and not en.keywords and src(en.args[0]) == groups_name,
            f"{fn.name}: outer loop enumerates {src(en)}")
    first_isle = src(en.args[1]) if len(en.args) == 2 else '0'
    body = [s for s in lp.body if not _is_log(s)]
    _expect(len(body) == 2 and isinstance(body[0], ast.For) and src(body[1]) == 'islands.append(group)',
            f"{fn.name}: body of the relabel loop is not [inner for; islands.append(group)]")
    inner = body[0]
    _expect(src(inner.target) == '(comp, src)' and not inner.orelse and isinstance(inner.iter, ast.Call)
            and src(inner.iter.func) == 'enumerate' and len(inner.iter.args) in (1, 2) and not inner.iter.keywords,
            f"{fn.name}: inner loop is {src(inner.iter)[:60]}")
    first_comp = src(inner.iter.args[1]) if len(inner.iter.args) == 2 else '0'
    srt = inner.iter.args[0]
    _expect(isinstance(srt, ast.Call) and src(srt.func) == 'sorted' and len(srt.args) == 1 and src(srt.args[0]) == 'group',
            f"{fn.name}: inner loop does not run over sorted(group, ..)")
    kws = {k.arg: k.value for k in srt.keywords}
    _expect(set(kws) <= {'key', 'reverse'} and 'key' in kws, f"{fn.name}: sorted keywords {sorted(kws)}")
    lam = kws['key']
    _expect(isinstance(lam, ast.Lambda) and len(lam.args.args) == 1 and not lam.args.defaults, f"{fn.name}: sort key is not a 1-ary lambda")
    v = lam.args.args[0].arg
    key = Tr('Z', {f'{v}.peak_flux': 'flux'}).expr(lam.body)
    rev = 'false'
    if 'reverse' in kws:
        _expect(isinstance(kws['reverse'], ast.Constant) and isinstance(kws['reverse'].value, bool), f"{fn.name}: reverse=")
        rev = 'true' if kws['reverse'].value else 'false'
    assigns = [src(s) for s in inner.body if not _is_log(s)]
    _expect(assigns == ['src.island = isle', 'src.source = comp'],
            f"{fn.name}: the relabel loop assigns {assigns} (expected only island = isle, source = comp)")
    for lab in (first_isle, first_comp):
        _expect(lab.lstrip('-').isdigit(), f"{fn.name}: enumerate start {lab}")
    # what is returned is the list of the (mutated) groups
    tail = [src(s) for s in _code(fn)[-3:]]
    _expect(tail == ['sources = []', 'for group in islands:\n    sources.append(group)', 'return sources'],
            f"{fn.name}: return value is built by {tail}")
    return key, rev, first_isle, first_comp


def _zl(s):
    return f'({s})' if s.startswith('-') else s


@point('ClusterShape')
def gen_cluster_shape(repo):
    tree = parse_file(_p(repo, 'cluster.py'))
    # ---------------- regroup_dbscan
    fn = find_func(tree, 'regroup_dbscan')
    _expect([a.arg for a in fn.args.args] == ['srccat', 'eps'], "regroup_dbscan: signature")
    code = _code(fn)
    texts = [src(s) for s in code]
    want = ['ras = np.radians(np.array([s.ra for s in srccat]))',
            'decs = np.radians(np.array([s.dec for s in srccat]))']
    _expect(texts[:2] == want, f"regroup_dbscan: coordinates are read by {texts[:2]}")
    ix = texts.index('X = np.hstack([x[:, None], y[:, None], z[:, None]])') if \
        'X = np.hstack([x[:, None], y[:, None], z[:, None]])' in texts else -1
    _expect(ix == 6, "regroup_dbscan: X is not hstack of the x, y, z columns after four embedding statements")
    db = code[ix + 1]
    _expect(isinstance(db, ast.Assign) and src(db.targets[0]) == 'db', "regroup_dbscan: db = DBSCAN(..).fit(X)")
    call = db.value
    _expect(isinstance(call, ast.Call) and src(call.func).startswith('DBSCAN(') and src(call.func).endswith('.fit')
            and [src(a) for a in call.args] == ['X'] and not call.keywords, f"regroup_dbscan: {src(call)}")
    ctor = call.func.value
    _expect(not ctor.args, "regroup_dbscan: positional DBSCAN arguments")
    kw = {k.arg: src(k.value) for k in ctor.keywords}
    _expect(set(kw) == {'eps', 'min_samples'} and kw['eps'] == 'eps' and kw['min_samples'].isdigit(),
            f"regroup_dbscan: DBSCAN keywords {kw} (metric / algorithm / other eps are not modelled)")
    rest = texts[ix + 2:ix + 6]
    grp = ('for i, l in enumerate(unique_labels):\n    group = list(map(srccat.__getitem__, np.where(labels == l)[0]))\n'
           '    groups[i] = group')
    _expect(rest == ['labels = db.labels_', 'unique_labels = set(labels)', 'groups = [[]] * len(unique_labels)', grp],
            f"regroup_dbscan: groups are built by {rest}")
    _expect(texts[ix + 6] == 'islands = []', "regroup_dbscan: islands = []")
    key, rev, fi, fc = _relabel_loop(fn)
    # ---------------- regroup (greedy, elliptical distance)
    rg = find_func(tree, 'regroup')
    _expect([a.arg for a in rg.args.args] == ['catalog', 'eps', 'far', 'dist'] and
            [src(d) for d in rg.args.defaults] == ['None', 'norm_dist'], "regroup: signature")
    rtexts = [src(s) for s in _code(rg)]
    arr = ("srccat_array = np.rec.fromrecords([(s.ra, s.dec, s.a, s.b, s.pa, s.peak_flux) for s in srccat], "
           "names=['ra', 'dec', 'a', 'b', 'pa', 'peak_flux'])")
    _expect(arr in rtexts and 'groups = regroup_vectorized(srccat_array, eps=eps, far=far, dist=dist)' in rtexts and
            'groups = [[srccat[idx] for idx in group] for group in groups]' in rtexts,
            "regroup: record array / regroup_vectorized call / index -> source mapping")
    _expect('if far is None:\n    far = 0.5' in rtexts, "regroup: default far")
    gkey, grev, gfi, gfc = _relabel_loop(rg)
    # ---------------- regroup_vectorized
    rv = find_func(tree, 'regroup_vectorized')
    vt = _code(rv)
    vtexts = [src(s) for s in vt]
    _expect(vtexts[0] == 'if far is None:\n    far = 0.5', "regroup_vectorized: default far")
    o = vtexts[1]
    if o == "order = np.argsort(srccat.dec, kind='mergesort')[::-1]":
        order_rev = 'true'
    elif o == "order = np.argsort(srccat.dec, kind='mergesort')":
        order_rev = 'false'
    else:
        raise TranslateError(f"regroup_vectorized: {o}")
    _expect(vtexts[2] == 'groups = [[order[0]]]' and vtexts[4] == 'return groups' and len(vt) == 5, "regroup_vectorized: skeleton")
    lp = vt[3]
    _expect(isinstance(lp, ast.For) and src(lp.target) == 'idx' and src(lp.iter) == 'order[1:]' and not lp.orelse,
            "regroup_vectorized: outer loop")
    ob = [s for s in lp.body if not _is_log(s)]
    _expect(len(ob) == 3 and src(ob[0]) == 'rec = srccat[idx]' and isinstance(ob[1], ast.Assign) and src(ob[1].targets[0]) == 'decmin'
            and isinstance(ob[2], ast.For), "regroup_vectorized: body of the outer loop")
    trz = Tr('Z', {'rec.dec': 'dec', 'far': 'far'})
    decmin = trz.expr(ob[1].value)
    il = ob[2]
    if src(il.iter) == 'reversed(groups)':
        newest_first = 'true'
    elif src(il.iter) == 'groups':
        newest_first = 'false'
    else:
        raise TranslateError(f"regroup_vectorized: inner loop over {src(il.iter)}")
    _expect(src(il.target) == 'group' and [src(s) for s in il.orelse] == ['groups.append([idx])'], "regroup_vectorized: for/else")
    ib = [s for s in il.body if not _is_log(s)]
    _expect(len(ib) == 5, f"regroup_vectorized: inner loop has {len(ib)} statements")
    dead = ib[0]
    _expect(isinstance(dead, ast.If) and not dead.orelse and [src(s) for s in dead.body] == ['groups.append([idx])']
            and isinstance(dead.test, ast.Compare) and src(dead.test.left) == 'srccat.dec[group[-1]]'
            and src(dead.test.comparators[0]) == 'decmin', f"regroup_vectorized: first test of the inner loop is {src(dead)[:80]}")
    dead_test = Tr('Z', {'srccat.dec[group[-1]]': 'last_dec', 'decmin': 'decmin'}).cond(dead.test)
    _expect(src(ib[1]) == 'rafar = far / np.cos(np.radians(rec.dec))' and
            src(ib[2]) == "group_recs = np.take(srccat, group, mode='clip')", "regroup_vectorized: rafar / take")
    flt = src(ib[3])
    if flt == 'group_recs = group_recs[abs(rec.ra - group_recs.ra) <= rafar]':
        ra_le = 'true'
    elif flt == 'group_recs = group_recs[abs(rec.ra - group_recs.ra) < rafar]':
        ra_le = 'false'
    else:
        raise TranslateError(f"regroup_vectorized: RA filter {flt}")
    j = ib[4]
    _expect(isinstance(j, ast.If) and not j.orelse and [src(s) for s in j.body] == ['group.append(idx)', 'break'],
            "regroup_vectorized: join branch is not [group.append(idx); break]")
    jt = src(j.test)
    if jt == 'len(group_recs) and dist(rec, group_recs).min() < eps':
        strict = 'true'
    elif jt == 'len(group_recs) and dist(rec, group_recs).min() <= eps':
        strict = 'false'
    else:
        raise TranslateError(f"regroup_vectorized: join test {jt}")
    return HEADER_Z + f"""
(* cluster.regroup_dbscan *)
Definition dbscan_min_samples : Z := {kw['min_samples']}.
(* sorted(group, key=lambda x: <key>) ; reverse flag of sorted ; first labels given by enumerate *)
Definition dbscan_sort_key (flux : Z) : Z := {key}.
Definition dbscan_sort_reverse : bool := {rev}.
Definition dbscan_first_island : Z := {_zl(fi)}.
Definition dbscan_first_source : Z := {_zl(fc)}.
(* cluster.regroup (greedy grouping with the elliptical distance) *)
Definition greedy_sort_key (flux : Z) : Z := {gkey}.
Definition greedy_sort_reverse : bool := {grev}.
Definition greedy_first_island : Z := {_zl(gfi)}.
Definition greedy_first_source : Z := {_zl(gfc)}.
(* cluster.regroup_vectorized: argsort(dec, mergesort) reversed? ; groups scanned newest first? ;
   decmin and the `new group` test that precedes the distance test ; comparison kinds *)
Definition greedy_order_reversed : bool := {order_rev}.
Definition greedy_scan_newest_first : bool := {newest_first}.
Definition greedy_decmin (dec far : Z) : Z := {decmin}.
Definition greedy_early_new_group (last_dec decmin : Z) : bool := {dead_test}.
Definition greedy_ra_filter_le : bool := {ra_le}.
Definition greedy_join_strict : bool := {strict}.
"""


def _ratio_branch(fn):
    for st in _code(fn):
        if isinstance(st, ast.If) and src(st.test) == 'ratio is not None':
            loops = [s for s in st.body if isinstance(s, ast.For)]
            _expect(len(loops) == 1 and src(loops[0].target) == '(i, src)' and src(loops[0].iter) == 'enumerate(catalog)',
                    "resize: loop of the ratio branch")
            return loops[0]
    raise TranslateError("resize: no `if ratio is not None` branch")


@point('ClusterR')
def gen_cluster_r(repo):
    tree = parse_file(_p(repo, 'cluster.py'))
    # ---------------- embedding of regroup_dbscan
    fn = find_func(tree, 'regroup_dbscan')
    code = _code(fn)
    tr = Tr('R', {'ras': '(rad ra)', 'decs': '(rad dec)'})
    lets, rest = block_lets(code[2:6], tr)
    _expect(not rest and all(k in tr.env for k in 'xyz'), "regroup_dbscan: the four embedding statements")
    _expect(src(code[6]) == 'X = np.hstack([x[:, None], y[:, None], z[:, None]])', "regroup_dbscan: X columns")
    emb = lets_text(lets, f"({tr.env['x']}, {tr.env['y']}, {tr.env['z']})")
    # ---------------- eps conversions
    at = parse_file(_p(repo, 'CLI/AeReg.py'))
    main = find_func(at, 'main')
    conv = [n for n in ast.walk(main) if isinstance(n, ast.Assign) and src(n.targets[0]) == 'eps']
    _expect(len(conv) == 1, "AeReg.main: exactly one assignment to eps")
    e1 = Tr('R', {'options.eps': 'e'}).expr(conv[0].value)
    calls = [src(n) for n in ast.walk(main) if isinstance(n, ast.Call) and src(n.func) == 'regroup_dbscan']
    _expect(calls == ['regroup_dbscan(sources, eps=eps)'], f"AeReg.main: {calls}")
    sf = parse_file(_p(repo, 'source_finder.py'))
    pf = find_func(sf, 'priorized_fit_islands', cls='SourceFinder')
    conv2 = sorted([n for n in ast.walk(pf) if isinstance(n, ast.Assign) and src(n.targets[0]) == 'regroup_eps'],
                   key=lambda n: n.lineno)
    _expect(len(conv2) == 2 and src(conv2[0].value) == '4 * np.mean([s.a / 60 for s in sources])',
            "priorized_fit_islands: default regroup_eps and its conversion")
    # the default is set under `if regroup_eps is None:`; the conversion is an unconditional statement of the function body after it,
    # so that a linking length GIVEN by the caller (arcmin) is converted too
    dflt = [n for n in pf.body if isinstance(n, ast.If) and src(n.test) == 'regroup_eps is None' and not n.orelse]
    _expect(len(dflt) == 1 and [x for x in dflt[0].body if isinstance(x, ast.Assign)] == [conv2[0]],
            "priorized_fit_islands: the default regroup_eps is the only assignment under `if regroup_eps is None:`")
    _expect(conv2[1] in pf.body and pf.body.index(conv2[1]) > pf.body.index(dflt[0]),
            "priorized_fit_islands: the arcmin -> chord conversion of regroup_eps is unconditional and follows the default")
    e2 = Tr('R', {'regroup_eps': 'e'}).expr(conv2[1].value)
    calls = [src(n) for n in ast.walk(pf) if isinstance(n, ast.Call) and src(n.func) == 'regroup_dbscan']
    _expect(calls == ['regroup_dbscan(input_sources, eps=regroup_eps)'], f"priorized_fit_islands: {calls}")
    # ---------------- resize, ratio branch
    rz = find_func(tree, 'resize')
    lp = _ratio_branch(rz)
    body = [s for s in lp.body if not _is_log(s)]
    _expect(len(body) == 3 and src(body[0].targets[0]) == 'src.a' and src(body[1].targets[0]) == 'src.b',
            "resize: ratio branch does not assign src.a then src.b")
    ra = Tr('R', {'src.a': 'a', 'src.psf_a': 'psf', 'ratio': 'ratio'}).expr(body[0].value)
    rb = Tr('R', {'src.b': 'b', 'src.psf_b': 'psf', 'ratio': 'ratio'}).expr(body[1].value)
    chk = body[2]
    _expect(isinstance(chk, ast.If) and src(chk.test) == 'not np.all(np.isfinite((src.a, src.b)))' and not chk.orelse and
            [src(s) for s in chk.body if not _is_log(s)] == ['src_mask[i] = False'], "resize: finite check of the ratio branch")
    _expect(src(_code(rz)[-2]) == 'out_cat = list(map(catalog.__getitem__, np.where(src_mask)[0]))' and
            src(_code(rz)[-1]) == 'return out_cat', "resize: returned catalogue")
    # ---------------- norm_dist / sky_dist
    nd = find_func(tree, 'norm_dist')
    nc = _code(nd)
    _expect(src(nc[0]) == 'if np.all(src1 == src2):\n    return 0', "norm_dist: identity shortcut")
    _expect(src(nc[1]) == 'dist = gcd(src1.ra, src1.dec, src2.ra, src2.dec)' and
            src(nc[2]) == 'phi = bear(src1.ra, src1.dec, src2.ra, src2.dec)', "norm_dist: gcd / bear calls")
    env = {'dist': 'dist', 'phi': 'phi'}
    for k in '12':
        for a in ('a', 'b', 'pa'):
            env[f'src{k}.{a}'] = f'{a}{k}'
    trn = Tr('R', env)
    nlets, nrest = block_lets(nc[3:], trn)
    _expect(len(nrest) == 1 and isinstance(nrest[0], ast.Return), "norm_dist: tail")
    ndist = lets_text(nlets, trn.expr(nrest[0].value))
    sd = _code(find_func(tree, 'sky_dist'))
    _expect([src(s) for s in sd] == ['if np.all(src1 == src2):\n    return 0',
                                     'return gcd(src1.ra, src1.dec, src2.ra, src2.dec)'], "sky_dist")
    # ---------------- RA pre-filter of regroup_vectorized
    rv = find_func(tree, 'regroup_vectorized')
    rf = [n for n in ast.walk(rv) if isinstance(n, ast.Assign) and src(n.targets[0]) == 'rafar']
    _expect(len(rf) == 1, "regroup_vectorized: rafar")
    rafar = Tr('R', {'far': 'far', 'rec.dec': 'dec'}).expr(rf[0].value)
    return HEADER_R + f"""
(* cluster.regroup_dbscan: unit vector (x, y, z) of a position given in degrees *)
Definition emb (ra dec : R) : R * R * R :=
{emb}.
(* linking length in arcmin -> DBSCAN eps (CLI/AeReg.py main ; source_finder.priorized_fit_islands) *)
Definition eps_chord_aereg (e : R) : R := {e1}.
Definition eps_chord_finder (e : R) : R := {e2}.
(* cluster.resize with a ratio *)
Definition resize_a (a psf ratio : R) : R := {ra}.
Definition resize_b (b psf ratio : R) : R := {rb}.
(* cluster.norm_dist given dist = gcd(p1, p2) [deg] and phi = bear(p1, p2) [deg] *)
Definition norm_dist (dist phi a1 b1 pa1 a2 b2 pa2 : R) : R :=
{ndist}.
(* cluster.regroup_vectorized: half-width in RA of the pre-filter *)
Definition rafar (far dec : R) : R := {rafar}.
"""
