"""C02 extraction point: models.PixelIsland.calc_bounding_box / set_mask -> coq/Gen/IslandBox.v.

find_islands (point `Islands`, translate_points.py) hands `np.logical_not(island_mask)` - the island's own pixels inside
the find_objects cut-out - and `offsets=[xmin, ymin]` to calc_bounding_box, whose result is the `bounding_box` that every
later stage reads.  Here the body of calc_bounding_box is read:

  which np.any axis feeds which bounding_box slot, which offsets entry is added, the `+ first`, `+ last + 1` arithmetic,
  the `[[0, -1]]` first / last selection of np.where(..)[0], the 2-d guard and what set_mask stores.

Every matcher fails closed.  Recognised variants become other values of the generated constants, so that the leaf lemmas of
Proofs/IslandBoxProofs.v (and with them Theorem C02_reported_box_is_tight) break on them.
"""
import ast

from trcore import HEADER_Z, Tr, TranslateError, find_func, parse_file, point, src, strip_doc
from translate_points import _p


def _need(ok, what):
    if not ok:
        raise TranslateError('calc_bounding_box: ' + what)


@point('IslandBox')
def gen_island_box(repo):
    tree = parse_file(_p(repo, 'models.py'))
    fn = find_func(tree, 'calc_bounding_box', cls='PixelIsland')
    body = strip_doc(fn.body)
    _need([a.arg for a in fn.args.args] == ['self', 'data', 'offsets'], 'signature (self, data, offsets)')
    # guard: if len(offsets) != self.dim: raise AssertionError(..)
    _need(isinstance(body[0], ast.If) and src(body[0].test) == 'len(offsets) != self.dim'
          and len(body[0].body) == 1 and isinstance(body[0].body[0], ast.Raise) and not body[0].orelse, 'dimension guard')
    rest = body[1:]
    _need(len(rest) == 10 and isinstance(rest[-1], ast.Return) and rest[-1].value is None, 'ten statements after the guard')
    tr = Tr('Z', {'off': 'off', 'first': 'first', 'last': 'last'})
    slots = {}
    for k in (0, 4):
        any_st, where_st, lo_st, hi_st = rest[k:k + 4]
        # nd = np.any(data, axis=A)
        _need(isinstance(any_st, ast.Assign) and len(any_st.targets) == 1 and isinstance(any_st.targets[0], ast.Name)
              and isinstance(any_st.value, ast.Call) and src(any_st.value.func) == 'np.any'
              and len(any_st.value.args) == 1 and src(any_st.value.args[0]) == 'data'
              and len(any_st.value.keywords) == 1 and any_st.value.keywords[0].arg == 'axis'
              and isinstance(any_st.value.keywords[0].value, ast.Constant)
              and any_st.value.keywords[0].value.value in (0, 1), 'np.any(data, axis=0|1)')
        nd = any_st.targets[0].id
        axis = any_st.value.keywords[0].value.value
        # lo, hi = np.where(nd)[0][[0, -1]]
        _need(isinstance(where_st, ast.Assign) and isinstance(where_st.targets[0], ast.Tuple)
              and len(where_st.targets[0].elts) == 2 and all(isinstance(e, ast.Name) for e in where_st.targets[0].elts)
              and src(where_st.value) == f'np.where({nd})[0][[0, -1]]', 'first / last index of np.where(..)[0]')
        first, last = [e.id for e in where_st.targets[0].elts]
        # self.bounding_box[s][0] = offsets[o] + first ; self.bounding_box[s][1] = offsets[o] + last + 1
        out = {}
        for st, which in ((lo_st, 0), (hi_st, 1)):
            _need(isinstance(st, ast.Assign) and len(st.targets) == 1, 'bounding_box assignment')
            t = st.targets[0]
            _need(isinstance(t, ast.Subscript) and isinstance(t.value, ast.Subscript)
                  and src(t.value.value) == 'self.bounding_box'
                  and isinstance(t.value.slice, ast.Constant) and t.value.slice.value in (0, 1)
                  and isinstance(t.slice, ast.Constant) and t.slice.value == which, 'self.bounding_box[s][0|1] target')
            s = t.value.slice.value
            offs = [n for n in ast.walk(st.value) if isinstance(n, ast.Subscript) and src(n.value) == 'offsets']
            _need(len(offs) == 1 and isinstance(offs[0].slice, ast.Constant) and offs[0].slice.value in (0, 1),
                  'exactly one offsets[k]')
            o = offs[0].slice.value

            class _Ren(ast.NodeTransformer):
                def visit_Subscript(self, node):
                    if src(node.value) == 'offsets':
                        return ast.copy_location(ast.Name(id='off', ctx=ast.Load()), node)
                    return self.generic_visit(node)

                def visit_Name(self, node):
                    if node.id == first:
                        return ast.copy_location(ast.Name(id='first', ctx=ast.Load()), node)
                    if node.id == last:
                        return ast.copy_location(ast.Name(id='last', ctx=ast.Load()), node)
                    return node
            e = _Ren().visit(ast.parse(src(st.value), mode='eval').body)
            out[which] = (s, o, tr.expr(e))
        _need(out[0][0] == out[1][0] and out[0][1] == out[1][1], 'lower and upper limit of one slot use the same slot / offset')
        s, o = out[0][0], out[0][1]
        _need(s not in slots, 'each slot assigned once')
        slots[s] = (axis, o, out[0][2], out[1][2])
    _need(sorted(slots) == [0, 1], 'both slots assigned')
    # self.set_mask(data[..]) : find_islands overwrites it with island_mask; only its presence / position is recorded
    _need(isinstance(rest[8], ast.Expr) and isinstance(rest[8].value, ast.Call)
          and src(rest[8].value.func) == 'self.set_mask', 'set_mask call after the limits')
    sm = find_func(tree, 'set_mask', cls='PixelIsland')
    smb = strip_doc(sm.body)
    _need(len(smb) == 3 and isinstance(smb[0], ast.If) and src(smb[0].test) == 'len(data.shape) != self.dim'
          and isinstance(smb[0].body[0], ast.Raise) and src(smb[1]) == 'self.mask = data'
          and isinstance(smb[2], ast.Return), 'set_mask stores its argument')
    t = HEADER_Z + """
(* models.PixelIsland.calc_bounding_box(data, offsets): for slot s of bounding_box
     cbb_axis_s   the axis handed to np.any(data, axis=..)   (axis=1 leaves one entry per ROW of data, axis=0 one per COLUMN)
     cbb_off_s    which entry of offsets is added
     cbb_lo_s / cbb_hi_s   the stored limits as functions of that offset and the first / last index where np.any is true *)
"""
    for s in (0, 1):
        axis, o, lo, hi = slots[s]
        t += f"Definition cbb_axis_{s} : Z := {axis}.\n"
        t += f"Definition cbb_off_{s} : Z := {o}.\n"
        t += f"Definition cbb_lo_{s} (off first last : Z) : Z := {lo}.\n"
        t += f"Definition cbb_hi_{s} (off first last : Z) : Z := {hi}.\n"
    t += "(* set_mask(data) stores data unchanged *)\nDefinition set_mask_stores_argument : bool := true.\n"
    return t
