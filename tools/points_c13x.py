"""C13 (extension) extraction point `Globals`: the global-data glue of the source finder -> coq/Gen/Globals.v.

  SourceFinder.load_globals     : the ORDER of its effectful statements as a list of stage codes
                                      1 load (img, header = load_image_band(filename, hdu_index=.., cube_index=cube_index))
                                      2 store (self.global_data.img = img; img and global_data.img are then one array object)
                                      3 bkgimg = zeros(shape of global_data.img)      4 rmsimg = zeros(..)
                                      5 dcurve = None       6 global_data.cube_index = cube_index      7 the mask block
                                      8 `if do_curve:` curvature of self.global_data.img
                                      9 `if <cond>: self._make_bkg_rms(filename=filename, forced_rms=.., forced_bkg=.., cores=cores)`
                                      10 / 11 first / second `if <file>: self.global_data.<map> = self._load_aux_image(img, <file>)`
                                      12 `img -= self.global_data.<map>`
                                  the early return `if self.global_data.img is not None: return` as FIRST statement, whether it is
                                  directly followed by `if cube_index is None: cube_index = 0` (constant; refused anywhere else), the boolean
                                  conditions of 9 / 10 / 11 as functions of (rmsin given, bkgin given), which map each replacement
                                  writes and which file it loads, the operand of the subtraction, which of rms / bkg is handed to
                                  forced_rms / forced_bkg, the curvature constants (filter size, values written for maxima / minima and
                                  their order), the three outcomes of the mask block.  Every other top-level statement must be on a
                                  short white list of assignments that do not touch img / bkgimg / rmsimg / dcurve.
  SourceFinder._make_bkg_rms    : the two `[:] = forced` fills (condition, map, value), the short cut that skips BANE, box_size as a
                                  function of step_size, the keyword arguments of filter_image (file name, out_base=None,
                                  cube_index=self.global_data.cube_index, cores=cores), the order of the returned pair and the two
                                  conditional takes.
  SourceFinder._load_aux_image  : auximg, _ = load_image_band(auxfile); `if auximg.shape != image.shape: .. raise`; return auximg.
  fits_tools.load_image_band    : compressed = is_compressed(header); `if compressed: hdulist = expand(filename)`; rows of the band.
  find_sources_in_image / priorized_fit_islands / save_background_files: every keyword of their load_globals call hands over the
                                  parameter of the same name (psf=imgpsf, filename first), the do_curve they request, and
                                  find_islands(im=global_data.img, bkg=np.zeros_like(..), rms=global_data.rmsimg, region=global_data.region).
  source_finder.get_aux_files   : the suffix table and `None where the file does not exist`;  save_background_files: suffixes written.

Everything else raises TranslateError (fail closed)."""
import ast

from trcore import HEADER_Z, Tr, TranslateError, find_func, parse_file, point, src, strip_doc
from translate_points import _p

MAPS = {'bkgimg': 1, 'rmsimg': 2}
G = 'self.global_data.'


def _expect(c, msg):
    if not c:
        raise TranslateError(msg)


def _b(x):
    return 'true' if x else 'false'


def _is_pass_if(st):
    """`if verb: pass` / `if verb and debug: pass` (what is left of a block of log statements)"""
    if not (isinstance(st, ast.If) and not st.orelse and src(st.test) in ('verb', 'verb and debug')):
        return False
    for s in st.body:
        if isinstance(s, ast.Pass):
            continue
        # a log call whose arguments only read (np.nanmax(img) inside a format): no effect on the data
        if not (isinstance(s, ast.Expr) and isinstance(s.value, ast.Call) and src(s.value.func).startswith('self.log.')):
            return False
        for n in ast.walk(s.value):
            if isinstance(n, ast.NamedExpr) or (isinstance(n, ast.Call) and n is not s.value
                                                and not (src(n.func) == 'np.nanmax' or src(n.func).endswith("'.format"))):
                return False
    return True


def _clean(stmts):
    return [s for s in stmts if not _is_pass_if(s) and not isinstance(s, ast.Pass)]


def _bexpr(n, env):
    """boolean structure over names: and / or / not / `x is None` / `x is not None` / plain truthiness of a name"""
    if isinstance(n, ast.BoolOp):
        op = ' && ' if isinstance(n.op, ast.And) else ' || '
        return '(' + op.join(_bexpr(v, env) for v in n.values) + ')'
    if isinstance(n, ast.UnaryOp) and isinstance(n.op, ast.Not):
        return f'(negb {_bexpr(n.operand, env)})'
    if isinstance(n, ast.Compare) and len(n.ops) == 1 and isinstance(n.comparators[0], ast.Constant) \
            and n.comparators[0].value is None and isinstance(n.left, ast.Name) and ('isnone:' + n.left.id) in env:
        v = env['isnone:' + n.left.id]      # Gallina term for `x is not None`
        if isinstance(n.ops[0], ast.IsNot):
            return v
        if isinstance(n.ops[0], ast.Is):
            return f'(negb {v})'
    if isinstance(n, ast.Name) and ('truthy:' + n.id) in env:
        return env['truthy:' + n.id]
    raise TranslateError(f"unsupported condition {src(n)}")


def _kwargs(call, what):
    _expect(isinstance(call, ast.Call), f"{what}: not a call")
    for k in call.keywords:
        _expect(k.arg is not None, f"{what}: **kwargs")
    return {k.arg: k.value for k in call.keywords}


def _gd_assign(st):
    """self.global_data.<attr> = <value> -> (attr, value) or None"""
    if isinstance(st, ast.Assign) and len(st.targets) == 1 and src(st.targets[0]).startswith(G) \
            and isinstance(st.targets[0], ast.Attribute) and src(st.targets[0].value) == 'self.global_data':
        return st.targets[0].attr, st.value
    return None


HARMLESS = ('wcshelper', 'psfhelper', 'beam', 'header', 'dtype', 'pixarea', 'blank', 'docov', 'dobias')
FORBIDDEN_IN_HARMLESS = ('bkgimg', 'rmsimg', 'dcurve', 'cube_index', 'region')


def _load_globals(tree):
    fn = find_func(tree, 'load_globals', cls='SourceFinder')
    params = [a.arg for a in fn.args.args]
    for p in ('filename', 'hdu_index', 'bkgin', 'rmsin', 'rms', 'bkg', 'cores', 'do_curve', 'mask', 'cube_index'):
        _expect(p in params, f"load_globals: parameter {p} missing")
    dflt = dict(zip(params[len(params) - len(fn.args.defaults):], fn.args.defaults))
    _expect(isinstance(dflt.get('do_curve'), ast.Constant) and isinstance(dflt['do_curve'].value, bool),
            "load_globals: do_curve default is not a bool literal")
    for p in ('bkgin', 'rmsin', 'rms', 'bkg', 'mask', 'cube_index'):
        _expect(isinstance(dflt.get(p), ast.Constant) and dflt[p].value is None, f"load_globals: default of {p} is not None")
    out = {'default_do_curve': dflt['do_curve'].value}
    body = _clean(strip_doc(fn.body))
    # ---- early return
    e = body[0]
    _expect(isinstance(e, ast.If) and not e.orelse and src(e.test) == 'self.global_data.img is not None'
            and len(e.body) == 1 and isinstance(e.body[0], ast.Return) and e.body[0].value is None,
            "load_globals: first statement is not `if self.global_data.img is not None: return`")
    out['early_return'] = True
    out['cube_default'] = False
    envf = {'truthy:rmsin': 'rmsin', 'truthy:bkgin': 'bkgin', 'isnone:rmsin': 'rmsin', 'isnone:bkgin': 'bkgin'}
    stages = []
    repl = []
    for st in body[1:]:
        s = src(st)
        ga = _gd_assign(st)
        if isinstance(st, ast.Return):
            _expect(st.value is None and st is body[-1], "load_globals: return with a value / not last")
            continue
        if isinstance(st, ast.If) and src(st.test) == 'cube_index is None':
            # the repair `if cube_index is None: cube_index = 0`: only directly after the early return, i.e. before the image is
            # loaded and before global_data.cube_index is stored (so that BANE and the later calls see 0 as well)
            _expect(not st.orelse and [src(x) for x in st.body] == ['cube_index = 0'],
                    f"load_globals: unexpected default for cube_index: {s[:100]}")
            _expect(st is body[1] and not stages, "load_globals: the cube_index default is not directly after the early return")
            out['cube_default'] = True
            continue
        if isinstance(st, ast.Assign) and src(st.targets[0]) in ('(img, header)', 'img, header'):
            c = st.value
            _expect(isinstance(c, ast.Call) and src(c.func) == 'load_image_band' and [src(a) for a in c.args] == ['filename'],
                    f"load_globals: image is not loaded with load_image_band(filename, ..): {s[:90]}")
            kw = _kwargs(c, 'load_image_band')
            _expect(set(kw) == {'hdu_index', 'cube_index'} and src(kw['hdu_index']) == 'hdu_index'
                    and src(kw['cube_index']) == 'cube_index', f"load_globals: load_image_band keywords {s[:120]}")
            stages.append(1)
            continue
        if isinstance(st, ast.Assign) and src(st.targets[0]) == 'debug':
            _expect('img' not in s and 'global_data' not in s, "load_globals: debug = .. touches the data")
            continue
        if ga:
            attr, val = ga
            v = src(val)
            if attr == 'img':
                _expect(v == 'img', f"load_globals: global_data.img = {v}")
                stages.append(2)
            elif attr in MAPS:
                _expect(isinstance(val, ast.Call) and src(val.func) == 'np.zeros' and len(val.args) == 1
                        and src(val.args[0]) == 'self.global_data.img.shape'
                        and [k.arg for k in val.keywords] == ['dtype'], f"load_globals: {attr} is not initialised with zeros of the "
                        f"image shape: {v[:80]}")
                stages.append(3 if attr == 'bkgimg' else 4)
            elif attr == 'dcurve':
                _expect(v == 'None', f"load_globals: top-level dcurve = {v}")
                stages.append(5)
            elif attr == 'cube_index':
                _expect(v == 'cube_index', f"load_globals: global_data.cube_index = {v}")
                stages.append(6)
            elif attr == 'dtype':
                _expect(v == 'type(self.global_data.img[0][0])', f"load_globals: dtype = {v}")
            else:
                _expect(attr in HARMLESS, f"load_globals: unexpected assignment to global_data.{attr}")
                _expect(not any(w in v for w in FORBIDDEN_IN_HARMLESS) and 'img' not in v.replace('imgpsf', ''),
                        f"load_globals: global_data.{attr} = {v[:80]} reads the maps")
            continue
        if isinstance(st, ast.If) and src(st.test) == 'mask is None':
            # if mask is None: region = None  else: isinstance -> mask | exists -> Region.load(mask) | else None
            _expect([src(x) for x in st.body] == ['self.global_data.region = None'], "mask block: `mask is None` branch")
            o = _clean(st.orelse)
            _expect(len(o) == 1 and isinstance(o[0], ast.If) and src(o[0].test) == 'isinstance(mask, Region)'
                    and [src(x) for x in o[0].body] == ['self.global_data.region = mask'], "mask block: Region object branch")
            o2 = _clean(o[0].orelse)
            _expect(len(o2) == 1 and isinstance(o2[0], ast.If) and src(o2[0].test) == 'os.path.exists(mask)'
                    and [src(x) for x in _clean(o2[0].body)] == ['self.global_data.region = Region.load(mask)'],
                    "mask block: file branch is not `elif os.path.exists(mask): region = Region.load(mask)`")
            _expect([src(x) for x in _clean(o2[0].orelse)] == ['self.global_data.region = None'],
                    "mask block: a missing file does not give region = None")
            stages.append(7)
            continue
        if isinstance(st, ast.If) and src(st.test) == 'do_curve':
            _expect(not st.orelse, "curvature block has an else")
            b = _clean(st.body)
            want = ['dcurve = np.zeros(self.global_data.img.shape, dtype=np.int8)',
                    'peaks = maximum_filter(self.global_data.img, size=%d)',
                    'troughs = minimum_filter(self.global_data.img, size=%d)',
                    'pmask = np.where(self.global_data.img == peaks)',
                    'tmask = np.where(self.global_data.img == troughs)']
            _expect(len(b) == 8, f"curvature block: expected 8 statements, found {len(b)}")
            sizes = []
            for k in (1, 2):
                c = b[k].value if isinstance(b[k], ast.Assign) else None
                kw = _kwargs(c, 'curvature filter') if isinstance(c, ast.Call) else {}
                _expect('size' in kw and isinstance(kw['size'], ast.Constant) and isinstance(kw['size'].value, int)
                        and set(kw) == {'size'}, f"curvature block: filter call {src(b[k])[:80]}")
                sizes.append(kw['size'].value)
            _expect(sizes[0] == sizes[1], "curvature block: the two filters have different sizes")
            got = [src(x) for x in b[:5]]
            exp = [w % sizes[0] if '%d' in w else w for w in want]
            _expect(got == exp, f"curvature block: {[g for g, w in zip(got, exp) if g != w][:1]}")
            writes = []
            for x in b[5:7]:
                _expect(isinstance(x, ast.Assign) and isinstance(x.targets[0], ast.Subscript)
                        and src(x.targets[0].value) == 'dcurve' and src(x.targets[0].slice) in ('pmask', 'tmask')
                        and isinstance(x.value, (ast.Constant, ast.UnaryOp)), f"curvature block: {src(x)[:60]}")
                val = ast.literal_eval(x.value)
                _expect(isinstance(val, int) and not isinstance(val, bool), f"curvature block: value {src(x.value)}")
                writes.append((src(x.targets[0].slice), val))
            _expect(sorted(w[0] for w in writes) == ['pmask', 'tmask'], "curvature block: writes")
            _expect(src(b[7]) == 'self.global_data.dcurve = dcurve', "curvature block: result is not stored")
            out['curve_size'] = sizes[0]
            out['curve_peak'] = dict(writes)['pmask']
            out['curve_trough'] = dict(writes)['tmask']
            out['curve_trough_last'] = writes[1][0] == 'tmask'
            stages.append(8)
            continue
        if isinstance(st, ast.If) and not st.orelse and any(isinstance(n, ast.Call) and src(n.func) == 'self._make_bkg_rms'
                                                            for n in ast.walk(st)):
            b = _clean(st.body)
            _expect(len(b) == 1 and isinstance(b[0], ast.Expr) and isinstance(b[0].value, ast.Call)
                    and src(b[0].value.func) == 'self._make_bkg_rms' and not b[0].value.args, "BANE block: body")
            kw = _kwargs(b[0].value, '_make_bkg_rms')
            _expect(set(kw) == {'filename', 'forced_rms', 'forced_bkg', 'cores'} and src(kw['filename']) == 'filename'
                    and src(kw['cores']) == 'cores', f"BANE block: keywords {sorted(kw)}")
            for k in ('forced_rms', 'forced_bkg'):
                _expect(src(kw[k]) in ('rms', 'bkg'), f"BANE block: {k} = {src(kw[k])}")
            out['forced_rms_arg'] = {'bkg': 1, 'rms': 2}[src(kw['forced_rms'])]
            out['forced_bkg_arg'] = {'bkg': 1, 'rms': 2}[src(kw['forced_bkg'])]
            out['bane_needed'] = _bexpr(st.test, envf)
            stages.append(9)
            continue
        if isinstance(st, ast.If) and not st.orelse and any(isinstance(n, ast.Call) and src(n.func) == 'self._load_aux_image'
                                                            for n in ast.walk(st)):
            b = _clean(st.body)
            ga2 = _gd_assign(b[0]) if len(b) == 1 else None
            _expect(ga2 and ga2[0] in MAPS and isinstance(ga2[1], ast.Call) and src(ga2[1].func) == 'self._load_aux_image'
                    and not ga2[1].keywords and len(ga2[1].args) == 2 and src(ga2[1].args[0]) == 'img'
                    and src(ga2[1].args[1]) in ('bkgin', 'rmsin'), f"replacement block: {s[:120]}")
            repl.append((_bexpr(st.test, envf), MAPS[ga2[0]], {'bkgin': 1, 'rmsin': 2}[src(ga2[1].args[1])]))
            _expect(len(repl) <= 2, "more than two replacement blocks")
            stages.append(9 + len(repl))
            continue
        if isinstance(st, ast.AugAssign):
            _expect(src(st.target) == 'img' and isinstance(st.op, ast.Sub) and src(st.value) in (G + 'bkgimg', G + 'rmsimg'),
                    f"load_globals: unexpected in-place operation {s[:80]}")
            out['sub_operand'] = MAPS[src(st.value)[len(G):]]
            stages.append(12)
            continue
        if isinstance(st, ast.If) and src(st.test) == '\'lon\' in self.global_data.header[\'CTYPE1\'].lower()':
            _expect([src(x) for x in _clean(st.body)] == ['SimpleSource.galactic = True'] and not st.orelse, "galactic block")
            continue
        raise TranslateError(f"load_globals: unexpected statement {s[:100]}")
    _expect(len(repl) == 2, f"load_globals: {len(repl)} replacement blocks")
    _expect('sub_operand' in out and 'bane_needed' in out and 'curve_size' in out, "load_globals: a block is missing")
    for code in (1, 3, 4, 5, 6, 7, 8, 9, 10, 11, 12):
        _expect(stages.count(code) == 1, f"load_globals: stage {code} occurs {stages.count(code)} times")
    _expect(stages.count(2) >= 1, "load_globals: the image is never stored")
    # nothing else may write the maps: count the stores over the whole function
    for attr, n in (('bkgimg', 2), ('rmsimg', 2), ('dcurve', 2), ('img', stages.count(2)), ('region', 4), ('cube_index', 1)):
        k = sum(1 for x in ast.walk(fn) if isinstance(x, (ast.Assign, ast.AugAssign))
                and any(src(t) == G + attr or src(t).startswith(G + attr + '[')
                        for t in (x.targets if isinstance(x, ast.Assign) else [x.target])))
        _expect(k == n, f"load_globals: global_data.{attr} is written {k} times, expected {n}")
    k = sum(1 for x in ast.walk(fn) if isinstance(x, (ast.Assign, ast.AugAssign, ast.NamedExpr))
            and any(src(tg) == 'cube_index' for tg in (x.targets if isinstance(x, ast.Assign) else [x.target])))
    _expect(k == (1 if out['cube_default'] else 0), f"load_globals: the parameter cube_index is re-assigned {k} times")
    out['stages'] = stages
    out['repl'] = repl
    return out


def _make_bkg_rms(tree):
    fn = find_func(tree, '_make_bkg_rms', cls='SourceFinder')
    _expect([a.arg for a in fn.args.args] == ['self', 'filename', 'forced_rms', 'forced_bkg', 'cores'], "_make_bkg_rms: parameters")
    body = [s for s in _clean(strip_doc(fn.body)) if not (isinstance(s, ast.Return) and s.value is None and s is fn.body[-1])]
    envm = {'isnone:forced_rms': 'frms', 'isnone:forced_bkg': 'fbkg'}
    _expect(len(body) == 8, f"_make_bkg_rms: expected 8 statements, found {len(body)}: {[src(s)[:40] for s in body]}")
    out = {}
    fills = []
    for st in body[0:2]:
        _expect(isinstance(st, ast.If) and not st.orelse, "_make_bkg_rms: fill is not an if")
        b = _clean(st.body)
        _expect(len(b) == 1 and isinstance(b[0], ast.Assign) and isinstance(b[0].targets[0], ast.Subscript)
                and src(b[0].targets[0].slice) == ':' and src(b[0].targets[0].value) in (G + 'bkgimg', G + 'rmsimg')
                and src(b[0].value) in ('forced_rms', 'forced_bkg'), f"_make_bkg_rms: fill {src(st)[:100]}")
        fills.append((_bexpr(st.test, envm), MAPS[src(b[0].targets[0].value)[len(G):]],
                      {'forced_bkg': 1, 'forced_rms': 2}[src(b[0].value)]))
    out['fills'] = fills
    sk = body[2]
    _expect(isinstance(sk, ast.If) and not sk.orelse and len(sk.body) == 1 and isinstance(sk.body[0], ast.Return)
            and sk.body[0].value is None, "_make_bkg_rms: short cut is not `if ..: return`")
    out['skip'] = _bexpr(sk.test, envm)
    _expect(src(body[3]) == 'step_size = get_step_size(self.global_data.header)', f"_make_bkg_rms: {src(body[3])[:80]}")
    bx = body[4]
    _expect(isinstance(bx, ast.Assign) and src(bx.targets[0]) == 'box_size' and isinstance(bx.value, ast.Tuple)
            and len(bx.value.elts) == 2, "_make_bkg_rms: box_size is not a pair")
    tr = Tr('Z', {'step_size[0]': 's0', 'step_size[1]': 's1'})
    out['box'] = (tr.expr(bx.value.elts[0]), tr.expr(bx.value.elts[1]))
    ca = body[5]
    _expect(isinstance(ca, ast.Assign) and isinstance(ca.targets[0], ast.Tuple) and isinstance(ca.value, ast.Call)
            and src(ca.value.func) == 'filter_image' and not ca.value.args
            and sorted(src(e) for e in ca.targets[0].elts) == ['bkg', 'rms'], f"_make_bkg_rms: BANE call {src(ca)[:100]}")
    out['result_bkg_first'] = src(ca.targets[0].elts[0]) == 'bkg'
    kw = _kwargs(ca.value, 'filter_image')
    want = {'im_name': 'filename', 'out_base': 'None', 'step_size': 'step_size', 'box_size': 'box_size', 'cores': 'cores',
            'cube_index': 'self.global_data.cube_index'}
    got = {k: src(v) for k, v in kw.items()}
    _expect(got == want, f"_make_bkg_rms: filter_image keywords {got}")
    takes = []
    for st in body[6:8]:
        _expect(isinstance(st, ast.If) and not st.orelse, "_make_bkg_rms: take is not an if")
        b = _clean(st.body)
        ga = _gd_assign(b[0]) if len(b) == 1 else None
        _expect(ga and ga[0] in MAPS and src(ga[1]) in ('bkg', 'rms'), f"_make_bkg_rms: take {src(st)[:100]}")
        takes.append((_bexpr(st.test, envm), MAPS[ga[0]], {'bkg': 1, 'rms': 2}[src(ga[1])]))
    out['takes'] = takes
    # the BANE entry is the one of AegeanTools.BANE
    imp = [n for n in ast.walk(tree) if isinstance(n, ast.ImportFrom) and n.module == 'BANE'
           and sorted(a.name for a in n.names if a.asname is None) == ['filter_image', 'get_step_size']]
    _expect(len(imp) == 1, "source_finder: `from .BANE import filter_image, get_step_size` not found")
    return out


def _load_aux(tree, ft):
    fn = find_func(tree, '_load_aux_image', cls='SourceFinder')
    _expect([a.arg for a in fn.args.args] == ['self', 'image', 'auxfile'], "_load_aux_image: parameters")
    b = _clean(strip_doc(fn.body))
    _expect(len(b) == 3 and src(b[0]) in ('(auximg, _) = load_image_band(auxfile)', 'auximg, _ = load_image_band(auxfile)'),
            f"_load_aux_image: {src(b[0])[:80] if b else ''}")
    g = b[1]
    _expect(isinstance(g, ast.If) and not g.orelse and src(g.test) == 'auximg.shape != image.shape'
            and isinstance(_clean(g.body)[-1], ast.Raise) and 'AegeanError' in src(_clean(g.body)[-1]),
            "_load_aux_image: `if auximg.shape != image.shape: .. raise AegeanError`")
    _expect(src(b[2]) == 'return auximg', "_load_aux_image: does not return the loaded image")
    # load_image_band: transparent expansion, default band, default cube index
    lb = find_func(ft, 'load_image_band')
    params = [a.arg for a in lb.args.args]
    dflt = dict(zip(params[len(params) - len(lb.args.defaults):], [src(d) for d in lb.args.defaults]))
    _expect(params == ['filename', 'band', 'hdu_index', 'cube_index'] and dflt == {'band': '(0, 1)', 'hdu_index': '0',
                                                                                  'cube_index': '0'},
            f"load_image_band: signature {params} {dflt}")
    body = strip_doc(lb.body)
    srcs = [src(s) for s in body]
    _expect('compressed = is_compressed(header)' in srcs, "load_image_band: compressed = is_compressed(header)")
    ex = [s for s in body if isinstance(s, ast.If) and src(s.test) == 'compressed']
    _expect(len(ex) == 2 and [src(x) for x in ex[0].body] == ['hdulist = expand(filename)', 'header = hdulist[0].header']
            and src(ex[1].body[-1]) == 'return (hdulist[0].data[row_min:row_max, :], header)',
            "load_image_band: compressed files are not expanded transparently")
    tr = Tr('Z', {"header['NAXIS2']": 'naxis2', 'band[0]': 'b0', 'band[1]': 'b1'})
    rmin = [s for s in body if isinstance(s, ast.Assign) and src(s.targets[0]) == 'row_min']
    rmax = [s for s in body if isinstance(s, ast.Assign) and src(s.targets[0]) == 'row_max']
    _expect(len(rmin) == 1 and len(rmax) == 1, "load_image_band: row_min / row_max")
    sec = [n for n in ast.walk(lb) if isinstance(n, ast.Subscript) and src(n.value).endswith('.section')]
    _expect(len(sec) == 3 and src(sec[0].slice) == "(row_min:row_max, 0:header['NAXIS1'])"
            and src(sec[1].slice) == "(cube_index, row_min:row_max, 0:header['NAXIS1'])"
            and src(sec[2].slice) == "(0, cube_index, row_min:row_max, 0:header['NAXIS1'])",
            f"load_image_band: sections {[src(s.slice) for s in sec]}")
    return tr.expr(rmin[0].value), tr.expr(rmax[0].value)


def _callers(tree):
    out = {}
    same = {'find_sources_in_image': ('hdu_index', 'bkgin', 'rmsin', 'beam', 'rms', 'bkg', 'cores', 'mask', 'blank', 'docov',
                                      'cube_index'),
            'priorized_fit_islands': ('hdu_index', 'bkgin', 'rmsin', 'beam', 'rms', 'bkg', 'cores', 'docov', 'cube_index'),
            'save_background_files': ('hdu_index', 'bkgin', 'rmsin', 'beam', 'rms', 'bkg', 'cores', 'cube_index')}
    first = {'find_sources_in_image': 'filename', 'priorized_fit_islands': 'filename', 'save_background_files': 'image_filename'}
    for name, keys in same.items():
        fn = find_func(tree, name, cls='SourceFinder')
        calls = [n for n in ast.walk(fn) if isinstance(n, ast.Call) and src(n.func) == 'self.load_globals']
        _expect(len(calls) == 1, f"{name}: expected one self.load_globals call")
        c = calls[0]
        _expect([src(a) for a in c.args] == [first[name]], f"{name}: load_globals is not called on {first[name]}")
        kw = {k: src(v) for k, v in _kwargs(c, name).items()}
        for k in keys:
            _expect(kw.get(k) == k, f"{name}: load_globals receives {k}={kw.get(k)}")
        extra = set(kw) - set(keys) - {'verb', 'psf', 'do_curve'}
        _expect(not extra, f"{name}: unexpected load_globals keywords {sorted(extra)}")
        _expect(kw.get('psf', 'imgpsf') == 'imgpsf', f"{name}: psf={kw.get('psf')}")
        dc = kw.get('do_curve')
        _expect(dc in (None, 'True', 'False'), f"{name}: do_curve={dc}")
        out[name] = dc
        # the load comes before any use of global_data in the body
        pos = [i for i, s in enumerate(fn.body) if any(x is c for x in ast.walk(s))]
        before = [s for s in fn.body[:pos[0]] if 'global_data' in src(s) and not (isinstance(s, ast.Expr)
                                                                                 and isinstance(s.value, ast.Constant))]
        _expect(not before, f"{name}: global_data is used before load_globals")
    fn = find_func(tree, 'find_sources_in_image', cls='SourceFinder')
    srcs = [src(s) for s in fn.body]
    for need in ('global_data = self.global_data', 'rmsimg = global_data.rmsimg', 'data = global_data.img'):
        _expect(srcs.count(need) == 1, f"find_sources_in_image: `{need}` not found once")
    for nm in ('data', 'rmsimg', 'global_data'):
        k = sum(1 for n in ast.walk(fn) if isinstance(n, (ast.Assign, ast.AugAssign))
                and any(src(t) == nm for t in (n.targets if isinstance(n, ast.Assign) else [n.target])))
        _expect(k == 1, f"find_sources_in_image: {nm} is assigned {k} times")
    fi = [n for n in ast.walk(fn) if isinstance(n, ast.Call) and src(n.func) == 'find_islands']
    _expect(len(fi) == 1 and not fi[0].args, "find_sources_in_image: one find_islands(..) call with keywords")
    kw = {k: src(v) for k, v in _kwargs(fi[0], 'find_islands').items()}
    _expect(kw.get('im') == 'data' and kw.get('bkg') == 'np.zeros_like(data)' and kw.get('rms') == 'rmsimg'
            and kw.get('region') == 'global_data.region', f"find_sources_in_image: find_islands receives {kw}")
    return out


def _aux_files(tree):
    fn = find_func(tree, 'get_aux_files')
    b = strip_doc(fn.body)
    _expect(len(b) == 4 and src(b[0]) == 'base = os.path.splitext(basename)[0]', "get_aux_files: base")
    d = b[1]
    _expect(isinstance(d, ast.Assign) and src(d.targets[0]) == 'files' and isinstance(d.value, ast.Dict), "get_aux_files: files = {..}")
    table = {}
    for k, v in zip(d.value.keys, d.value.values):
        _expect(isinstance(k, ast.Constant) and isinstance(v, ast.BinOp) and isinstance(v.op, ast.Add) and src(v.left) == 'base'
                and isinstance(v.right, ast.Constant) and isinstance(v.right.value, str), f"get_aux_files: entry {src(k)}")
        table[k.value] = v.right.value
    _expect(set(table) == {'bkg', 'rms', 'mask', 'cat', 'psf'}, f"get_aux_files: keys {sorted(table)}")
    lp = b[2]
    _expect(isinstance(lp, ast.For) and src(lp.iter) == 'files.keys()' and len(lp.body) == 1 and isinstance(lp.body[0], ast.If)
            and src(lp.body[0].test) == 'not os.path.exists(files[k])' and [src(x) for x in lp.body[0].body] == ['files[k] = None']
            and not lp.body[0].orelse, "get_aux_files: `if not os.path.exists(files[k]): files[k] = None`")
    _expect(src(b[3]) == 'return files', "get_aux_files: return files")
    sv = find_func(tree, 'save_background_files', cls='SourceFinder')
    outn = {}
    for n in ast.walk(sv):
        if isinstance(n, ast.Assign) and src(n.targets[0]) in ('noise_out', 'background_out') and isinstance(n.value, ast.BinOp) \
                and src(n.value.left) == 'outbase' and isinstance(n.value.right, ast.Constant):
            outn[src(n.targets[0])] = n.value.right.value
    _expect(set(outn) == {'noise_out', 'background_out'}, "save_background_files: output names")
    w = [src(n) for n in ast.walk(sv) if isinstance(n, ast.Call) and src(n.func) == 'write_fits']
    _expect('write_fits(bkgimg, header, background_out)' in w and 'write_fits(rmsimg, header, noise_out)' in w,
            "save_background_files: bkgimg -> background_out, rmsimg -> noise_out")
    return table, outn


def _triple(name, t, args):
    c, m, v = t
    return (f"Definition {name}_cond {args} : bool := {c}.\nDefinition {name}_map : Z := {m}.\n"
            f"Definition {name}_from : Z := {v}.\n")


@point('Globals')
def gen_globals(repo):
    tree = parse_file(_p(repo, 'source_finder.py'))
    ft = parse_file(_p(repo, 'fits_tools.py'))
    lg = _load_globals(tree)
    mk = _make_bkg_rms(tree)
    rmin, rmax = _load_aux(tree, ft)
    cl = _callers(tree)
    table, outn = _aux_files(tree)

    def dc(v):
        return _b(lg['default_do_curve'] if v is None else v == 'True')
    fa = '(rmsin bkgin : bool)'
    ma = '(frms fbkg : bool)'
    return HEADER_Z + f"""From Coq Require Import String.
Import ListNotations.

(* SourceFinder.load_globals.  maps: 1 = bkgimg, 2 = rmsimg;  files / forced values: 1 = bkg(in), 2 = rms(in).
   stage codes: 1 load  2 store img  3 bkgimg := zeros  4 rmsimg := zeros  5 dcurve := None  6 store cube_index  7 mask block
   8 curvature (if do_curve)  9 _make_bkg_rms (if lg_bane_needed)  10, 11 replacement by a file  12 img -= <map> *)
Definition lg_early_return : bool := {_b(lg['early_return'])}.
(* `if cube_index is None: cube_index = 0` directly after the early return (before load_image_band and before the index is stored) *)
Definition lg_cube_default_first_plane : bool := {_b(lg['cube_default'])}.
Definition lg_stages : list Z := [{'; '.join(str(s) for s in lg['stages'])}].
(* rmsin / bkgin : "a file was given" *)
Definition lg_bane_needed {fa} : bool := {lg['bane_needed']}.
Definition lg_forced_rms_arg : Z := {lg['forced_rms_arg']}.
Definition lg_forced_bkg_arg : Z := {lg['forced_bkg_arg']}.
{_triple('lg_repl1', lg['repl'][0], fa)}{_triple('lg_repl2', lg['repl'][1], fa)}Definition lg_sub_operand : Z := {lg['sub_operand']}.
(* curvature: maximum_filter / minimum_filter of this size over global_data.img; values written where img == peaks / troughs *)
Definition lg_curve_size : Z := {lg['curve_size']}.
Definition lg_curve_peak : Z := {Tr('Z').lit(lg['curve_peak'])}.
Definition lg_curve_trough : Z := {Tr('Z').lit(lg['curve_trough'])}.
Definition lg_curve_trough_last : bool := {_b(lg['curve_trough_last'])}.
(* mask block: None -> no region; Region object -> itself; existing file -> Region.load; missing file -> no region *)
Definition lg_mask_missing_file_is_none : bool := true.

(* SourceFinder._make_bkg_rms.  frms / fbkg : "forced_rms / forced_bkg is not None" *)
{_triple('mk_fill1', mk['fills'][0], ma)}{_triple('mk_fill2', mk['fills'][1], ma)}Definition mk_skip_bane {ma} : bool := {mk['skip']}.
Definition mk_box_size (s0 s1 : Z) : Z * Z := ({mk['box'][0]}, {mk['box'][1]}).
(* filter_image(im_name=filename, out_base=None, step_size, box_size, cores=cores, cube_index=self.global_data.cube_index) *)
Definition mk_bane_on_file : bool := true.
Definition mk_bane_cube_from_globals : bool := true.
Definition mk_bane_result_bkg_first : bool := {_b(mk['result_bkg_first'])}.
{_triple('mk_take1', mk['takes'][0], ma)}{_triple('mk_take2', mk['takes'][1], ma)}
(* SourceFinder._load_aux_image / fits_tools.load_image_band *)
Definition aux_shape_checked : bool := true.
Definition aux_returns_loaded : bool := true.
Definition lib_expands_compressed : bool := true.
Definition lib_row_min (naxis2 b0 b1 : Z) : Z := {rmin}.
Definition lib_row_max (naxis2 b0 b1 : Z) : Z := {rmax}.

(* callers: every keyword of their load_globals call hands over the parameter of the same name; the curvature they request *)
Definition fs_do_curve : bool := {dc(cl['find_sources_in_image'])}.
Definition prio_do_curve : bool := {dc(cl['priorized_fit_islands'])}.
Definition save_do_curve : bool := {dc(cl['save_background_files'])}.
(* find_islands(im=global_data.img, bkg=np.zeros_like(..), rms=global_data.rmsimg, region=global_data.region) *)
Definition fs_islands_on_subtracted_img : bool := true.
Definition fs_islands_bkg_zero : bool := true.

(* get_aux_files / save_background_files *)
Definition aux_suffix_bkg : string := "{table['bkg']}".
Definition aux_suffix_rms : string := "{table['rms']}".
Definition aux_suffix_mask : string := "{table['mask']}".
Definition aux_suffix_cat : string := "{table['cat']}".
Definition aux_suffix_psf : string := "{table['psf']}".
Definition save_suffix_bkg : string := "{outn['background_out']}".
Definition save_suffix_rms : string := "{outn['noise_out']}".
"""
