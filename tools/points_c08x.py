"""C08 (extension) extraction point `Combine`: MIMAS.combine_regions / intersect_regions / save_region and the way
AegeanTools/CLI/MIMAS.py fills the container -> coq/Gen/Combine.v.

  combine_regions : the ORDER of the six stages as a list of stage codes
                        1 add regions  2 subtract regions  3 add circles  4 subtract circles  5 add polygons  6 subtract polygons
                    (order of appearance of the loops over container.add_region / rem_region / include_circles / exclude_circles /
                    include_polygons / exclude_polygons), and for each stage which Region method is called on which object:
                        1  r2 = Region.load(r[i]); region.union(r2 [, renorm=<bool>])
                        2  r2 = Region.load(r[i]); region.without(r2)
                        3  region.add_circles(ras, decs, radii)                       (no depth argument)
                        4  r2 = Region(<depth expr>); r2.add_circles(..); region.without(r2)
                        5  region.add_poly(poly)
                        6  r2 = Region(<depth expr>); r2.add_poly(poly); region.without(r2)
                    the depth of the result region and of the fresh regions (expressions in container.maxdepth), the renorm flag
                    that union receives (literal keyword or the default of Region.union), the depth at which add_circles /
                    add_poly insert when they are called without a depth, and for every shape stage whether the
                    `if container.galactic:` conversion (galactic2fk5) is present.
  intersect_regions: the guard `len(flist) < N: raise`, the base region Region.load(flist[i]), the rest flist[j:], a.intersect(b),
                    return a.
  save_region     : region.save(filename).
  CLI/MIMAS.py    : the dest / action / nargs / type of +r -r +c -c +p -p -depth -g -o --intersect --area are the container
                    attributes that combine_regions reads; default depth; dispatch `--area` (Region.load + get_area), `--intersect`
                    (guard, intersect_regions, save_region), `-o` (combine_regions, save_region).

Everything else raises TranslateError (fail closed)."""
import ast
import os

from trcore import HEADER_Z, Tr, TranslateError, find_func, parse_file, point, src, strip_doc
from translate_points import _p

STAGE_OF = {'add_region': 1, 'rem_region': 2, 'include_circles': 3, 'exclude_circles': 4,
            'include_polygons': 5, 'exclude_polygons': 6}


def _expect(c, msg):
    if not c:
        raise TranslateError(msg)


def _b(x):
    return 'true' if x else 'false'


def _is_logging(st):
    return isinstance(st, ast.Expr) and isinstance(st.value, ast.Call) and src(st.value.func).startswith('logging.')


def _clean(stmts):
    return [s for s in stmts if not _is_logging(s)]


def _method_call(st, obj, meth, what):
    _expect(isinstance(st, ast.Expr) and isinstance(st.value, ast.Call) and src(st.value.func) == f'{obj}.{meth}',
            f"{what}: expected {obj}.{meth}(..), found {src(st)[:70]}")
    return st.value


def _fresh_region(st, what, env):
    """r2 = Region(<expr in container.maxdepth>) -> (name, Z term)"""
    _expect(isinstance(st, ast.Assign) and len(st.targets) == 1 and isinstance(st.targets[0], ast.Name)
            and isinstance(st.value, ast.Call) and src(st.value.func) == 'Region' and not st.value.keywords
            and len(st.value.args) == 1, f"{what}: expected <name> = Region(<depth>), found {src(st)[:70]}")
    return st.targets[0].id, Tr('Z', env).expr(st.value.args[0])


RESHAPE_C = 'circles.reshape(3, circles.shape[0] // 3)'


def _norm(text):
    return ast.unparse(ast.parse(text))


def _circle_coords(stmts, var, what):
    """circles = np.radians(np.array(c)); [if container.galactic: l, b, radii = ..; ras, decs = galactic2fk5(l, b) else:] ras, decs, radii = ..
    returns whether the galactic conversion is present"""
    _expect(len(stmts) == 2, f"{what}: expected 2 coordinate statements, found {len(stmts)}")
    _expect(src(stmts[0]) == f'circles = np.radians(np.array({var}))', f"{what}: circles = np.radians(np.array({var}))")
    st = stmts[1]
    plain = _norm(f'(ras, decs, radii) = {RESHAPE_C}')
    if isinstance(st, ast.Assign):
        _expect(src(st) == plain, f"{what}: {src(st)[:80]}")
        return False
    _expect(isinstance(st, ast.If) and src(st.test) == 'container.galactic', f"{what}: expected `if container.galactic:`")
    _expect([src(s) for s in st.body] == [_norm(f'(l, b, radii) = {RESHAPE_C}'), _norm('(ras, decs) = galactic2fk5(l, b)')],
            f"{what}: galactic branch is {[src(s) for s in st.body]}")
    _expect([src(s) for s in st.orelse] == [plain], f"{what}: equatorial branch is {[src(s) for s in st.orelse]}")
    return True


def _poly_coords(stmts, var, what):
    _expect(len(stmts) == 2, f"{what}: expected 2 coordinate statements, found {[src(s)[:50] for s in stmts]}")
    _expect(src(stmts[0]) in (f'poly = np.radians(np.array({var}))', f'poly = np.array(np.radians({var}))'),
            f"{what}: poly = np.radians(np.array({var})), found {src(stmts[0])[:70]}")
    _expect(src(stmts[1]) == 'poly = poly.reshape((poly.shape[0] // 2, 2))', f"{what}: reshape, found {src(stmts[1])[:70]}")
    return False    # no galactic conversion in the recognised shape; any `if container.galactic` is refused above


def _shape_method(regions_tree, name, query):
    """regions.Region.add_circles / add_poly: depth used when no depth is given; query flags; add_pixels + unconditional _renorm"""
    fn = find_func(regions_tree, name, cls='Region')
    d = fn.args.defaults
    _expect(fn.args.args[-1].arg == 'depth' and len(d) >= 1 and isinstance(d[-1], ast.Constant) and d[-1].value is None,
            f"{name}: last parameter is not depth=None")
    body = strip_doc(fn.body)
    clamp = [s for s in body if isinstance(s, ast.If) and 'depth is None' in src(s.test)]
    _expect(len(clamp) == 1 and not clamp[0].orelse and len(clamp[0].body) == 1
            and isinstance(clamp[0].test, ast.BoolOp) and isinstance(clamp[0].test.op, ast.Or)
            and src(clamp[0].test.values[0]) == 'depth is None'
            and isinstance(clamp[0].body[0], ast.Assign) and src(clamp[0].body[0].targets[0]) == 'depth',
            f"{name}: expected `if depth is None or ..: depth = ..`")
    dflt = Tr('Z', {'self.maxdepth': 'maxdepth'}).expr(clamp[0].body[0].value)
    q = [n for n in ast.walk(fn) if isinstance(n, ast.Call) and src(n.func) == f'hp.{query}']
    _expect(len(q) == 1, f"{name}: expected one hp.{query} call")
    nside = q[0].args[0]
    _expect(isinstance(nside, ast.BinOp) and isinstance(nside.op, ast.Pow), f"{name}: nside is not a power")
    nside = Tr('Z', {'depth': 'depth'}).expr(nside)
    kws = {}
    for k in q[0].keywords:
        _expect(isinstance(k.value, ast.Constant) and isinstance(k.value.value, bool), f"{name}: {query} keyword {k.arg}")
        kws[k.arg] = k.value.value
    _expect(set(kws) == {'inclusive', 'nest'}, f"{name}: {query} keywords are {sorted(kws)}")
    adds = [n for n in ast.walk(fn) if isinstance(n, ast.Call) and src(n.func) == 'self.add_pixels']
    _expect(len(adds) == 1 and [src(a) for a in adds[0].args] == ['pix', 'depth'] and not adds[0].keywords,
            f"{name}: expected self.add_pixels(pix, depth)")
    tail = [s for s in body if not (isinstance(s, ast.Return) and s.value is None)]
    _expect(src(tail[-1]) == 'self._renorm()', f"{name}: does not end with an unconditional self._renorm()")
    _expect(sum(1 for n in ast.walk(fn) if isinstance(n, ast.Call) and src(n.func) == 'self._renorm') == 1,
            f"{name}: more than one _renorm call")
    return dflt, nside, kws


def _cli(repo, attrs_read):
    path = os.path.join(repo, 'AegeanTools', 'CLI', 'MIMAS.py')
    tree = parse_file(path)
    fn = find_func(tree, 'main')
    opts = {}
    for n in ast.walk(fn):
        if isinstance(n, ast.Call) and isinstance(n.func, ast.Attribute) and n.func.attr == 'add_argument':
            flags = [a.value for a in n.args if isinstance(a, ast.Constant) and isinstance(a.value, str)]
            kw = {k.arg: k.value for k in n.keywords}
            for f in flags:
                _expect(f not in opts, f"CLI: option {f} defined twice")
                opts[f] = kw

    def opt(flag, dest, action, **more):
        _expect(flag in opts, f"CLI: option {flag} missing")
        kw = opts[flag]
        _expect('dest' in kw and src(kw['dest']) == repr(dest), f"CLI: {flag} dest is not {dest}")
        _expect('action' in kw and src(kw['action']) == repr(action), f"CLI: {flag} action is not {action}")
        for k, v in more.items():
            _expect(k in kw and src(kw[k]) == v, f"CLI: {flag} {k} is {src(kw[k]) if k in kw else None}, expected {v}")
        return kw
    opt('+r', 'add_region', 'append', default='[]', type='str', nargs="'*'")
    opt('-r', 'rem_region', 'append', default='[]', type='str', nargs="'*'")
    opt('+c', 'include_circles', 'append', default='[]', type='float', nargs='3')
    opt('-c', 'exclude_circles', 'append', default='[]', type='float', nargs='3')
    opt('+p', 'include_polygons', 'append', default='[]', type='float', nargs="'*'")
    opt('-p', 'exclude_polygons', 'append', default='[]', type='float', nargs="'*'")
    opt('-g', 'galactic', 'store_true', default='False')
    opt('-o', 'outfile', 'store', default='None')
    opt('--area', 'area', 'store', default='None')
    opt('--intersect', 'intersect', 'append', default='[]', type='str')
    kw = opt('-depth', 'maxdepth', 'store', type='int')
    _expect('default' in kw and isinstance(kw['default'], ast.Constant) and isinstance(kw['default'].value, int)
            and not isinstance(kw['default'].value, bool), "CLI: -depth default is not an integer literal")
    default_depth = kw['default'].value
    dests = {src(k['dest'])[1:-1] for k in opts.values() if 'dest' in k}
    _expect(set(attrs_read) <= dests, f"CLI: combine_regions reads {sorted(set(attrs_read) - dests)} which no option fills")
    pa = [n for n in ast.walk(fn) if isinstance(n, ast.Call) and src(n.func) == 'parser.parse_args']
    _expect(len(pa) == 1 and not pa[0].args and [k.arg for k in pa[0].keywords] == ['args'],
            "CLI: expected results = parser.parse_args(args=argv)")
    # dispatch (top-level ifs of main, in order)
    tops = [s for s in fn.body if isinstance(s, ast.If)]
    tests = [src(s.test) for s in tops]

    def branch(test):
        _expect(tests.count(test) == 1, f"CLI: expected exactly one top-level `if {test}:`")
        return tops[tests.index(test)], tests.index(test)
    ar, i_area = branch('results.area is not None')
    _expect([src(s) for s in ar.body][0] == 'region = MIMAS.Region.load(results.area)' and len(ar.body) == 3
            and src(ar.body[2]) == 'return 0' and isinstance(ar.body[1], ast.Expr)
            and src(ar.body[1].value.func) == 'print' and 'region.get_area()' in src(ar.body[1])
            and 'get_area(' not in src(ar.body[1]).replace('region.get_area()', ''),
            "CLI: --area branch is not load; print(.. region.get_area()); return 0")
    it, i_int = branch('len(results.intersect) > 0')
    _expect(len(it.body) == 2 and src(it.body[1]) == 'return 0' and isinstance(it.body[0], ast.If),
            "CLI: --intersect branch shape")
    g = it.body[0]
    t = g.test
    _expect(isinstance(t, ast.Compare) and src(t.left) == 'len(results.intersect)' and len(t.ops) == 1
            and isinstance(t.ops[0], ast.Eq) and isinstance(t.comparators[0], ast.Constant), "CLI: --intersect guard")
    cli_single = t.comparators[0].value
    _expect(src(g.body[-1]) == 'return 1', "CLI: --intersect guard does not return 1")
    g2 = g.orelse
    _expect(len(g2) == 1 and isinstance(g2[0], ast.If) and src(g2[0].test) == 'results.outfile is None'
            and src(g2[0].body[-1]) == 'return 1'
            and [src(s) for s in g2[0].orelse] == ['region = MIMAS.intersect_regions(results.intersect)',
                                                   'MIMAS.save_region(region, results.outfile)'],
            "CLI: --intersect does not run intersect_regions(results.intersect); save_region(region, results.outfile)")
    co, i_comb = branch('results.outfile is not None')
    _expect([src(s) for s in co.body] == ['region = MIMAS.combine_regions(results)',
                                          'MIMAS.save_region(region, results.outfile)'],
            "CLI: -o branch is not combine_regions(results); save_region(region, results.outfile)")
    _expect(i_area < i_int < i_comb, "CLI: dispatch order is not --area, --intersect, -o")
    between = tops[:i_comb]
    for s in between:
        _expect(isinstance(s.body[-1], ast.Return) or src(s.test) in ('results.cite',), f"CLI: branch {src(s.test)} falls through")
    return default_depth, cli_single


@point('Combine')
def gen_combine(repo):
    mt = parse_file(_p(repo, 'MIMAS.py'))
    rt = parse_file(_p(repo, 'regions.py'))
    imp = [n for n in ast.walk(mt) if isinstance(n, ast.ImportFrom) and any(a.name == 'Region' and a.asname is None
                                                                           for a in n.names)]
    _expect(len(imp) == 1 and imp[0].module in ('regions', 'AegeanTools.regions'),
            "MIMAS: Region is not imported from .regions exactly once")
    env = {'container.maxdepth': 'maxdepth'}

    # ------------------------------------------------------------------ combine_regions
    fn = find_func(mt, 'combine_regions')
    _expect([a.arg for a in fn.args.args] == ['container'] and not fn.args.defaults, "combine_regions(container)")
    body = _clean(strip_doc(fn.body))
    _expect(len(body) >= 2 and src(body[-1]) == 'return region', "combine_regions: does not end with `return region`")
    name, result_depth = _fresh_region(body[0], 'combine_regions: result region', env)
    _expect(name == 'region', "combine_regions: the result is not called region")
    stages = []
    info = {}
    for st in body[1:-1]:
        if isinstance(st, ast.If):
            # optional guard `if len(container.X) > 0:` around the loop over container.X
            _expect(not st.orelse and len(st.body) == 1 and isinstance(st.body[0], ast.For)
                    and src(st.test) == f'len({src(st.body[0].iter)}) > 0',
                    f"combine_regions: unexpected guard `if {src(st.test)}`")
            st = st.body[0]
        _expect(isinstance(st, ast.For) and not st.orelse and isinstance(st.target, ast.Name)
                and isinstance(st.iter, ast.Attribute) and src(st.iter.value) == 'container'
                and st.iter.attr in STAGE_OF, f"combine_regions: unexpected statement {src(st)[:70]}")
        attr = st.iter.attr
        code = STAGE_OF[attr]
        _expect(code not in stages, f"combine_regions: two loops over container.{attr}")
        stages.append(code)
        var = st.target.id
        b = _clean(st.body)
        what = f"combine_regions stage {code} ({attr})"
        if code in (1, 2):
            _expect(len(b) == 2 and isinstance(b[0], ast.Assign) and isinstance(b[0].targets[0], ast.Name)
                    and isinstance(b[0].value, ast.Call) and src(b[0].value.func) == 'Region.load'
                    and len(b[0].value.args) == 1 and not b[0].value.keywords, f"{what}: expected r2 = Region.load({var}[i]); region.<op>(r2)")
            arg = b[0].value.args[0]
            _expect(isinstance(arg, ast.Subscript) and src(arg.value) == var and isinstance(arg.slice, ast.Constant)
                    and isinstance(arg.slice.value, int), f"{what}: loads {src(arg)}, not {var}[<int>]")
            info[f'file_index_{code}'] = arg.slice.value
            r2 = b[0].targets[0].id
            call = _method_call(b[1], 'region', 'union' if code == 1 else 'without', what)
            _expect([src(a) for a in call.args] == [r2], f"{what}: operand is not the loaded region")
            if code == 1:
                un = find_func(rt, 'union', cls='Region')
                _expect([a.arg for a in un.args.args] == ['self', 'other', 'renorm'] and len(un.args.defaults) == 1
                        and isinstance(un.args.defaults[0], ast.Constant) and isinstance(un.args.defaults[0].value, bool),
                        "Region.union(self, other, renorm=<bool>)")
                renorm = un.args.defaults[0].value
                for k in call.keywords:
                    _expect(k.arg == 'renorm' and isinstance(k.value, ast.Constant) and isinstance(k.value.value, bool),
                            f"{what}: union keyword {k.arg}")
                    renorm = k.value.value
                info['union_renorm'] = renorm
            else:
                _expect(not call.keywords, f"{what}: keywords")
        elif code in (3, 5):
            meth = 'add_circles' if code == 3 else 'add_poly'
            call = _method_call(b[-1], 'region', meth, what)
            _expect(not call.keywords, f"{what}: {meth} is given keywords (depth?)")
            if code == 3:
                info['gal_3'] = _circle_coords(b[:-1], var, what)
                _expect([src(a) for a in call.args] == ['ras', 'decs', 'radii'], f"{what}: add_circles(ras, decs, radii)")
            else:
                info['gal_5'] = _poly_coords(b[:-1], var, what)
                _expect([src(a) for a in call.args] == ['poly'], f"{what}: add_poly(poly)")
        else:
            meth = 'add_circles' if code == 4 else 'add_poly'
            fresh = [s for s in b if isinstance(s, ast.Assign) and isinstance(s.value, ast.Call) and src(s.value.func) == 'Region']
            _expect(len(fresh) == 1, f"{what}: expected exactly one fresh Region(..)")
            r2, d = _fresh_region(fresh[0], what, env)
            info[f'depth_{code}'] = d
            rest = [s for s in b if s is not fresh[0]]
            _expect(len(rest) >= 2, f"{what}: too short")
            call = _method_call(rest[-2], r2, meth, what)
            _expect(not call.keywords, f"{what}: {meth} is given keywords (depth?)")
            w = _method_call(rest[-1], 'region', 'without', what)
            _expect([src(a) for a in w.args] == [r2] and not w.keywords, f"{what}: region.without({r2})")
            if code == 4:
                info['gal_4'] = _circle_coords(rest[:-2], var, what)
                _expect([src(a) for a in call.args] == ['ras', 'decs', 'radii'], f"{what}: add_circles(ras, decs, radii)")
            else:
                info['gal_6'] = _poly_coords(rest[:-2], var, what)
                _expect([src(a) for a in call.args] == ['poly'], f"{what}: add_poly(poly)")
    _expect(sorted(stages) == [1, 2, 3, 4, 5, 6], f"combine_regions: stages found {stages}")
    attrs_read = {n.attr for n in ast.walk(fn) if isinstance(n, ast.Attribute) and src(n.value) == 'container'}
    _expect(attrs_read == set(STAGE_OF) | {'maxdepth', 'galactic'}, f"combine_regions reads container.{sorted(attrs_read)}")

    cd, cnside, ckw = _shape_method(rt, 'add_circles', 'query_disc')
    pd, pnside, pkw = _shape_method(rt, 'add_poly', 'query_polygon')

    # ------------------------------------------------------------------ intersect_regions
    fi = find_func(mt, 'intersect_regions')
    _expect([a.arg for a in fi.args.args] == ['flist'], "intersect_regions(flist)")
    ib = _clean(strip_doc(fi.body))
    _expect(len(ib) == 4, f"intersect_regions: expected guard; base; loop; return ({len(ib)} statements)")
    g = ib[0]
    _expect(isinstance(g, ast.If) and not g.orelse and len(g.body) == 1 and isinstance(g.body[0], ast.Raise)
            and isinstance(g.test, ast.Compare) and src(g.test.left) == 'len(flist)' and len(g.test.ops) == 1
            and isinstance(g.test.ops[0], ast.Lt) and isinstance(g.test.comparators[0], ast.Constant)
            and isinstance(g.test.comparators[0].value, int), "intersect_regions: guard is not `if len(flist) < N: raise`")
    min_files = g.test.comparators[0].value
    exc = g.body[0].exc
    _expect(isinstance(exc, ast.Call) and src(exc.func) == 'Exception', "intersect_regions: guard does not raise Exception(..)")
    a = ib[1]
    _expect(isinstance(a, ast.Assign) and src(a.targets[0]) == 'a' and isinstance(a.value, ast.Call)
            and src(a.value.func) == 'Region.load' and len(a.value.args) == 1
            and isinstance(a.value.args[0], ast.Subscript) and src(a.value.args[0].value) == 'flist'
            and isinstance(a.value.args[0].slice, ast.Constant) and isinstance(a.value.args[0].slice.value, int)
            and a.value.args[0].slice.value >= 0, "intersect_regions: a = Region.load(flist[<int>])")
    base = a.value.args[0].slice.value
    lp = ib[2]
    _expect(isinstance(lp, ast.For) and not lp.orelse and src(lp.target) == 'b' and len(lp.body) == 1
            and src(lp.body[0]) == 'a.intersect(b)', "intersect_regions: loop body is not a.intersect(b)")
    it = lp.iter
    _expect(isinstance(it, ast.ListComp) and src(it.elt) == 'Region.load(f)' and len(it.generators) == 1
            and src(it.generators[0].target) == 'f' and not it.generators[0].ifs,
            "intersect_regions: loop is not over [Region.load(f) for f in flist[k:]]")
    sl = it.generators[0].iter
    _expect(isinstance(sl, ast.Subscript) and src(sl.value) == 'flist' and isinstance(sl.slice, ast.Slice)
            and sl.slice.upper is None and sl.slice.step is None and isinstance(sl.slice.lower, ast.Constant)
            and isinstance(sl.slice.lower.value, int) and sl.slice.lower.value >= 0, "intersect_regions: rest is not flist[k:]")
    rest_from = sl.slice.lower.value
    _expect(src(ib[3]) == 'return a', "intersect_regions: does not return a")

    # ------------------------------------------------------------------ save_region
    sv = find_func(mt, 'save_region')
    sb = [s for s in _clean(strip_doc(sv.body)) if not (isinstance(s, ast.Return) and s.value is None)]
    _expect([a.arg for a in sv.args.args] == ['region', 'filename'] and [src(s) for s in sb] == ['region.save(filename)'],
            "save_region: expected region.save(filename)")

    default_depth, cli_single = _cli(repo, attrs_read)

    return HEADER_Z + f"""Import ListNotations.

(* MIMAS.combine_regions: order of the stages
   1 add regions  2 subtract regions  3 add circles  4 subtract circles  5 add polygons  6 subtract polygons *)
Definition combine_stages : list Z := [{'; '.join(str(s) for s in stages)}].
(* region = Region(..) ; r2 = Region(..) for excluded circles / polygons *)
Definition combine_result_depth (maxdepth : Z) : Z := {result_depth}.
Definition excl_circle_depth (maxdepth : Z) : Z := {info['depth_4']}.
Definition excl_poly_depth (maxdepth : Z) : Z := {info['depth_6']}.
(* the renorm flag region.union receives (keyword literal or the default of Region.union) *)
Definition combine_union_renorm : bool := {_b(info['union_renorm'])}.
(* which entry of a +r / -r argument list is loaded *)
Definition add_region_file_index : Z := {info['file_index_1']}.
Definition rem_region_file_index : Z := {info['file_index_2']}.
(* Region.add_circles / add_poly called without depth insert at this level; the healpy query *)
Definition circle_insert_depth (maxdepth : Z) : Z := {cd}.
Definition poly_insert_depth (maxdepth : Z) : Z := {pd}.
Definition circle_nside (depth : Z) : Z := {cnside}.
Definition poly_nside (depth : Z) : Z := {pnside}.
Definition circle_query_nest : bool := {_b(ckw['nest'])}.
Definition poly_query_nest : bool := {_b(pkw['nest'])}.
Definition circle_query_inclusive : bool := {_b(ckw['inclusive'])}.
Definition poly_query_inclusive : bool := {_b(pkw['inclusive'])}.
(* is `if container.galactic: .. galactic2fk5(l, b)` present in the stage *)
Definition galactic_incl_circles : bool := {_b(info['gal_3'])}.
Definition galactic_excl_circles : bool := {_b(info['gal_4'])}.
Definition galactic_incl_polygons : bool := {_b(info['gal_5'])}.
Definition galactic_excl_polygons : bool := {_b(info['gal_6'])}.

(* MIMAS.intersect_regions: `if len(flist) < N: raise Exception`; a = Region.load(flist[i]); for b in flist[j:]: a.intersect(b) *)
Definition intersect_min_files : Z := {min_files}.
Definition intersect_base_index : Z := {base}.
Definition intersect_rest_from : Z := {rest_from}.

(* AegeanTools/CLI/MIMAS.py *)
Definition cli_default_depth : Z := {default_depth}.
Definition cli_intersect_single : Z := {cli_single}.
"""
