"""C20 - image bands tile the image exactly and keep its astrometry."""
import os
import time
import warnings

import numpy as np

import vlib
from fixtures import make_header, write_image

GEN = ['Bands']
LEVEL = 'proof'
TRUSTED = [
    'Coq 8.16.1 kernel + vm_compute; no axioms (Print Assumptions: closed under the global context)',
    'translator tools/translate.py (Z back end): reading of * // + - and of the if/elif validation chain, '
    'the row slice and the NAXIS2/CRPIX2 updates of fits_tools.load_image_band',
    'hand-written skeleton Model/Bands.v (band = firstn/skipn of the row list; header record), tied by the '
    'correspondence run on real FITS files',
    'astropy.io.fits section reading, astropy.wcs (used to compare sky positions), fits_tools.expand for compressed input',
]
ASSUMPTIONS = ['NAXIS2 and the band numbers are Python ints (unbounded); CRPIX2 compared on integer values',
               'the FITS pixel->world map depends on the row coordinate only through (p - CRPIX2)']
IMPORTS = "From Coq Require Import ZArith List.\nFrom Aegean Require Import Gen.Bands Model.Bands.\nImport ListNotations.\nOpen Scope Z_scope.\n"


def _mkfile(work, N, kind, cols=3):
    """returns (path, full data (N x cols) as float64, original CRPIX2)"""
    from AegeanTools import fits_tools
    data = (np.arange(N)[:, None] * 8.0 + np.arange(cols)[None, :]).astype(np.float32)
    # reference pixels of every kind: inside, zero (int-valued), negative, far outside
    crpix2 = [N // 2 + 3, 0, -4, 1, 3 * N + 7][(N + len(kind)) % 5]
    path = os.path.join(work, f'img_{kind}_{N}.fits')
    if kind == '2d':
        write_image(path, data, make_header((N, cols), crpix=(2, crpix2)))
    elif kind == '3d':
        write_image(path, data[None], make_header((N, cols), crpix=(2, crpix2), naxis=3))
    elif kind == '4d':
        write_image(path, data[None, None], make_header((N, cols), crpix=(2, crpix2), naxis=4))
    elif kind == 'bscale':
        from astropy.io import fits
        h = make_header((N, cols), crpix=(2, crpix2))
        hdu = fits.PrimaryHDU(data=data / 2.0, header=h)
        hdu.header['BSCALE'] = 2.0
        # write the raw array with a BSCALE card that astropy must not apply on write
        hdu.writeto(path, overwrite=True)
        with fits.open(path, mode='update', do_not_scale_image_data=True) as hl:
            hl[0].header['BSCALE'] = 2.0
    elif kind == 'compressed':
        from astropy.io import fits
        h = make_header((N, cols), crpix=(2, crpix2))
        hdul = fits.HDUList([fits.PrimaryHDU(data=data, header=h)])
        fits_tools.compress(hdul, 2, path)
        full = fits_tools.expand(path)[0]
        return path, np.array(full.data, dtype=np.float64), full.header['CRPIX2']
    return path, data.astype(np.float64), crpix2


def _impl(path, i, n):
    from AegeanTools import fits_tools
    from AegeanTools.exceptions import AegeanError
    try:
        d, h = fits_tools.load_image_band(path, band=(i, n))
    except AegeanError:
        return None
    return np.array(d, dtype=np.float64), h


def _sky(h, rows, cols):
    from astropy.wcs import WCS
    w = WCS(h, naxis=2)
    pts = [(c, r) for r in rows for c in cols]
    return np.array(w.wcs_pix2world(pts, 0))


def oracle_pair(work, N, n, kind):
    """property C20 on the implementation for one (rows, bands, kind). returns None or a message"""
    path, full, crpix2 = _mkfile(work, N, kind)
    nxt = 0
    from astropy.io import fits
    fullh = fits.getheader(path) if kind != 'compressed' else None
    if kind == 'compressed':
        from AegeanTools import fits_tools
        fullh = fits_tools.expand(path)[0].header
    for i in range(n):
        r = _impl(path, i, n)
        if r is None:
            return f'band ({i},{n}) of {N} rows rejected'
        d, h = r
        lo = int(round(crpix2 - h['CRPIX2']))
        hi = lo + d.shape[0]
        if h['NAXIS2'] != d.shape[0]:
            return f'band ({i},{n}) of {N} rows: NAXIS2={h["NAXIS2"]} but {d.shape[0]} rows returned'
        if d.shape[0] > 0:
            first = int(round(d[0, 0] / 8.0)) if kind != 'compressed' else None
            if kind != 'compressed' and first != nxt:
                return f'band ({i},{n}) of {N} rows starts at row {first}, expected {nxt}'
            if not np.array_equal(d, full[nxt:nxt + d.shape[0]]):
                return f'band ({i},{n}) of {N} rows: pixel values differ from rows {nxt}:{nxt + d.shape[0]}'
            if lo != nxt:
                return f'band ({i},{n}) of {N} rows: header CRPIX2 says the band starts at row {lo}, data start at {nxt}'
            with warnings.catch_warnings():
                warnings.simplefilter('ignore')
                a = _sky(h, [0, d.shape[0] - 1], [0, 2])
                b = _sky(fullh, [nxt, nxt + d.shape[0] - 1], [0, 2])
            if not np.allclose(a, b, rtol=0, atol=1e-9):
                return f'band ({i},{n}) of {N} rows: header maps its pixels to different sky positions'
        nxt += d.shape[0]
    if nxt != N:
        return f'{n} bands of {N} rows cover {nxt} rows'
    return None


def run(ctx, model_ok=True):
    rng = ctx.rng
    quick = ctx.tier == 'quick'
    ctx.rule = ('(rows, bands, file kind) triples: all bands i of n loaded from a real FITS file; distinct = '
                'distinct (rows, bands, kind); non-trivial = bands >= 2. Invalid specs form a separate stream.')
    pairs = []
    # pairs on which float arithmetic int(N/n*i) is known to round down, small exhaustive corner, random
    for N, n in [(1, 49), (1, 1), (2, 3), (3, 2), (5, 64), (7, 7), (10, 4), (101, 8), (64, 64), (63, 64), (98, 49),
                 (107, 53), (29, 58), (113, 57), (55, 7), (100, 3), (120, 64)]:
        pairs.append((N, n))
    for N in range(1, 9):
        for n in range(1, 9):
            pairs.append((N, n))
    for _ in range(20 if quick else 300):
        pairs.append((rng.randint(1, 150 if quick else 600), rng.randint(1, 64)))
    kinds = ['2d', '3d', '4d', 'bscale', 'compressed']
    cases = []
    for k, (N, n) in enumerate(pairs):
        kind = kinds[k % len(kinds)]
        if kind == 'compressed' and N < 4:
            kind = '2d'
        cases.append((N, n, kind))
    exprs, impl_vals, metas = [], [], []
    t0 = time.time()
    for (N, n, kind) in cases:
        msg = oracle_pair(ctx.work, N, n, kind)
        ctx.case(key=(N, n, kind) if n >= 2 else None, sample={'rows': N, 'bands': n, 'kind': kind},
                 bucket=f'{kind}/n{"1" if n == 1 else "2-8" if n <= 8 else "9-64"}')
        if msg:
            ctx.mismatch('property oracle on load_image_band', {'rows': N, 'bands': n, 'kind': kind}, impl=msg,
                         is_violation={'rows': N, 'bands': n, 'kind': kind, 'what': msg})
        # correspondence with the model (header values): every band, or a sample of them
        path, full, crpix2 = _mkfile(ctx.work, N, kind)
        NN = full.shape[0]
        for i in (range(n) if n <= 8 else sorted({0, n - 1, rng.randrange(n), rng.randrange(n)})):
            r = _impl(path, i, n)
            if r is None:
                iv = []
            else:
                d, h = r
                lo = int(round(crpix2 - h['CRPIX2']))
                iv = [lo, lo + d.shape[0], int(h['NAXIS2']), int(round(h['CRPIX2']))]
            exprs.append(f'load_band_l {NN} {vlib.zlit(int(crpix2))} {i} {n}')
            impl_vals.append(iv)
            metas.append({'rows': NN, 'band': [i, n], 'kind': kind})
        try:
            os.remove(path)
        except OSError:
            pass
    # malformed stream
    path, full, crpix2 = _mkfile(ctx.work, 12, '2d')
    for (i, n) in [(0, 0), (1, 1), (2, 1), (-1, 3), (3, 3), (0, -2), (5, 4), (-1, -1), (0, 1), (2, 3)]:
        r = _impl(path, i, n)
        ctx.case(key=None, bucket='invalid-spec' if r is None else 'valid-spec')
        bad = not (0 <= i < n)
        if bad != (r is None):
            ctx.mismatch('invalid band specification', {'band': [i, n]}, impl='rejected' if r is None else 'accepted',
                         is_violation={'rows': 12, 'band': [i, n], 'what': 'invalid band accepted' if bad else 'valid band rejected'})
        if r is None:
            iv = []
        else:
            d, h = r
            lo = int(round(crpix2 - h['CRPIX2']))
            iv = [lo, lo + d.shape[0], int(h['NAXIS2']), int(round(h['CRPIX2']))]
        exprs.append(f'load_band_l 12 {vlib.zlit(int(crpix2))} {vlib.zlit(i)} {vlib.zlit(n)}')
        impl_vals.append(iv)
        metas.append({'rows': 12, 'band': [i, n], 'kind': 'spec'})
    if model_ok:
        vals, err = vlib.coq_eval(ctx, IMPORTS, exprs)
        if vals is None:
            ctx.oblige('model evaluation (vm_compute) of load_band_l', False, err)
        else:
            nbad = 0
            for v, iv, m in zip(vals, impl_vals, metas):
                if list(v) != list(iv):
                    nbad += 1
                    if nbad <= 5:
                        ctx.mismatch('load_image_band vs Model.Bands.load_band', m, impl=iv, model=v)
            ctx.oblige(f'correspondence: {len(vals)} (rows, band) header/limit tuples equal to the model', nbad == 0,
                       f'{nbad} differ')
            ctx.traces = len(vals)
    ctx.extra['exhaustive'] = False
    ctx.notes.append(f'implementation runs took {time.time() - t0:.1f}s')


def search(ctx):
    """look for a concrete (rows, bands) on which the implementation breaks the property"""
    t0 = time.time()
    for N in list(range(1, 80)):
        for n in range(1, 65):
            msg = oracle_pair(ctx.work, N, n, '2d')
            if msg:
                return {'rows': N, 'bands': n, 'kind': '2d', 'what': msg}
            if time.time() - t0 > 240:
                return None
    for kind in ('3d', 'compressed', 'bscale', '4d'):
        for N in (5, 10, 33):
            for n in (1, 2, 3, 7):
                msg = oracle_pair(ctx.work, N, n, kind)
                if msg:
                    return {'rows': N, 'bands': n, 'kind': kind, 'what': msg}
    return None


def replay(ctx, obj):
    fi = obj.get('failing_input')
    if not fi:
        print('replay file has no concrete input; broken obligations were:')
        for b in obj.get('broken', []):
            print('  ', b.get('what'), str(b.get('detail', ''))[:300])
        return 1
    if 'band' in fi:
        print(fi)
        return 1
    msg = oracle_pair(ctx.work, fi['rows'], fi['bands'], fi.get('kind', '2d'))
    print('implementation:', msg or 'property holds on this input')
    return 1 if msg else 0
