"""C17 - spherical geometry (gcd / bear / translate) and sexagesimal primitives (dec2dms / dec2hms /
dec2dec / ra2dec) of AegeanTools.angle_tools."""
import math
import re
import time
from fractions import Fraction

import numpy as np

import vlib
from vlib import rlit

GEN = ['Sphere', 'Sexagesimal']
LEVEL = 'proof'
TRUSTED = [
    'Coq 8.16.1 kernel + vm_compute; real-number axioms of the standard library (sig_forall_dec, sig_not_dec, '
    'functional_extensionality_dep, classic) for the geometry theorems; C17_fields_in_range is axiom-free',
    'translator tools/points_c17.py: R back end reading of gcd/bear/translate (np.sin cos arcsin arctan2 hypot radians degrees clip, '
    'augmented assignments); Z back end reading of the divmod chains; shape matchers for `cs = int(round(x * K))`, the finite '
    'guard, the sign test, abs, `x += 360`, the format strings and their argument order, the field split and sign test of dec2dec',
    'Lib/RBase.v: atan2 is numpy.arctan2 on real arguments (signed zeros are not modelled)',
    'Interval tactic: every per-case lemma |model - implementation output| <= tol is checked by the kernel',
    'Coq primitive floats (binary64) in Model/Sexagesimal.v for abs, <, one multiplication, one addition, with their IEEE-754 '
    'specification (FloatAxioms of the standard library) and Flocq 4 (Prim2B, Bmult_correct, error_N_FLT); Python round() = nearest-even; '
    'str.format {:02d} and float() of the printed fields (character-exact comparison ties them)',
    'numpy longdouble (x87 80-bit) arithmetic for the independent vector-formula oracle',
]
ASSUMPTIONS = [
    'binary64 round-off of gcd/bear/translate is bounded per case by tol = 2^-36 * |value| + 2^-46 (compared quantities are O(1) '
    'sines/cosines: cross and dot product of (|u x v|, u.v) with (sin sep, cos sep) for gcd; cross and dot product of (y, x) with '
    '(sin b, cos b); sin(dec_out) vs factor)',
    'the single rounding satisfies |cs - |x|*K| <= 1/2 + |x|*K*2^-53 + 2^-1075 (binary64 product, then nearest-even integer): '
    'hypothesis of C17_roundtrip_half_unit; PROVED for the PrimFloat model for every finite binary64 x (C17_roundtrip_binary64_*, via '
    'FloatAxioms + Flocq) and additionally validated exactly (Fractions) on every string case; the implementation inherits it through '
    'the character-exact correspondence only',
    'dec2hms on negative input: the theorem is about the wrapped binary64 value x + 360 (one more rounding, <= 2^-45 deg)',
    'the 1e-9 deg agreement of gcd with the vector formula in binary64 (0..180 deg, incl. exactly and nearly antipodal pairs) is a '
    'round-off statement, decided by execution only (strict: no tolerated input class)',
    'bear is compared with the 80-bit position angle for separations 1e-9 .. 179.9 deg and |dec1| < 89.999 within '
    'max(1e-9, 8 (ulp(ra) + ulp(dec)) / sin(sep)) deg: binary64 coordinates fix the offsets between two points only to an ulp of the '
    'coordinates (constant measured on the unmodified code: <= 2.5); within 0.1 deg of the antipode and at the poles bear is not compared',
]
HEADER = ("From Coq Require Import Reals.\nFrom Interval Require Import Tactic.\n"
          "From Aegean Require Import Lib.RBase Gen.Sphere Lib.Sphere.\nOpen Scope R_scope.")
HEADER_S = ("From Coq Require Import Reals ZArith.\nFrom Interval Require Import Tactic.\n"
            "From Aegean Require Import Gen.Sexagesimal Model.Sexagesimal.\nOpen Scope R_scope.")
IMPORTS_S = ("From Coq Require Import ZArith String PrimFloat.\nFrom Aegean Require Import Gen.Sexagesimal Model.Sexagesimal.\n"
             "Open Scope float_scope.\n")
LD = np.longdouble
PI_LD = LD('3.14159265358979323846264338327950288')
BEAR_LIMIT = 179.9          # the bearing is undefined at the antipode (and at separation 0): it is compared for 1e-9 <= sep <= 179.9
BEAR_MIN = 1e-9             # lower end of the property's domain of separations
BEAR_C = 8.0                # measured on the unmodified code over 1.2e5 pairs (1e-9 .. 179.9 deg, RA wrap, |dec| < 89.999): <= 2.5
# nearly and exactly antipodal pairs (the haversine form returned 180.0 for the first one: 1e-6 deg off)
ANTIPODES = [(0.0, 0.0, 179.999999, 0.0), (0.0, 0.0, 180.0 - 1e-7, 0.0), (0.0, 0.0, 180.0 - 1e-8, 0.0), (0.0, 0.0, 180.0 - 1e-9, 0.0),
             (0.0, 0.0, 180.0, 0.0), (10.0, 20.0, 190.0, -20.0), (0.0, 90.0, 77.0, -90.0), (33.0, -90.0, 200.0, 90.0),
             (17.0, 33.0, 197.0, -33.0 + 1e-9), (17.0, 33.0, 197.0 + 1e-8, -33.0), (300.0, -45.0, 120.0, 45.0 - 1e-6),
             (359.5, 60.0, 179.5 + 1e-7, -60.0), (120.0, 89.9999, 300.0, -89.9999 - 1e-8), (45.0, 0.0, 225.0, 1e-9)]
KNOWN_POLE_NAN = (0.0, -8.0, 82.0, 180.0)   # due south onto the south pole: arcsin argument rounds to -1.0000000000000002


def at():
    from AegeanTools import angle_tools
    return angle_tools


# ------------------------------------------------------------------------------------------
# independent references in extended precision (vector formulas)
def _uv(ra, dec):
    r, d = LD(ra) * PI_LD / 180, LD(dec) * PI_LD / 180
    return np.array([np.cos(d) * np.cos(r), np.cos(d) * np.sin(r), np.sin(d)], dtype=LD)


def ref_sep(ra1, dec1, ra2, dec2):
    """angle between the unit vectors: atan2(|u x v|, u.v), degrees"""
    u, v = _uv(ra1, dec1), _uv(ra2, dec2)
    c = np.cross(u, v)
    return float(np.arctan2(np.sqrt(np.dot(c, c)), np.dot(u, v)) * 180 / PI_LD)


def ref_pa(ra1, dec1, ra2, dec2):
    """position angle of 2 seen from 1 in the tangent frame (north, east) at 1, degrees in (-180, 180]"""
    r, d = LD(ra1) * PI_LD / 180, LD(dec1) * PI_LD / 180
    n = np.array([-np.sin(d) * np.cos(r), -np.sin(d) * np.sin(r), np.cos(d)], dtype=LD)
    e = np.array([-np.sin(r), np.cos(r), LD(0)], dtype=LD)
    v = _uv(ra2, dec2)
    return float(np.arctan2(np.dot(v, e), np.dot(v, n)) * 180 / PI_LD)


def angdiff(a, b):
    d = (a - b) % 360.0
    return min(d, 360.0 - d)


def bear_tol(p, sep, cosmin=1.0):
    """tolerance (deg) for a position angle at separation `sep` (deg): the coordinates are binary64, so the offsets between the
    two points are only known / computed to ulp(coordinate); relative to the separation that is an angle of
    (ulp(ra) + ulp(dec)) / sin(sep) (ulp in degrees over the separation in radians = degrees).  BEAR_C is the measured constant of
    the unmodified code with a margin of 3; the floor is the property's 1e-9 deg.  A wrong quadrant or a dropped bearing at
    2e-9 deg is off by tens of degrees against a tolerance of ~1e-3 deg."""
    ra1, dec1, ra2, dec2 = p
    u = math.ulp(max(abs(ra1), abs(ra2))) + math.ulp(max(abs(dec1), abs(dec2)))
    return max(1e-9, BEAR_C * u / (math.sin(math.radians(sep)) * cosmin))


# ------------------------------------------------------------------------------------------
# the property on the implementation (executable oracle); each returns None or a message
def pair_problem(p):
    A = at()
    ra1, dec1, ra2, dec2 = p
    g = float(A.gcd(ra1, dec1, ra2, dec2))
    g2 = float(A.gcd(ra2, dec2, ra1, dec1))
    ref = ref_sep(ra1, dec1, ra2, dec2)
    if not (0.0 <= g <= 180.0):
        return f'gcd{p} = {g!r} is outside [0, 180]'
    if abs(g - g2) > 1e-12:
        return f'gcd is not symmetric: gcd{p} = {g!r}, swapped = {g2!r}'
    if not abs(g - ref) <= 1e-9:
        return (f'gcd{p} = {g!r} but the angle between the unit vectors (atan2(|u x v|, u.v), 80-bit) is {ref!r}: '
                f'difference {g - ref:.3e} deg > 1e-9')
    if BEAR_MIN <= ref <= BEAR_LIMIT and abs(dec1) < 89.999:
        b = float(A.bear(ra1, dec1, ra2, dec2))
        pa = ref_pa(ra1, dec1, ra2, dec2)
        tol = bear_tol(p, ref)
        if not angdiff(b, pa) <= tol:
            return (f'bear{p} = {b!r} but the position angle in the (north, east) frame at point 1 (80-bit) is {pa!r}: separation '
                    f'{ref:.3e} deg, difference {angdiff(b, pa):.3e} deg > tolerance {tol:.3e} deg')
    return None


def triple_problem(t):
    A = at()
    (a, b), (c, d), (e, f) = t
    g13, g12, g23 = float(A.gcd(a, b, e, f)), float(A.gcd(a, b, c, d)), float(A.gcd(c, d, e, f))
    if g13 > g12 + g23 + 1e-9:
        return f'triangle inequality: gcd(p,r) = {g13!r} > gcd(p,q) + gcd(q,r) = {g12!r} + {g23!r} for p,q,r = {t}'
    return None


def translate_problem(q):
    A = at()
    ra, dec, r, th = q
    with np.errstate(invalid='ignore'):
        ro, do = A.translate(ra, dec, r, th)
    ro, do = float(ro), float(do)
    if not (math.isfinite(ro) and math.isfinite(do)):
        return f'translate{q} = ({ro!r}, {do!r}) is not finite'
    if not (-90.0 <= do <= 90.0):
        return f'translate{q} gives dec = {do!r}'
    ref = ref_sep(ra, dec, ro, do)
    g = float(A.gcd(ra, dec, ro, do))
    # binary64 conditioning of arcsin next to a pole: the destination dec carries eps / cos(dec_out)
    cdo = math.cos(math.radians(do))
    tol = 1e-9 + min(1e-13 / max(cdo, 1e-300), 3e-6)
    if abs(ref - r) > tol:
        return f'translate{q} = ({ro!r}, {do!r}) lies at distance {ref!r} (vector formula), not r = {r!r}'
    if abs(g - r) > tol:
        return f'gcd from the start to translate{q} = ({ro!r}, {do!r}) is {g!r}, not r = {r!r}'
    if BEAR_MIN <= r <= BEAR_LIMIT and ref >= BEAR_MIN and abs(dec) < 89.999 and abs(do) < 89.999:
        pa = ref_pa(ra, dec, ro, do)
        b = float(A.bear(ra, dec, ro, do))
        # x = cos r - sin dec sin dec_out cancels to eps; relative to |(x, y)| = cos dec cos dec_out sin(dlon); the destination is
        # rounded to binary64 (bear_tol: measured constant of the unmodified code <= 2.1 with this denominator)
        cmin = min(math.cos(math.radians(dec)), cdo)
        tol = max(1e-9 + 1e-13 / (math.sin(math.radians(r)) * cmin), bear_tol((ra, dec, ro, do), r, cmin))
        if angdiff(pa, th) > tol:
            return f'translate{q} = ({ro!r}, {do!r}) is seen at position angle {pa!r} from the start, not theta = {th!r}'
        if angdiff(b, th) > tol:
            return f'bear from the start to translate{q} = ({ro!r}, {do!r}) is {b!r}, not theta = {th!r}'
    return None


DMS_RE = re.compile(r'^([+-])(\d{2,}):(\d{2}):(\d{2})\.(\d{2})$')
HMS_RE = re.compile(r'^(\d{2,}):(\d{2}):(\d{2})\.(\d{2})$')


def dms_problem(x):
    """fields in range and round trip within half a unit of the last digit, on the implementation"""
    A = at()
    s = A.dec2dms(x)
    if not math.isfinite(x):
        return None if s == 'XX:XX:XX.XX' else f'dec2dms({x!r}) = {s!r}'
    m = DMS_RE.match(s)
    if not m:
        return f'dec2dms({x!r}) = {s!r} is not [+-]DD:MM:SS.SS'
    sg, d, mi, se, c = m.group(1), int(m.group(2)), int(m.group(3)), int(m.group(4)), int(m.group(5))
    if mi >= 60 or se >= 60:
        return f'dec2dms({x!r}) = {s!r}: minutes/seconds field not below 60'
    if abs(x) <= 90 and (d > 90 or (d == 90 and (mi, se, c) != (0, 0, 0))):
        return f'dec2dms({x!r}) = {s!r}: more than 90 degrees'
    if abs(x) <= 360 and (d > 360 or (d == 360 and (mi, se, c) != (0, 0, 0))):
        return f'dec2dms({x!r}) = {s!r}: more than 360 degrees'
    if (sg == '-') != (x < 0):
        return f'dec2dms({x!r}) = {s!r}: wrong sign'
    val = (Fraction(d) + Fraction(mi, 60) + Fraction(se * 100 + c, 360000)) * (-1 if sg == '-' else 1)
    fx = Fraction(x)
    if abs(val - fx) > Fraction(1, 720000) + abs(fx) * Fraction(1, 2 ** 52):
        return (f'dec2dms({x!r}) = {s!r} parses to {float(val)!r}: off by {float(abs(val - fx)) * 3600:.6f} arcsec '
                f'> 0.005 arcsec')
    back = float(A.dec2dec(s))
    if abs(Fraction(back) - val) > Fraction(1, 10 ** 12) * max(1, abs(val)):
        return f'dec2dec({s!r}) = {back!r}, exact value of the fields is {float(val)!r}'
    return None


def hms_problem(x):
    A = at()
    s = A.dec2hms(x)
    if not math.isfinite(x):
        return None if s == 'XX:XX:XX.XX' else f'dec2hms({x!r}) = {s!r}'
    m = HMS_RE.match(s)
    if not m:
        return f'dec2hms({x!r}) = {s!r} is not HH:MM:SS.SS'
    h, mi, se, c = int(m.group(1)), int(m.group(2)), int(m.group(3)), int(m.group(4))
    if h >= 24 or mi >= 60 or se >= 60:
        return f'dec2hms({x!r}) = {s!r}: hours not below 24 or minutes/seconds not below 60'
    val = (Fraction(h) + Fraction(mi, 60) + Fraction(se * 100 + c, 360000)) * 15
    fx = Fraction(x)
    dev = (val - fx) % 360
    dev = min(dev, 360 - dev)
    if dev > Fraction(1, 48000) + (abs(fx) + 360) * Fraction(1, 2 ** 51):
        return (f'dec2hms({x!r}) = {s!r} parses to {float(val)!r} deg: off by {float(dev) * 240:.6f} s of time '
                f'(modulo 24 h) > 0.005 s')
    back = float(A.ra2dec(s))
    if abs(Fraction(back) - val) > Fraction(1, 10 ** 12) * max(1, abs(val)):
        return f'ra2dec({s!r}) = {back!r}, exact value of the fields is {float(val)!r}'
    return None


# ------------------------------------------------------------------------------------------
# generators
def ulp_neighbours(x, n=1):
    out = [x]
    a = b = x
    for _ in range(n):
        a, b = math.nextafter(a, -math.inf), math.nextafter(b, math.inf)
        out += [a, b]
    return out


def offset_point(rng, ra, dec, sep):
    """a point roughly `sep` degrees away (the exact separation does not matter: it is just an input)"""
    th = rng.uniform(0, 2 * math.pi)
    d2 = dec + sep * math.cos(th)
    if abs(d2) > 90 or sep > 20:
        with np.errstate(invalid='ignore'):
            ro, do = at().translate(ra, dec, sep, math.degrees(th))
        if not (math.isfinite(float(ro)) and math.isfinite(float(do))):
            return rand_point(rng)
        return float(ro) % 360.0, float(do)
    c = max(math.cos(math.radians(dec)), 1e-3)
    return ra + sep * math.sin(th) / c, d2


def rand_point(rng):
    return rng.uniform(0, 360), math.degrees(math.asin(rng.uniform(-1, 1)))


def gen_pairs(rng, n):
    fixed = [(0.0, 90.0, 123.0, 90.0), (10.0, 90.0, 200.0, -90.0), (0.0, 90.0, 50.0, 89.999), (33.0, -90.0, 33.0, -89.9999999),
             (359.9999, 10.0, 0.0001, 10.0), (359.5, -30.0, 0.5, -30.2), (0.0, 0.0, 360.0, 0.0), (12.5, -45.0, 12.5, -45.0),
             (0.0, 0.0, 180.0, 0.0), (10.0, 20.0, 190.001, -20.001), (0.0, 0.0, 1e-9, 0.0), (0.0, 0.0, 0.0, 1e-9),
             (200.0, 89.9999999, 20.0, 89.9999999), (350.0, 5.0, 370.0, 5.0), (-10.0, 5.0, 10.0, -5.0),
             (45.0, 0.0, 135.0, 0.0), (0.0, 0.0, 0.0, 179.0 - 90.0), (120.0, -60.0, 300.0, 59.0)] + ANTIPODES
    out = list(fixed)
    while len(out) < n:
        k = len(out)
        ra, dec = rand_point(rng)
        if k % 12 == 0:     # nearly antipodal: 180 - 1e-9 .. 180 - 1e-3 deg
            r2, d2 = offset_point(rng, ra, dec, 180.0 - 10 ** rng.uniform(-9, -3))
        elif k % 3 == 0:
            sep = 10 ** rng.uniform(-9, math.log10(180.0))
            r2, d2 = offset_point(rng, ra, dec, sep)
        elif k % 3 == 1:
            r2, d2 = rand_point(rng)
        else:   # RA wrap / near pole
            ra = rng.choice([359.99, 359.999999, 0.0, 0.000001, 180.0])
            dec = rng.choice([89.9, -89.99, 0.0, 45.0, -30.0, 89.999999])
            r2, d2 = offset_point(rng, ra, dec, 10 ** rng.uniform(-6, 1))
            if rng.random() < 0.5:
                r2 = r2 % 360.0
        d2 = max(-90.0, min(90.0, d2))
        out.append((float(ra), float(dec), float(r2), float(d2)))
    return out


TINY_SEPS = [1.05e-9, 2e-9, 5e-9, 1e-8, 2e-8, 5e-8, 1e-7, 2e-7, 5e-7, 1e-6]
KNOWN_TINY = [(10.0, 20.0, 10.0 + 2e-9, 20.0 + 2e-9), (10.0, 20.0, 10.0 + 1e-9, 20.0 - 1e-9), (359.9999999, -45.0, 359.9999999 - 5e-9, -45.0),
              (200.0, 60.0, 200.0 + 4e-9, 60.0), (0.0, 0.0, 1.5e-9, 1.5e-9), (123.0, -85.0, 123.0 - 3e-8, -85.0 - 1e-9)]


def gen_tiny_pairs(rng, n):
    """pairs 1e-9 .. 1e-6 deg apart at several position angles, latitudes and right ascensions (incl. RA wrap), and the same
    offsets seen from far away on the other side (separation 180 - BEAR_LIMIT .. : bear is compared up to BEAR_LIMIT only)"""
    out = list(KNOWN_TINY)
    k = 0
    while len(out) < n:
        sep = TINY_SEPS[k % len(TINY_SEPS)]
        pa = [43.2, 90.0, 135.0, 180.0, 225.0, 270.0, 315.0, 359.0, 1.0, rng.uniform(0, 360)][(k // len(TINY_SEPS) + k) % 10]
        dec = rng.choice([0.0, 20.0, -45.0, 60.0, 80.0, -85.0, 89.0, 1e-6, rng.uniform(-89.9, 89.9)])
        ra = rng.choice([0.0, 10.0, 123.456, 200.0, 359.9999999, rng.uniform(0, 360)])
        d2 = dec + sep * math.cos(math.radians(pa))
        r2 = ra + sep * math.sin(math.radians(pa)) / math.cos(math.radians(dec))
        k += 1
        if abs(d2) > 90:
            continue
        if k % 7 == 0:      # RA wrap
            r2 = r2 - 360.0 if r2 > 180 else r2 + 360.0
        out.append((float(ra), float(dec), float(r2), float(d2)))
    return out


def gen_translates(rng, n):
    fixed = [(10.0, 20.0, 0.0, 30.0), (10.0, 20.0, 1.0, 0.0), (10.0, 20.0, 1.0, 90.0), (10.0, 20.0, 1.0, 180.0), (10.0, 20.0, 1.0, 270.0),
             (359.9, -45.0, 0.5, 90.0), (0.1, 45.0, 0.5, 270.0), (50.0, 89.5, 1.0, 0.0), (50.0, 89.5, 1.0, 45.0), (50.0, -89.5, 2.0, 200.0),
             (0.0, 0.0, 179.0, 10.0), (0.0, 90.0, 10.0, 77.0), (123.0, -90.0, 10.0, 300.0), (0.0, 0.0, 1e-9, 359.0), (77.0, 33.0, 1e-6, 123.0),
             (10.0, 20.0, 70.0, 0.0), (10.0, -70.0, 20.0, 180.0), KNOWN_POLE_NAN, (0.0, -12.0, 102.0, 0.0), (33.0, 30.0, 60.0, 0.0)]
    out = list(fixed)
    while len(out) < n:
        ra, dec = rand_point(rng)
        if len(out) % 10 == 0:     # destination exactly on / next to a pole
            dec = float(rng.randrange(-89, 90))
            north = rng.random() < 0.5
            r = (90.0 - dec) if north else (90.0 + dec)
            if rng.random() < 0.5:
                r += rng.choice([-1, 1]) * 10 ** rng.uniform(-9, -2)
            out.append((float(ra), dec, float(r), 0.0 if north else 180.0))
            continue
        if rng.random() < 0.25:
            dec = rng.choice([89.0, -89.0, 85.0, -85.0, 0.0])
        r = 10 ** rng.uniform(-9, math.log10(179.5)) if rng.random() < 0.6 else rng.uniform(0, 179.5)
        th = rng.choice([0.0, 90.0, 180.0, 270.0, 359.999]) if rng.random() < 0.15 else rng.uniform(0, 360)
        out.append((float(ra), float(dec), float(r), float(th)))
    return out


def gen_angles(rng, n_dms, n_hms):
    """values for dec2dms / dec2hms incl. every carry boundary +- ulps"""
    dms, hms = [], []
    special = [0.0, -0.0, 0.9999999, -0.9999999, 59.9999999, 89.9999999, -89.9999999, 90.0, -90.0, 359.99999999, 360.0, 180.0,
               1e-300, -1e-300, 5e-324, 1e300, -1e-7, -0.5, -0.999, -1.0 / 720000, 1.0 / 720000, 12.0 + 59.0 / 60 + 59.995 / 3600,
               -(12.0 + 59.0 / 60 + 59.995 / 3600), 0.5 / 360000, 1.5 / 360000, 2.5 / 360000, 123.456789, -45.0, 45.5, 0.1, -0.1,
               float('nan'), float('inf'), float('-inf'), 719.9999999999, -359.99999999, -360.0, -1e-20, 400.0, -400.0, -720.0,
               23.999999999 * 15, 15.0, 1.0 / 24000, 0.5 / 24000, 1.5 / 24000, 2.5 / 24000, 359.9999999999999]
    for v in special:
        for w in ulp_neighbours(v, 2) if math.isfinite(v) else [v]:
            dms.append(w)
            hms.append(w)
    # exact boundaries k + 1/2 hundredths around minute / degree / hour carries
    for _ in range(max(40, n_dms // 20)):
        d, m = rng.randrange(0, 90), rng.randrange(0, 60)
        for sec_cs in (5999, 6000, 5950, 1, 0, rng.randrange(0, 6000)):
            base = Fraction(d * 360000 + m * 6000 + sec_cs) - Fraction(1, 2)
            x = float(base / 360000)
            sgn = rng.choice([1, -1])
            for w in ulp_neighbours(x, 2):
                dms.append(sgn * w)
        h, m = rng.randrange(0, 24), rng.randrange(0, 60)
        for sec_cs in (5999, 6000, 0, rng.randrange(0, 6000)):
            base = Fraction(h * 360000 + m * 6000 + sec_cs) - Fraction(1, 2)
            x = float(base / 24000)
            for w in ulp_neighbours(x, 2):
                hms.append(w)
    for d in range(0, 91, 10):      # x.9999999 and degree boundaries
        for w in ulp_neighbours(d + 0.9999999, 1) + ulp_neighbours(float(d), 1):
            dms.append(w if w <= 90 else 90.0)
            dms.append(-min(w, 90.0))
    for h in range(0, 24):
        for w in ulp_neighbours(h * 15 + 14.9999999, 1) + ulp_neighbours(h * 15.0, 1):
            hms.append(w)
    while len(dms) < n_dms:
        k = len(dms)
        if k % 4 == 0:
            dms.append(rng.uniform(-1, 1))                      # negative declinations between -1 and 0
        elif k % 4 == 1:
            dms.append(round(rng.uniform(-90, 90), rng.randrange(0, 8)))
        elif k % 4 == 2:
            dms.append(float(np.float32(rng.uniform(-90, 90))))
        else:
            dms.append(rng.uniform(-90, 90))
    while len(hms) < n_hms:
        k = len(hms)
        if k % 4 == 0:
            hms.append(rng.uniform(-360, 0))
        elif k % 4 == 1:
            hms.append(round(rng.uniform(0, 360), rng.randrange(0, 8)))
        elif k % 4 == 2:
            hms.append(360.0 - 10 ** rng.uniform(-13, 0))
        else:
            hms.append(rng.uniform(0, 360))
    return dms, hms


def flit(x):
    """Coq primitive-float literal of a binary64 value"""
    if math.isnan(x):
        return 'nan'
    if math.isinf(x):
        return 'infinity' if x > 0 else 'neg_infinity'
    h = float(x).hex()
    return f'({h})' if h.startswith('-') else h


# ------------------------------------------------------------------------------------------
def tol_of(v):
    """round-off budget: relative 2^-36 plus absolute 2^-46 (np.radians carries a relative error, i.e. an absolute error of up
    to 2*pi*2^-53 on an O(1) sine or cosine - visible at the poles and at RA differences of 360 deg)"""
    return rlit(abs(v) * 2.0 ** -36 + 2.0 ** -46)


def geometry_goals(pairs, trans):
    """per-case interval lemmas; returns (goals, metas)"""
    A = at()
    goals, metas = [], []
    for p in pairs:
        ra1, dec1, ra2, dec2 = p
        args = ' '.join(rlit(v) for v in p)
        g = float(A.gcd(*p))
        # gcd = deg (atan2 h z) with h = |u x v| = hypot y x, z = u.v (h^2 + z^2 = 1): the angle of (z, h) is within asin(tol) of g
        t = tol_of(math.sin(math.radians(g)))
        goals.append(f"Goal exists y x z, gcd {args} = deg (atan2 (hypot y x) z) /\\ "
                     f"Rabs (hypot y x * cos (rad {rlit(g)}) - z * sin (rad {rlit(g)})) <= {t} /\\ "
                     f"0 <= z * cos (rad {rlit(g)}) + hypot y x * sin (rad {rlit(g)}) + {t}. "
                     f"Proof. eexists; eexists; eexists; split; [apply gcd_eq|]. unfold sep_y, sep_x, sep_z, hypot, rad. "
                     f"split; interval with (i_prec 120). Qed.")
        metas.append(('gcd', p, g))
        b = float(A.bear(*p))
        y = math.sin(math.radians(ra2 - ra1)) * math.cos(math.radians(dec2))
        x = math.cos(math.radians(dec1)) * math.sin(math.radians(dec2)) - math.sin(math.radians(dec1)) * math.cos(math.radians(dec2)) \
            * math.cos(math.radians(ra2 - ra1))
        t = tol_of(math.hypot(x, y))
        goals.append(f"Goal exists y x, bear {args} = deg (atan2 y x) /\\ Rabs (y * cos (rad {rlit(b)}) - x * sin (rad {rlit(b)})) <= {t} /\\ "
                     f"0 <= x * cos (rad {rlit(b)}) + y * sin (rad {rlit(b)}) + {t}. "
                     f"Proof. eexists; eexists; split; [apply bear_eq|]. unfold bear_y, bear_x, rad. split; interval with (i_prec 120). Qed.")
        metas.append(('bear', p, b))
    for q in trans:
        ra, dec, r, th = q
        with np.errstate(invalid='ignore'):
            ro, do = A.translate(*q)
        ro, do = float(ro), float(do)
        if not (math.isfinite(ro) and math.isfinite(do)):
            continue        # reported by the oracle (translate_problem)
        args = ' '.join(rlit(v) for v in q)
        f = math.sin(math.radians(do))
        y = math.sin(math.radians(th)) * math.sin(math.radians(r)) * math.cos(math.radians(dec))
        x = math.cos(math.radians(r)) - math.sin(math.radians(dec)) * f
        t = tol_of(math.hypot(x, y))
        dl = f"(rad ({rlit(ro)} - {rlit(ra)}))"
        goals.append(f"Goal exists y x f, translate {args} = ({rlit(ra)} + deg (atan2 y x), deg (asin f)) /\\ "
                     f"Rabs (f - sin (rad {rlit(do)})) <= {tol_of(f)} /\\ Rabs (y * cos {dl} - x * sin {dl}) <= {t} /\\ "
                     f"0 <= x * cos {dl} + y * sin {dl} + {t}. "
                     f"Proof. eexists; eexists; eexists; split; [apply translate_eq|]. unfold tr_y, tr_x, tr_factor, rad. "
                     f"split; [|split]; interval with (i_prec 120). Qed.")
        metas.append(('translate', q, (ro, do)))
    return goals, metas


def run_geometry(ctx, model_ok, quick):
    rng = ctx.rng
    A = at()
    tiny = gen_tiny_pairs(rng, 120 if quick else 1200)
    # the first tiny pairs (the fixed ones + two random) also go through the certified correspondence
    pairs = gen_pairs(rng, 74 if quick else 420) + tiny[:8 if quick else 40]
    trans = gen_translates(rng, 50 if quick else 300)
    # ---- certified correspondence
    if model_ok:
        goals, metas = geometry_goals(pairs, trans)
        bad = vlib.coq_certify(ctx, HEADER, goals, shard=12 if quick else 30)
        for k, err in bad[:4]:
            what, a, v = metas[k] if 0 <= k < len(metas) else ('?', None, None)
            # a lemma that fails because the implementation's value is wrong (not the model): the independent 80-bit formulas
            # decide, with the oracle's tolerance; then the case is a concrete failing input
            viol = None
            if a is not None:
                msg = translate_problem(tuple(a)) if what == 'translate' else pair_problem(tuple(a))
                if msg:
                    viol = {'kind': 'translate' if what == 'translate' else 'pair', 'input': list(a), 'function': what,
                            'implementation_value': v, 'what': f'angle_tools.{what}{tuple(a)} = {v!r}; ' + msg}
            ctx.mismatch(f'certified correspondence: angle_tools.{what} differs from the generated Coq definition', {'args': a},
                         impl=v, model=err[-300:], is_violation=viol)
        ctx.oblige(f'certified correspondence: {len(goals)} interval lemmas (gcd and bear on {len(pairs)} coordinate pairs, translate on '
                   f'{len(trans)} cases)', not bad, f'{len(bad)} shards failed')
        ctx.traces += len(goals)
    # ---- the property on the implementation (independent 80-bit vector formulas)
    nbad = 0
    for k, p in enumerate(pairs):
        ref = ref_sep(*p)
        bucket = ('sep<1e-6' if ref < 1e-6 else 'sep<1e-2' if ref < 1e-2 else 'sep<10' if ref < 10 else 'sep<179.9' if ref <= 179.9
                  else 'sep>179.9' if ref < 180.0 - 1e-6 else 'sep>180-1e-6')
        ctx.case(key=('pair', k) if ref > 0 else None, bucket='pair ' + bucket, sample={'ra1,dec1,ra2,dec2': p} if k in (20, 21) else None)
        msg = pair_problem(p)
        if msg:
            nbad += 1
            ctx.mismatch('gcd / bear against the vector formulas', {'pair': p}, impl=msg, is_violation={'kind': 'pair', 'input': list(p), 'what': msg})
    ctx.oblige(f'oracle: gcd symmetric, in [0,180], within 1e-9 deg of atan2(|u x v|, u.v) for every separation 0..180 deg (incl. exactly '
               f'and nearly antipodal pairs), bear = position angle in the (north, east) frame, on {len(pairs)} pairs', nbad == 0)
    # ---- bearing at the lower end of the separations (1e-9 .. 1e-6 deg): scalar and array calls against the 80-bit position angle
    nbad = 0
    ta_ = np.array(tiny)
    bt = A.bear(ta_[:, 0], ta_[:, 1], ta_[:, 2], ta_[:, 3])
    for k, p in enumerate(tiny):
        ref = ref_sep(*p)
        ctx.case(key=('tiny', p), bucket='pair bear sep<2e-9' if ref < 2e-9 else 'pair bear sep<1e-8' if ref < 1e-8 else 'pair bear sep<=1e-6',
                 sample={'ra1,dec1,ra2,dec2': p, 'bear': float(A.bear(*p)), 'position angle (80-bit)': ref_pa(*p),
                         'tolerance': bear_tol(p, ref) if ref > 0 else None} if k in (0, 7) else None)
        msg = pair_problem(p)
        if not msg and BEAR_MIN <= ref and abs(p[1]) < 89.999 and not angdiff(float(bt[k]), ref_pa(*p)) <= bear_tol(p, ref):
            msg = (f'array call of bear gives {float(bt[k])!r} for {p} but the position angle in the (north, east) frame at point 1 '
                   f'(80-bit) is {ref_pa(*p)!r} (separation {ref:.3e} deg, tolerance {bear_tol(p, ref):.3e} deg)')
        if msg:
            nbad += 1
            if nbad <= 3:
                ctx.mismatch('bear against the position-angle formula at separations 1e-9 .. 1e-6 deg', {'pair': p}, impl=msg,
                             is_violation={'kind': 'pair', 'input': list(p), 'what': msg})
    ctx.oblige(f'oracle: bear = position angle in the (north, east) frame within max(1e-9, {BEAR_C:g} (ulp(ra) + ulp(dec)) / sin(sep)) deg on '
               f'{len(tiny)} pairs 1e-9 .. 1e-6 deg apart (10 position angles, latitudes 0 .. 89, RA wrap; scalar and array calls)',
               nbad == 0, f'{nbad} pairs fail')
    nbad = 0
    pts = [(p[0], p[1]) for p in pairs] + [(p[2], p[3]) for p in pairs]
    ntri = 200 if quick else 3000
    for k in range(ntri):
        if k % 2 == 0:
            t = (rng.choice(pts), rng.choice(pts), rng.choice(pts))
        else:   # nearly degenerate: q on the way from p to r
            ra, dec = rand_point(rng)
            s1, s2 = 10 ** rng.uniform(-6, 1.9), 10 ** rng.uniform(-6, 1.9)
            th = rng.uniform(0, 360)
            q = tuple(float(v) for v in A.translate(ra, dec, s1, th))
            r_ = tuple(float(v) for v in A.translate(ra, dec, min(s1 + s2, 179.0), th))
            t = ((ra, dec), q, r_)
        ctx.case(key=('tri', k), bucket='triangle')
        msg = triple_problem(t)
        if msg:
            nbad += 1
            ctx.mismatch('triangle inequality of gcd', {'points': t}, impl=msg, is_violation={'kind': 'triple', 'input': [list(x) for x in t], 'what': msg})
    ctx.oblige(f'oracle: triangle inequality on {ntri} triples (half nearly degenerate)', nbad == 0)
    nbad = 0
    nan_cases = []
    for k, q in enumerate(trans):
        ctx.case(key=('tr', k) if q[2] > 0 else None, bucket='translate r<1e-3' if q[2] < 1e-3 else 'translate',
                 sample={'ra,dec,r,theta': q} if k == 20 else None)
        msg = translate_problem(q)
        if msg and msg.endswith('is not finite'):
            nan_cases.append((q, msg))
        elif msg:
            nbad += 1
            ctx.mismatch('translate: distance r and initial bearing theta', {'case': q}, impl=msg,
                         is_violation={'kind': 'translate', 'input': list(q), 'what': msg})
    ctx.oblige(f'oracle: translate lands at distance r (1e-9 deg) and position angle theta on {len(trans)} cases', nbad == 0)
    if nan_cases:
        known = [t for kind, t in vlib.known_findings('C17') if kind == 'finding' and 'translate' in t and 'nan' in t.lower()]
        line = f'{len(nan_cases)}/{len(trans)} translate cases ending on a pole return nan, e.g. {nan_cases[0][1]}'
        print('C17 translate clause fails on the implementation: ' + line)
        ctx.notes.append('translate onto a pole: ' + line)
        rec = translate_problem(KNOWN_POLE_NAN)
        if known and rec and rec.endswith('is not finite'):
            ctx.known_lines.append(known[0])
            pole_ok = True
        else:
            pole_ok = False
            q, msg = nan_cases[0]
            ctx.mismatch('translate onto a pole returns nan', {'case': q}, impl=msg, is_violation={'kind': 'translate', 'input': list(q), 'what': msg})
        ctx.oblige('oracle: translate onto a pole is finite, or the failure is the recorded finding', pole_ok)
    # ---- arrays vs scalars
    arr = np.array(pairs)
    ga = A.gcd(arr[:, 0], arr[:, 1], arr[:, 2], arr[:, 3])
    ba = A.bear(arr[:, 0], arr[:, 1], arr[:, 2], arr[:, 3])
    ta = np.array(trans)
    with np.errstate(invalid='ignore'):
        tra, tdec = A.translate(ta[:, 0], ta[:, 1], ta[:, 2], ta[:, 3])
    nbad = 0
    for k, p in enumerate(pairs):
        g, b = float(A.gcd(*p)), float(A.bear(*p))
        # the atan2 form is well conditioned everywhere: array and scalar calls may differ by the last bits of sin / cos only
        if not abs(float(ga[k]) - g) <= 1e-12 or \
                (ref_sep(*p) > 1e-3 and ref_sep(*p) < BEAR_LIMIT and angdiff(float(ba[k]), b) > 1e-9):
            nbad += 1
            msg = f'array call gives gcd={float(ga[k])!r}, bear={float(ba[k])!r}; scalar call gives {g!r}, {b!r} for {p}'
            ctx.mismatch('array vs scalar arguments', {'pair': p}, impl=msg, is_violation={'kind': 'array', 'input': list(p), 'what': msg})
    for k, q in enumerate(trans):
        with np.errstate(invalid='ignore'):
            ro, do = A.translate(*q)
        if not (math.isfinite(float(ro)) and math.isfinite(float(do))):
            if math.isfinite(float(tra[k])) or math.isfinite(float(tdec[k])):
                nbad += 1
            continue
        if abs(float(tra[k]) - float(ro)) > 1e-9 or abs(math.sin(math.radians(float(tdec[k]))) - math.sin(math.radians(float(do)))) > 1e-14:
            nbad += 1
            msg = f'array call gives {float(tra[k])!r}, {float(tdec[k])!r}; scalar call gives {float(ro)!r}, {float(do)!r} for {q}'
            ctx.mismatch('array vs scalar arguments', {'case': q}, impl=msg, is_violation={'kind': 'array', 'input': list(q), 'what': msg})
    ctx.oblige(f'oracle: array arguments give the scalar results ({len(pairs)} pairs, {len(trans)} translations)', nbad == 0)
    # ---- near-antipodal accuracy clause (binary64 round-off; decided by execution only, strict)
    anti = list(ANTIPODES)
    for k in range(24 if quick else 200):
        ra, dec = rand_point(rng)
        if k % 4 == 0:      # the exact antipode of a binary64 point (ra + 180 and -dec are exact)
            anti.append((float(ra), float(dec), float(ra) + 180.0, -float(dec)))
            continue
        delta = 10 ** (rng.uniform(-9, -6) if k % 4 == 1 else rng.uniform(-9, -1))
        ro, do = A.translate(ra, dec, 180.0 - delta, rng.uniform(0, 360))
        if not (math.isfinite(float(ro)) and math.isfinite(float(do))):
            continue
        anti.append((float(ra), float(dec), float(ro), float(do)))
    failing = []
    for p in anti:
        ctx.case(key=('anti', p), bucket='pair sep>179.9')
        g = float(A.gcd(*p))
        ref = ref_sep(*p)
        if not abs(g - ref) <= 1e-9:
            failing.append((p, g, ref))
    if failing:
        failing.sort(key=lambda t: -abs(t[1] - t[2]))
        p, g, ref = failing[0]
        line = (f'{len(failing)}/{len(anti)} near-antipodal pairs: gcd differs from the vector formula by more than 1e-9 deg, worst '
                f'gcd{p} = {g!r} vs {ref!r} ({g - ref:.3e} deg)')
        print('C17 near-antipode clause fails on the implementation: ' + line)
        ctx.notes.append('near-antipode clause: ' + line)
        for p, g, ref in failing[:3]:
            ctx.mismatch('gcd against the vector formula near the antipode (1e-9 deg)', {'pair': p}, impl=g, model=ref,
                         is_violation={'kind': 'pair', 'input': list(p),
                                       'what': f'gcd{p} = {g!r}, angle between the unit vectors = {ref!r}: difference '
                                               f'{g - ref:.3e} deg > 1e-9'})
    ctx.oblige(f'oracle: {len(anti)} nearly and exactly antipodal pairs (180 - 1e-9 .. 180 deg) agree with the vector formula to 1e-9 deg',
               not failing)


def run_strings(ctx, model_ok, quick):
    rng = ctx.rng
    A = at()
    dms, hms = gen_angles(rng, 1000 if quick else 10500, 1000 if quick else 10500)
    # ---- oracle on the implementation
    nbad = 0
    for fn, vals, prob in (('dec2dms', dms, dms_problem), ('dec2hms', hms, hms_problem)):
        for x in vals:
            msg = prob(x)
            if msg:
                nbad += 1
                if nbad <= 3:
                    ctx.mismatch(f'{fn}: fields in range / round trip', {'x': x, 'hex': float(x).hex()}, impl=msg,
                                 is_violation={'kind': fn, 'input': float(x).hex(), 'what': msg})
    ctx.oblige(f'oracle: every printed field in range and parse(format x) within half a unit of the last digit on {len(dms)} + {len(hms)} '
               f'values', nbad == 0, f'{nbad} values fail')
    # scalar types: python float, numpy float64, numpy 0-d array
    nbad = 0
    for x in dms[:200]:
        if math.isfinite(x) and not (A.dec2dms(x) == A.dec2dms(np.float64(x)) and A.dec2hms(x) == A.dec2hms(np.float64(x))
                                     and A.dec2dms(x) == A.dec2dms(np.array(x))):
            nbad += 1
            ctx.mismatch('dec2dms/dec2hms: numpy scalar vs python float', {'x': x}, impl=(A.dec2dms(x), A.dec2dms(np.float64(x))),
                         is_violation={'kind': 'scalar-type', 'input': float(x).hex(), 'what': 'different strings for float and np.float64'})
    ctx.oblige('oracle: python float, numpy.float64 and 0-d array arguments print the same string (200 values)', nbad == 0)
    # ---- exact correspondence with the PrimFloat model
    if model_ok:
        exprs = [f'dec2dms_obs {flit(x)}' for x in dms] + [f'dec2hms_obs {flit(x)}' for x in hms]
        t1 = time.time()
        vals, err = vlib.coq_eval(ctx, IMPORTS_S, exprs, shard=400, workers=12)
        if vals is None:
            ctx.oblige('model evaluation of dec2dms / dec2hms (vm_compute)', False, err)
        else:
            ctx.notes.append(f'string model evaluation took {time.time() - t1:.1f}s')
            nbad = nhyp = 0
            hyp_ok = True
            for k, ((cs, ms), x) in enumerate(zip(vals, dms + hms)):
                is_dms = k < len(dms)
                fn = 'dec2dms' if is_dms else 'dec2hms'
                si = (A.dec2dms if is_dms else A.dec2hms)(x)
                carry = ms.endswith(':00.00') or ms.endswith('00:00.00')
                ctx.case(key=(fn, float(x).hex()) if math.isfinite(x) and x != 0 else None,
                         bucket=f'{fn} ' + ('non-finite' if not math.isfinite(x) else 'carry/zero seconds' if carry else
                                            'negative' if x < 0 else 'positive'),
                         sample={'x': x, 'hex': float(x).hex(), 'string': si} if k in (3, len(dms) + 3) else None)
                if si != ms:
                    nbad += 1
                    if nbad <= 3:
                        prob = (dms_problem if is_dms else hms_problem)(x)
                        ctx.mismatch(f'angle_tools.{fn} vs Model.Sexagesimal.{fn} (character by character)', {'x': x, 'hex': float(x).hex()},
                                     impl=si, model=ms,
                                     is_violation={'kind': fn, 'input': float(x).hex(), 'what': prob} if prob else None)
                # hypothesis of C17_roundtrip_half_unit on the model's rounded integer (exact)
                if math.isfinite(x) and cs >= 0:
                    fx = Fraction(x)
                    if is_dms:
                        xp, K = abs(fx), 360000
                    else:
                        xp, K = (Fraction(x + 360) if x < 0 else fx), 24000
                    e = abs(xp) * K * Fraction(1, 2 ** 53)
                    nhyp += 1
                    if abs(cs - xp * K) > Fraction(1, 2) + e:
                        hyp_ok = False
                        ctx.mismatch('rounding hypothesis |cs - x*K| <= 1/2 + x*K*2^-53', {'x': x, 'cs': cs})
                    if is_dms and abs(x) <= 90 and cs > 90 * 360000:
                        hyp_ok = False
                        ctx.mismatch('rounding hypothesis |x| <= 90 -> cs <= 90*360000', {'x': x, 'cs': cs})
            ctx.oblige(f'correspondence: dec2dms / dec2hms strings equal the model character by character on {len(vals)} values', nbad == 0,
                       f'{nbad} strings differ')
            ctx.hyp['single rounding: |cs - |x|*K| <= 1/2 + |x|*K*2^-53, and |x| <= 90 -> cs <= 90*360000 (binary64 product + nearest-even)'] = nhyp
            ctx.oblige('library hypothesis: the rounded number of hundredths is within 1/2 + 2^-53 relative of x*K (exact check)', hyp_ok)
            ctx.traces += len(vals)
    # ---- dec2dec / ra2dec parse: generated arithmetic, interval-certified on the implementation's output
    strs = []
    for x in dms[:12] + [-0.25, -0.75, 12.582438888, -45.0 - 1.0 / 7]:
        if math.isfinite(x) and abs(x) < 1e6:
            strs.append(A.dec2dms(x))
    strs += ['12:30', '-00:30', '+00 30 15.5', '-12 30 30.25', '23:59:59.99', '00:00:00.01', ' 05:06:07.08 ', '-0:0:1', '-00:00:00.00']
    goals, metas = [], []
    for s in strs:
        d = s.replace(':', ' ').split()
        if len(d) == 2:
            d.append('0.0')
        f0, f1, f2 = float(d[0]), float(d[1]), float(d[2])
        neg = d[0].startswith('-')
        v = float(A.dec2dec(s))
        fn = 'parse_neg' if neg else 'parse_pos'
        goals.append(f"Goal Rabs ({fn} {rlit(f0)} {rlit(f1)} {rlit(f2)} - {rlit(v)}) <= {rlit(max(abs(v), 1.0) * 2.0 ** -48)}. "
                     f"Proof. unfold {fn}. interval with (i_prec 100). Qed.")
        metas.append(('dec2dec', s, v))
        if not neg:
            w = float(A.ra2dec(s))
            goals.append(f"Goal Rabs (ra_of_parse ({fn} {rlit(f0)} {rlit(f1)} {rlit(f2)}) - {rlit(w)}) <= {rlit(max(abs(w), 1.0) * 2.0 ** -48)}. "
                         f"Proof. unfold ra_of_parse, {fn}. interval with (i_prec 100). Qed.")
            metas.append(('ra2dec', s, w))
        ctx.case(key=('parse', s), bucket='parse')
    if model_ok:
        bad = vlib.coq_certify(ctx, HEADER_S, goals, shard=15)
        for k, err in bad[:3]:
            what, s, v = metas[k] if 0 <= k < len(metas) else ('?', None, None)
            ctx.mismatch(f'certified correspondence: angle_tools.{what} differs from the generated parse arithmetic', {'string': s}, impl=v,
                         model=err[-300:], is_violation={'kind': 'parse', 'input': s, 'what': f'{what}({s!r}) = {v!r}'})
        ctx.oblige(f'certified correspondence: {len(goals)} interval lemmas for dec2dec / ra2dec on printed and hand-written strings '
                   f'(2 fields, blanks, negative zero degrees)', not bad)
        ctx.traces += len(goals)


def run(ctx, model_ok=True):
    quick = ctx.tier == 'quick'
    ctx.rule = ('geometry: coordinate pairs (fixed poles / RA wrap / exact and near antipodes + log-uniform separations 1e-9..180 deg + '
                '180 - 1e-9..1e-3 deg + uniform on the sphere) '
                'and translate cases; distinct = distinct input tuples, non-trivial = separation (or r) > 0. strings: distinct = distinct '
                'binary64 inputs (hex), non-trivial = finite and non-zero; carry boundaries (k - 1/2 hundredths, +-2 ulp) are generated for '
                'minute, degree and hour carries. triangle: distinct triples.')
    run_geometry(ctx, model_ok, quick)
    run_strings(ctx, model_ok, quick)


# ------------------------------------------------------------------------------------------
def search(ctx):
    rng = ctx.rng
    t0 = time.time()
    dms, hms = gen_angles(rng, 3000, 3000)
    for x in dms:
        m = dms_problem(x)
        if m:
            return {'kind': 'dec2dms', 'input': float(x).hex(), 'what': m}
    for x in hms:
        m = hms_problem(x)
        if m:
            return {'kind': 'dec2hms', 'input': float(x).hex(), 'what': m}
    while time.time() - t0 < 60:
        for p in gen_pairs(rng, 200) + gen_tiny_pairs(rng, 300):
            m = pair_problem(p)
            if m:
                return {'kind': 'pair', 'input': list(p), 'what': m}
        pole_known = any(kind == 'finding' and 'translate' in t and 'nan' in t.lower() for kind, t in vlib.known_findings('C17'))
        for q in gen_translates(rng, 200):
            m = translate_problem(q)
            if m and not (pole_known and m.endswith('is not finite')):
                return {'kind': 'translate', 'input': list(q), 'what': m}
        pts = [rand_point(rng) for _ in range(30)]
        for _ in range(300):
            t = (rng.choice(pts), rng.choice(pts), rng.choice(pts))
            m = triple_problem(t)
            if m:
                return {'kind': 'triple', 'input': [list(x) for x in t], 'what': m}
    return None


def replay(ctx, obj):
    fi = obj.get('failing_input')
    if not fi:
        print('replay file has no concrete input; broken obligations were:')
        for b in obj.get('broken', []):
            print('  ', b.get('what'), str(b.get('detail', b.get('case', '')))[:400])
        return 1
    kind, inp = fi.get('kind'), fi.get('input')
    A = at()
    if kind in ('dec2dms', 'dec2hms', 'scalar-type'):
        x = float.fromhex(inp)
        msg = dms_problem(x) if kind != 'dec2hms' else hms_problem(x)
        if kind == 'scalar-type' and not msg and A.dec2dms(x) != A.dec2dms(np.float64(x)):
            msg = 'different strings for float and np.float64'
        print(f'input x = {x!r} ({inp}); dec2dms -> {A.dec2dms(x)!r}, dec2hms -> {A.dec2hms(x)!r}')
    elif kind in ('pair', 'array', 'antipode'):
        msg = pair_problem(tuple(inp)) if len(inp) == 4 else None
    elif kind == 'triple':
        msg = triple_problem(tuple(tuple(x) for x in inp))
    elif kind == 'translate':
        msg = translate_problem(tuple(inp))
    elif kind == 'parse':
        v = A.dec2dec(inp)
        d = inp.replace(':', ' ').split() + ['0']
        val = (abs(Fraction(d[0])) + Fraction(d[1]) / 60 + Fraction(d[2]) / 3600) * (-1 if d[0].startswith('-') else 1)
        msg = None if abs(Fraction(v) - val) <= Fraction(1, 10 ** 12) * max(1, abs(val)) else f'dec2dec({inp!r}) = {v!r}, exact {float(val)!r}'
    else:
        msg = f'unknown kind {kind}'
    print('implementation:', msg or 'property holds on this input')
    return 1 if msg else 0
