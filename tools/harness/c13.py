"""C13 - sign symmetry and polarity filters of the source finder.

Proved (Props/C13.v): islands of -img = islands of img; the initial values / bounds / flags that
estimate_lmfit_parinfo hands to lmfit for a negated single-signed island are the mirror image; the polarity
filter partitions a catalogue with finite non-zero peaks; zero / NaN peaks survive every setting.
Tied here: translator (Gen/Polarity.v), exact correspondence of Model.Polarity.estimate with the real
estimate_lmfit_parinfo (islands of all kinds, mixed-sign ones included) and of Model.Polarity.catalogue with the
real filter loop of find_sources_in_image (fake fitted rows, zero / NaN peaks included).
Validated, not proved: the optimiser's equivariance - real finder on img / -img, all four option pairs.
"""
import json
import logging
import math
import os
import sys
import time
import warnings
from fractions import Fraction

import numpy as np

import vlib
from harness import c13x

os.environ.setdefault('TQDM_DISABLE', '1')
if vlib.REPO not in sys.path[:1]:
    sys.path.insert(0, vlib.REPO)

GEN = ['Islands', 'Polarity'] + c13x.GEN_EXTRA
EXTRA_TARGETS = ['Refuted/C13_mixed_island.vo'] + c13x.EXTRA_TARGETS
LEVEL = 'proof'
TRUSTED = [
    'Coq 8.16.1 kernel + vm_compute; all C13 theorems are axiom-free (QArith, lra over Q)',
    'translator tools/points_c13.py (Q back end: floats read as their exact binary64 value, + - * / min max abs as exact '
    'operations): isnegative test, the two kappa_sigma selections, sort key, nanmin/nanmax + nanargmin/nanargmax choice, '
    'summit signal-to-noise test and its box, `amp > 0` switch and the two pairs of amplitude bounds, island / maxxed / '
    'psf_vary flag rules, the polarity filter expression; it refuses any other statement in the summit loop and any '
    'dependence of the position / shape / angle parameters, vary switches and flags on pixel values',
    'translator, curvature block of _fit_island: arrays handed to maximum_filter / minimum_filter (the image cut-out, '
    'optionally np.where(np.isfinite(..), .., fill)), same array on both sides of the == that defines pmask / tmask, values '
    'written into icurve and their order, filter size; any other statement in the block is refused',
    'hand-written skeleton Model/Polarity.v (summit segmentation = 4-neighbour classes in raster order, stable sort, first '
    'extreme pixel, component numbering; NaN peak = every comparison false) tied by exact correspondence on the real '
    'estimate_lmfit_parinfo and on the real filter loop',
    'scipy.ndimage.label / find_objects (library hypothesis: default structure = 4-neighbour classes in raster order, validated '
    'through the correspondence on every case); numpy nanmax/nanargmax; lmfit.Parameters as a container',
    'NOT proved: equivariance of lmfit/scipy leastsq under negation (mirrored runs agree to round-off): validated on the real '
    'finder on every run',
]
ASSUMPTIONS = [
    'island pixels are finite and non-zero, rms > 0 (an island pixel has |value| >= outerclip * rms > 0)',
    'estimate correspondence: integer pixel values and power-of-two rms so that amplitudes are exact; the bounds of the '
    'implementation are compared with the exact rational value of the model within 2^-50 relative (two roundings)',
    'mirrored implementation runs of estimate_lmfit_parinfo are compared with == : IEEE round-to-nearest is sign-symmetric, '
    'so every expression of the negated branch is the exact negative',
    'curvature of the negated island is the negated curvature (a pixel that is at the same time the 3x3 maximum and minimum, '
    'i.e. a flat 3x3 patch, gets +1 in both polarities in _fit_island; such plateaus are not generated)',
    'recorded finding excluded from the metamorphic oracle: islands containing pixels of both signs',
    'finder comparison: rows, ids and flags are always compared strictly; a numeric difference above the tolerances is '
    'accepted only when one-ulp relative perturbations of the SAME image move that field of that row by at least a tenth of '
    'it (error columns: when they move the error estimate by more than 1e-3 of itself) - this happens for under-determined '
    'fits (e.g. 13 pixels, 12 free parameters after a blank block clipped a blend) where the LM end point is not determined '
    'to round-off; the number of rows accepted this way is reported in the evidence',
    'finder comparison tolerances: fluxes 1e-6 relative, positions 1e-6 pixel, shapes 1e-6 relative, errors 1e-5 relative, '
    'flags equal',
]
TRUSTED += c13x.TRUSTED_EXTRA
ASSUMPTIONS += c13x.ASSUMPTIONS_EXTRA
IMPORTS = ("From Coq Require Import ZArith QArith List Bool.\nFrom Aegean Require Import Lib.QBase Lib.Ext Gen.Polarity "
           "Model.IslandModel Model.Polarity.\nImport ListNotations.\nOpen Scope Z_scope.\n")
FINDING_TAG = 'mixed-sign island'

logging.disable(logging.CRITICAL)
warnings.simplefilter('ignore')


# ------------------------------------------------------------------------------------------
# estimate_lmfit_parinfo
_SF = {}


def estimator():
    if 'sf' not in _SF:
        from AegeanTools.source_finder import SourceFinder
        from AegeanTools.wcs_helpers import WCSHelper
        from fixtures import make_header
        sf = SourceFinder()
        sf.global_data.psfhelper = WCSHelper.from_header(make_header((64, 64)))
        _SF['sf'] = sf
    return _SF['sf']


PNAMES = ['amp', 'xo', 'yo', 'sx', 'sy', 'theta', 'flags']


def run_estimate(case, negate=False):
    """returns list of components: {name: (value, min, max, vary)}; [] when the function returns None"""
    from AegeanTools.wcs_helpers import Beam
    sgn = -1.0 if negate else 1.0
    data = sgn * np.array([[np.nan if v is None else float(v) for v in row] for row in case['data']], dtype=float)
    rms = np.array([[n / d for (n, d) in row] for row in case['rms']], dtype=float)
    curve = (-1 if negate else 1) * np.array(case['curve'], dtype=np.int8)
    ic = case['ic'][0] / case['ic'][1]
    oc = None if case['oc'] is None else case['oc'][0] / case['oc'][1]
    p = estimator().estimate_lmfit_parinfo(data, rms, curve, Beam(1, 1, 0), ic, oc, offsets=tuple(case['offsets']),
                                           max_summits=case['ms'])
    if p is None:
        return []
    out = []
    for i in range(int(p['components'].value)):
        out.append({n: (p[f'c{i}_{n}'].value, p[f'c{i}_{n}'].min, p[f'c{i}_{n}'].max, bool(p[f'c{i}_{n}'].vary))
                    for n in PNAMES})
    return out


def kind_of(case):
    vals = [v for row in case['data'] for v in row if v is not None]
    if all(v > 0 for v in vals):
        return 'positive'
    if all(v < 0 for v in vals):
        return 'negative'
    return 'mixed'


def mirror_problem(case):
    """oracle on the implementation alone (single-signed islands): the parameters for the negated island are the
    mirror image.  None or a message."""
    try:
        a, b = run_estimate(case), run_estimate(case, negate=True)
    except Exception as e:  # noqa
        return f'estimate_lmfit_parinfo raised {type(e).__name__}: {e}'
    if len(a) != len(b):
        return f'{len(a)} components for the island, {len(b)} for the negated island'
    for i, (ca, cb) in enumerate(zip(a, b)):
        va, lo, hi, vy = ca['amp']
        vb, lob, hib, vyb = cb['amp']
        if not (vb == -va and lob == -hi and hib == -lo and vy == vyb):
            return (f'component {i}: amp (value, min, max, vary) = {ca["amp"]} for the island and {cb["amp"]} for the negated '
                    f'island; expected ({-va}, {-hi}, {-lo}, {vy})')
        for n in PNAMES[1:]:
            if tuple(ca[n]) != tuple(cb[n]):
                return f'component {i}: {n} (value, min, max, vary) = {ca[n]} for the island, {cb[n]} for the negated island'
    return None


def qlit(n, d=1):
    n, d = int(n), int(d)
    return f'(({n}) # {d})' if n < 0 else f'({n} # {d})'


def g_island(case, negate=False):
    R, C = len(case['data']), len(case['data'][0])
    px = []
    for r in range(R):
        for c in range(C):
            v = case['data'][r][c]
            if v is None:
                continue
            s = -1 if negate else 1
            n, d = case['rms'][r][c]
            px.append(f'mkIpx ({r}, {c}) {qlit(s * v)} {qlit(n, d)} {qlit(s * case["curve"][r][c])}')
    ic = qlit(*case['ic'])
    oc = qlit(*(case['oc'] if case['oc'] is not None else case['ic']))
    ms = 'None' if case['ms'] is None else f'(Some {vlib.zlit(case["ms"])})'
    return f'obs_estimate {ic} {oc} {ms} ({R}, {C}) [' + '; '.join(px) + ']'


def close(fl, num, den, rel=2.0 ** -50):
    ex = Fraction(num, den)
    if not math.isfinite(fl):
        return False
    return abs(Fraction(float(fl)) - ex) <= abs(ex) * Fraction(rel) + Fraction(1, 10 ** 300)


def model_vs_impl(model, impl):
    """model = parsed obs_estimate value; impl = run_estimate output.  None or message"""
    isneg, comps = model
    if len(comps) != len(impl):
        return f'model has {len(comps)} components, implementation {len(impl)}'
    for i, (m, c) in enumerate(zip(comps, impl)):
        an, ad, (ln, ld), (hn, hd), pos, (idx, flag), (vary, psfv) = m
        if Fraction(float(c['amp'][0])) != Fraction(an, ad):
            return f'component {i}: amp {c["amp"][0]} vs model {an}/{ad}'
        if not close(c['amp'][1], ln, ld) or not close(c['amp'][2], hn, hd):
            return f'component {i}: amp bounds {c["amp"][1:3]} vs model {ln}/{ld}, {hn}/{hd}'
        if (int(c['xo'][0]), int(c['yo'][0])) != tuple(pos):
            return f'component {i}: peak pixel {(c["xo"][0], c["yo"][0])} vs model {pos}'
        if idx != i or int(c['flags'][0]) != flag:
            return f'component {i}: flags {c["flags"][0]} vs model {flag} (index {idx})'
        if [c['amp'][3], c['xo'][3], c['yo'][3]] != [vary] * 3 or [c['sx'][3], c['sy'][3], c['theta'][3]] != [psfv] * 3 \
                or c['flags'][3]:
            return f'component {i}: vary switches {[c[n][3] for n in PNAMES]} vs model vary={vary} psf_vary={psfv}'
    return None


CLIPS = [((5, 1), (4, 1)), ((5, 1), (4, 1)), ((5, 1), (5, 1)), ((6, 1), (3, 1)), ((9, 2), (7, 2)), ((5, 1), None)]


def gen_island(rng, style=None):
    style = style or rng.choice(['positive', 'negative', 'positive', 'negative', 'mixed', 'tiny', 'tinymixed'])
    ic, oc = rng.choice(CLIPS)
    if style.startswith('tiny'):
        R, C = rng.choice([(1, 1), (1, 2), (2, 1), (1, 4), (2, 2), (2, 3), (3, 2), (2, 5), (3, 3)])
    else:
        R, C = rng.randint(3, 6), rng.randint(3, 7)
    rconst = rng.choice([(1, 1), (1, 1), (2, 1), (1, 2)])
    per_pixel = rng.random() < 0.25
    rms = [[(rng.choice([(1, 1), (2, 1)]) if per_pixel else rconst) for _ in range(C)] for _ in range(R)]
    ocv = Fraction(*(oc or ic))
    icv = Fraction(*ic)
    sign0 = -1 if style == 'negative' else 1
    if style in ('mixed', 'tinymixed') or (style == 'tiny' and rng.random() < 0.5):
        sign0 = rng.choice([1, -1])
    data = [[None] * C for _ in range(R)]
    npk = rng.randint(1, 3)
    peaks = [(rng.randrange(R), rng.randrange(C), rng.choice([1, 1, 2, 3])) for _ in range(npk)]
    split = rng.randrange(C) if style in ('mixed', 'tinymixed') else None
    for r in range(R):
        for c in range(C):
            rv = Fraction(*rms[r][c])
            base = ocv * rv
            # levels around both thresholds (exact ties included), integers only
            lev = rng.choice([base, base, base + 1, base + 2, icv * rv, icv * rv + 1, icv * rv + 3])
            for (pr, pc, h) in peaks:
                d = abs(pr - r) + abs(pc - c)
                if d == 0:
                    lev = max(lev, icv * rv + 4 * h + rng.randint(0, 3))
                elif d == 1:
                    lev = max(lev, icv * rv + h)
            v = int(math.ceil(lev)) if rng.random() < 0.9 else int(math.floor(lev))
            if rng.random() < 0.04:
                v = max(1, int(base) - 1)          # a finite pixel below the flood level (robustness)
            s = sign0
            if split is not None and c >= split:
                s = -sign0
            if style in ('mixed', 'tinymixed') and rng.random() < 0.1:
                s = -s
            data[r][c] = s * max(v, 1)
    # blank some pixels (never all)
    for r in range(R):
        for c in range(C):
            edge = r in (0, R - 1) or c in (0, C - 1)
            if rng.random() < (0.3 if edge else 0.08):
                data[r][c] = None
    if all(v is None for row in data for v in row):
        data[rng.randrange(R)][rng.randrange(C)] = sign0 * int(icv * 2 + 3)
    if rng.random() < 0.6:
        curve = curvature(data)
    else:
        curve = [[rng.choice([-1, 0, 0, 1]) for _ in range(C)] for _ in range(R)]
    ms = rng.choice([None, None, None, None, 1, 2, 0])
    return {'data': data, 'rms': [[list(x) for x in row] for row in rms], 'curve': curve, 'ic': list(ic),
            'oc': None if oc is None else list(oc), 'ms': ms, 'offsets': [rng.randint(0, 20), rng.randint(0, 20)]}


def curvature(data):
    """-1 on 3x3 maxima, +1 on 3x3 minima of the island values (blank pixels count as 0), like _fit_island"""
    from scipy.ndimage import maximum_filter, minimum_filter
    a = np.array([[0.0 if v is None else float(v) for v in row] for row in data])
    cu = np.zeros(a.shape, dtype=int)
    pm = a == maximum_filter(a, size=3)
    tm = a == minimum_filter(a, size=3)
    cu[pm & ~tm] = -1
    cu[tm & ~pm] = 1
    return cu.tolist()


def estimate_cases(ctx):
    n = 300 if ctx.tier == 'quick' else 3000
    out = []
    # the recorded witnesses of Refuted/C13_mixed_island.v
    out.append(('witness', W1))
    out.append(('witness', W2))
    for _ in range(n):
        c = gen_island(ctx.rng)
        out.append((kind_of(c) + ('-tiny' if len(c['data']) * len(c['data'][0]) <= 9 else ''), c))
    return out


def _w(data, curve, ms=None):
    return {'data': data, 'rms': [[[1, 1]] * len(data[0]) for _ in data], 'curve': curve, 'ic': [5, 1], 'oc': [4, 1],
            'ms': ms, 'offsets': [10, 12]}


W1 = _w([[10, -6]], [[-1, 1]])
W2 = _w([[None, 5, 6, 5, None, None, None], [5, 8, 20, 9, -6, -5, None], [None, 6, 9, 7, -12, -6, None],
         [None, None, 5, 6, -7, -5, None]],
        [[0, 0, 0, 0, 0, 0, 0], [0, 0, -1, 0, 0, 0, 0], [0, 0, 0, 0, 1, 0, 0], [0, 0, 0, 0, 0, 0, 0]])


# ------------------------------------------------------------------------------------------
# the real filter loop, fed with fake fitted rows
def run_filter(ctx, rows_per_island, nopos, noneg):
    """rows_per_island: list (one entry per island) of lists of peak fluxes (floats).  Runs the real
    find_sources_in_image with _fit_island replaced; returns the surviving (island, source) ids."""
    from AegeanTools.models import ComponentSource
    from AegeanTools.source_finder import SourceFinder
    from fixtures import make_header, write_image
    k = len(rows_per_island)
    shape = (9, 8 * k + 4)
    img = np.zeros(shape)
    for i in range(k):
        img[4, 8 * i + 4] = 100.0
    path = os.path.join(ctx.work, f'filter_{k}.fits')
    if not os.path.exists(path):
        write_image(path, img, make_header(shape))

    class Stub(SourceFinder):
        def _fit_island(self, island_data):
            out = []
            for j, pk in enumerate(rows_per_island[island_data.isle_num - 1]):
                s = ComponentSource()
                s.island, s.source, s.peak_flux = island_data.isle_num, j, pk
                out.append(s)
            return out
    found = Stub().find_sources_in_image(path, rms=1.0, bkg=0.0, cores=1, innerclip=5, outerclip=4,
                                         nopositive=nopos, nonegative=noneg)
    return [(int(s.island), int(s.source)) for s in found]


def g_rows(rows_per_island):
    items = []
    for i, rows in enumerate(rows_per_island):
        for j, pk in enumerate(rows):
            if pk != pk:
                q = 'None'
            else:
                fr = Fraction(float(pk))
                q = f'(Some {qlit(fr.numerator, fr.denominator)})'
            items.append(f'(({i + 1}, {j}), {q})')
    return '[' + '; '.join(items) + ']'


def gen_rows(rng):
    k = rng.randint(1, 4)
    pool = [1.5, -2.25, 3.0, -0.5, 0.0, -0.0, float('nan'), 1e-300, -1e-300, 7.0, -7.0]
    return [[rng.choice(pool) for _ in range(rng.randint(0, 4))] for _ in range(k)]


# ------------------------------------------------------------------------------------------
# the real finder on img and -img
FIELDS_NEG = ['peak_flux', 'int_flux', 'background', 'residual_mean']
FIELDS_SAME = ['a', 'b', 'local_rms', 'residual_std', 'psf_a', 'psf_b']
FIELDS_ERR = ['err_ra', 'err_dec', 'err_peak_flux', 'err_int_flux', 'err_a', 'err_b', 'err_pa']
CDELT = 10.0 / 3600


def gauss(shape, A, r, c, sx, sy, th):
    yy, xx = np.indices(shape)
    t = math.radians(th)
    dr, dc = yy - r, xx - c
    u = dr * math.cos(t) + dc * math.sin(t)
    w = -dr * math.sin(t) + dc * math.cos(t)
    return A * np.exp(-0.5 * (u * u / (sx * sx) + w * w / (sy * sy)))


OFFS8 = [(-1, 0), (1, 0), (0, -1), (0, 1), (-1, -1), (-1, 1), (1, -1), (1, 1)]


def gen_image_spec(rng, mode=None, cells=(3, 4), blanks=False):
    CELL = 24
    shape = (cells[0] * CELL, cells[1] * CELL)
    rms0 = rng.choice([0.01, 0.5, 2.0])
    srcs = []
    blank = []        # blank (NaN) pixels: ['near', source index, dr, dc] | ['block', source index, side, gap] | ['border', w]
    for i in range(cells[0]):
        for j in range(cells[1]):
            what = rng.choice(['none', 'iso', 'iso', 'iso', 'blend', 'blend'])
            if what == 'none':
                continue
            sg = rng.choice([1, -1])
            r0, c0 = i * CELL + CELL / 2 + rng.uniform(-3, 3), j * CELL + CELL / 2 + rng.uniform(-3, 3)
            n = 1 if what == 'iso' else rng.choice([2, 2, 3])
            if blanks:
                kind = rng.choice(['near', 'near', 'near', 'block', 'toedge', 'none'])
                if kind == 'near':      # one blank pixel 4- or 8-adjacent to the extremum
                    dr, dc = rng.choice(OFFS8)
                    blank.append(['near', len(srcs), dr, dc])
                elif kind in ('block', 'toedge'):   # a blank block (or everything up to the image edge) clipping the source
                    blank.append([kind, len(srcs), rng.choice(['up', 'down', 'left', 'right']), rng.choice([1, 1, 2, 3])])
            for k in range(n):
                ang = rng.uniform(0, 2 * math.pi)
                d = 0 if k == 0 else rng.uniform(3.5, 5.0)
                srcs.append([sg * rms0 * rng.choice([8, 12, 20, 50, 150]) * rng.uniform(0.9, 1.1),
                             r0 + d * math.cos(ang), c0 + d * math.sin(ang),
                             rng.uniform(1.3, 1.9), rng.uniform(1.2, 1.5), rng.uniform(-80, 80)])
    if not srcs:
        srcs.append([20 * rms0, shape[0] / 2 + 0.3, shape[1] / 2 - 0.4, 1.6, 1.3, 30.0])
        srcs.append([-15 * rms0, CELL / 2, CELL / 2, 1.5, 1.3, -20.0])
    if blanks and rng.random() < 0.5:
        blank.append(['border', rng.choice([1, 2, 3])])
    mode = mode or rng.choice(['forced', 'maps'])
    return {'shape': list(shape), 'rms0': rms0, 'sources': srcs, 'noise_seed': rng.randrange(2 ** 31),
            'noise': 0.2, 'mode': mode,
            'bkg0': rng.choice([0.0, 0.0, 3.0, -1.5]) * rms0, 'ic': 5, 'oc': 4, 'blank': blank,
            'blank_in': 'bkg' if (blanks and mode == 'maps' and rng.random() < 0.3) else 'img'}


def blank_mask(spec):
    shape = tuple(spec['shape'])
    m = np.zeros(shape, dtype=bool)
    R, C = shape
    for b in spec.get('blank', []):
        if b[0] == 'border':
            w = b[1]
            m[:w, :] = True; m[-w:, :] = True; m[:, :w] = True; m[:, -w:] = True
            continue
        if b[1] >= len(spec['sources']):
            continue
        g = np.abs(gauss(shape, *spec['sources'][b[1]]))
        pr, pc = np.unravel_index(np.argmax(g), shape)
        if b[0] == 'near':
            r, c = pr + b[2], pc + b[3]
            if 0 <= r < R and 0 <= c < C:
                m[r, c] = True
        else:
            side, gap = b[2], b[3]
            far = max(R, C) if b[0] == 'toedge' else 6
            if side == 'up':
                m[max(pr - gap - far, 0):max(pr - gap + 1, 0), max(pc - 5, 0):pc + 6] = True
            elif side == 'down':
                m[pr + gap:pr + gap + far, max(pc - 5, 0):pc + 6] = True
            elif side == 'left':
                m[max(pr - 5, 0):pr + 6, max(pc - gap - far, 0):max(pc - gap + 1, 0)] = True
            else:
                m[max(pr - 5, 0):pr + 6, pc + gap:pc + gap + far] = True
    return m


def build_image(spec):
    shape = tuple(spec['shape'])
    sky = np.zeros(shape)
    for s in spec['sources']:
        sky += gauss(shape, *s)
    rs = np.random.RandomState(spec['noise_seed'])
    sky += rs.normal(0, spec['noise'] * spec['rms0'], shape) if spec['noise'] else 0.0
    yy, xx = np.indices(shape)
    if spec['mode'] == 'maps':
        rms = spec['rms0'] * (1.0 + 0.3 * xx / shape[1] + 0.2 * yy / shape[0])
        bkg = spec['bkg0'] + spec['rms0'] * (0.8 * np.sin(xx / 17.0) + 0.5 * yy / shape[0])
        # keep the sources at the same S/N as in the forced mode
        sky = sky * rms / spec['rms0']
    else:
        rms = np.full(shape, spec['rms0'])
        bkg = np.full(shape, spec['bkg0'])
    img = sky + bkg
    if spec.get('blank'):
        m = blank_mask(spec)
        if spec.get('blank_in') == 'bkg' and spec['mode'] == 'maps':
            bkg = bkg.copy()
            bkg[m] = np.nan
        else:
            img[m] = np.nan
    return img, bkg, rms


def mixed_islands(img, bkg, rms, ic, oc):
    """number of seeded islands (8-connected, |snr| >= oc) that contain pixels of both signs"""
    from scipy.ndimage import label
    d = np.nan_to_num(img - bkg)          # blank pixels belong to no island
    snr = np.abs(d) / rms
    lab, n = label(snr >= oc, structure=np.ones((3, 3)))
    bad = 0
    for i in range(1, n + 1):
        m = lab == i
        if np.any(snr[m] > ic) and np.any(d[m] > 0) and np.any(d[m] < 0):
            bad += 1
    return bad


def run_finder(ctx, spec, negate, nopos, noneg, tag='m', eps=0.0, record=None):
    from AegeanTools.source_finder import SourceFinder
    from fixtures import make_header, write_image
    img, bkg, rms = build_image(spec)
    if eps:
        img = img * (1.0 + eps)        # same image up to one-ulp-sized relative changes
    if negate:
        img, bkg = -img, -bkg
    h = make_header(img.shape)
    base = os.path.join(ctx.work, f'{tag}_{"n" if negate else "p"}')
    write_image(base + '.fits', img.astype(np.float64), h)
    kw = dict(cores=1, innerclip=spec['ic'], outerclip=spec['oc'], nopositive=nopos, nonegative=noneg)
    if spec['mode'] == 'maps':
        write_image(base + '_bkg.fits', bkg.astype(np.float64), h)
        write_image(base + '_rms.fits', rms.astype(np.float64), h)
        kw.update(bkgin=base + '_bkg.fits', rmsin=base + '_rms.fits')
    else:
        kw.update(rms=float(spec['rms0']), bkg=float(-spec['bkg0'] if negate else spec['bkg0']))
    finder = SourceFinder()
    if record is not None:
        class Rec(SourceFinder):
            def estimate_lmfit_parinfo(self, data, rmsimg, curve, *a, **k):
                off = k.get('offsets', (0, 0))
                record.append(((int(off[0]), int(off[1])), np.array(curve, dtype=int)))
                return SourceFinder.estimate_lmfit_parinfo(self, data, rmsimg, curve, *a, **k)
        finder = Rec()
    found = finder.find_sources_in_image(base + '.fits', **kw)
    rows = []
    for s in found:
        rows.append({n: (float(getattr(s, n)) if n not in ('island', 'source', 'flags') else int(getattr(s, n)))
                     for n in ['island', 'source', 'flags', 'ra', 'dec', 'pa'] + FIELDS_NEG + FIELDS_SAME + FIELDS_ERR})
    return rows


def rel(a, b, tol):
    if a == b:
        return True
    if not (math.isfinite(a) and math.isfinite(b)):
        return (a != a) and (b != b)
    return abs(a - b) <= tol * max(abs(a), abs(b))


def field_devs(a, b, negated):
    """per field: (|difference| between row a and row b (b read as the row of the negated image when `negated`),
    strict tolerance for that field)"""
    out = {}
    pk = abs(a['peak_flux'])

    def diff(x, y):
        if x == y or (x != x and y != y):
            return 0.0
        if not (math.isfinite(x) and math.isfinite(y)):
            return float('inf')
        return abs(x - y)
    for f in FIELDS_NEG:
        y = -b[f] if negated else b[f]
        tol = 1e-6 * max(abs(a[f]), abs(y))
        if f in ('background', 'residual_mean'):
            tol = max(tol, 1e-6 * pk)
        out[f] = (diff(a[f], y), max(tol, 1e-12 * pk))
    dx = (a['ra'] - b['ra']) * math.cos(math.radians(a['dec'])) / CDELT
    dy = (a['dec'] - b['dec']) / CDELT
    out['position [pixel]'] = (math.hypot(dx, dy), 1e-6)
    for f in FIELDS_SAME:
        tol = 1e-6 * max(abs(a[f]), abs(b[f]))
        if f == 'residual_std':
            tol = max(tol, 1e-9 * pk)       # noise-free fit: the residual is round-off only
        out[f] = (diff(a[f], b[f]), tol)
    dpa = abs(a['pa'] - b['pa']) % 180.0
    out['pa'] = (0.0 if rel(a['a'], a['b'], 1e-5) else min(dpa, 180.0 - dpa), 1e-6 * 180)
    for f in FIELDS_ERR:
        out[f] = (diff(a[f], b[f]), 1e-5 * max(abs(a[f]), abs(b[f])))
    return out


def rows_mirrored(p, n, sens=None):
    """None or message: catalogue n (of -img) is catalogue p with fluxes negated.  sens: {(island, source): {field:
    largest change of that field under one-ulp perturbations of the SAME image}} - a difference is then accepted when
    it is below 10 x that measured round-off sensitivity of the fit (rows, ids and flags are always compared strictly);
    the accepted rows are appended to sens['_used']"""
    if len(p) != len(n):
        return (f'{len(p)} rows for the image, {len(n)} for the negated image '
                f'(islands {[r["island"] for r in p]} vs {[r["island"] for r in n]})')
    for k, (a, b) in enumerate(zip(p, n)):
        tag = f'row {k} (island {a["island"]} source {a["source"]})'
        if (a['island'], a['source']) != (b['island'], b['source']):
            return f'{tag}: ids differ: {(b["island"], b["source"])}'
        if a['flags'] != b['flags']:
            return f'{tag}: flags {a["flags"]} vs {b["flags"]}'
        for f, (d, tol) in field_devs(a, b, True).items():
            if d <= tol:
                continue
            s = (sens or {}).get((a['island'], a['source']), {}).get(f, 0.0)
            unstable_err = f in FIELDS_ERR and s > 1e-3 * max(abs(a[f]), abs(b[f]))   # covariance is round-off noise:
            if sens is not None and (d <= 10 * s or unstable_err):                   # value <-> -1 flips included
                sens['_used'].add((a['island'], a['source']))
                continue
            extra = f'; one-ulp perturbations of the image change it by {s:.3g}' if sens is not None else ''
            return (f'{tag}: {f} differs by {d:.3g} (tolerance {tol:.3g}): {a.get(f)!r} vs {b.get(f)!r} for the negated '
                    f'image{extra}')
    return None


def roundoff_sensitivity(ctx, spec, base, tag):
    """how much every field of every row moves when the SAME image is perturbed by one / four ulp (relative)"""
    sens = {'_used': set()}
    for eps in (2.0 ** -52, -2.0 ** -52, 2.0 ** -50):
        q = {(r['island'], r['source']): r for r in run_finder(ctx, spec, False, False, False, tag, eps=eps)}
        for r in base:
            key = (r['island'], r['source'])
            if key in q:
                for f, (d, _) in field_devs(r, q[key], False).items():
                    sens.setdefault(key, {})
                    sens[key][f] = max(sens[key].get(f, 0.0), d)
    return sens


LAST_CURVES = [[]]


def curves_mirrored(spec, cp, cn):
    """the curvature maps that _fit_island hands to estimate_lmfit_parinfo for img and -img: same islands, opposite
    sign at every pixel that is not a plateau (3x3 window constant)"""
    if [(o, c.shape) for o, c in cp] != [(o, c.shape) for o, c in cn]:
        return (f'_fit_island estimates {len(cp)} islands for the image and {len(cn)} for the negated image (or their boxes '
                f'differ): {[o for o, _ in cp][:12]} vs {[o for o, _ in cn][:12]}')
    img, bkg, _ = build_image(spec)
    d = img - bkg
    for (o, a), (_, b) in zip(cp, cn):
        bad = np.argwhere(b != -a)
        for r, c in bad:
            R, C = o[0] + r, o[1] + c
            w = d[max(R - 1, 0):R + 2, max(C - 1, 0):C + 2]
            w = w[np.isfinite(w)]
            if a[r, c] == b[r, c] and w.size and np.all(w == w[0]):
                continue       # plateau: both polarities get the value written last
            return (f'curvature of the island at {o}: pixel ({int(R)}, {int(C)}) has curvature {int(a[r, c])} in the image and '
                    f'{int(b[r, c])} in the negated image (expected {-int(a[r, c])})')
    return None


def curvature_windows(spec, curves, limit):
    """(window as ranks, centre rank, real curvature) for island pixels whose 3x3 window is inside the image, NaN-free,
    and whose island box does not touch the image border"""
    img, bkg, _ = build_image(spec)
    d = img - bkg
    out = []
    for (o, cu) in curves:
        r0, c0 = o
        r1, c1 = r0 + cu.shape[0], c0 + cu.shape[1]
        if r0 < 1 or c0 < 1 or r1 > d.shape[0] - 1 or c1 > d.shape[1] - 1:
            continue
        for r in range(cu.shape[0]):
            for c in range(cu.shape[1]):
                w = d[r0 + r - 1:r0 + r + 2, c0 + c - 1:c0 + c + 2].ravel()
                if not np.all(np.isfinite(w)):
                    continue
                ranks = {v: k for k, v in enumerate(sorted(set(w.tolist())))}
                out.append(([ranks[v] for v in w.tolist()], ranks[w[4]], int(cu[r, c])))
                if len(out) >= limit:
                    return out
    return out


def filters_exchange_problem(rng, n):
    """library hypothesis of C13_curvature_mirrored on the real scipy filters (NaN and +-inf included)"""
    from scipy.ndimage import maximum_filter, minimum_filter
    rs = np.random.RandomState(rng.randrange(2 ** 31))
    for _ in range(n):
        a = rs.randint(-4, 5, size=(rs.randint(1, 8), rs.randint(1, 8))).astype(float)
        m = rs.rand(*a.shape)
        a[m < 0.15] = np.nan
        a[(m > 0.15) & (m < 0.2)] = np.inf
        a[(m > 0.2) & (m < 0.25)] = -np.inf
        for size in (3,):
            x, y = minimum_filter(-a, size=size), -maximum_filter(a, size=size)
            u, v = maximum_filter(-a, size=size), -minimum_filter(a, size=size)
            if not (np.array_equal(x, y, equal_nan=True) and np.array_equal(u, v, equal_nan=True)):
                return f'minimum_filter(-a) != -maximum_filter(a) for a = {a.tolist()}'
    return None


def ident(r):
    return (r['island'], r['source'], r['peak_flux'], r['ra'], r['dec'], r['int_flux'], r['flags'])


def image_problem(ctx, spec, tag='m'):
    """the whole C13 oracle on the real finder for one image.  returns (message or None, stats)"""
    cats = {}
    curves = {False: [], True: []}
    for negate in (False, True):
        for nopos in (False, True):
            for noneg in (False, True):
                cats[(negate, nopos, noneg)] = run_finder(ctx, spec, negate, nopos, noneg, tag,
                                                          record=curves[negate] if not (nopos or noneg) else None)
    LAST_CURVES[:] = [curves[False]]
    msg = curves_mirrored(spec, curves[False], curves[True])
    if msg:
        return msg, {'rows': len(cats[(False, False, False)]), 'neg_rows': 0, 'blend_rows': 0}
    stats = {'rows': len(cats[(False, False, False)]),
             'neg_rows': sum(1 for r in cats[(False, False, False)] if r['peak_flux'] < 0),
             'blend_rows': sum(1 for r in cats[(False, False, False)] if r['source'] > 0)}
    for negate in (False, True):
        both = cats[(negate, False, False)]
        bad = [r for r in both if not (math.isfinite(r['peak_flux']) and r['peak_flux'] != 0)]
        if bad:
            return f'the finder produced a row with peak flux {bad[0]["peak_flux"]!r} (island {bad[0]["island"]})', stats
        pos, neg, none = cats[(negate, False, True)], cats[(negate, True, False)], cats[(negate, True, True)]
        who = 'negated image' if negate else 'image'
        if [ident(r) for r in pos] != [ident(r) for r in both if r['peak_flux'] > 0]:
            return f'{who}: nonegative=True catalogue is not the positive rows of the full catalogue, in order', stats
        if [ident(r) for r in neg] != [ident(r) for r in both if r['peak_flux'] < 0]:
            return f'{who}: nopositive=True catalogue is not the negative rows of the full catalogue, in order', stats
        if none:
            return f'{who}: nopositive=True, nonegative=True leaves {len(none)} rows', stats
        if set(map(ident, pos)) & set(map(ident, neg)):
            return f'{who}: positive-only and negative-only catalogues share a row', stats
    sens = None
    for (np_, nn_) in [(False, False), (False, True), (True, False)]:
        # positive-only of img corresponds to negative-only of -img
        msg = rows_mirrored(cats[(False, np_, nn_)], cats[(True, nn_, np_)], sens)
        if msg and sens is None and 'rows for the image' not in msg and 'ids differ' not in msg and ': flags ' not in msg:
            # a numeric difference above round-off: is the fit itself that sensitive to round-off?
            sens = roundoff_sensitivity(ctx, spec, cats[(False, False, False)], tag)
            msg = rows_mirrored(cats[(False, np_, nn_)], cats[(True, nn_, np_)], sens)
        if msg:
            return (f'catalogue(img, nopositive={np_}, nonegative={nn_}) vs catalogue(-img, nopositive={nn_}, '
                    f'nonegative={np_}): {msg}'), stats
    stats['roundoff_rows'] = len(sens['_used']) if sens else 0
    return None, stats


MIXED_SPEC = {'shape': [48, 64], 'rms0': 0.01, 'sources': [[1.0, 24.0, 28.0, 2.0, 1.5, 20.0], [-0.8, 24.0, 34.0, 2.0, 1.5, 20.0]],
              'noise_seed': 0, 'noise': 0.0, 'mode': 'forced', 'bkg0': 0.0, 'ic': 5, 'oc': 4}


def mixed_finding_reproduces(ctx):
    """recorded finding: (estimate witnesses differ from the mirror image, finder message on MIXED_SPEC)"""
    e1, e2 = mirror_problem(W1), mirror_problem(W2)
    p = run_finder(ctx, MIXED_SPEC, False, False, False, 'k')
    n = run_finder(ctx, MIXED_SPEC, True, False, False, 'k')
    return e1, e2, rows_mirrored(p, n), p, n


# ------------------------------------------------------------------------------------------
def run(ctx, model_ok=True):
    quick = ctx.tier == 'quick'
    ctx.rule = ('(1) estimate_lmfit_parinfo on generated islands 1x1..6x7 (integer values with exact ties at both clips, blank '
                'pixels, constant and per-pixel rms, curvature from 3x3 filters or random, clips 5/4 5/5 6/3 4.5/3.5 and '
                'outerclip=None, max_summits None/0/1/2; all-positive, all-negative, mixed-sign and tiny islands): every lmfit '
                'parameter compared with the Coq model and, for single-signed islands, with the run on the negated island. '
                '(2) the filter loop of find_sources_in_image on fake fitted rows (+, -, 0.0, -0.0, NaN, denormal-small peaks) for '
                'the four settings vs the Coq model. (3) the real finder on img and -img: 3x4 cells of isolated / blended '
                'sources of either sign, S/N 8-150, noise 0.2 rms, forced rms/bkg or rms/bkg maps with gradients; half of the '
                'images have blank (NaN) pixels in the image or in the background map: one blank pixel 4- or 8-adjacent to the '
                'extremum of positive and negative sources, blank blocks clipping a source, blank to the image edge, blank '
                'borders; 8 runs per image; catalogues and the curvature maps handed to estimate_lmfit_parinfo are compared. '
                '(4) curvature of island pixels vs the Coq model; scipy rank filters under negation. distinct = distinct inputs; non-trivial = at least one component / one row.')
    # ---- (1) estimate
    t0 = time.time()
    cs = estimate_cases(ctx)
    exprs, impls, metas = [], [], []
    nmixed_asym = 0
    for bucket, case in cs:
        try:
            a = run_estimate(case)
            b = run_estimate(case, negate=True)
        except Exception as e:  # noqa
            ctx.mismatch('estimate_lmfit_parinfo raised', case, impl=f'{type(e).__name__}: {e}')
            continue
        k = kind_of(case)
        ctx.case(key=json.dumps(case, sort_keys=True) if (a or b) else None, bucket='estimate:' + bucket,
                 sample={'island': case['data'], 'components': len(a)} if len(ctx.samples) < 2 and a else None)
        if k != 'mixed':
            msg = mirror_problem(case)
            if msg:
                viol = None
                if ctx.counterexample is None:
                    small = shrink_island(case)
                    viol = {'kind': 'estimate', 'case': small, 'what': mirror_problem(small)}
                ctx.mismatch('estimate_lmfit_parinfo: negated single-signed island is not the mirror image', case, impl=msg,
                             is_violation=viol)
        elif mirror_problem(case):
            nmixed_asym += 1
        exprs += [g_island(case), g_island(case, negate=True)]
        impls += [a, b]
        metas += [(case, False), (case, True)]
    ctx.notes.append(f'{len(cs)} islands (x2 polarities) on estimate_lmfit_parinfo in {time.time() - t0:.1f}s; '
                     f'{nmixed_asym} mixed-sign islands are not mirrored (recorded finding)')
    # ---- (2) filter
    rng = ctx.rng
    fcases = [[[1.5, -2.25], [0.0], [float('nan'), -7.0, 3.0]], [[-0.0, 1e-300, -1e-300]], [[]]]
    fcases += [gen_rows(rng) for _ in range(6 if quick else 60)]
    fexprs, fimpl = [], []
    for rows in fcases:
        for nopos in (False, True):
            for noneg in (False, True):
                try:
                    got = run_filter(ctx, rows, nopos, noneg)
                except Exception as e:  # noqa
                    ctx.mismatch('filter loop raised', {'rows': repr(rows)}, impl=f'{type(e).__name__}: {e}')
                    continue
                fexprs.append(f'map fst (catalogue _ snd {"true" if nopos else "false"} {"true" if noneg else "false"} '
                              f'{g_rows(rows)})')
                fimpl.append((rows, nopos, noneg, got))
        ctx.case(key='filter' + repr(rows) if any(rows) else None, bucket='filter')
    if model_ok:
        vals, err = vlib.coq_eval(ctx, IMPORTS, exprs + fexprs, shard=120, workers=8)
        if vals is None:
            ctx.oblige('model evaluation (vm_compute) of Model.Polarity', False, err)
        else:
            nbad = 0
            for v, iv, (case, neg) in zip(vals[:len(exprs)], impls, metas):
                msg = model_vs_impl(v, iv)
                if msg:
                    nbad += 1
                    if nbad <= 3:
                        ctx.mismatch('estimate_lmfit_parinfo vs Model.Polarity.estimate', {'case': case, 'negated': neg},
                                     impl=msg, model=repr(v)[:400])
            ctx.oblige(f'correspondence: {len(exprs)} islands, every component (amp, bounds, peak pixel, index, flags, vary) '
                       f'equal to the model', nbad == 0, f'{nbad} islands differ')
            fbad = 0
            for v, (rows, nopos, noneg, got) in zip(vals[len(exprs):], fimpl):
                mv = [tuple(x) for x in v]
                if mv != got:
                    fbad += 1
                    if fbad <= 3:
                        ctx.mismatch('polarity filter vs Model.Polarity.catalogue',
                                     {'rows': repr(rows), 'nopositive': nopos, 'nonegative': noneg}, impl=got, model=mv)
            ctx.oblige(f'correspondence: {len(fimpl)} filter runs (zero / NaN peaks included) equal to the model', fbad == 0,
                       f'{fbad} runs differ')
            ctx.traces = len(exprs) + len(fimpl)
            ctx.hyp['scipy.ndimage.label (default structure) = 4-neighbour classes in raster order'] = len(exprs)
    # the zero / NaN row on the real filter: survives both single-polarity settings
    z = [[0.0, float('nan'), 2.0, -2.0]]
    surv = [run_filter(ctx, z, a_, b_) for (a_, b_) in [(False, True), (True, False), (True, True)]]
    ctx.oblige('real filter: rows with peak 0.0 / NaN are in the positive-only, negative-only and empty-setting catalogues '
               '(as C13_filter_zero_nan_survives states)',
               surv == [[(1, 0), (1, 1), (1, 2)], [(1, 0), (1, 1), (1, 3)], [(1, 0), (1, 1)]], surv)
    # ---- (3) the real finder on img / -img
    t1 = time.time()
    nimg = 12 if quick else 70
    done = excluded = rows_total = negrows = blendrows = roundoff = nblank = 0
    cwin = []
    modes = ['forced', 'maps']
    budget = 100 if quick else 900
    for i in range(nimg):
        if time.time() - t1 > budget:
            ctx.notes.append(f'finder loop stopped after {i} images (time budget)')
            break
        spec = gen_image_spec(rng, modes[i % 2], blanks=(i % 4 >= 2))
        img, bkg, rms = build_image(spec)
        if mixed_islands(img, bkg, rms, spec['ic'], spec['oc']):
            excluded += 1
            continue
        msg, st = image_problem(ctx, spec)
        if len(cwin) < 1500:
            cwin += curvature_windows(spec, LAST_CURVES[0], 300)
        done += 1
        rows_total += st['rows']; negrows += st['neg_rows']; blendrows += st['blend_rows']
        roundoff += st.get('roundoff_rows', 0); nblank += 1 if spec.get('blank') else 0
        ctx.case(key=json.dumps(spec, sort_keys=True) if st['rows'] else None, bucket='finder:' + spec['mode'] + ('+blanks' if spec.get('blank') else ''),
                 sample={'mode': spec['mode'], 'sources': len(spec['sources']), 'rows': st['rows']} if i < 2 else None)
        if msg:
            small = shrink_image(ctx, spec)
            m2, _ = image_problem(ctx, small)
            ctx.mismatch('real finder: sign symmetry / filter partition', small, impl=m2 or msg,
                         is_violation={'kind': 'image', 'spec': small, 'what': m2 or msg})
    ctx.hyp['optimiser equivariance: catalogue(-img) = mirror of catalogue(img) to 1e-6 (8 finder runs per image)'] = done
    nfe = 300 if quick else 3000
    fe = filters_exchange_problem(rng, nfe)
    ctx.hyp['scipy maximum_filter / minimum_filter are exchanged by negation (NaN, +-inf included)'] = nfe
    ctx.oblige('library hypothesis: minimum_filter(-a) = -maximum_filter(a) and vice versa (hypothesis of C13_curvature_mirrored)',
               fe is None, fe)
    if model_ok and cwin:
        cex = ['curve_gen max_ev min_ev [' + '; '.join(f'Fin {v}' for v in w) + f'] (Fin {c})' for w, c, _ in cwin]
        cv, err = vlib.coq_eval(ctx, IMPORTS, cex, shard=400, workers=8)
        if cv is None:
            ctx.oblige('model evaluation (vm_compute) of Model.Polarity.curve_gen', False, err)
        else:
            cbad = [(w, c, real, m) for (w, c, real), m in zip(cwin, cv) if real != m]
            for (w, c, real, m) in cbad[:3]:
                ctx.mismatch('_fit_island curvature vs Model.Polarity.curve_gen', {'window_ranks': w, 'centre': c}, impl=real, model=m)
            ctx.oblige(f'correspondence: curvature of {len(cwin)} island pixels (NaN-free 3x3 windows of the finder runs) equal to '
                       f'the model', not cbad, f'{len(cbad)} pixels differ')
            ctx.traces += len(cwin)
    ctx.hyp['finite non-zero peak flux of every catalogue row'] = rows_total * 2
    ctx.oblige(f'hypothesis validation: {done} images ({rows_total} rows, {negrows} negative, {blendrows} in blends) mirrored '
               f'row by row for all option pairs; filter partition exact', done > 0 and not any(
                   f.get('what', '').startswith('real finder') for f in ctx.failures), 'see mismatches')
    ctx.notes.append(f'{nblank} of the images have blank pixels (beside extrema, clipping blocks, borders); {roundoff} rows were '
                     f'accepted only because one-ulp perturbations of the same image move them more than the mirrored run '
                     f'differs (under-determined fits)')
    ctx.extra['rows_accepted_by_roundoff_sensitivity'] = roundoff
    ctx.notes.append(f'{done} images x 8 finder runs in {time.time() - t1:.1f}s; {excluded} generated images skipped because an '
                     f'island had both signs')
    # ---- recorded finding: islands with pixels of both signs
    e1, e2, fm, p, n = mixed_finding_reproduces(ctx)
    if e1 or e2 or fm:
        text = [t for k_, t in vlib.known_findings('C13') if k_ == 'finding' and FINDING_TAG in t]
        if text and e1 and e2 and fm:
            ctx.known_lines.append(text[0])
        else:
            what = (f'island with pixels of both signs: estimate_lmfit_parinfo on [[10, -6]] (rms 1, clips 5/4): {e1}; '
                    f'finder on two adjacent Gaussians +1.0 at (24,28) and -0.8 at (24,34), rms 0.01: {fm}')
            ctx.mismatch('mixed-sign island: the negated image does not give the mirrored catalogue '
                         '(Refuted/C13_mixed_island.v)', MIXED_SPEC, impl=what,
                         is_violation={'kind': 'image', 'spec': MIXED_SPEC, 'what': what,
                                       'catalogue': [(r['peak_flux'], r['ra'], r['dec']) for r in p],
                                       'catalogue_of_negated': [(r['peak_flux'], r['ra'], r['dec']) for r in n]})
    else:
        ctx.notes.append('the recorded mixed-sign-island finding no longer reproduces on the implementation')
    # ---- command line tie: the argument glue of AegeanTools/CLI vs the library call that --help promises
    from harness import cli_cases
    cli_cases.hook(ctx, cli_cases.aegean_polarity_cli, 'aegean --negative/--nopositive')
    c13x.run_extra(ctx, model_ok)


def drop_source(spec, k):
    new = dict(spec)
    new['sources'] = spec['sources'][:k] + spec['sources'][k + 1:]
    bl = []
    for b in spec.get('blank', []):
        if b[0] == 'border':
            bl.append(b)
        elif b[1] != k:
            bl.append([b[0], b[1] - (1 if b[1] > k else 0)] + list(b[2:]))
    new['blank'] = bl
    return new


def shrink_image(ctx, spec):
    """drop sources / blank pixels / noise while the oracle still fails"""
    cur = dict(spec)
    changed = True
    t0 = time.time()
    while changed and time.time() - t0 < 90:
        changed = False
        for k in range(len(cur['sources'])):
            if len(cur['sources']) == 1:
                break
            new = drop_source(cur, k)
            if image_problem(ctx, new, 's')[0]:
                cur = new
                changed = True
                break
        if changed:
            continue
        for k in range(len(cur.get('blank', []))):
            new = dict(cur)
            new['blank'] = cur['blank'][:k] + cur['blank'][k + 1:]
            if image_problem(ctx, new, 's')[0]:
                cur = new
                changed = True
                break
        if not changed and cur['noise']:
            new = dict(cur)
            new['noise'] = 0.0
            if image_problem(ctx, new, 's')[0]:
                cur = new
                changed = True
    return cur


def shrink_island(case):
    cur = case
    changed = True
    while changed:
        changed = False
        R, C = len(cur['data']), len(cur['data'][0])
        for r in range(R):
            for c in range(C):
                if cur['data'][r][c] is None:
                    continue
                new = json.loads(json.dumps(cur))
                new['data'][r][c] = None
                if any(v is not None for row in new['data'] for v in row) and kind_of(new) != 'mixed' and mirror_problem(new):
                    cur = new
                    changed = True
                    break
            if changed:
                break
    return cur


def search(ctx):
    rng = ctx.rng
    extra = c13x.search_extra(ctx)
    if extra:
        return extra
    t0 = time.time()
    while time.time() - t0 < 40:
        case = gen_island(rng, rng.choice(['positive', 'negative', 'tiny']))
        if kind_of(case) == 'mixed':
            continue
        if mirror_problem(case):
            small = shrink_island(case)
            return {'kind': 'estimate', 'case': small, 'what': mirror_problem(small)}
    # the filter on a fixed set of rows
    rows = [[1.5, -2.25, 3.0], [-7.0]]
    exp = {(False, False): [(1, 0), (1, 1), (1, 2), (2, 0)], (False, True): [(1, 0), (1, 2)],
           (True, False): [(1, 1), (2, 0)], (True, True): []}
    for (a, b), e in exp.items():
        got = run_filter(ctx, rows, a, b)
        if got != e:
            return {'kind': 'filter', 'rows': rows, 'nopositive': a, 'nonegative': b,
                    'what': f'filter kept rows {got}, expected {e}'}
    while time.time() - t0 < 150:
        spec = gen_image_spec(rng, cells=(2, 3), blanks=rng.random() < 0.6)
        img, bkg, rms = build_image(spec)
        if mixed_islands(img, bkg, rms, spec['ic'], spec['oc']):
            continue
        msg, _ = image_problem(ctx, spec)
        if msg:
            small = shrink_image(ctx, spec)
            return {'kind': 'image', 'spec': small, 'what': image_problem(ctx, small)[0] or msg}
    return None


def replay(ctx, obj):
    fi = obj.get('failing_input')
    if not fi:
        print('replay file has no concrete input; broken obligations were:')
        for b in obj.get('broken', []):
            print('  ', b.get('what'), str(b.get('detail', b.get('case', '')))[:400])
        return 1
    if fi.get('kind') == 'cli':
        from harness import cli_cases
        return cli_cases.replay_cli(ctx, fi)
    if fi.get('kind') in ('glue', 'e2e', 'cube-e2e'):
        return c13x.replay_extra(ctx, fi)
    if fi['kind'] == 'estimate':
        msg = mirror_problem(fi['case'])
        print('island:', fi['case']['data'])
    elif fi['kind'] == 'filter':
        got = run_filter(ctx, fi['rows'], fi['nopositive'], fi['nonegative'])
        exp = [(i + 1, j) for i, rr in enumerate(fi['rows']) for j, pk in enumerate(rr)
               if not ((pk > 0 and fi['nopositive']) or (pk < 0 and fi['nonegative']))]
        print('rows:', fi['rows'], 'kept:', got)
        msg = None if got == exp else f'filter kept rows {got}, expected {exp}'
    else:
        msg, _ = image_problem(ctx, fi['spec'], 'r')
        print('image spec:', json.dumps(fi['spec'])[:600])
    print('implementation:', msg or 'property holds on this input')
    return 1 if msg else 0
