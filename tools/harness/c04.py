"""C04 - model derivatives and per-parameter 1-sigma errors are the true ones."""
import itertools
import math
import os
import time

import numpy as np

import vlib
from vlib import rlit
from harness import c04x

GEN = ['Gauss'] + c04x.GEN_EXTRA
EXTRA_TARGETS = c04x.EXTRA_TARGETS
LEVEL = 'proof'
TRUSTED = [
    'Coq 8.16.1 kernel; Coquelicot (is_derive, auto_derive) and the real-number axioms of the standard library '
    '(sig_forall_dec, sig_not_dec, functional_extensionality_dep, classic) as listed by Print Assumptions',
    'translator tools/translate.py (R back end): reading of + - * / ** and of np.sin/np.cos/np.radians/np.exp/np.pi, the '
    'matcher for the six `if pars[prefix+..].vary` blocks of fitting.jacobian and for the assignment loop of covar_errors',
    'Interval tactic: each per-case lemma |model - implementation output| <= tol is checked by the kernel',
    'hand-written Model/FitModel.v (sum of components, slot enumeration) tied by the stderr / whitening comparisons below',
    'numpy/scipy matrix inverse and lmfit.Parameters (inputs of the comparison)',
]
ASSUMPTIONS = ['binary64 round-off of the implementation is bounded per case by tol = 2^-36 * max(|value|, 1e-3)',
               'amp, sx, sy non-zero (the derivative of amp uses model/amp)']
TRUSTED += c04x.TRUSTED_EXTRA
ASSUMPTIONS += c04x.ASSUMPTIONS_EXTRA
NAMES = ['amp', 'xo', 'yo', 'sx', 'sy', 'theta']
HEADER = ("From Coq Require Import Reals.\nFrom Interval Require Import Tactic.\n"
          "From Aegean Require Import Lib.RBase Gen.Gauss.\nOpen Scope R_scope.")
IMPORTS = ("From Coq Require Import Reals List Arith.\nFrom Aegean Require Import Gen.Gauss Model.FitModel.\n"
           "Import ListNotations.\n")


ORDERS = ('canonical', 'by_kind', 'components_reversed', 'names_reversed')


def mkpars(comps, varies, order='canonical'):
    """order: in which sequence the parameters are ADDED to the lmfit.Parameters dict (the meaning of a parameter is its name; the finder
    adds them component by component, other callers need not)"""
    import lmfit
    pars = lmfit.Parameters()
    items = [(i, n, val, vv) for i, (c, v) in enumerate(zip(comps, varies)) for n, val, vv in zip(NAMES, c, v)]
    if order == 'by_kind':
        items.sort(key=lambda t: (NAMES.index(t[1]), t[0]))
    elif order == 'components_reversed':
        items.sort(key=lambda t: (-t[0], NAMES.index(t[1])))
    elif order == 'names_reversed':
        items.sort(key=lambda t: (t[0], -NAMES.index(t[1])))
    if order != 'canonical':
        pars.add('components', value=len(comps), vary=False)
    for i, n, val, vv in items:
        pars.add(f'c{i}_{n}', value=val, vary=bool(vv))
    if order == 'canonical':
        pars.add('components', value=len(comps), vary=False)
    return pars


def rand_comp(rng, generic=True):
    amp = rng.choice([-1, 1]) * rng.uniform(0.2, 8)
    sx, sy = rng.uniform(1.0, 4.0), rng.uniform(1.0, 4.0)
    if abs(sx - sy) < 0.3:
        sy += 0.7
    return [amp, rng.uniform(4, 12), rng.uniform(4, 12), sx, sy, rng.uniform(-180, 180)]


def findiff_problem(comps, varies, x, y):
    """central differences on ntwodgaussian_lmfit vs fitting.jacobian (the search oracle)"""
    from AegeanTools import fitting
    pars = mkpars(comps, varies)
    try:
        J = fitting.jacobian(pars, x, y)
    except Exception as e:  # noqa
        return f'fitting.jacobian raised {type(e).__name__}: {e}'
    k = 0
    for i, (c, v) in enumerate(zip(comps, varies)):
        for n, vv in zip(NAMES, v):
            if not vv:
                continue
            h = 1e-5 * max(1.0, abs(pars[f'c{i}_{n}'].value))
            p0 = pars[f'c{i}_{n}'].value
            pars[f'c{i}_{n}'].value = p0 + h
            fp = fitting.ntwodgaussian_lmfit(pars)(x, y)
            pars[f'c{i}_{n}'].value = p0 - h
            fm = fitting.ntwodgaussian_lmfit(pars)(x, y)
            pars[f'c{i}_{n}'].value = p0
            num = (fp - fm) / (2 * h)
            scale = max(1e-6, float(np.max(np.abs(num))))
            if k >= len(J) or not np.allclose(J[k], num, rtol=0, atol=2e-5 * scale + 1e-9):
                return (f'row {k} of fitting.jacobian (component {i}, parameter {n}) differs from the central difference of the '
                        f'model: max |analytic - numeric| = {float(np.max(np.abs(J[k] - num))) if k < len(J) else "missing row"} '
                        f'(scale {scale})')
            k += 1
    if k != len(J):
        return f'fitting.jacobian returned {len(J)} rows for {k} free parameters'
    return None


def stderr_problem(comps, varies, rng_seed, with_B, order=None):
    """each free parameter's stderr must be sqrt of its own diagonal entry of inv(J^T J)"""
    from AegeanTools import fitting
    rs = np.random.RandomState(rng_seed)
    data = rs.normal(size=(14, 15))
    data[rs.randint(14), rs.randint(15)] = np.nan
    mask = np.where(np.isfinite(data))
    npix = len(mask[0])
    # per-pixel noise in half of the cases: only then does the order of scaling and whitening matter
    errs = 0.37 if rng_seed % 2 == 0 else rs.uniform(0.2, 0.9, size=npix)
    B = None
    C = None
    if with_B:
        C = fitting.Cmatrix(mask[0], mask[1], 1.2, 0.9, 20.0)
        if rng_seed % 3 == 0:
            # any whitening matrix with B.B^T = inv(C) is a valid noise model; the Cholesky one is NOT symmetric
            B = np.linalg.inv(np.linalg.cholesky(C)).T
        else:
            B = fitting.Bmatrix(C)
        if not np.allclose(B.dot(B.T).dot(C), np.eye(npix), atol=1e-6):
            return 'Bmatrix(C).Bmatrix(C)^T is not inv(C)', None
    pars = mkpars(comps, varies)
    try:
        J = fitting.jacobian(pars, mask[0], mask[1])          # rows = free parameters
    except Exception as e:  # noqa
        return f'fitting.jacobian raised {type(e).__name__}: {e}', None
    # C04_rows: the k-th row is the derivative with respect to the k-th free parameter, computed from ITS component alone -
    # i.e. the row that the all-free Jacobian of that single component has for that parameter (those rows are certified
    # against the generated Coq expressions in part (a)); no row may depend on which other parameters are free
    want = []
    for i, (c, v) in enumerate(zip(comps, varies)):
        Ji = fitting.jacobian(mkpars([c], [[1] * 6]), mask[0], mask[1])
        want += [(i, p, Ji[p]) for p in range(6) if v[p]]
    if len(J) != len(want):
        return f'fitting.jacobian returned {len(J)} rows for {len(want)} free parameters', None
    for k, (i, p, row) in enumerate(want):
        if not np.allclose(J[k], row, rtol=1e-12, atol=1e-14 * float(np.max(np.abs(row)) or 1.0)):
            return (f'row {k} of fitting.jacobian (component {i}, parameter {NAMES[p]}) is not the derivative that component {i} '
                    f'alone gives for {NAMES[p]}: max difference {float(np.max(np.abs(J[k] - row))):.3g}'), None
    M = np.vstack(J) / errs
    if B is not None:
        M = M.dot(B)
    M = M.T
    lj = fitting.lmfit_jacobian(pars, mask[0], mask[1], errs=errs, B=B)
    if lj.shape != M.shape or not np.allclose(lj, M, rtol=1e-9, atol=1e-12 * float(np.max(np.abs(M)))):
        return 'lmfit_jacobian is not transpose((jacobian/errs).B)', None
    fisher = M.T.dot(M)
    if C is not None:
        # the Fisher matrix of the noise model itself, independent of which square root B was used
        Me = np.vstack(J) / errs
        fisher = Me.dot(np.linalg.inv(C)).dot(Me.T)
    try:
        sig = np.sqrt(np.diag(np.linalg.inv(fisher)))
    except np.linalg.LinAlgError:
        return None, None
    if not np.all(np.isfinite(sig)) or np.linalg.cond(fisher) > 1e10:
        return None, None
    try:
        out = fitting.covar_errors(mkpars(comps, varies, order or ORDERS[rng_seed % 5 % 4]), data, errs=errs, B=B, C=None)
    except Exception as e:  # noqa
        return f'fitting.covar_errors raised {type(e).__name__}: {e}', None
    got = {}
    for i, v in enumerate(varies):
        for p, vv in enumerate(v):
            if vv:
                got[(i, p)] = out[f'c{i}_{NAMES[p]}'].stderr
    return None, (got, [float(s) for s in sig])


def run(ctx, model_ok=True):
    from AegeanTools import fitting
    rng = ctx.rng
    quick = ctx.tier == 'quick'
    ctx.rule = ('(a) pointwise values of elliptical_gaussian and of every row of fitting.jacobian at random generic '
                'parameter values (amp != 1, theta != 0, sx != sy, both signs of amp) compared with the generated Coq '
                'definitions through interval-certified lemmas; (b) 1-4 components x random free subsets: stderr given to each '
                'free parameter by covar_errors compared with sqrt(diag(inv(J^T J)))[slot] where slot comes from the Coq model; '
                '(c) lmfit_jacobian against transpose((J/errs).B). distinct = distinct parameter tuples / (components, free '
                'subset) pairs; non-trivial = more than one free parameter or more than one component.')
    # ---- (a) certified correspondence
    goals, metas = [], []
    npts = 24 if quick else 150
    for k in range(npts):
        c = rand_comp(rng)
        x, y = rng.uniform(0, 16), rng.uniform(0, 16)
        if k % 6 == 0:
            x, y = float(int(x)), float(int(y))
        pars = mkpars([c], [[1] * 6])
        J = fitting.jacobian(pars, np.array([x]), np.array([y]))
        g = float(fitting.elliptical_gaussian(x, y, *c))
        args = ' '.join(rlit(v) for v in [x, y] + c)
        tol = lambda v: rlit(max(abs(v), 1e-3) * 2.0 ** -36)  # noqa: E731
        goals.append(f"Goal Rabs (gauss {args} - {rlit(g)}) <= {tol(g)}. Proof. unfold gauss, rad; cbv zeta. interval with (i_prec 80). Qed.")
        metas.append(('elliptical_gaussian', [x, y] + c, g))
        for i, n in enumerate(NAMES):
            v = float(J[i][0])
            goals.append(f"Goal Rabs (d_{n} {args} - {rlit(v)}) <= {tol(v)}. Proof. unfold d_{n}, gauss, rad; cbv zeta. "
                         f"interval with (i_prec 80). Qed.")
            metas.append((f'jacobian row {n}', [x, y] + c, v))
        ctx.case(key=('pt', k), sample={'x': x, 'y': y, 'amp,xo,yo,sx,sy,theta': c} if k < 2 else None, bucket='pointwise')
    if model_ok:
        bad = vlib.coq_certify(ctx, HEADER, goals)
        for k, err in bad[:4]:
            what, a, v = metas[k] if 0 <= k < len(metas) else ('?', None, None)
            ctx.mismatch(f'certified correspondence: {what} differs from the generated Coq definition', {'args': a}, impl=v, model=err[-300:])
        ctx.oblige(f'certified correspondence: {len(goals)} interval lemmas (gauss and 6 Jacobian rows at {npts} points)', not bad,
                   f'{len(bad)} shards failed')
        ctx.traces += len(goals)
    # ---- (b) stderr slots, (c) whitening
    ncase = 40 if quick else 400
    exprs, impl_slots = [], []
    for k in range(ncase):
        nc = rng.choice([1, 2, 2, 3, 4])
        comps = [rand_comp(rng) for _ in range(nc)]
        # keep components apart so that the Fisher matrix is well conditioned
        for i, c in enumerate(comps):
            c[1], c[2] = 3.0 + 3.5 * (i % 2) + rng.uniform(-.5, .5), 3.0 + 3.5 * (i // 2) + rng.uniform(-.5, .5)
        varies = [[int(rng.random() < 0.6) for _ in range(6)] for _ in range(nc)]
        if not any(any(v) for v in varies):
            varies[-1][0] = 1
        nfree = sum(sum(v) for v in varies)
        order = ORDERS[(k // 2) % 4]
        msg, res = stderr_problem(comps, varies, rng.randrange(10 ** 6), with_B=(k % 2 == 0), order=order)
        ctx.case(key=('cov', nc, tuple(map(tuple, varies))) if (nfree > 1 or nc > 1) else None, bucket=f'components={nc}',
                 sample={'components': nc, 'vary': varies} if k < 2 else None)
        if msg:
            ctx.mismatch('whitening', {'components': comps, 'vary': varies}, impl=msg,
                         is_violation={'kind': 'whiten', 'components': comps, 'vary': varies, 'what': msg})
            continue
        if res is None:
            continue
        got, sig = res
        vs = '[' + '; '.join('[' + '; '.join('true' if b else 'false' for b in v) + ']' for v in varies) + ']'
        exprs.append(f'map (fun s => (Z.of_nat (fst (fst s)), Z.of_nat (snd (fst s)), Z.of_nat (snd s))) (stderr_slots {vs})')
        impl_slots.append((comps, varies, got, sig, order))
    if model_ok and exprs:
        vals, err = vlib.coq_eval(ctx, IMPORTS + 'From Coq Require Import ZArith.\n', exprs)
        if vals is None:
            ctx.oblige('model evaluation of stderr_slots', False, err)
        else:
            nbad = 0
            for v, (comps, varies, got, sig, order) in zip(vals, impl_slots):
                for (i, p, j) in v:
                    want = sig[j]
                    have = got.get((i, p))
                    if have is None or not math.isclose(have, want, rel_tol=1e-6, abs_tol=0):
                        nbad += 1
                        if nbad <= 3:
                            what = (f'Parameters added in the order {order!r}: stderr of component {i} parameter {NAMES[p]} is {have!r}; the square root of its own diagonal '
                                    f'entry (index {j}) of the inverse Fisher matrix is {want!r}')
                            ctx.mismatch('covar_errors vs Model.FitModel.stderr_slots', {'vary': varies, 'order': order}, impl=have, model=want,
                                         is_violation={'kind': 'stderr', 'components': comps, 'vary': varies, 'order': order, 'what': what})
            ctx.oblige(f'correspondence: stderr hand-out of covar_errors equals the model slot map on {len(vals)} parameter sets',
                       nbad == 0, f'{nbad} stderr values differ')
            ctx.traces += len(vals)
    # ---- finite differences as an independent oracle (cheap; also the search oracle)
    xs, ys = np.meshgrid(np.arange(12.0), np.arange(13.0))
    xs, ys = xs.ravel(), ys.ravel()
    for k in range(10 if quick else 100):
        nc = rng.choice([1, 2, 3])
        comps = [rand_comp(rng) for _ in range(nc)]
        varies = [[int(rng.random() < 0.7) for _ in range(6)] for _ in range(nc)]
        msg = findiff_problem(comps, varies, xs, ys)
        ctx.case(key=('fd', k), bucket='finite-difference')
        if msg:
            ctx.mismatch('finite-difference oracle on fitting.jacobian', {'components': comps, 'vary': varies}, impl=msg,
                         is_violation={'kind': 'findiff', 'components': comps, 'vary': varies, 'what': msg})
    c04x.run_extra(ctx, model_ok)


def search(ctx):
    rng = ctx.rng
    extra = c04x.search_extra(ctx)
    if extra:
        return extra
    xs, ys = np.meshgrid(np.arange(12.0), np.arange(13.0))
    xs, ys = xs.ravel(), ys.ravel()
    t0 = time.time()
    while time.time() - t0 < 90:
        nc = rng.choice([1, 2, 3, 4])
        comps = [rand_comp(rng) for _ in range(nc)]
        varies = [[int(rng.random() < 0.7) for _ in range(6)] for _ in range(nc)]
        if not any(any(v) for v in varies):
            continue
        msg = findiff_problem(comps, varies, xs, ys)
        if msg:
            # shrink: one component, one free parameter if possible
            for i in range(nc):
                for p in range(6):
                    v1 = [[0] * 6]
                    v1[0][p] = 1
                    m1 = findiff_problem([comps[i]], v1, xs, ys)
                    if m1:
                        return {'kind': 'findiff', 'components': [comps[i]], 'vary': v1, 'what': m1}
            return {'kind': 'findiff', 'components': comps, 'vary': varies, 'what': msg}
        for i, c in enumerate(comps):
            c[1], c[2] = 3.0 + 3.5 * (i % 2), 3.0 + 3.5 * (i // 2)
        order = rng.choice(ORDERS)
        m2, res = stderr_problem(comps, varies, rng.randrange(10 ** 6), with_B=False, order=order)
        if m2:
            return {'kind': 'whiten', 'components': comps, 'vary': varies, 'what': m2}
        if res:
            got, sig = res
            j = 0
            for i, v in enumerate(varies):
                for p, vv in enumerate(v):
                    if vv:
                        if not math.isclose(got[(i, p)], sig[j], rel_tol=1e-6):
                            return {'kind': 'stderr', 'components': comps, 'vary': varies, 'seed': 0, 'order': order,
                                    'what': f'Parameters added in the order {order!r}: stderr of component {i} {NAMES[p]} = {got[(i, p)]}, own diagonal entry gives {sig[j]}'}
                        j += 1
    return None


def replay(ctx, obj):
    fi = obj.get('failing_input')
    if not fi:
        print('replay file has no concrete input; broken obligations were:')
        for b in obj.get('broken', []):
            print('  ', b.get('what'), str(b.get('detail', b.get('case', '')))[:400])
        return 1
    if str(fi.get('kind', '')).startswith('c04x'):
        return c04x.replay_extra(ctx, fi)
    xs, ys = np.meshgrid(np.arange(12.0), np.arange(13.0))
    xs, ys = xs.ravel(), ys.ravel()
    msg = findiff_problem(fi['components'], fi['vary'], xs, ys)
    if not msg and fi.get('kind') in ('stderr', 'whiten'):
        msg, res = stderr_problem(fi['components'], fi['vary'], 1, with_B=False, order=fi.get('order') or 'canonical')
        if res and not msg:
            got, sig = res
            j = 0
            for i, v in enumerate(fi['vary']):
                for p, vv in enumerate(v):
                    if vv:
                        if not math.isclose(got[(i, p)], sig[j], rel_tol=1e-6):
                            msg = f'stderr of component {i} {NAMES[p]} = {got[(i, p)]}, own diagonal entry gives {sig[j]}'
                        j += 1
    print('implementation:', msg or 'property holds on this input')
    return 1 if msg else 0
