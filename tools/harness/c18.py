"""C18 - catalogues survive a write/read round trip in every readable format.

Three kinds of evidence on every run
 1 theorems of coq/Props/C18.v about Model/Catalog.v (built by the driver),
 2 exact correspondence of the model with AegeanTools.catalogs / models on generated inputs: file naming and
   os.path.splitext, writer / reader per extension, classify + split + column names (prefix, galactic), FITS column
   formats, the loader table_to_source_list, the sqlite tables,
 3 validation of the library hypotheses of C18_roundtrip / C18_roundtrip_fits by REAL round trips through files in
   every readable format (csv tab tex vot xml vo fits + sqlite), compared cell by cell.
"""
import json
import math
import os
import sqlite3
import time
import warnings

import numpy as np

import vlib

GEN = ['Catalog']
LEVEL = 'proof'
EXTRA_TARGETS = ['Refuted/C18_first_row.vo', 'Refuted/C18_prefix.vo']
TRUSTED = [
    'Coq 8.16.1 kernel + vm_compute; all C18 theorems are axiom-free',
    'translator tools/points_c18.py: names lists, class bases, __init__ defaults, order of the isinstance tests of classify_catalog, '
    'dispatch chains of save_catalog / write_catalog.writer / load_table, file-name format string and suffixes, prefix separator, '
    'galactic renaming rules, writeFITSTable typing chain and width rule, table_to_source_list copy loop, nulls / writeDB; every '
    'matcher fails closed on any other shape',
    'hand-written skeleton Model/Catalog.v tied by exact correspondence (vm_compute) on generated inputs',
    'astropy.io.ascii / votable / fits, numpy column dtype unification, sqlite3, os.path.splitext: library hypotheses, validated by '
    'real round trips on every run',
]
ASSUMPTIONS = [
    'sources are instances of exactly SimpleSource / IslandSource / ComponentSource (subclasses of them are not modelled)',
    'strings are printable ASCII without leading/trailing blanks, separators or quotes and do not look like numbers (text '
    'formats carry no type information: a column of digit-only uuids is read as integers); ra_str / dec_str may be empty '
    '(the class default), uuids are non-empty',
    'integers fit in 32 bits (FITS J columns); finite floats, NaN, and -1 markers; +-inf is not generated; attributes are python '
    'scalars or numpy scalars (float32 / float64 / int64 / int32); a numpy.float32 must come back as its exact float64 promotion',
    'floats are compared for exact equality after the round trip (that is the property); FITS floats are compared with the '
    'binary32 rounding of the written value (numpy float32 cast: 1e300 -> inf, 1e-300 -> 0)',
    'NaN is stored as NULL by sqlite3 (library behaviour), compared as such',
]

KIND_NAMES = {2: 'ComponentSource', 1: 'IslandSource', 0: 'SimpleSource'}
SUFFIX = {2: '_comp', 1: '_isle', 0: '_simp'}
DBTABLE = {2: 'components', 1: 'islands', 0: 'simples'}
INT_ATTRS = {'island', 'source', 'flags', 'components', 'pixels', 'x_width', 'y_width'}
STR_ATTRS = {'ra_str', 'dec_str', 'uuid'}
F32_ATTRS = {'background', 'local_rms', 'residual_mean', 'residual_std', 'eta', 'peak_flux', 'peak_pixel'}
TEXT_FORMATS = ['csv', 'tab', 'tex']
VO_FORMATS = ['vot', 'xml', 'vo']
ALL_FORMATS = TEXT_FORMATS + VO_FORMATS + ['fits']


def _mods():
    from AegeanTools import catalogs as cat
    from AegeanTools import models
    return cat, models


def kind_class(k):
    _, models = _mods()
    return getattr(models, KIND_NAMES[k])


# ------------------------------------------------------------------------------------------
# catalogue descriptions (JSON-able) <-> real source objects
def enc(v):
    """JSON-able (tag, value); numpy scalar types keep their type: f32 / f64 / i64 / i32"""
    if isinstance(v, (bool, np.bool_)):
        return ['b', bool(v)]
    if isinstance(v, np.float32):
        return ['f32', float(v).hex()]
    if isinstance(v, np.float64):
        return ['f64', float(v).hex()]
    if isinstance(v, np.int32):
        return ['i32', int(v)]
    if isinstance(v, np.integer):
        return ['i64', int(v)]
    if isinstance(v, int):
        return ['i', int(v)]
    if isinstance(v, float):
        return ['f', float(v).hex()]
    if isinstance(v, str):
        return ['s', str(v)]
    raise ValueError(repr(v))


def dec(e):
    t, v = e
    if t == 'f':
        return float.fromhex(v)
    if t == 'f32':
        return np.float32(float.fromhex(v))
    if t == 'f64':
        return np.float64(float.fromhex(v))
    if t == 'i64':
        return np.int64(v)
    if t == 'i32':
        return np.int32(v)
    return v


def mk_source(d):
    s = kind_class(d['k'])()
    for n, v in d['a'].items():
        setattr(s, n, dec(v))
    if d.get('g'):
        s.galactic = True
    return s


FORMS = ('list', 'tuple', 'generator', 'ndarray', 'iter', 'filter')


def mk_catalog(desc, form='list'):
    """the catalogue handed to the writers; classify_catalog documents `catalog : iterable`, so one-shot iterables are valid input"""
    objs = [mk_source(d) for d in desc]
    if form == 'tuple':
        return tuple(objs)
    if form == 'generator':
        return (o for o in objs)
    if form == 'ndarray':
        a = np.empty(len(objs), dtype=object)
        a[:] = objs
        return a
    if form == 'iter':
        return iter(objs)
    if form == 'filter':
        return filter(lambda o: True, objs)
    return objs


def form_for(desc, fmt):
    return FORMS[(len(desc) + sum(d['k'] for d in desc) + len(fmt)) % len(FORMS)]


HEX = '0123456789abcdef'


def gen_uuid(rng, short=False):
    n = rng.choice([3, 5, 8, 13]) if short else rng.choice([1, 2, 8, 20, 36, 36, 36, 40, 64])
    s = ''.join(rng.choice(HEX) for _ in range(n))
    if n >= 20:
        s = s[:8] + '-' + s[9:13] + '-' + s[14:]
    # never number-like: force one letter that cannot occur in a numeral
    pos = rng.randrange(len(s))
    return s[:pos] + rng.choice('abcdf') + s[pos + 1:]


def gen_coord(rng, short=False, dec_=False):
    if short:
        return rng.choice(['0:0:0', '1:2:3', '9:59', 'X', '+1:2:3.4'])
    h = rng.randrange(0, 90 if dec_ else 24)
    s = f'{h:02d}:{rng.randrange(60):02d}:{rng.randrange(60):02d}.{rng.randrange(100):02d}'
    if dec_:
        s = rng.choice('+-') + s
    return s


EXTREME = [1e-300, 1e300, -1e300, -1e-300, 1.7976931348623157e308, 2.2250738585072014e-308, 5e-324, 123456789.12345679,
           1e-45, 3.4028234663852886e38, 3.4028235677973366e38, 1.1754943508222875e-38, 1e22, 1e23, 0.1, 1 / 3, -2 / 3,
           2.0 ** 53, 2.0 ** -1074, 1e15 + 0.3, 9.999999999999999e22]


def gen_float(rng, prof, name, first):
    r = rng.random()
    if first and prof in ('firstrow', 'mixed') and r < 0.6:
        return float(rng.randint(-3, 400))                      # integer-valued float in the first row
    if name.startswith('err_'):
        if r < 0.25:
            return -1.0
        if r < 0.4:
            return -1                                            # fitting.py sets the int -1 on some paths
    if prof == 'nan' and r < 0.5 or r < 0.06:
        return float('nan')
    if prof == 'extreme' and r < 0.7 or r < 0.12:
        return rng.choice(EXTREME)
    if r < 0.3:
        return -abs(rng.gauss(0, 1)) * 10 ** rng.randint(-6, 3)  # negative fluxes
    if r < 0.4:
        return float(rng.randint(-5, 1000))
    if r < 0.45:
        return 0.0
    return rng.uniform(-1, 1) * 10 ** rng.randint(-12, 12)


def gen_source(rng, k, prof, first, idx):
    names = kind_class(k).names
    a = {}
    for n in names:
        if n == 'uuid':
            v = gen_uuid(rng, short=first and prof in ('firstrow', 'mixed'))
        elif n in ('ra_str', 'dec_str'):
            if prof == 'emptystr' or (prof == 'someempty' and rng.random() < 0.5):
                v = ''                                            # the class default
            else:
                v = gen_coord(rng, short=first and prof in ('firstrow', 'mixed') and rng.random() < 0.8, dec_=(n == 'dec_str'))
        elif n in INT_ATTRS:
            if n == 'flags':
                v = rng.choice([0, 0, 1, 4, 64, 127, rng.randrange(128)])
            elif n in ('island', 'source'):
                v = rng.choice([idx, rng.randrange(0, 50), 0, -1, 2 ** 31 - 1 if rng.random() < 0.02 else 7])
            elif prof == 'nan' and rng.random() < 0.3:
                v = float('nan')                                  # IslandSource defaults
            else:
                v = rng.randint(0, 5000)
        else:
            v = gen_float(rng, prof, n, first)
        a[n] = enc(v)
    return {'k': k, 'g': False, 'a': a}


def gen_catalog(rng, n, prof=None, kinds=None):
    prof = prof or rng.choice(['mixed', 'firstrow', 'extreme', 'nan', 'plain', 'minus1', 'intcol', 'emptystr', 'someempty',
                              'npfloat', 'npint'])
    kinds = kinds or rng.choice([[2], [2], [2, 1], [2, 1, 0], [1], [0], [0, 2, 1]])
    desc = []
    seen = set()
    base = 'plain' if prof in ('npfloat', 'npint') else prof
    for i in range(n):
        k = rng.choice(kinds)
        d = gen_source(rng, k, base, first=(k not in seen), idx=i)
        seen.add(k)
        desc.append(d)
    if prof == 'minus1':       # every error of every component is the marker, as int or as float
        as_int = rng.random() < 0.5
        for d in desc:
            for nme in d['a']:
                if nme.startswith('err_'):
                    d['a'][nme] = enc(-1 if as_int else -1.0)
    if prof == 'npfloat':
        # what source_finder produces: numpy.float32 for values read from float32 maps (background, local_rms, island
        # eta / peak_flux) and numpy.float64 elsewhere; float32 in every row, only in the first, or only in later rows
        mode = rng.choice(['all', 'all', 'first', 'later'])
        firsts = set()
        for d in desc:
            isfirst = d['k'] not in firsts
            firsts.add(d['k'])
            use32 = mode == 'all' or (mode == 'first' and isfirst) or (mode == 'later' and not isfirst)
            for nme, e in d['a'].items():
                if e[0] != 'f':
                    continue
                v = float.fromhex(e[1])
                if nme in F32_ATTRS and use32:
                    with np.errstate(all='ignore'):
                        w = np.float32(v)
                    if not (np.isfinite(w) or np.isnan(w)):
                        w = np.float32(0.1)
                    d['a'][nme] = enc(w)
                else:
                    d['a'][nme] = enc(np.float64(v))
    if prof == 'npint':
        # what table_to_source_list produces (a catalogue that was loaded and is written again): numpy ints
        ty = rng.choice([np.int64, np.int64, np.int32])
        for d in desc:
            for nme, e in d['a'].items():
                if e[0] == 'i':
                    d['a'][nme] = enc(ty(e[1]))
                elif e[0] == 'f' and rng.random() < 0.5:
                    d['a'][nme] = enc(np.float64(float.fromhex(e[1])))
    if prof == 'intcol':       # a float attribute holding python ints in every row
        for d in desc:
            for nme in ('a', 'peak_flux'):
                if nme in d['a']:
                    d['a'][nme] = enc(rng.randint(0, 99))
    return prof, desc


# ------------------------------------------------------------------------------------------
# comparison of one cell after a round trip
def is_masked(v):
    return v is np.ma.masked or isinstance(v, np.ma.core.MaskedConstant)


def expected_float(orig, fmt):
    if fmt == 'fits':
        with np.errstate(all='ignore'):
            return float(np.float32(orig))
    return float(orig)


def cell_problem(orig, got, fmt, name, table_level=False):
    """None when `got` is what the property demands for `orig`; else (class, message).  table_level: `got` is a cell
    of the astropy table (not an attribute set by Aegean's loader): there NaN and '' may be masked (library)"""
    was32 = isinstance(orig, np.float32)
    if isinstance(orig, np.floating):
        orig = float(orig)          # the float64 promotion (exact)
    elif isinstance(orig, np.integer):
        orig = int(orig)
    if is_masked(got):
        if table_level and ((isinstance(orig, float) and math.isnan(orig)) or orig == ''):
            return None
        return ('masked', f'{name}: {orig!r} came back as numpy.ma.masked')
    if isinstance(orig, str):
        if not isinstance(got, str) or str(got) != orig:
            return ('string', f'{name}: wrote {orig!r}, read {got!r}')
        return None
    try:
        g = float(got)
    except (TypeError, ValueError):
        return ('type', f'{name}: wrote {orig!r}, read {got!r}')
    if isinstance(got, str):
        return ('type', f'{name}: wrote {orig!r}, read the string {got!r}')
    if isinstance(orig, int):
        if g != float(orig):
            return ('int', f'{name}: wrote {orig!r}, read {got!r}')
        return None
    e = expected_float(orig, fmt)
    if math.isnan(e):
        if not math.isnan(g):
            return ('nan', f'{name}: wrote NaN, read {got!r}')
        return None
    if g != e or math.isnan(g):
        if was32 and fmt != 'fits' and float(np.float32(g)) == e:
            return ('float32-repr', f'{name}: wrote numpy.float32({e!r}), read {g!r}: equal as float32 but not the float64 '
                                    f'promotion of the written value')
        prec = 'binary32-rounded value' if fmt == 'fits' else 'value'
        return ('float', f'{name}: wrote {orig!r} ({float(orig).hex()}), expected the {prec} {e!r}, read {got!r}')
    return None


# the fixed input of the recorded finding (known_findings.txt, coq/Refuted/C18_prefix.v)
PREFIX_WITNESS = [{'k': 0, 'g': False, 'a': {
    'background': ['f', (1.0).hex()], 'local_rms': ['f', (2.0).hex()], 'ra': ['f', (3.0).hex()], 'dec': ['f', (4.0).hex()],
    'peak_flux': ['f', (5.0).hex()], 'err_peak_flux': ['f', (6.0).hex()], 'flags': ['i', 17], 'peak_pixel': ['f', (7.0).hex()],
    'a': ['f', (8.0).hex()], 'b': ['f', (9.0).hex()], 'pa': ['f', (10.0).hex()], 'uuid': ['s', 'u-1']}}]


def known_classes():
    """classes of deviation that are recorded in known_findings.txt (tolerated, reported as KNOWN-FINDING)"""
    out = {}
    for kind, text in vlib.known_findings('C18'):
        if kind != 'finding':
            continue
        if 'prefix' in text:
            out['prefix-loader'] = text
        if 'BLOB' in text:
            out['db-npint-blob'] = text
        if 'float32' in text and 'tex' in text:
            out['float32-repr'] = text
    return out


def _clean(work, base):
    for f in os.listdir(work):
        if f.startswith(base):
            os.remove(os.path.join(work, f))


def roundtrip(work, desc, fmt, prefix=None, meta=None, base='rt'):
    """write with save_catalog, read with load_table (+ table_to_source_list); returns list of (class, message)"""
    cat, _ = _mods()
    problems = []
    _clean(work, base)
    catalog = mk_catalog(desc, form_for(desc, fmt))
    fn = os.path.join(work, f'{base}.{fmt}')
    with warnings.catch_warnings():
        warnings.simplefilter('ignore')
        try:
            cat.save_catalog(fn, catalog, meta=dict(meta) if meta else None, prefix=prefix)
        except Exception as e:  # noqa
            return [('write-raised', f'save_catalog raised {type(e).__name__}: {e}')]
        written = sorted(f for f in os.listdir(work) if f.startswith(base))
        expect_files = sorted(f'{base}{SUFFIX[k]}.{fmt}' for k in (0, 1, 2) if any(d['k'] == k for d in desc))
        if written != expect_files:
            problems.append(('files', f'files written {written}, expected {expect_files}'))
        pre = '' if prefix is None else prefix + '_'
        for k in (2, 1, 0):
            mine = [d for d in desc if d['k'] == k]
            if not mine:
                continue
            f = os.path.join(work, f'{base}{SUFFIX[k]}.{fmt}')
            if not os.path.exists(f):
                continue
            names = kind_class(k).names
            try:
                t = cat.load_table(f)
            except Exception as e:  # noqa
                problems.append(('read-raised', f'load_table({os.path.basename(f)}) raised {type(e).__name__}: {e}'))
                continue
            if list(t.colnames) != [pre + n for n in names]:
                problems.append(('columns', f'{SUFFIX[k]}: columns {list(t.colnames)[:6]}.. expected {[pre + n for n in names][:6]}..'))
                continue
            if len(t) != len(mine):
                problems.append(('rows', f'{SUFFIX[k]}: {len(t)} rows read, {len(mine)} sources written'))
                continue
            try:
                srcs = cat.table_to_source_list(t, kind_class(k))
            except Exception as e:  # noqa
                problems.append(('read-raised', f'table_to_source_list raised {type(e).__name__}: {e}'))
                continue
            if len(srcs) != len(mine):
                problems.append(('rows', f'{SUFFIX[k]}: {len(srcs)} sources loaded, {len(mine)} written'))
                continue
            if prefix is None:
                for i, (d, s) in enumerate(zip(mine, srcs)):
                    if type(s) is not kind_class(k):
                        problems.append(('class', f'row {i}: loaded a {type(s).__name__}'))
                    for n in names:
                        p = cell_problem(dec(d['a'][n]), getattr(s, n), fmt, n)
                        if p:
                            problems.append((p[0], f'{SUFFIX[k]} row {i} {p[1]}'))
            else:
                # the file itself (table level): column pre_name holds the attribute
                for i, d in enumerate(mine):
                    for n in names:
                        p = cell_problem(dec(d['a'][n]), t[pre + n][i], fmt, pre + n, table_level=True)
                        if p:
                            problems.append((p[0], f'{SUFFIX[k]} row {i} {p[1]}'))
                # Aegean's loader on a prefixed file: finds no column (model: Refuted/C18_prefix.v)
                dflt = kind_class(k)()
                lost = 0
                for d, s in zip(mine, srcs):
                    for n in names:
                        o, g = dec(d['a'][n]), getattr(s, n)
                        dv = getattr(dflt, n)
                        same_as_default = (n == 'uuid') or (isinstance(dv, float) and math.isnan(dv) and isinstance(g, float)
                                                           and math.isnan(g)) or g == dv
                        if cell_problem(o, g, fmt, n) and same_as_default:
                            lost += 1
                if lost:
                    problems.append(('prefix-loader', f'{SUFFIX[k]}: table_to_source_list restored none of {lost} values of a '
                                                      f'catalogue written with prefix={prefix!r} (columns {pre}*)'))
    return problems


def roundtrip_db(work, desc, meta=None, base='rtdb'):
    cat, _ = _mods()
    _clean(work, base)
    fn = os.path.join(work, base + '.db')
    catalog = mk_catalog(desc, form_for(desc, 'db'))
    problems = []
    with warnings.catch_warnings():
        warnings.simplefilter('ignore')
        try:
            cat.save_catalog(fn, catalog, meta=dict(meta) if meta else None)
        except Exception as e:  # noqa
            return [('write-raised', f'save_catalog(.db) raised {type(e).__name__}: {e}')]
    con = sqlite3.connect(fn)
    try:
        tabs = [r[0] for r in con.execute("select name from sqlite_master where type='table' order by rowid")]
        exp = [DBTABLE[k] for k in (2, 1, 0) if any(d['k'] == k for d in desc)] + ['meta']
        if tabs != exp:
            problems.append(('files', f'sqlite tables {tabs}, expected {exp}'))
        for k in (2, 1, 0):
            mine = [d for d in desc if d['k'] == k]
            if not mine or DBTABLE[k] not in tabs:
                continue
            names = kind_class(k).names
            cols = [r[1] for r in con.execute(f'pragma table_info({DBTABLE[k]})')]
            if cols != names:
                problems.append(('columns', f'{DBTABLE[k]}: columns {cols[:5]}.. expected {names[:5]}..'))
                continue
            rows = con.execute(f'select * from {DBTABLE[k]} order by rowid').fetchall()
            if len(rows) != len(mine):
                problems.append(('rows', f'{DBTABLE[k]}: {len(rows)} rows, {len(mine)} sources'))
                continue
            for i, (d, r) in enumerate(zip(mine, rows)):
                for n, g in zip(names, r):
                    o = dec(d['a'][n])
                    if isinstance(o, np.integer) and isinstance(g, bytes) and g == o.tobytes():
                        problems.append(('db-npint-blob', f'{DBTABLE[k]} row {i} {n}: wrote {type(o).__name__}({int(o)}), sqlite '
                                                          f'holds the BLOB {g!r}'))
                        continue
                    if isinstance(o, np.floating):
                        o = float(o)
                    elif isinstance(o, np.integer):
                        o = int(o)
                    if isinstance(o, float) and math.isnan(o):
                        ok = g is None                      # sqlite3 stores NaN as NULL
                    elif isinstance(o, str):
                        ok = g == o
                    else:
                        ok = isinstance(g, (int, float)) and not isinstance(g, bool) and float(g) == float(o)
                    if not ok:
                        problems.append(('db-cell', f'{DBTABLE[k]} row {i} {n}: wrote {o!r}, sqlite holds {g!r}'))
        if meta:
            got = dict(con.execute('select key, val from meta').fetchall())
            for kk, vv in meta.items():
                if got.get(kk) != vv:
                    problems.append(('db-meta', f'meta {kk}: {got.get(kk)!r} != {vv!r}'))
    finally:
        con.close()
    return problems


def shrink(desc, fails):
    """drop sources while `fails(desc)` stays true (bounded effort)"""
    budget = 40
    cur = list(desc)
    i = 0
    while len(cur) > 1 and budget > 0 and i < len(cur):
        cand = cur[:i] + cur[i + 1:]
        budget -= 1
        if fails(cand):
            cur = cand
        else:
            i += 1
    return cur


# ------------------------------------------------------------------------------------------
# model terms
def g_str(s):
    assert all(32 <= ord(c) < 127 for c in s), s
    return '"' + s.replace('"', '""') + '"'


def g_cell(v, pool=None):
    if v is None:
        return 'CNone'
    if is_masked(v):
        return 'CMasked'
    if isinstance(v, (bool, np.bool_)):
        return f'(CBool {"true" if v else "false"})'
    if isinstance(v, (int, np.integer)):
        return f'(CInt {vlib.zlit(int(v))})'
    if isinstance(v, (float, np.floating)):
        if pool is None:
            return '(CFlt 0)'
        pool.append(float(v))
        return f'(CFlt {len(pool) - 1})'
    if isinstance(v, str):
        return f'(CStr {g_str(str(v))})'
    return 'CList'


def g_source(d, pool=None):
    attrs = '; '.join(f'({g_str(n)}, {g_cell(dec(v), pool)})' for n, v in d['a'].items())
    return (f'{{| s_class := {d["k"]}; s_galactic := {"true" if d.get("g") else "false"}; s_attr := [{attrs}] |}}')


def g_opt_str(p):
    return 'None' if p is None else f'(Some {g_str(p)})'


IMPORTS = """From Coq Require Import ZArith Bool List String.
From Aegean Require Import Gen.Catalog Model.Catalog.
Import ListNotations.
Open Scope string_scope.
Open Scope Z_scope.
Definition enc_cell (c : cell Z) : Z * Z * string :=
  match c with CBool b => (0, if b then 1 else 0, "") | CInt z => (1, z, "") | CFlt f => (2, f, "")
             | CStr s => (3, 0, s) | CNone => (4, 0, "") | CList => (5, 0, "") | CMasked => (6, 0, "") end.
Definition enc_fmt (f : fitsfmt) : Z * Z :=
  match f with FL => (0, 0) | FJ => (1, 0) | FE => (2, 0) | FA w => (3, Z.of_nat w) end.
Definition enc_opt (c : option (cell Z)) : Z * Z * string := match c with Some c => enc_cell c | None => (9, 0, "") end.
Definition uu (s : source Z) : cell Z := getattr Z s "uuid".
Definition three : list (source Z) :=
  map (fun k => {| s_class := k; s_galactic := false; s_attr := [] |}) [2; 1; 0].
Definition name_obs (f : string) :=
  (splitext f, extension_of ext_lowered f, writer_code (save_writer (extension_of ext_lowered f)),
   load_reader (extension_of load_ext_lowered f), map fst (write_files Z f three)).
Definition split_obs (f : string) (pre : option string) (cat : list (source Z)) :=
  (map (map (fun s => enc_cell (uu s))) (classify Z cat),
   map (fun '(n, l) => (n, map fst (build_table Z pre l), map (fun s => enc_cell (uu s)) l)) (write_files Z f cat)).
Definition fits_obs (t : table Z) := map (fun '(n, c) => (n, enc_fmt (fits_format Z n c))) t.
Definition load_obs (c : Z) (t : table Z) :=
  map (fun s => map enc_cell (as_list Z s)) (table_to_source_list Z (-7) c (fun _ => "fresh") t).
Definition db_obs (cat : list (source Z)) :=
  map (fun '(tn, cols, rows) => (tn, cols, map (map enc_opt) rows)) (db_tables Z (fun _ _ => false) cat).
"""


# ------------------------------------------------------------------------------------------
class Spy:
    """replace the back ends of AegeanTools.catalogs by recorders (nothing touches the disk)"""

    def __init__(self):
        self.cat, _ = _mods()
        self.calls = []
        self.reads = []

    def __enter__(self):
        cat = self.cat
        spy = self
        self.saved = {n: getattr(cat, n) for n in ('ascii', 'writetoVO', 'writeFITSTable', 'Table', 'writeAnn', 'writeDB')}
        real_ascii = cat.ascii

        class Ascii:
            @staticmethod
            def write(t, filename, fmt=None, **kw):
                spy.calls.append((3, fmt, filename, list(t.colnames), [str(x) for x in t[t.colnames[-1]]] if 'uuid' in
                                  t.colnames[-1] else None, t))

            @staticmethod
            def read(filename, **kw):
                spy.reads.append(0)
                return None

        class T(self.saved['Table']):
            def write(self_, filename, *a, **kw):
                spy.calls.append((1, None, filename, list(self_.colnames), None, self_))

            @classmethod
            def read(cls, filename, *a, **kw):
                spy.reads.append(1)
                return None

        cat.ascii = Ascii
        cat.Table = T
        cat.writetoVO = lambda vot, filename: spy.calls.append((0, None, filename, None, None, None))
        cat.writeFITSTable = lambda filename, t: spy.calls.append((2, None, filename, list(t.colnames), None, t))
        cat.writeAnn = lambda filename, catalog, fmt: spy.calls.append((-2, '', filename, None, None, None))
        cat.writeDB = lambda filename, catalog, meta=None: spy.calls.append((-1, '', filename, None, None, None))
        del real_ascii
        return self

    def __exit__(self, *a):
        for n, v in self.saved.items():
            setattr(self.cat, n, v)


NAME_PARTS = ['a', 'cat', 'x.y', 'my.cat.v2', '.hidden', 'out..', 'A_b-c', 'img_comp', '..', 'd.ir', 'sub.dir.x', 'sources.table', 'f.csv_v2',
              'img.fits', 'run.tab.d']
EXTS = ['csv', 'tab', 'tex', 'vot', 'xml', 'vo', 'fits', 'db', 'sqlite', 'ann', 'reg', 'html', 'hdf5', 'CSV', 'Fits', 'VOT',
        'txt', 'bla', '', 'csv.gz', 'fits.bak', 'TAB', 'Db']


def gen_filename(rng):
    dirs = [rng.choice(NAME_PARTS) for _ in range(rng.choice([0, 0, 1, 2]))]
    base = rng.choice(NAME_PARTS)
    ext = rng.choice(EXTS)
    r = rng.random()
    if r < 0.1:
        name = base                       # no extension at all
    elif r < 0.15:
        name = '.' + ext                  # only a leading dot: not an extension
    else:
        name = base + '.' + ext
    p = '/'.join(dirs + [name])
    if rng.random() < 0.1:
        p = '/' + p
    if rng.random() < 0.05:
        p = './' + p
    return p


def impl_name_obs(f):
    """(splitext, writer code, fmt, reader, names written for a catalogue with one source of each kind)"""
    cat, models = _mods()
    three = [models.ComponentSource(), models.IslandSource(), models.SimpleSource()]
    with Spy() as spy, warnings.catch_warnings():
        warnings.simplefilter('ignore')
        import logging
        lvl = logging.getLogger('Aegean').level
        logging.getLogger('Aegean').setLevel(logging.CRITICAL)
        try:
            cat.save_catalog(f, three, meta=None)
            calls = list(spy.calls)
            try:
                cat.load_table(f)
                reader = spy.reads[0] if spy.reads else 'none'
            except Exception:  # noqa
                reader = None
        finally:
            logging.getLogger('Aegean').setLevel(lvl)
    codes = sorted(set((c[0], c[1]) for c in calls))
    names = [c[2] for c in calls]
    return list(os.path.splitext(f)), codes, names, reader


# ------------------------------------------------------------------------------------------
def corr_names(ctx, exprs, checks, n):
    rng = ctx.rng
    seen = set()
    fixed = ['a.csv', 'd.ir/sub/x.y.csv', 'd.ir/noext', '.csv', 'x.CSV', 'a.b.fits', 'a.', '...', 'a/.b', '/.x.y', 'a..b',
             'x.tar.gz', 'noext', 'dir.d/.hidden.vot']
    for f in fixed + [gen_filename(rng) for _ in range(n)]:
        if f in seen:
            continue
        seen.add(f)
        se, codes, names, reader = impl_name_obs(f)
        exprs.append(f'name_obs {g_str(f)}')

        def chk(v, f=f, se=se, codes=codes, names=names, reader=reader):
            mroot, mext, mextn, (mcode, mfmt), mreader, mnames = v
            bad = []
            if [mroot, mext] != se:
                bad.append(f'os.path.splitext={se} model={[mroot, mext]}')
            if len(codes) != 1:
                bad.append(f'implementation used several writers {codes}')
            else:
                code, fmt = codes[0]
                if code != mcode or (code == 3 and fmt != mfmt):
                    bad.append(f'writer: implementation {codes[0]} model {(mcode, mfmt)}')
                if code >= 0 and names != mnames:
                    bad.append(f'file names: implementation {names} model {mnames}')
            mr = None if mreader is None else mreader[1]
            if mr != reader:
                bad.append(f'load_table reader: implementation {reader} model {mr}')
            return ('naming / writer / reader of ' + f, bad, {'filename': f})
        checks.append(chk)
        ctx.case(key=('name', f), bucket='corr:names', sample={'filename': f, 'splitext': se, 'writer': codes} if len(seen) < 3 else None)


class NotASource:
    names = ['uuid']
    galactic = False
    uuid = 'other'


GALACTIC = {'ra': 'lon', 'dec': 'lat', 'err_ra': 'err_lon', 'err_dec': 'err_lat', 'ra_str': 'lon_str', 'dec_str': 'lat_str'}
OTHERS = [None, 'a string', 3.5]


def split_objects(desc):
    objs = []
    for i, d in enumerate(desc):
        if d['k'] == 9:
            o = OTHERS[i % 4] if i % 4 < 3 else NotASource()
        else:
            o = mk_source(d)
        objs.append(o)
    return objs


def impl_split(desc, f, prefix):
    """classify_catalog and the tables handed to the back ends by save_catalog (nothing is written)"""
    cat, models = _mods()
    objs = split_objects(desc)
    with Spy() as spy, warnings.catch_warnings():
        warnings.simplefilter('ignore')
        cl = models.classify_catalog(objs)
        cat.save_catalog(f, objs, meta=None, prefix=prefix)
        calls = list(spy.calls)
    idx = {id(o): i for i, o in enumerate(objs)}
    impl_cl = [[f'u{idx[id(o)]}' for o in lst] for lst in cl]
    impl_files = []
    for c in calls:
        t = c[5]
        if t is None:       # VOTable: the table is converted before the recorder sees it
            impl_files.append((c[2], None, None))
        else:
            ucol = [cn for cn in t.colnames if cn.endswith('uuid')]
            impl_files.append((c[2], list(t.colnames), [str(x) for x in t[ucol[0]]] if ucol else None))
    return impl_cl, impl_files


def oracle_split(desc, f, prefix):
    """what the documentation promises: base_comp.ext / base_isle.ext / base_simp.ext, each with the sources of
    exactly that class in catalogue order, columns = names of the class (lon/lat for galactic) with the prefix"""
    root, ext = os.path.splitext(f)
    cl, files = [], []
    pre = '' if prefix is None else prefix + '_'
    for k in (2, 1, 0):
        mine = [(i, d) for i, d in enumerate(desc) if d['k'] == k]
        cl.append([f'u{i}' for i, _ in mine])
        if mine:
            names = kind_class(k).names
            cols = [pre + (GALACTIC.get(n, n) if mine[0][1]['g'] else n) for n in names]
            files.append((root + SUFFIX[k] + ext, cols, [f'u{i}' for i, _ in mine]))
    return cl, files


def split_problem(desc, f, prefix):
    try:
        impl_cl, impl_files = impl_split(desc, f, prefix)
    except Exception as e:  # noqa
        return f'save_catalog raised {type(e).__name__}: {e}'
    ocl, ofiles = oracle_split(desc, f, prefix)
    if impl_cl != ocl:
        return f'classify_catalog returned {impl_cl}, expected {ocl}'
    if [x[0] for x in impl_files] != [x[0] for x in ofiles]:
        return f'files written {[x[0] for x in impl_files]}, expected {[x[0] for x in ofiles]}'
    for (n1, c1, u1), (n2, c2, u2) in zip(impl_files, ofiles):
        if c1 is not None and c1 != c2:
            return f'{n1}: columns {[x for x in c1 if x not in c2][:5]} instead of {[x for x in c2 if x not in c1][:5]} (order {c1[:4]}.. vs {c2[:4]}..)'
        if c1 is not None and u1 != u2:
            return f'{n1}: holds sources {u1}, expected {u2}'
    return None


def corr_split(ctx, exprs, checks, n):
    rng = ctx.rng
    for it in range(n):
        m = rng.choice([0, 1, 2, 3, 5, 8, 12])
        kinds = rng.choice([[2], [1], [0], [2, 1], [2, 0], [1, 0], [2, 1, 0], [2, 1, 0, 9], [9]])
        desc = []
        for i in range(m):
            k = rng.choice(kinds)
            desc.append({'k': k, 'g': False, 'a': {'uuid': enc(f'u{i}')}})
        # galactic flag: on the first source of a kind (that is the one the writer looks at), on others, on all
        gmode = rng.choice(['none', 'none', 'first', 'later', 'all'])
        firsts = set()
        for d in desc:
            isfirst = d['k'] not in firsts
            firsts.add(d['k'])
            d['g'] = (gmode == 'all') or (gmode == 'first' and isfirst) or (gmode == 'later' and not isfirst)
        prefix = rng.choice([None, None, 'p', 'my_pre', 'ra'])
        # also names in which the text of the extension occurs earlier in the name (the per-type files are <root>_comp<ext> etc.
        # with (root, ext) = os.path.splitext: only the LAST occurrence is the extension)
        f = rng.choice(['o.csv', 'x.y.tab', 'deep.name.tex', 'q.fits', 'v.vot', 'sources.table.tab', 'field.csv_v2.csv', 'img.fits.fits',
                        'a.tex.tex', 'x.votable.vot'])
        case = {'filename': f, 'prefix': prefix, 'kinds': [d['k'] for d in desc], 'galactic': [d['g'] for d in desc]}
        sp = split_problem(desc, f, prefix)
        if sp:
            ctx.mismatch('split into _comp/_isle/_simp files', case, impl=sp,
                         is_violation={'kind': 'split', 'filename': f, 'prefix': prefix, 'catalog': desc, 'what': sp})
            if 'raised' in sp:
                continue
        impl_cl, impl_files = impl_split(desc, f, prefix)
        cat_term = '[' + '; '.join(g_source(d) for d in desc) + ']'
        exprs.append(f'split_obs {g_str(f)} {g_opt_str(prefix)} {cat_term}')

        def chk(v, impl_cl=impl_cl, impl_files=impl_files, case=case):
            mcl, mfiles = v
            bad = []
            mcl2 = [[c[2] for c in lst] for lst in mcl]
            if mcl2 != impl_cl:
                bad.append(f'classify_catalog: implementation {impl_cl} model {mcl2}')
            mf = [(nme, cols, [c[2] for c in us]) for nme, cols, us in mfiles]
            if len(mf) != len(impl_files):
                bad.append(f'files: implementation {[x[0] for x in impl_files]} model {[x[0] for x in mf]}')
            else:
                for (n1, c1, u1), (n2, c2, u2) in zip(impl_files, mf):
                    if n1 != n2 or (c1 is not None and (c1 != c2 or u1 != u2)):
                        bad.append(f'file {n1}: implementation columns {c1} rows {u1}; model {n2} columns {c2} rows {u2}')
            return ('classify / split / column names', bad, case)
        checks.append(chk)
        ctx.case(key=('split', json.dumps(case, sort_keys=True)) if m >= 2 else None, bucket='corr:split')


def corr_fits(ctx, exprs, checks, n, work):
    """FITS column formats: TFORMn of the written file vs fits_format on the table handed to writeFITSTable"""
    rng = ctx.rng
    cat, _ = _mods()
    from astropy.io import fits as afits
    for it in range(n):
        m = rng.choice([1, 2, 3, 6, 15])
        prof, desc = gen_catalog(rng, m, kinds=[rng.choice([2, 2, 1, 0])])
        prefix = rng.choice([None, None, 'e', 'p'])
        captured = []
        orig = cat.writeFITSTable
        cat.writeFITSTable = lambda fn, t: (captured.append(t), orig(fn, t))[1]
        _clean(work, 'cf')
        try:
            with warnings.catch_warnings():
                warnings.simplefilter('ignore')
                cat.save_catalog(os.path.join(work, 'cf.fits'), mk_catalog(desc), meta=None, prefix=prefix)
        except Exception as e:  # noqa
            ctx.mismatch('writeFITSTable raised on a generated catalogue', {'catalog': desc, 'prefix': prefix},
                         impl=f'{type(e).__name__}: {e}',
                         is_violation={'kind': 'roundtrip', 'fmt': 'fits', 'prefix': prefix, 'meta': None, 'catalog': desc,
                                       'what': f'save_catalog raised {type(e).__name__}: {e}'})
            continue
        finally:
            cat.writeFITSTable = orig
        if not captured:
            continue            # nothing written: reported by the round trips
        t = captured[0]
        k = desc[0]['k']
        hdr = afits.getheader(os.path.join(work, f'cf{SUFFIX[k]}.fits'), 1)
        impl = [(hdr[f'TTYPE{i + 1}'], hdr[f'TFORM{i + 1}']) for i in range(hdr['TFIELDS'])]
        cols = []
        for nme in t.colnames:
            kind = t[nme].dtype.kind
            if kind in 'iu':
                cells = [g_cell(int(x)) for x in t[nme]]
            elif kind == 'f':
                cells = ['(CFlt 0)'] * len(t)
            elif kind in 'US':
                cells = [g_cell(str(x)) for x in t[nme]]
            elif kind == 'b':
                cells = [g_cell(bool(x)) for x in t[nme]]
            else:
                cells = ['CNone'] * len(t)
            cols.append(f'({g_str(nme)}, [{"; ".join(cells)}])')
        exprs.append(f'fits_obs [{"; ".join(cols)}]')
        case = {'profile': prof, 'rows': m, 'prefix': prefix, 'kind': k}

        def chk(v, impl=impl, case=case, desc=desc):
            fm = {0: 'L', 1: 'J', 2: 'E'}
            mv = [(nme, fm[c] if c != 3 else f'{w}A') for nme, (c, w) in v]
            bad = [] if mv == impl else [f'TFORM: implementation {[x for x in impl if x not in mv][:4]} '
                                         f'model {[x for x in mv if x not in impl][:4]}']
            return ('FITS column formats', bad, {**case, 'catalog': desc if len(desc) <= 3 else desc[:3]})
        checks.append(chk)
        ctx.case(key=('fits', prof, m, prefix, json.dumps(desc[0]['a'], sort_keys=True)[:200]), bucket='corr:fits-typing')


def corr_loader(ctx, exprs, checks, n):
    rng = ctx.rng
    cat, _ = _mods()
    from astropy.table import MaskedColumn, Table
    for it in range(n):
        k = rng.choice([2, 1, 0])
        names = list(kind_class(k).names)
        mode = rng.choice(['all', 'subset', 'subset', 'prefixed', 'galactic', 'extra', 'none', 'masked', 'masked'])
        if mode in ('all', 'masked'):
            cols = list(names)
        elif mode in ('subset', 'extra'):
            cols = [x for x in names if rng.random() < 0.6] or [names[0]]
        elif mode == 'prefixed':
            cols = ['p_' + x for x in names]
        elif mode == 'galactic':
            cols = [x.replace('ra', 'lon').replace('dec', 'lat') if x in ('ra', 'dec', 'err_ra', 'err_dec', 'ra_str', 'dec_str')
                    else x for x in names]
        else:
            cols = ['foo']
        if mode == 'extra':
            cols += ['foo', 'island2', 'RA']
        rng.shuffle(cols)
        m = rng.choice([0, 1, 2, 4]) if mode != 'masked' else rng.choice([1, 2, 4])
        pool = []
        tcols = []
        gcols = []
        for c in cols:
            base = c[2:] if c.startswith('p_') else c
            if base in STR_ATTRS:
                vals = [gen_uuid(rng) for _ in range(m)]
            elif base in INT_ATTRS:
                vals = [rng.randint(-1, 99) for _ in range(m)]
            else:
                vals = [rng.uniform(-5, 5) for _ in range(m)]
            # masked cells: what astropy returns for NaN / empty strings (any column may be hit here)
            mask = [mode == 'masked' and rng.random() < 0.35 for _ in range(m)]
            if any(mask):
                tcols.append(MaskedColumn(vals, name=c, mask=mask))
            else:
                tcols.append(MaskedColumn(vals, name=c) if (mode == 'masked' and m) else
                             (np.array(vals) if m else np.array(vals, dtype=float)))
            gcols.append(f'({g_str(c)}, [{"; ".join("CMasked" if mk else g_cell(v, pool) for v, mk in zip(vals, mask))}])')
        t = Table(tcols, names=cols)
        with warnings.catch_warnings():
            warnings.simplefilter('ignore')
            srcs = cat.table_to_source_list(t, kind_class(k))
        impl = []
        for s in srcs:
            row = []
            for nme in names:
                g = getattr(s, nme)
                row.append(g if is_masked(g) else (g.item() if hasattr(g, 'item') else g))
            impl.append((type(s).__name__, row))
        exprs.append(f'load_obs {k} [{"; ".join(gcols)}]')
        case = {'kind': k, 'columns': cols, 'rows': m, 'mode': mode}

        def chk(v, impl=impl, pool=pool, names=names, k=k, case=case):
            bad = []
            if len(v) != len(impl):
                bad.append(f'{len(impl)} sources loaded, model {len(v)}')
                return ('table_to_source_list', bad, case)
            for i, (mrow, (cls, irow)) in enumerate(zip(v, impl)):
                if cls != KIND_NAMES[k]:
                    bad.append(f'row {i} is a {cls}')
                for nme, mc, ic in zip(names, mrow, irow):
                    tag, z, s = mc
                    if tag == 6:
                        ok = is_masked(ic)
                    elif is_masked(ic):
                        ok = False
                    elif (tag, z) == (2, -7):               # the class default NaN
                        ok = isinstance(ic, float) and math.isnan(ic)
                    elif (tag, s) == (3, 'fresh'):          # the fresh uuid4 of the default object
                        ok = isinstance(ic, str) and len(ic) == 36 and ic.count('-') == 4
                    elif tag == 1:
                        ok = isinstance(ic, int) and not isinstance(ic, bool) and ic == z
                    elif tag == 2:
                        ok = isinstance(ic, float) and z >= 0 and ic == pool[z]
                    elif tag == 3:
                        ok = isinstance(ic, str) and ic == s
                    else:
                        ok = False
                    if not ok:
                        bad.append(f'row {i} {nme}: implementation {ic!r} model {mc}')
            return ('table_to_source_list', bad[:5], case)
        checks.append(chk)
        ctx.case(key=('load', json.dumps(case, sort_keys=True)) if m else None, bucket='corr:loader')


def corr_db(ctx, exprs, checks, n, work):
    rng = ctx.rng
    cat, _ = _mods()
    for it in range(n):
        m = rng.choice([1, 2, 3, 5])
        prof, desc = gen_catalog(rng, m, prof=rng.choice(['minus1', 'mixed', 'nan', 'plain']))
        fn = os.path.join(work, 'cdb.db')
        with warnings.catch_warnings():
            warnings.simplefilter('ignore')
            cat.save_catalog(fn, mk_catalog(desc), meta=None)
        con = sqlite3.connect(fn)
        impl = []
        for (tn,) in con.execute("select name from sqlite_master where type='table' and name != 'meta' order by rowid").fetchall():
            cols = [r[1] for r in con.execute(f'pragma table_info({tn})')]
            rows = con.execute(f'select * from {tn} order by rowid').fetchall()
            impl.append((tn, cols, rows))
        con.close()
        os.remove(fn)
        pool = []
        term = '[' + '; '.join(g_source(d, pool) for d in desc) + ']'
        exprs.append(f'db_obs {term}')
        case = {'profile': prof, 'catalog': desc if m <= 2 else desc[:2], 'rows': m}

        def chk(v, impl=impl, pool=pool, case=case):
            bad = []
            if [x[0] for x in v] != [x[0] for x in impl]:
                bad.append(f'tables: implementation {[x[0] for x in impl]} model {[x[0] for x in v]}')
                return ('sqlite tables', bad, case)
            for (tn, mcols, mrows), (_, icols, irows) in zip(v, impl):
                if mcols != icols:
                    bad.append(f'{tn}: columns differ')
                if len(mrows) != len(irows):
                    bad.append(f'{tn}: {len(irows)} rows, model {len(mrows)}')
                    continue
                for i, (mr, ir) in enumerate(zip(mrows, irows)):
                    for (tag, z, s), g, cn in zip(mr, ir, mcols):
                        if tag == 1:
                            ok = g == z and not isinstance(g, bool)
                        elif tag == 2:
                            ok = (g is None) if math.isnan(pool[z]) else (g == pool[z])
                        elif tag == 3:
                            ok = g == s
                        elif tag == 9:
                            ok = g is None
                        else:
                            ok = False
                        if not ok:
                            bad.append(f'{tn} row {i} {cn}: sqlite holds {g!r}, model {(tag, z, s)}'
                                       + (f' = {pool[z]!r}' if tag == 2 else ''))
            return ('sqlite tables', bad[:5], case)
        checks.append(chk)
        ctx.case(key=('db', json.dumps(desc, sort_keys=True)[:300]), bucket='corr:sqlite')


# ------------------------------------------------------------------------------------------
METAS = [None, {'PROGRAM': 'verif', 'DATE': '2026-01-01 00:00:00', 'IMAGE': 'a b.fits', 'NOTE': 'x=1, y:2'}]


def plan(ctx):
    """list of (bucket, n rows, profile, formats, prefix, meta)"""
    rng = ctx.rng
    quick = ctx.tier == 'quick'
    out = []
    sizes = [1, 1, 2, 3, 5, 17, 60] if quick else [1, 1, 2, 2, 3, 5, 9, 17, 60, 150, 400]
    profs = ['mixed', 'firstrow', 'extreme', 'nan', 'plain', 'minus1', 'intcol', 'emptystr', 'someempty', 'npfloat', 'npint']
    for rep in range(1 if quick else 4):
        for prof in profs:
            for n in sizes:
                out.append((prof, n, prof, ALL_FORMATS + ['db'], rng.choice([None, None, 'p', 'my_cat']), rng.choice(METAS)))
    # every format with prefix and with metadata at least once per run
    for fmt in ALL_FORMATS:
        out.append(('prefix', 4, 'mixed', [fmt], 'pre', METAS[1]))
        out.append(('meta', 4, 'mixed', [fmt], None, METAS[1]))
    big = [200] if quick else [1000, 2000]
    for n in big:
        out.append(('big', n, 'mixed', ALL_FORMATS + ['db'], None, None))
    return out


def run_roundtrips(ctx, known, stop_after=None):
    rng = ctx.rng
    hits = {}
    nfiles = 0
    nhard = 0
    per_fmt = {}
    counts = {}
    for bucket, n, prof, fmts, prefix, meta in plan(ctx):
        _, desc = gen_catalog(rng, n, prof=prof)
        for fmt in fmts:
            if fmt == 'db':
                probs = roundtrip_db(ctx.work, desc, meta=meta)
                pre = None
            else:
                probs = roundtrip(ctx.work, desc, fmt, prefix=prefix, meta=meta)
                pre = prefix
            nfiles += 1
            counts[fmt] = counts.get(fmt, 0) + 1
            ctx.case(key=('rt', fmt, pre, bool(meta), prof, n, json.dumps(desc[0], sort_keys=True)[:160]),
                     bucket=f'roundtrip:{fmt}',
                     sample={'format': fmt, 'rows': n, 'profile': prof, 'prefix': pre, 'meta': bool(meta),
                             'first_source': desc[0]} if len(ctx.samples) < 5 and n <= 2 else None)
            ctx.hist[f'profile:{prof}'] = ctx.hist.get(f'profile:{prof}', 0) + 1
            hard = [p for p in probs if p[0] not in known]
            for p in probs:
                if p[0] in known:
                    hits[p[0]] = hits.get(p[0], 0) + 1
            if hard:
                nhard += 1
                per_fmt[fmt] = per_fmt.get(fmt, 0) + 1
                if per_fmt[fmt] > 2:   # enough concrete inputs for this format: keep a failing run short
                    if nhard <= 40:
                        ctx.mismatch(f'round trip through .{fmt}', {'format': fmt, 'prefix': pre, 'meta': bool(meta), 'rows': n,
                                                                   'profile': prof}, impl=[p[1] for p in hard[:2]])
                    continue

                def fails(dd, fmt=fmt, pre=pre, meta=meta):
                    pr = roundtrip_db(ctx.work, dd, meta=meta, base='shr') if fmt == 'db' else \
                        roundtrip(ctx.work, dd, fmt, prefix=pre, meta=meta, base='shr')
                    return any(p[0] not in known for p in pr)
                small = shrink(desc, fails)
                pr = roundtrip_db(ctx.work, small, meta=meta, base='shr') if fmt == 'db' else \
                    roundtrip(ctx.work, small, fmt, prefix=pre, meta=meta, base='shr')
                what = [p[1] for p in pr if p[0] not in known][:4]
                ctx.mismatch(f'round trip through .{fmt}', {'format': fmt, 'prefix': pre, 'meta': meta, 'rows': len(small),
                                                           'profile': prof, 'catalog': small}, impl=what,
                             is_violation={'kind': 'roundtrip', 'fmt': fmt, 'prefix': pre, 'meta': meta, 'catalog': small,
                                           'what': what})
                if stop_after is not None:
                    return hits, nfiles, counts
    return hits, nfiles, counts


def probes(ctx):
    """behaviour outside the stated domain, recorded as notes (never a failure)"""
    notes = []
    work = ctx.work

    def one(desc, fmt, col, **kw):
        try:
            return [p for p in roundtrip(work, desc, fmt, base='pr', **kw) if col in p[1] or p[0].endswith('raised')]
        except Exception as e:  # noqa
            return [('crash', f'{type(e).__name__}: {e}')]
    base = gen_catalog(ctx.rng, 2, prof='plain', kinds=[2])[1]
    d = json.loads(json.dumps(base))
    d[0]['a']['uuid'] = enc('12345678')
    d[1]['a']['uuid'] = enc('00000042')
    p = one(d, 'csv', 'uuid')
    notes.append('probe digit-only uuids, .csv: ' + (p[0][1][:160] if p else 'round trip exact'))
    d = json.loads(json.dumps(base))
    d[0]['a']['uuid'] = enc('')
    p = one(d, 'csv', 'uuid')
    notes.append("probe empty uuid, .csv: " + (p[0][1][:160] if p else 'round trip exact'))
    p = one(base, 'fits', '', prefix='err')
    notes.append("probe prefix='err', .fits: " + (p[0][1][:160] if p else 'round trip exact'))
    d = json.loads(json.dumps(base))
    d[0]['a']['island'] = enc(2 ** 31)
    p = one(d, 'fits', 'island')
    notes.append('probe island = 2**31, .fits: ' + (p[0][1][:160] if p else 'round trip exact'))
    return notes


def run(ctx, model_ok=True):
    quick = ctx.tier == 'quick'
    known = known_classes()
    ctx.rule = ('catalogues of real ComponentSource / IslandSource / SimpleSource objects (mixed kinds, 1..200 rows quick, ..2000 thorough; '
                'profiles: mixed, atypical first row (short strings, integer-valued floats), extreme magnitudes 5e-324..1.8e308, NaN '
                'fields, negative fluxes, -1 markers as int and float, uuids of 1..64 characters, int-only float columns, empty coordinate strings '
                'in some / all rows), written with '
                'save_catalog to csv tab tex vot xml vo fits (with/without prefix and metadata) and sqlite, read back with load_table + '
                'table_to_source_list (sqlite3 queries for .db) and compared cell by cell: ints/strings exact, doubles exact (binary32 '
                'rounding for FITS), NaN as NaN. Correspondence cases: file names x extensions, classify/split/columns on mixed lists '
                'incl. non-sources, FITS TFORMs, loader on tables with missing/extra/prefixed columns, sqlite tables. distinct = distinct '
                '(check, input); non-trivial = at least 2 rows or a non-default option.')
    t0 = time.time()
    import logging
    logging.getLogger('Aegean').setLevel(logging.CRITICAL)
    # ---- 2 correspondence with the model
    exprs, checks = [], []
    for fn, args in ((corr_names, (60 if quick else 400,)), (corr_split, (40 if quick else 300,)),
                     (corr_fits, (30 if quick else 200, ctx.work)), (corr_loader, (40 if quick else 300,)),
                     (corr_db, (15 if quick else 100, ctx.work))):
        n0 = len(exprs)
        try:
            fn(ctx, exprs, checks, *args)
        except Exception:  # noqa
            import traceback
            del exprs[n0:]
            del checks[n0:]
            ctx.oblige(f'correspondence cases of {fn.__name__} can be prepared on the implementation', False,
                       traceback.format_exc()[-1500:])
    ctx.notes.append(f'{len(exprs)} correspondence cases prepared on the implementation in {time.time() - t0:.1f}s')
    if model_ok:
        t1 = time.time()
        vals, err = vlib.coq_eval(ctx, IMPORTS, exprs, shard=40, workers=12)
        if vals is None:
            ctx.oblige('model evaluation (vm_compute) of Model.Catalog', False, err)
        else:
            per = {}
            for v, chk in zip(vals, checks):
                what, bad, case = chk(v)
                ok, tot = per.get(what.split(' of ')[0], (0, 0))
                per[what.split(' of ')[0]] = (ok + (0 if bad else 1), tot + 1)
                if bad:
                    ctx.mismatch(f'AegeanTools.catalogs vs Model.Catalog: {what}', case, impl=bad[:3])
            for what, (ok, tot) in sorted(per.items()):
                ctx.oblige(f'correspondence: {what}: {tot} cases equal to the model', ok == tot, f'{tot - ok} cases differ')
            ctx.traces = len(vals)
            ctx.notes.append(f'model evaluation took {time.time() - t1:.1f}s')
    # ---- 3 library hypotheses: real round trips
    t2 = time.time()
    nfail0 = len(ctx.failures)
    hits, nfiles, counts = run_roundtrips(ctx, known)
    ok = len(ctx.failures) == nfail0
    for fmt in TEXT_FORMATS + VO_FORMATS:
        ctx.hyp[f'astropy .{fmt}: read(write(table)) returns the same columns, rows and cells (int, str, double exact)'] = counts.get(fmt, 0)
    ctx.hyp['astropy .fits with the column formats chosen by writeFITSTable: nA keeps strings up to n chars, J ints, E = binary32'] = counts.get('fits', 0)
    ctx.hyp['sqlite3: executemany stores ints / doubles / strings exactly, NaN as NULL'] = counts.get('db', 0)
    ctx.hyp['os.path.splitext = Model.Catalog.splitext'] = sum(1 for e in exprs if e.startswith('name_obs'))
    ctx.oblige(f'library hypothesis: {nfiles} real round trips (csv tab tex vot xml vo fits sqlite) return every cell as the property demands',
               ok, 'see the replay file')
    ctx.notes.append(f'{nfiles} round trips in {time.time() - t2:.1f}s; tolerated recorded deviations: {hits}')
    # ---- recorded findings: reproduce on a fixed input, report
    for cls, text in known.items():
        if cls == 'prefix-loader':
            if any(p[0] == 'prefix-loader' for p in roundtrip(ctx.work, PREFIX_WITNESS, 'csv', prefix='p')):
                ctx.known_lines.append(text)
    # ---- the repaired defect (Refuted/C18_first_row.v): the witness must now survive
    w = gen_catalog(ctx.rng, 2, prof='plain', kinds=[2])[1]
    w[0]['a']['ra_str'] = enc('XX:XX:XX.XX')
    w[1]['a']['ra_str'] = enc('-20:30:00.00')
    pr = [p for p in roundtrip(ctx.work, w, 'fits') if p[0] not in known]
    ctx.oblige('witness of Refuted/C18_first_row (short ra_str first) survives the FITS round trip on the current code', not pr, pr[:2])
    if pr:
        ctx.mismatch('FITS string width', {'ra_str': ['XX:XX:XX.XX', '-20:30:00.00']}, impl=pr[:2],
                     is_violation={'kind': 'roundtrip', 'fmt': 'fits', 'prefix': None, 'meta': None, 'catalog': w,
                                   'what': [p[1] for p in pr[:3]]})
    # ---- all-empty string columns (the class default '') with 2 and 3 rows, every format
    bad = []
    for nrow in (2, 3):
        for k in (2, 1):
            d = gen_catalog(ctx.rng, nrow, prof='emptystr', kinds=[k])[1]
            for fmt in ALL_FORMATS + ['db']:
                pr = roundtrip_db(ctx.work, d, base='em') if fmt == 'db' else roundtrip(ctx.work, d, fmt, base='em')
                pr = [p for p in pr if p[0] not in known]
                ctx.case(key=('empty', fmt, nrow, k), bucket='roundtrip:all-empty-strings')
                if pr:
                    bad.append((fmt, pr[0][1]))
                    ctx.mismatch(f'all-empty ra_str / dec_str columns through .{fmt}', {'format': fmt, 'rows': nrow, 'kind': k},
                                 impl=[p[1] for p in pr[:3]],
                                 is_violation={'kind': 'roundtrip', 'fmt': fmt, 'prefix': None, 'meta': None, 'catalog': d,
                                               'what': [p[1] for p in pr[:3]]})
    ctx.oblige("catalogues whose ra_str / dec_str are '' in every row (2-3 rows) survive every format", not bad, bad[:3])
    try:
        ctx.notes.extend(probes(ctx))
    except Exception as e:  # noqa
        ctx.notes.append(f'probes crashed: {type(e).__name__}: {e}')


def search(ctx):
    known = known_classes()
    rng = ctx.rng
    t0 = time.time()
    while time.time() - t0 < 90:
        n = rng.choice([1, 2, 3, 5, 12])
        prof, desc = gen_catalog(rng, n)
        fmt = rng.choice(ALL_FORMATS + ['db'])
        prefix = rng.choice([None, None, 'p']) if fmt != 'db' else None
        meta = rng.choice(METAS)

        def fails(dd):
            pr = roundtrip_db(ctx.work, dd, meta=meta, base='se') if fmt == 'db' else \
                roundtrip(ctx.work, dd, fmt, prefix=prefix, meta=meta, base='se')
            return [p[1] for p in pr if p[0] not in known]
        if fails(desc):
            small = shrink(desc, lambda dd: bool(fails(dd)))
            return {'kind': 'roundtrip', 'fmt': fmt, 'prefix': prefix, 'meta': meta, 'catalog': small, 'what': fails(small)[:4]}
    return None


def replay(ctx, obj):
    fi = obj.get('failing_input')
    if not fi:
        print('replay file has no concrete input; broken obligations were:')
        for b in obj.get('broken', []):
            print('  ', b.get('what'), str(b.get('detail', b.get('case', '')))[:400])
        return 1
    known = known_classes()
    import logging
    logging.getLogger('Aegean').setLevel(logging.CRITICAL)
    if fi.get('kind') == 'split':
        sp = split_problem(fi['catalog'], fi['filename'], fi.get('prefix'))
        print(f"save_catalog({fi['filename']!r}, prefix={fi.get('prefix')!r}) on classes {[d['k'] for d in fi['catalog']]} "
              f"(2 component, 1 island, 0 simple, 9 not a source), galactic {[d['g'] for d in fi['catalog']]}")
        print('implementation:', sp or 'property holds on this catalogue')
        return 1 if sp else 0
    if fi['fmt'] == 'db':
        pr = roundtrip_db(ctx.work, fi['catalog'], meta=fi.get('meta'))
    else:
        pr = roundtrip(ctx.work, fi['catalog'], fi['fmt'], prefix=fi.get('prefix'), meta=fi.get('meta'))
    pr = [p for p in pr if p[0] not in known]
    print(f"catalogue of {len(fi['catalog'])} source(s), format .{fi['fmt']}, prefix={fi.get('prefix')!r}, meta={bool(fi.get('meta'))}")
    for d in fi['catalog'][:3]:
        print('  ', KIND_NAMES[d['k']], {n: dec(v) for n, v in d['a'].items()})
    print('implementation:', [p[1] for p in pr[:5]] or 'property holds on this catalogue')
    return 1 if pr else 0
