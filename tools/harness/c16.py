"""C16 - pixel <-> sky conversion of positions, vectors and ellipses (AegeanTools.wcs_helpers.WCSHelper)."""
import math
import time

import numpy as np

import vlib
from vlib import rlit
from fixtures import make_header
from harness import c16x

GEN = ['WcsHelper', 'Sphere'] + c16x.GEN_EXTRA
EXTRA_TARGETS = ['Proofs/WcsCert.vo'] + c16x.EXTRA_TARGETS
LEVEL = 'proof'
TRUSTED = [
    'Coq 8.16.1 kernel; real-number axioms of the standard library (sig_forall_dec, sig_not_dec, functional_extensionality_dep, classic)',
    'translator tools/points_c16.py (R back end with pairs): reading of the straight-line bodies of sky2pix_vec / pix2sky_vec / '
    'sky2pix_ellipse / pix2sky_ellipse (tuple unpacking as fst/snd, np.hypot sqrt arctan2 degrees radians cos sin abs pi, calls of '
    'self.pix2sky / self.sky2pix / translate / gcd / bear), and the shape matchers of pix2sky / sky2pix (`[[y, x]]`, origin literal, '
    '`[pixel[0][1], pixel[0][0]]`, ra_dec_order=self.ra_dec_order with `self.ra_dec_order = False` in __init__)',
    'Model/WcsHelper.v: astropy origin convention all_pix2world(p, o) = P_FITS(p + (1 - o)), all_world2pix(s, o) = S_FITS(s) - (1 - o)',
    'Lib/RBase.v: atan2 / hypot are numpy.arctan2 / numpy.hypot on real arguments',
    'Interval tactic: every premise of the per-case certificates (Proofs/WcsCert.v) is checked by the kernel',
    'astropy.wcs / wcslib: NOT modelled - universally quantified functions in every theorem; hypotheses validated below',
    'the independent implementation of the FITS zenithal projections in this harness (fits_pix2sky_ref: Calabretta & Greisen 2002, '
    'eqs. 2, 14, 15, 54-70 for TAN SIN STG ARC ZEA with LONPOLE = 180)',
]
ASSUMPTIONS = [
    'library hypothesis S(P p) = p (1e-9 pixel) and P(S s) = s with RA modulo 360 (1e-9 deg) on the image: validated on every WCS of the run',
    'library hypothesis (local continuity of wcslib): the e-neighbourhood (e = 2^-41 deg resp. 2^-38 pixel) of every recorded wcslib '
    'argument is mapped into the box of half-width E\' = 2 L e + 64 ulp around the recorded result (L = pixel scale resp. its inverse, '
    'RA widened by 1/cos dec): premise `nearf` of every certificate, validated by sampling the real WCS at 9 points of each neighbourhood',
    'binary64 round-off of the implementation is bounded per case: lengths 2^-30 relative + 2 E\', angles sin(1e-9 deg) + 2 E\'/length',
    '|dec| <= 85 for reference points, vectors and ellipses of 1..20 pixels: translate never crosses a pole and tr_x > 0',
    'C16_ellipse_roundtrip_partial: the two hypotheses (conformality, odd linearity) hold only approximately for real projections; '
    'their defects are measured and reported, the 1e-3 / 0.01 deg clause for the minor axis is decided by execution on the real code',
]
TRUSTED += c16x.TRUSTED_EXTRA
ASSUMPTIONS += c16x.ASSUMPTIONS_EXTRA
HEADER = ("From Coq Require Import Reals.\nFrom Interval Require Import Tactic.\n"
          "From Aegean Require Import Lib.RBase Gen.Sphere Lib.Sphere Gen.WcsHelper Model.WcsHelper Proofs.WcsHelperProofs Proofs.WcsCert.\n"
          "Open Scope R_scope.")
PROJS = ['SIN', 'TAN', 'ZEA', 'ARC', 'STG']
E_SKY = 2.0 ** -41      # deg: neighbourhood of a recorded sky argument (translate output, ~8 ulp of 360)
E_PIX = 2.0 ** -38      # pixel: neighbourhood of a recorded pixel argument (~8 ulp of 4096)
D2R = math.pi / 180


def wh():
    from AegeanTools import wcs_helpers
    return wcs_helpers


# ------------------------------------------------------------------------------------------
# WCS fixtures
def rand_header(rng, k=0):
    proj = PROJS[k % len(PROJS)]
    scale = rng.choice([1.0, 2.5, 10.0, 30.0, 60.0]) if rng.random() < 0.5 else rng.uniform(1, 60)
    n = rng.choice([256, 512, 1024])
    dec0 = rng.choice([-85.0, 85.0, 0.0, -30.0, 60.0]) if rng.random() < 0.4 else rng.uniform(-85, 85)
    ra0 = rng.choice([0.0, 359.999, 0.001, 180.0, 359.5]) if rng.random() < 0.4 else rng.uniform(0, 360)
    # SIN covers a hemisphere; keep the image well inside the valid region of every projection (n * scale <= 17 deg)
    crpix = (n // 2 + 1 + rng.choice([0, 0.5, -7.25]), n // 2 + 1 + rng.choice([0, 0.5, 3.75]))
    flip = rng.random() < 0.15          # unusual handedness: RA increases with the column index
    cd = scale / 3600.0
    ratio = rng.choice([1.0, 1.0, 0.8])   # non-square pixels now and then
    cdelt = ((cd if flip else -cd), cd * ratio)
    bmaj = rng.uniform(2, 6) * cd
    beam = (bmaj, bmaj * rng.uniform(0.4, 1.0), rng.uniform(-90, 90))
    hdr = make_header((n, n), proj=proj, crval=(ra0, dec0), cdelt=cdelt, crpix=crpix, beam=beam)
    desc = {'proj': proj, 'crval': [ra0, dec0], 'crpix': list(crpix), 'cdelt': list(cdelt), 'naxis': n, 'beam': list(beam)}
    return hdr, desc


def header_of(desc):
    return make_header((desc['naxis'], desc['naxis']), proj=desc['proj'], crval=tuple(desc['crval']), cdelt=tuple(desc['cdelt']),
                       crpix=tuple(desc['crpix']), beam=tuple(desc['beam']))


class Recorder:
    """wraps wcs.all_pix2world / all_world2pix of a WCSHelper and records (argument, origin, result) of every call"""

    def __init__(self, helper):
        self.h = helper
        self.calls = []
        w = helper.wcs
        self._p2w, self._w2p = w.all_pix2world, w.all_world2pix

        def p2w(*a, **k):
            out = self._p2w(*a, **k)
            self.calls.append(('P', [float(v) for v in np.asarray(a[0], dtype=float).ravel()], a[1], [float(v) for v in np.asarray(out).ravel()],
                               k.get('ra_dec_order', None)))
            return out

        def w2p(*a, **k):
            out = self._w2p(*a, **k)
            self.calls.append(('S', [float(v) for v in np.asarray(a[0], dtype=float).ravel()], a[1], [float(v) for v in np.asarray(out).ravel()],
                               k.get('ra_dec_order', None)))
            return out
        w.all_pix2world, w.all_world2pix = p2w, w2p

    def take(self):
        c, self.calls = self.calls, []
        return c

    def close(self):
        self.h.wcs.all_pix2world, self.h.wcs.all_world2pix = self._p2w, self._w2p


def fits_calls(calls, kind, n):
    """the recorded calls as FITS-level (1-based) values; None if the shape is not n calls of one point of the given kind"""
    if len(calls) != n or any(c[0] != kind or len(c[1]) != 2 or len(c[3]) != 2 or c[2] not in (0, 1) or c[4] not in (False, None)
                              for c in calls):
        return None
    out = []
    for _, a, o, r, _ in calls:
        sh = 1 - o
        if kind == 'P':
            out.append(((a[0] + sh, a[1] + sh), (r[0], r[1])))
        else:
            out.append(((a[0], a[1]), (r[0] + sh, r[1] + sh)))
    return out


# ------------------------------------------------------------------------------------------
# independent implementation of the FITS zenithal projections (Calabretta & Greisen 2002), pixel -> sky
def fits_pix2sky_ref(desc, p1, p2):
    """p1, p2: FITS 1-based pixel coordinates along axis 1 (RA-like, columns) and axis 2 (rows). Returns (ra, dec) in degrees."""
    x = desc['cdelt'][0] * (p1 - desc['crpix'][0])       # intermediate world coordinates, degrees
    y = desc['cdelt'][1] * (p2 - desc['crpix'][1])
    r = math.hypot(x, y)                                 # R_theta in degrees
    phi = math.atan2(x, -y)                              # native longitude: arg(-y, x)
    rr = r * D2R
    proj = desc['proj']
    if proj == 'TAN':
        theta = math.atan2(1.0, rr)                      # R = cot(theta)
    elif proj == 'SIN':
        theta = math.acos(min(1.0, rr))                  # R = cos(theta)
    elif proj == 'STG':
        theta = math.pi / 2 - 2 * math.atan(rr / 2)      # R = 2 tan((90 - theta)/2)
    elif proj == 'ARC':
        theta = math.pi / 2 - rr                         # R = 90 - theta
    elif proj == 'ZEA':
        theta = math.pi / 2 - 2 * math.asin(rr / 2)      # R = 2 sin((90 - theta)/2)
    else:
        raise ValueError(proj)
    a0, d0 = desc['crval'][0] * D2R, desc['crval'][1] * D2R
    phip = math.pi                                       # LONPOLE = 180 deg (delta_0 < theta_0 = 90)
    dphi = phi - phip
    st, ct = math.sin(theta), math.cos(theta)
    dec = math.asin(max(-1.0, min(1.0, st * math.sin(d0) + ct * math.cos(d0) * math.cos(dphi))))
    ra = a0 + math.atan2(-ct * math.sin(dphi), st * math.cos(d0) - ct * math.sin(d0) * math.cos(dphi))
    return math.degrees(ra) % 360.0, math.degrees(dec)


def ref_sep(ra1, dec1, ra2, dec2):
    """independent great-circle distance: angle between the unit vectors, atan2(|u x v|, u.v), long double"""
    LD = np.longdouble
    pi = LD('3.14159265358979323846264338327950288')

    def uv(ra, dec):
        r, d = LD(ra) * pi / 180, LD(dec) * pi / 180
        return np.array([np.cos(d) * np.cos(r), np.cos(d) * np.sin(r), np.sin(d)], dtype=LD)
    u, v = uv(ra1, dec1), uv(ra2, dec2)
    c = np.cross(u, v)
    return float(np.arctan2(np.sqrt(np.dot(c, c)), np.dot(u, v)) * 180 / pi)


def ref_pa(ra1, dec1, ra2, dec2):
    """position angle (East of North) of 2 seen from 1 in the tangent frame at 1, degrees in (-180, 180]"""
    r, d = ra1 * D2R, dec1 * D2R
    n = np.array([-math.sin(d) * math.cos(r), -math.sin(d) * math.sin(r), math.cos(d)])
    e = np.array([-math.sin(r), math.cos(r), 0.0])
    r2, d2 = ra2 * D2R, dec2 * D2R
    v = np.array([math.cos(d2) * math.cos(r2), math.cos(d2) * math.sin(r2), math.sin(d2)])
    return math.degrees(math.atan2(float(np.dot(v, e)), float(np.dot(v, n))))


def angdiff(a, b):
    d = (a - b) % 360.0
    return min(d, 360.0 - d)


# ------------------------------------------------------------------------------------------
# certified correspondence: goals for Proofs/WcsCert.v
def ulp(v):
    return math.ulp(max(abs(v), 1e-300))


def box_S(desc, out):
    """half-widths (pixels) of the box around a recorded all_world2pix result for arguments within E_SKY"""
    lip = 1.0 / min(abs(desc['cdelt'][0]), abs(desc['cdelt'][1]))
    w = 2 * lip * E_SKY * math.sqrt(2)
    return [w + 64 * ulp(max(abs(out[0]), 1024.0)), w + 64 * ulp(max(abs(out[1]), 1024.0))]


def box_P(desc, out):
    """half-widths (deg) of the box around a recorded all_pix2world result (ra, dec) for arguments within E_PIX"""
    lip = max(abs(desc['cdelt'][0]), abs(desc['cdelt'][1]))
    w = 2 * lip * E_PIX * math.sqrt(2)
    cd = max(math.cos(math.radians(min(abs(out[1]) + 1.0, 89.9))), 1e-3)
    return [w / cd + 64 * ulp(360.0), w + 64 * ulp(90.0)]


def pt_lit(a, b):
    return f"({rlit(a)}, {rlit(b)})"


def near_lit(fn, arg, e, out, half):
    return (f"nearf {fn} {pt_lit(*arg)} {rlit(e)} {pt_lit(out[0] - half[0], out[1] - half[1])} "
            f"{pt_lit(out[0] + half[0], out[1] + half[1])}")


IV = "interval with (i_prec 120)"
TR_NEAR = (f"apply translate_near; [{IV} | {IV} | {IV} | unfold tr_x, tr_factor, rad; {IV} | "
           f"unfold tr_y, tr_x, tr_factor, rad, deg; {IV} | unfold tr_factor, rad; split; {IV}]")
SIN_1E9 = math.sin(1e-9 * D2R)


def goal_sky2pix_vec(desc, pos, r, pa, calls, out):
    """calls: FITS-level [((ra, dec), (p0, p1)), ((qr, qd), (p0', p1'))]; out = implementation (x, y, l, theta)"""
    (a0, o0), (a1, o1) = calls
    half = box_S(desc, o1)
    x, y, l, th = out
    tl = abs(l) * 2.0 ** -30 + 2 * max(half)
    ta = SIN_1E9 + 2 * max(half) / abs(l)
    g = (f"Goal forall P S : pt -> pt, S {pt_lit(*a0)} = {pt_lit(*o0)} -> {near_lit('S', a1, E_SKY, o1, half)} -> "
         f"let '(x, y, l, th) := sky2pix_vec (fits_pix2sky P) (fits_sky2pix S) {pt_lit(*pos)} {rlit(r)} {rlit(pa)} in "
         f"x = {rlit(x)} /\\ y = {rlit(y)} /\\ Rabs (l - {rlit(l)}) <= {rlit(tl)} /\\ "
         f"Rabs (sin (rad th - rad {rlit(th)})) <= {rlit(ta)} /\\ 0 <= cos (rad th - rad {rlit(th)}). "
         f"Proof. intros P S H0 H1. eapply (cert_sky2pix_vec P S); [exact H0 | exact H1 | |]. "
         f"- {TR_NEAR}. "
         f"- intros u v Hu Hv. cbv zeta. cbn [fst snd] in Hu, Hv. unfold hypot, rad. repeat split; {IV}. Qed.")
    return g


def goal_pix2sky_vec(desc, pixel, r, th, calls, out):
    """calls: FITS-level [((y, x), (ra1, dec1)), ((cy, cx), (ra2, dec2))]; out = implementation (ra, dec, l, pa)"""
    (a0, o0), (a1, o1) = calls
    half = box_P(desc, o1)
    ra, dec, l, pa = out
    # tolerance on the great-circle length: relative 2^-30 plus what the box allows
    tg = abs(l) * 2.0 ** -30 + 2 * (half[0] * math.cos(math.radians(dec)) + half[1])
    glo, ghi = max(l - tg, 0.0), min(l + tg, 180.0)
    ta = SIN_1E9 + 2 * (half[0] * math.cos(math.radians(dec)) + half[1]) / abs(l)
    g = (f"Goal forall P S : pt -> pt, P {pt_lit(*a0)} = {pt_lit(*o0)} -> {near_lit('P', a1, E_PIX, o1, half)} -> "
         f"let '(ra, dec, l, pa) := pix2sky_vec (fits_pix2sky P) (fits_sky2pix S) {pt_lit(*pixel)} {rlit(r)} {rlit(th)} in "
         f"ra = {rlit(ra)} /\\ dec = {rlit(dec)} /\\ {rlit(glo)} <= l <= {rlit(ghi)} /\\ "
         f"Rabs (sin (rad pa - rad {rlit(pa)})) <= {rlit(ta)} /\\ 0 <= cos (rad pa - rad {rlit(pa)}). "
         f"Proof. intros P S H0 H1. eapply (cert_pix2sky_vec P S); [exact H0 | exact H1 | | | | |]. "
         f"- unfold rad; {IV}. - unfold rad; {IV}. - split; {IV}. - split; {IV}. "
         f"- intros u v Hu Hv. cbv zeta. cbn [fst snd] in Hu, Hv. unfold hav, bear_y, bear_x, hypot, rad. repeat split; {IV}. Qed.")
    return g


def goal_sky2pix_ellipse(desc, pos, a, b, pa, calls, out):
    """calls: FITS-level S calls at pos, translate(pos, a, pa), translate(pos, b, pa - 90); out = (x, y, sx, sy, theta)"""
    (a0, o0), (a1, o1), (a2, o2) = calls
    h1, h2 = box_S(desc, o1), box_S(desc, o2)
    x, y, sx, sy, th = out
    w = max(h1 + h2)
    tx = abs(sx) * 2.0 ** -30 + 2 * w
    ty = abs(sy) * 2.0 ** -30 + 4 * w * (1 + abs(sy) / abs(sx))
    ta = SIN_1E9 + 2 * w / abs(sx)
    g = (f"Goal forall P S : pt -> pt, S {pt_lit(*a0)} = {pt_lit(*o0)} -> {near_lit('S', a1, E_SKY, o1, h1)} -> "
         f"{near_lit('S', a2, E_SKY, o2, h2)} -> "
         f"let '(x, y, sx, sy, th) := sky2pix_ellipse (fits_pix2sky P) (fits_sky2pix S) {pt_lit(*pos)} {rlit(a)} {rlit(b)} {rlit(pa)} in "
         f"x = {rlit(x)} /\\ y = {rlit(y)} /\\ Rabs (sx - {rlit(sx)}) <= {rlit(tx)} /\\ Rabs (sy - {rlit(sy)}) <= {rlit(ty)} /\\ "
         f"Rabs (sin (rad th - rad {rlit(th)})) <= {rlit(ta)} /\\ 0 <= cos (rad th - rad {rlit(th)}). "
         f"Proof. intros P S H0 H1 H2. eapply (cert_sky2pix_ellipse P S); [exact H0 | exact H1 | exact H2 | | |]. "
         f"- {TR_NEAR}. - {TR_NEAR}. "
         f"- intros u1 v1 u2 v2 Hu1 Hv1 Hu2 Hv2. cbv zeta. cbn [fst snd] in Hu1, Hv1, Hu2, Hv2. unfold hypot, rad. repeat split; {IV}. Qed.")
    return g


def goal_pix2sky_ellipse(desc, pixel, sx, sy, th, calls, out):
    """calls: FITS-level P calls at (y, x), the major-axis end, the minor-axis end; out = (ra, dec, major, minor, pa)"""
    (a0, o0), (a1, o1), (a2, o2) = calls
    h1, h2 = box_P(desc, o1), box_P(desc, o2)
    ra, dec, major, minor, pa = out
    cd = math.cos(math.radians(dec))
    w1, w2 = h1[0] * cd + h1[1], h2[0] * cd + h2[1]
    tg = abs(major) * 2.0 ** -30 + 2 * w1
    glo, ghi = max(major - tg, 0.0), min(major + tg, 180.0)
    ta = SIN_1E9 + 2 * w1 / abs(major)
    # raw length of the second vector and the correction factor, as the implementation computes them
    A = __import__('AegeanTools.angle_tools', fromlist=['x'])
    g2 = float(A.gcd(ra, dec, o2[0], o2[1]))
    pa2 = float(A.bear(ra, dec, o2[0], o2[1])) - 90
    c = abs(math.cos(math.radians(pa - pa2)))
    tg2 = g2 * 2.0 ** -30 + 2 * w2
    g2lo, g2hi = max(g2 - tg2, 0.0), min(g2 + tg2, 180.0)
    tc = 2.0 ** -30 + 2 * (w1 / abs(major) + w2 / g2)
    clo, chi = max(c - tc, 0.0), c + tc
    tm = abs(minor) * 2.0 ** -28 + 4 * (w1 * g2 / abs(major) + w2)
    g = (f"Goal forall P S : pt -> pt, P {pt_lit(*a0)} = {pt_lit(*o0)} -> {near_lit('P', a1, E_PIX, o1, h1)} -> "
         f"{near_lit('P', a2, E_PIX, o2, h2)} -> "
         f"let '(ra, dec, major, minor, pa) := pix2sky_ellipse (fits_pix2sky P) (fits_sky2pix S) {pt_lit(*pixel)} {rlit(sx)} {rlit(sy)} {rlit(th)} in "
         f"ra = {rlit(ra)} /\\ dec = {rlit(dec)} /\\ {rlit(glo)} <= major <= {rlit(ghi)} /\\ "
         f"{rlit(minor)} - {rlit(tm)} <= minor <= {rlit(minor)} + {rlit(tm)} /\\ "
         f"Rabs (sin (rad pa - rad {rlit(pa)})) <= {rlit(ta)} /\\ 0 <= cos (rad pa - rad {rlit(pa)}). "
         f"Proof. intros P S H0 H1 H2. "
         f"eapply (cert_pix2sky_ellipse P S) with (g2lo := {rlit(g2lo)}) (g2hi := {rlit(g2hi)}) (clo := {rlit(clo)}) (chi := {rlit(chi)}); "
         f"[exact H0 | exact H1 | exact H2 | | | | | | | | | | | |]. "
         f"- unfold rad; {IV}. - unfold rad; {IV}. - unfold rad; {IV}. - unfold rad; {IV}. "
         f"- split; {IV}. - split; {IV}. - split; {IV}. - split; {IV}. - {IV}. - {IV}. - {IV}. "
         f"- intros u1 v1 u2 v2 Hu1 Hv1 Hu2 Hv2. cbv zeta. cbn [fst snd] in Hu1, Hv1, Hu2, Hv2. "
         f"unfold hav, bear_y, bear_x, hypot, rad. repeat split; {IV}. Qed.")
    return g


# ------------------------------------------------------------------------------------------
# the property on the implementation (executable oracles); each returns None or a message
TOL_PIX = 1e-6       # pixel: point round trip
TOL_REL = 1e-3       # relative: lengths after a round trip
TOL_ANG = 0.01       # deg: position angle after a round trip
TOL_STD = 1e-9       # deg: agreement with the independent FITS implementation / great-circle formula


def helper_of(desc):
    return wh().WCSHelper.from_header(header_of(desc))


def sky_of_pixel_ref(desc, x, y):
    """independent: pixel (x = row, y = column, 1-based) -> (ra, dec) by the FITS standard"""
    return fits_pix2sky_ref(desc, y, x)


def point_problem(desc, h, x, y):
    ra, dec = (float(v) for v in h.pix2sky((x, y)))
    r0, d0 = sky_of_pixel_ref(desc, x, y)
    sep = ref_sep(ra, dec, r0, d0)
    if not sep <= TOL_STD:
        # say what a swapped / 0-based reading would give
        alt = {'(column, row) order': fits_pix2sky_ref(desc, x, y), '0-based pixels': fits_pix2sky_ref(desc, y + 1, x + 1)}
        hint = [k for k, v in alt.items() if ref_sep(ra, dec, v[0], v[1]) <= TOL_STD]
        return (f'pix2sky(({x!r}, {y!r})) = ({ra!r}, {dec!r}); the FITS standard for 1-based (row, column) = ({x!r}, {y!r}) gives '
                f'({r0!r}, {d0!r}): {sep:.3e} deg apart' + (f' [the result is the standard position for {hint[0]}]' if hint else ''))
    xb, yb = (float(v) for v in h.sky2pix((ra, dec)))
    if not (abs(xb - x) <= TOL_PIX and abs(yb - y) <= TOL_PIX):
        return f'sky2pix(pix2sky(({x!r}, {y!r}))) = ({xb!r}, {yb!r}): off by ({xb - x:.3e}, {yb - y:.3e}) pixel > {TOL_PIX}'
    return None


def vec_problem(desc, h, pos, r, pa):
    """sky -> pixel -> sky of a vector; the pixel vector is also judged by the independent FITS / great-circle formulas"""
    ra, dec = pos
    x, y, l, th = (float(v) for v in h.sky2pix_vec(pos, r, pa))
    if not (math.isfinite(l) and math.isfinite(th) and l > 0):
        return f'sky2pix_vec({pos}, {r!r}, {pa!r}) = {(x, y, l, th)}'
    # independent reading of the pixel vector: both ends through the FITS formulas, then vector-formula separation / PA
    s1 = sky_of_pixel_ref(desc, x, y)
    s2 = sky_of_pixel_ref(desc, x + l * math.cos(math.radians(th)), y + l * math.sin(math.radians(th)))
    if ref_sep(s1[0], s1[1], ra, dec) > 1e-8:
        return f'sky2pix_vec({pos}, ..): origin pixel ({x!r}, {y!r}) is the FITS position {s1}, not {pos}'
    d = ref_sep(s1[0], s1[1], s2[0], s2[1])
    if abs(d - r) > TOL_REL * r:
        return (f'sky2pix_vec({pos}, {r!r}, {pa!r}) = ({x!r}, {y!r}, {l!r}, {th!r}): the pixel vector spans a great-circle length of {d!r} deg '
                f'(FITS formulas + vector formula), not r = {r!r} ({abs(d - r) / r:.2e} relative)')
    p = ref_pa(s1[0], s1[1], s2[0], s2[1])
    if angdiff(p, pa) > TOL_ANG:
        return (f'sky2pix_vec({pos}, {r!r}, {pa!r}) = ({x!r}, {y!r}, {l!r}, {th!r}): the pixel vector points to position angle {p!r} deg East of '
                f'North (FITS formulas, tangent frame), not pa = {pa!r}')
    ra2, dec2, r2, pa2 = (float(v) for v in h.pix2sky_vec((x, y), l, th))
    if ref_sep(ra2, dec2, ra, dec) > 1e-8 or abs(r2 - r) > TOL_REL * r or angdiff(pa2, pa) > TOL_ANG:
        return (f'pix2sky_vec(sky2pix_vec({pos}, {r!r}, {pa!r})) = ({ra2!r}, {dec2!r}, {r2!r}, {pa2!r}): length off by {abs(r2 - r) / r:.2e} relative, '
                f'angle by {angdiff(pa2, pa):.2e} deg')
    return None


def pixvec_problem(desc, h, pixel, r, th):
    """pix2sky_vec: great-circle length and East-of-North angle of the mapped end points; and back"""
    x, y = pixel
    ra, dec, l, pa = (float(v) for v in h.pix2sky_vec(pixel, r, th))
    s1 = sky_of_pixel_ref(desc, x, y)
    s2 = sky_of_pixel_ref(desc, x + r * math.cos(math.radians(th)), y + r * math.sin(math.radians(th)))
    d = ref_sep(s1[0], s1[1], s2[0], s2[1])
    if not abs(l - d) <= 1e-9 + 1e-7 * d:
        # what a flat-sky / rhumb reading would give
        flat = math.hypot((s2[0] - s1[0] + 180) % 360 - 180, s2[1] - s1[1])
        return (f'pix2sky_vec({pixel}, {r!r}, {th!r}) returns length {l!r} deg; the great-circle distance between the two mapped end points '
                f'(FITS formulas + vector formula) is {d!r} deg ({abs(l - d) / d:.2e} relative; hypot(dRA, dDec) would be {flat!r})')
    p = ref_pa(s1[0], s1[1], s2[0], s2[1])
    if angdiff(p, pa) > 1e-6:
        return (f'pix2sky_vec({pixel}, {r!r}, {th!r}) returns angle {pa!r} deg; the position angle East of North of the second end point seen from '
                f'the first is {p!r} deg')
    x2, y2, r2, th2 = (float(v) for v in h.sky2pix_vec((ra, dec), l, pa))
    if abs(x2 - x) > TOL_PIX or abs(y2 - y) > TOL_PIX or abs(r2 - r) > TOL_REL * r or angdiff(th2, th) > TOL_ANG:
        return (f'sky2pix_vec(pix2sky_vec({pixel}, {r!r}, {th!r})) = ({x2!r}, {y2!r}, {r2!r}, {th2!r}): length off by {abs(r2 - r) / r:.2e} relative, '
                f'angle by {angdiff(th2, th):.2e} deg')
    return None


def ellipse_problem(desc, h, pos, a, b, pa):
    """returns (message or None, cls): cls = 'opposite-side' when the only failure is the minor axis AND measuring the minor axis on
    the side that sky2pix_ellipse used (theta + 90 for the usual handedness) would have been within tolerance"""
    A = __import__('AegeanTools.angle_tools', fromlist=['x'])
    ra, dec = pos
    x, y, sx, sy, th = (float(v) for v in h.sky2pix_ellipse(pos, a, b, pa))
    if not all(math.isfinite(v) for v in (x, y, sx, sy, th)) or sx <= 0:
        return f'sky2pix_ellipse({pos}, {a!r}, {b!r}, {pa!r}) = {(x, y, sx, sy, th)}', None
    # the non-orthogonality correction: sy is the component of the mapped minor axis perpendicular to the mapped major axis
    X = [float(v) for v in h.sky2pix(pos)]
    qb = [float(v) for v in A.translate(ra, dec, b, pa - 90)]
    B = [float(v) for v in h.sky2pix(qb)]
    t = math.radians(th)
    perp = abs((B[1] - X[1]) * math.cos(t) - (B[0] - X[0]) * math.sin(t))
    full = math.hypot(B[0] - X[0], B[1] - X[1])
    if abs(sy - perp) > 1e-7 * sy + 1e-9:
        return (f'sky2pix_ellipse({pos}, {a!r}, {b!r}, {pa!r}) returns minor axis {sy!r} pixels; the component of the mapped minor axis '
                f'perpendicular to the mapped major axis is {perp!r} (its full length is {full!r})'), None
    # independent reading of the major axis in pixel space
    s1 = sky_of_pixel_ref(desc, x, y)
    s2 = sky_of_pixel_ref(desc, x + sx * math.cos(t), y + sx * math.sin(t))
    d = ref_sep(s1[0], s1[1], s2[0], s2[1])
    p = ref_pa(s1[0], s1[1], s2[0], s2[1])
    if abs(d - a) > TOL_REL * a or angdiff(p, pa) > TOL_ANG:
        return (f'sky2pix_ellipse({pos}, {a!r}, {b!r}, {pa!r}) = ({x!r}, {y!r}, {sx!r}, {sy!r}, {th!r}): the pixel major axis spans {d!r} deg at '
                f'position angle {p!r} East of North (FITS formulas), not a = {a!r}, pa = {pa!r}'), None
    ra2, dec2, a2, b2, pa2 = (float(v) for v in h.pix2sky_ellipse((x, y), sx, sy, th))
    ea, eb, ep = abs(a2 - a) / a, abs(b2 - b) / b, angdiff(pa2, pa)
    if ref_sep(ra2, dec2, ra, dec) > 1e-8 or ea > TOL_REL or ep > TOL_ANG:
        return (f'pix2sky_ellipse(sky2pix_ellipse({pos}, {a!r}, {b!r}, {pa!r})) = ({ra2!r}, {dec2!r}, {a2!r}, {b2!r}, {pa2!r}): major axis off by '
                f'{ea:.2e} relative, angle by {ep:.2e} deg'), None
    if eb > TOL_REL:
        # would the side that sky2pix_ellipse used give the minor axis back?
        side = 1.0 if (B[1] - X[1]) * math.cos(t) - (B[0] - X[0]) * math.sin(t) > 0 else -1.0
        tt = math.radians(th + 90 * side)
        r3, d3 = (float(v) for v in h.pix2sky((x + sy * math.cos(tt), y + sy * math.sin(tt))))
        m = float(A.gcd(ra2, dec2, r3, d3)) * abs(math.cos(math.radians(pa2 - (float(A.bear(ra2, dec2, r3, d3)) + 90))))
        cls = 'opposite-side' if abs(m - b) / b <= TOL_REL / 4 and eb < 20 * TOL_REL else None
        return (f'pix2sky_ellipse(sky2pix_ellipse({pos}, {a!r}, {b!r}, {pa!r})) returns minor axis {b2!r}, not {b!r}: {eb:.2e} relative > {TOL_REL} '
                f'(major {ea:.1e}, angle {ep:.1e} deg are fine; measured on the side of the centre that sky2pix_ellipse used it would be {m!r}, '
                f'{abs(m - b) / b:.1e} relative)'), cls
    return None, None


def partial_defects(h, pos, a, b, pa):
    """how far the two hypotheses of C16_ellipse_roundtrip_partial are from holding on a real WCS at this ellipse:
    (deviation from 90 deg of the angle between the mapped axes, |P(2X - B) - translate(pos, b, pa + 90)| / b)"""
    A = __import__('AegeanTools.angle_tools', fromlist=['x'])
    ra, dec = pos
    X = [float(v) for v in h.sky2pix(pos)]
    PA_ = [float(v) for v in h.sky2pix([float(v) for v in A.translate(ra, dec, a, pa)])]
    PB = [float(v) for v in h.sky2pix([float(v) for v in A.translate(ra, dec, b, pa - 90)])]
    ang = math.degrees(math.atan2(PA_[1] - X[1], PA_[0] - X[0]) - math.atan2(PB[1] - X[1], PB[0] - X[0]))
    orth = abs(abs((ang + 180) % 360 - 180) - 90)
    r = [float(v) for v in h.pix2sky((2 * X[0] - PB[0], 2 * X[1] - PB[1]))]
    qc = [float(v) for v in A.translate(ra, dec, b, pa + 90)]
    return orth, ref_sep(r[0], r[1], qc[0], qc[1]) / b


def pixellipse_problem(desc, h, pixel, sx, sy, th):
    """pix2sky_ellipse: axes are great-circle lengths of the mapped end points (the minor one times the correction <= 1)"""
    x, y = pixel
    ra, dec, major, minor, pa = (float(v) for v in h.pix2sky_ellipse(pixel, sx, sy, th))
    s0 = sky_of_pixel_ref(desc, x, y)
    s1 = sky_of_pixel_ref(desc, x + sx * math.cos(math.radians(th)), y + sx * math.sin(math.radians(th)))
    s2 = sky_of_pixel_ref(desc, x + sy * math.cos(math.radians(th - 90)), y + sy * math.sin(math.radians(th - 90)))
    d1, d2 = ref_sep(s0[0], s0[1], s1[0], s1[1]), ref_sep(s0[0], s0[1], s2[0], s2[1])
    p1, p2 = ref_pa(s0[0], s0[1], s1[0], s1[1]), ref_pa(s0[0], s0[1], s2[0], s2[1])
    want = d2 * abs(math.cos(math.radians(p1 - (p2 - 90))))
    if not (abs(major - d1) <= 1e-9 + 1e-7 * d1 and angdiff(pa, p1) <= 1e-6 and abs(minor - want) <= 1e-9 + 1e-6 * d2):
        return (f'pix2sky_ellipse({pixel}, {sx!r}, {sy!r}, {th!r}) = (.., major {major!r}, minor {minor!r}, pa {pa!r}); great-circle lengths of the '
                f'mapped axes (FITS formulas + vector formula) are {d1!r} and {d2!r} * |cos defect| = {want!r}, position angle {p1!r}')
    return None


def psf_problem(desc, h, pts):
    """psf lookups without a psf map: the pixel psf is the header beam converted at the reference pixel; sky2sky converts it back"""
    bmaj, bmin, bpa = desc['beam']
    refsky = [float(v) for v in h.pix2sky((desc['crpix'][1], desc['crpix'][0]))]
    if ref_sep(refsky[0], refsky[1], desc['crval'][0], desc['crval'][1]) > TOL_STD:
        return f'the reference pixel maps to {refsky}, not to CRVAL = {desc["crval"]}'
    want = [float(v) for v in h.sky2pix_ellipse(refsky, bmaj, bmin, bpa)][2:]
    for (x, y) in pts:
        got = [float(v) for v in h.get_psf_pix2pix(x, y)]
        ra, dec = (float(v) for v in h.pix2sky((x, y)))
        got2 = [float(v) for v in h.get_psf_sky2pix(ra, dec)]
        if got != want or got2 != want:
            return f'get_psf_pix2pix({x!r}, {y!r}) = {got}, get_psf_sky2pix = {got2}; the header beam at the reference pixel is {want} pixels'
    # pixel scale: the psf in pixels is the beam in degrees over the pixel size (reference pixel: the projection is conformal there)
    if abs(desc['cdelt'][0]) == abs(desc['cdelt'][1]):
        sc = abs(desc['cdelt'][1])
        if abs(want[0] * sc - bmaj) > TOL_REL * bmaj or abs(want[1] * sc - bmin) > TOL_REL * bmin:
            return f'pixel psf {want} times the pixel size {sc!r} is not the header beam ({bmaj!r}, {bmin!r})'
    a, b, pa = (float(v) for v in h.get_psf_sky2sky(refsky[0], refsky[1]))
    if abs(a - bmaj) > TOL_REL * bmaj or abs(b - bmin) > TOL_REL * bmin or (angdiff(pa, bpa) > TOL_ANG and angdiff(pa, bpa + 180) > TOL_ANG):
        return f'get_psf_sky2sky at the reference position returns ({a!r}, {b!r}, {pa!r}), the header beam is ({bmaj!r}, {bmin!r}, {bpa!r})'
    for (x, y) in pts:
        ra, dec = (float(v) for v in h.pix2sky((x, y)))
        got = [float(v) for v in h.get_psf_sky2sky(ra, dec)]
        xy = [float(v) for v in h.sky2pix((ra, dec))]
        ref = [float(v) for v in h.pix2sky_ellipse(xy, *want)][2:]
        if got != ref:
            return f'get_psf_sky2sky({ra!r}, {dec!r}) = {got}; pix2sky_ellipse of the pixel psf at that position gives {ref}'
        bm = h.get_skybeam(ra, dec)
        if bm is None or [float(bm.a), float(bm.b), float(bm.pa)] != got:
            return f'get_skybeam({ra!r}, {dec!r}) differs from get_psf_sky2sky'
        if abs(float(h.get_beamarea_deg2(ra, dec)) - got[0] * got[1] * math.pi) > 1e-12 * got[0] * got[1] or \
                abs(float(h.get_beamarea_pix(ra, dec)) - want[0] * want[1] * math.pi) > 1e-9 * want[0] * want[1]:
            return f'beam areas at ({ra!r}, {dec!r}) are not pi a b'
    return None


# ------------------------------------------------------------------------------------------
# generators
def rand_pixel(rng, n):
    if rng.random() < 0.2:
        return float(rng.choice([1, n, n // 2 + 1])), float(rng.choice([1, n, n // 2 + 1]))
    return rng.uniform(1, n), rng.uniform(1, n)


def rand_pa(rng):
    return rng.choice([180.0, 0.0, 90.0, -90.0, 45.0, -179.999, 179.999]) if rng.random() < 0.2 else rng.uniform(-180, 180)


def rand_shape(rng):
    """(major, minor) in pixels: sizes 1..20, axis ratios 0.1..1"""
    a = rng.choice([1.0, 20.0, 5.0]) if rng.random() < 0.3 else rng.uniform(1, 20)
    q = rng.choice([1.0, 0.5, 0.1]) if rng.random() < 0.3 else rng.uniform(0.1, 1)
    return a, max(a * q, 0.1)


def off_axis_deg(desc, x, y):
    return math.hypot((y - desc['crpix'][0]) * desc['cdelt'][0], (x - desc['crpix'][1]) * desc['cdelt'][1])


# recorded finding: TAN, 60 arcsec pixels, 384 pixels off axis in both coordinates, circular 20 pixel ellipse
KNOWN_DESC = {'proj': 'TAN', 'crval': [10.0, 0.0], 'crpix': [513.0, 513.0], 'cdelt': [-1.0 / 60, 1.0 / 60], 'naxis': 1024,
              'beam': [0.1, 0.05, 0.0]}
KNOWN_INPUT = ((16.463024690674214, -6.357653900936228), 1.0 / 3, 1.0 / 3, 30.0)


def known_minor():
    return [t for kind, t in vlib.known_findings('C16') if kind == 'finding' and 'minor axis' in t]


def validate_wcs(ctx, desc, h, rng, npts):
    """library hypotheses on this WCS: S(P p) = p, P(S s) = s (RA mod 360), P = FITS standard.  Returns a message or None"""
    w = h.wcs
    n = desc['naxis']
    scale = min(abs(desc['cdelt'][0]), abs(desc['cdelt'][1]))
    tol_px = max(1e-9, 32 * ulp(360.0) / scale)
    for _ in range(npts):
        p = [rng.uniform(-20, n + 21), rng.uniform(-20, n + 21)]
        s = [float(v) for v in w.all_pix2world([p], 1)[0]]
        pb = [float(v) for v in w.all_world2pix([s], 1)[0]]
        if max(abs(pb[0] - p[0]), abs(pb[1] - p[1])) > tol_px:
            return f'S(P p) = p fails on {desc}: p = {p}, S(P p) = {pb}'
        sb = [float(v) for v in w.all_pix2world([pb], 1)[0]]
        if ref_sep(sb[0], sb[1], s[0], s[1]) > 1e-9 or abs(sb[1] - s[1]) > 1e-9:
            return f'P(S s) = s fails on {desc}: s = {s}, P(S s) = {sb}'
        s2 = [s[0] + rng.choice([-360.0, 0.0, 360.0]), s[1]]          # the argument of S may carry any multiple of 360
        pb2 = [float(v) for v in w.all_world2pix([s2], 1)[0]]
        if max(abs(pb2[0] - p[0]), abs(pb2[1] - p[1])) > tol_px:
            return f'S ignores multiples of 360 in RA fails on {desc}: s = {s2}, S s = {pb2}, expected {p}'
        r0 = fits_pix2sky_ref(desc, p[0], p[1])
        if ref_sep(s[0], s[1], r0[0], r0[1]) > TOL_STD:
            return f'astropy all_pix2world({p}, 1) = {s} on {desc}; the FITS zenithal formulas give {r0}'
    return None


def validate_near(h, kind, arg, e, out, half, rng):
    """the e-neighbourhood of a recorded argument is mapped into the box (9 sample points); arguments/results are FITS-level"""
    w = h.wcs
    f = w.all_pix2world if kind == 'P' else w.all_world2pix
    pts = [(0, 0), (1, 1), (1, -1), (-1, 1), (-1, -1)] + [(rng.uniform(-1, 1), rng.uniform(-1, 1)) for _ in range(4)]
    for (i, j) in pts:
        q = [arg[0] + i * e, arg[1] + j * e]
        r = [float(v) for v in f([q], 1)[0]]
        if not (abs(r[0] - out[0]) <= half[0] and abs(r[1] - out[1]) <= half[1]):
            return False
    return True


def one_header_cases(ctx, rng, k, n_cases, n_goals, model_ok, acc):
    """oracles and certificate goals on one random WCS"""
    hdr, desc = rand_header(rng, k)
    h = wh().WCSHelper.from_header(hdr)
    n = desc['naxis']
    scale = abs(desc['cdelt'][1])
    msg = validate_wcs(ctx, desc, h, rng, acc['nval'])
    acc['hyp_pts'] += acc['nval']
    if msg:
        acc['hyp_ok'] = False
        ctx.mismatch('library hypothesis on astropy.wcs', {'header': desc}, impl=msg)
    rec = Recorder(h)
    try:
        for j in range(n_cases):
            x, y = rand_pixel(rng, n)
            want_goal = model_ok and j < n_goals
            bucket = f"{desc['proj']} {'<4' if off_axis_deg(desc, x, y) < 4 else '>=4'} deg off axis"
            # ---- point
            m = point_problem(desc, h, x, y)
            ctx.case(key=('pt', k, j), bucket='point ' + bucket)
            if m:
                acc['bad']['point'] += 1
                ctx.mismatch('point round trip / FITS standard', {'header': desc, 'pixel': [x, y]}, impl=m,
                             is_violation={'kind': 'point', 'header': desc, 'input': [x, y], 'what': m})
            rec.take()
            ra, dec = (float(v) for v in h.pix2sky((x, y)))
            c0 = rec.take()
            if len(c0) != 1 or c0[0][0] != 'P' or c0[0][2] != 1 or [c0[0][1][0], c0[0][1][1]] != [y, x]:
                acc['bad']['calls'] += 1
                ctx.mismatch('pix2sky does not call all_pix2world([[y, x]], 1)', {'header': desc, 'pixel': [x, y]}, impl=str(c0)[:300])
            pos = (ra, dec)
            a_px, b_px = rand_shape(rng)
            pa = rand_pa(rng)
            # ---- sky2pix_vec
            rec.take()
            out = [float(v) for v in h.sky2pix_vec(pos, a_px * scale, pa)]
            calls = fits_calls(rec.take(), 'S', 2)
            m = vec_problem(desc, h, pos, a_px * scale, pa)
            ctx.case(key=('s2pv', k, j), bucket='sky2pix_vec ' + bucket, sample={'header': desc, 'pos': pos, 'r': a_px * scale, 'pa': pa}
                     if (k, j) == (0, 0) else None)
            if m:
                acc['bad']['vec'] += 1
                ctx.mismatch('vector sky -> pixel -> sky', {'header': desc, 'pos': pos, 'r': a_px * scale, 'pa': pa}, impl=m,
                             is_violation={'kind': 'vec', 'header': desc, 'input': [list(pos), a_px * scale, pa], 'what': m})
            rec.take()
            add_goal(acc, want_goal, h, rng, 'sky2pix_vec', desc, calls, 'S', out,
                     lambda c: goal_sky2pix_vec(desc, pos, a_px * scale, pa, c, out), {'pos': pos, 'r': a_px * scale, 'pa': pa})
            # ---- pix2sky_vec
            th = rand_pa(rng)
            rec.take()
            out2 = [float(v) for v in h.pix2sky_vec((x, y), a_px, th)]
            calls = fits_calls(rec.take(), 'P', 2)
            m = pixvec_problem(desc, h, (x, y), a_px, th)
            ctx.case(key=('p2sv', k, j), bucket='pix2sky_vec ' + bucket)
            if m:
                acc['bad']['pixvec'] += 1
                ctx.mismatch('pix2sky_vec: great-circle length, East of North, and back', {'header': desc, 'pixel': [x, y], 'r': a_px, 'theta': th},
                             impl=m, is_violation={'kind': 'pixvec', 'header': desc, 'input': [[x, y], a_px, th], 'what': m})
            rec.take()
            add_goal(acc, want_goal, h, rng, 'pix2sky_vec', desc, calls, 'P', out2,
                     lambda c: goal_pix2sky_vec(desc, (x, y), a_px, th, c, out2), {'pixel': [x, y], 'r': a_px, 'theta': th})
            # ---- sky2pix_ellipse
            rec.take()
            out3 = [float(v) for v in h.sky2pix_ellipse(pos, a_px * scale, b_px * scale, pa)]
            calls = fits_calls(rec.take(), 'S', 3)
            m, cls = ellipse_problem(desc, h, pos, a_px * scale, b_px * scale, pa)
            if abs(desc['cdelt'][0]) == abs(desc['cdelt'][1]):
                d1, d2 = partial_defects(h, pos, a_px * scale, b_px * scale, pa)
                acc['defects'] = [max(acc['defects'][0], d1), max(acc['defects'][1], d2)]
            ctx.case(key=('s2pe', k, j), bucket='sky2pix_ellipse ' + bucket)
            if m and cls == 'opposite-side':
                acc['opposite'].append((desc, [list(pos), a_px * scale, b_px * scale, pa], m))
            elif m:
                acc['bad']['ellipse'] += 1
                ctx.mismatch('ellipse sky -> pixel -> sky', {'header': desc, 'pos': pos, 'a': a_px * scale, 'b': b_px * scale, 'pa': pa}, impl=m,
                             is_violation={'kind': 'ellipse', 'header': desc, 'input': [list(pos), a_px * scale, b_px * scale, pa], 'what': m})
            rec.take()
            add_goal(acc, want_goal, h, rng, 'sky2pix_ellipse', desc, calls, 'S', out3,
                     lambda c: goal_sky2pix_ellipse(desc, pos, a_px * scale, b_px * scale, pa, c, out3),
                     {'pos': pos, 'a': a_px * scale, 'b': b_px * scale, 'pa': pa})
            # ---- pix2sky_ellipse
            rec.take()
            out4 = [float(v) for v in h.pix2sky_ellipse((x, y), a_px, b_px, th)]
            calls = fits_calls(rec.take(), 'P', 3)
            m = pixellipse_problem(desc, h, (x, y), a_px, b_px, th)
            ctx.case(key=('p2se', k, j), bucket='pix2sky_ellipse ' + bucket)
            if m:
                acc['bad']['pixellipse'] += 1
                ctx.mismatch('pix2sky_ellipse: great-circle axes', {'header': desc, 'pixel': [x, y], 'sx': a_px, 'sy': b_px, 'theta': th}, impl=m,
                             is_violation={'kind': 'pixellipse', 'header': desc, 'input': [[x, y], a_px, b_px, th], 'what': m})
            rec.take()
            add_goal(acc, want_goal, h, rng, 'pix2sky_ellipse', desc, calls, 'P', out4,
                     lambda c: goal_pix2sky_ellipse(desc, (x, y), a_px, b_px, th, c, out4), {'pixel': [x, y], 'sx': a_px, 'sy': b_px, 'theta': th})
        # ---- psf lookups (header beam)
        m = psf_problem(desc, h, [rand_pixel(rng, n) for _ in range(3)])
        ctx.case(key=('psf', k), bucket='psf lookups')
        if m:
            acc['bad']['psf'] += 1
            ctx.mismatch('psf lookups from the header beam', {'header': desc}, impl=m, is_violation={'kind': 'psf', 'header': desc, 'input': None, 'what': m})
    finally:
        rec.close()


def add_goal(acc, want, h, rng, name, desc, calls, kind, out, mk, inp):
    """queue a certificate goal; the recorded calls must have the shape the model prescribes, and the continuity boxes are validated"""
    if not want:
        return
    if calls is None:
        acc['shape_bad'].append((name, desc, inp))
        return
    if not all(math.isfinite(v) for v in out):
        return
    # RA next to the 0/360 seam: the box would straddle the seam (the theorems work modulo 360, the boxes do not)
    if kind == 'P' and any(min(o[0], 360 - o[0]) < 1e-6 for _, o in calls):
        acc['skipped'] += 1
        return
    if kind == 'S' and any(abs(a[1]) > 89.0 for a, _ in calls):
        acc['skipped'] += 1
        return
    for (a, o) in calls[1:]:
        half = box_S(desc, o) if kind == 'S' else box_P(desc, o)
        acc['near_pts'] += 9
        if not validate_near(h, kind, a, E_SKY if kind == 'S' else E_PIX, o, half, rng):
            acc['near_bad'].append((name, desc, a))
    acc['goals'].append(mk(calls))
    acc['metas'].append((name, desc, inp, out))


def sip_header(rng, k):
    """a TAN image with a SIP distortion model (A_p_q / B_p_q, order 2-3); a registered FITS convention that astropy's all_* calls -
    the ones WCSHelper uses - apply on top of the core projection.  Reference for the sky position: astropy itself (all_pix2world),
    i.e. only the (row, column) / 1-based reading and the inversion are checked here, not wcslib's SIP arithmetic."""
    n = rng.choice([256, 512, 1024])
    scale = rng.choice([2.0, 5.0, 15.0]) / 3600.0
    h = make_header((n, n), proj='TAN', crval=(rng.choice([0.001, 359.999, 150.0]), rng.choice([-60.0, 0.0, 40.0])), cdelt=(-scale, scale),
                    crpix=(n // 2 + 1, n // 2 + 0.5), beam=(3 * scale, 2 * scale, 10.0))
    h['CTYPE1'], h['CTYPE2'] = 'RA---TAN-SIP', 'DEC--TAN-SIP'
    order = rng.choice([2, 3])
    h['A_ORDER'], h['B_ORDER'] = order, order
    amp = rng.choice([0.3, 1.0, 2.0]) / (n / 2) ** 2        # about amp pixels of distortion at the image corners
    for nm in ('A', 'B'):
        for p_ in range(order + 1):
            for q_ in range(order + 1 - p_):
                if p_ + q_ >= 2:
                    h[f'{nm}_{p_}_{q_}'] = rng.uniform(-1, 1) * amp / (n / 2) ** (p_ + q_ - 2)
    return h, {'kind': 'sip', 'naxis': n, 'cards': {k_: h[k_] for k_ in h if k_.startswith(('A_', 'B_', 'CTYPE', 'CRVAL', 'CRPIX', 'CDELT'))}}


TOL_SIP = 2e-4     # astropy's all_world2pix inverts a distortion model iteratively to its default tolerance of 1e-4 pixel


def sip_problems(rng, nh, npts):
    """-> (number of points, first problem dict or None).  The 1e-6 pixel of the property is met by the closed-form core projections;
    with a distortion model the inversion is astropy's iteration (tolerance 1e-4 pixel), so that is the tolerance used here."""
    import warnings
    from astropy.wcs import WCS
    npt = 0
    for k in range(nh):
        hdr, desc = sip_header(rng, k)
        with warnings.catch_warnings():
            warnings.simplefilter('ignore')
            h = wh().WCSHelper.from_header(hdr)
            ref = WCS(hdr, naxis=2)
        n = desc['naxis']
        pts = [(1.0, 1.0), (float(n), float(n)), (1.0, float(n)), (n / 2.0, n / 2.0 + 0.5)] + \
            [(rng.uniform(1, n), rng.uniform(1, n)) for _ in range(npts)]
        for x, y in pts:
            npt += 1
            ra, dec = (float(v) for v in h.pix2sky((x, y)))
            r0, d0 = (float(v) for v in ref.all_pix2world([[y, x]], 1)[0])
            if not ref_sep(ra, dec, r0, d0) <= TOL_STD:
                return npt, {'kind': 'sip-point', 'header': desc, 'pixel': [x, y],
                             'what': f'pix2sky(({x!r}, {y!r})) = ({ra!r}, {dec!r}); astropy all_pix2world for the 1-based (column, row) = ({y!r}, {x!r}) gives ({r0!r}, {d0!r})'}
            xb, yb = (float(v) for v in h.sky2pix((ra, dec)))
            if not (abs(xb - x) <= TOL_SIP and abs(yb - y) <= TOL_SIP):
                return npt, {'kind': 'sip-point', 'header': desc, 'pixel': [x, y],
                             'what': f'distorted (SIP) image: sky2pix(pix2sky(({x!r}, {y!r}))) = ({xb!r}, {yb!r}): off by ({xb - x:.3e}, {yb - y:.3e}) pixel > {TOL_SIP}'}
    return npt, None


def new_acc(nval):
    return {'nval': nval, 'hyp_pts': 0, 'hyp_ok': True, 'goals': [], 'metas': [], 'shape_bad': [], 'near_bad': [], 'near_pts': 0, 'skipped': 0,
            'opposite': [], 'defects': [0.0, 0.0], 'bad': {k: 0 for k in ('point', 'calls', 'vec', 'pixvec', 'ellipse', 'pixellipse', 'psf')}}


def run(ctx, model_ok=True):
    quick = ctx.tier == 'quick'
    rng = ctx.rng
    f0 = pole_tip_problem()
    ctx.case(key='pole-tip probes', bucket='pole-tip')
    if f0:
        ctx.mismatch('vector / ellipse ending exactly on a pole', f0['input'], impl=f0['what'], is_violation=f0)
    ctx.oblige('oracle: vectors and major axes that end exactly on a celestial pole have finite pixel images (144 probes)', f0 is None, f0 and f0['what'])
    ctx.rule = ('random FITS headers (projections SIN TAN ZEA ARC STG in turn; CRVAL2 in [-85, 85] incl. +-85, CRVAL1 incl. 0 / 359.999 / 0.001; '
                '1..60 arcsec pixels, 256..1024 pixels a side, off-centre and half-integer CRPIX, 15% flipped handedness, some non-square pixels); '
                'per header random pixels (incl. corners and centre), sizes 1..20 pixels, axis ratios 0.1..1, angles in (-180, 180] incl. 180, 0, +-90. '
                'distinct = distinct (header, input, transform); all are non-trivial (non-zero vectors).')
    nh = 10 if quick else 50
    n_cases = 6 if quick else 12
    n_goals = 1 if quick else 2
    acc = new_acc(25 if quick else 60)
    for k in range(nh):
        one_header_cases(ctx, rng, k, n_cases, n_goals, model_ok, acc)
    # distorted images (SIP): position round trip and (row, column) / 1-based reading
    nsip, fsip = sip_problems(rng, 3 if quick else 12, 12)
    ctx.case(key=('sip', nsip), bucket='TAN-SIP position round trip')
    ctx.evaluations += nsip - 1
    if fsip:
        ctx.mismatch('pixel -> sky -> pixel on a TAN-SIP image', fsip['header'], impl=fsip['what'], is_violation=fsip)
    ctx.oblige(f'oracle: on TAN-SIP (distorted) images sky2pix(pix2sky p) = p to {TOL_SIP} pixel (astropy iterates to 1e-4) and pix2sky reads (row, column) 1-based ({nsip} points)',
               fsip is None, fsip and fsip['what'])
    bad = acc['bad']
    ctx.hyp['astropy.wcs: S(P p) = p (max(1e-9, 32 ulp(360)/cdelt) pixel), P(S s) = s with RA mod 360 (1e-9 deg), S(ra + 360k, dec) = S(ra, dec), on '
            'pixels of the image and a 20 pixel margin'] = acc['hyp_pts']
    ctx.hyp['astropy.wcs all_pix2world(p, 1) agrees with the independent FITS zenithal formulas (SIN TAN ZEA ARC STG; CRVAL CRPIX CDELT, LONPOLE 180) '
            'to 1e-9 deg'] = acc['hyp_pts']
    ctx.oblige('library hypothesis: wcslib is invertible on the image (S o P = id, P o S = id modulo 360) and agrees with the FITS zenithal '
               f'projection formulas ({acc["hyp_pts"]} points on {nh} headers)', acc['hyp_ok'])
    ctx.oblige(f'oracle: sky2pix(pix2sky p) = p to {TOL_PIX} pixel and pix2sky p = FITS standard position of the 1-based (row, column) pixel to '
               f'{TOL_STD} deg; pix2sky hands [[y, x]] with origin 1 to wcslib', bad['point'] == 0 and bad['calls'] == 0)
    ctx.oblige(f'oracle: vectors sky -> pixel -> sky return length ({TOL_REL} relative) and angle ({TOL_ANG} deg); the pixel vector read through the '
               'independent FITS formulas has great-circle length r and position angle pa East of North', bad['vec'] == 0)
    ctx.oblige('oracle: pix2sky_vec returns the great-circle length (independent vector formula) and the East-of-North angle of the mapped end '
               'points; pixel -> sky -> pixel returns the vector', bad['pixvec'] == 0)
    ctx.oblige(f'oracle: ellipses sky -> pixel -> sky return major axis, position angle (and minor axis, see the finding) within {TOL_REL} / {TOL_ANG} deg; the pixel '
               'minor axis is the component perpendicular to the major axis (non-orthogonality correction)', bad['ellipse'] == 0)
    ctx.oblige('oracle: pix2sky_ellipse returns great-circle axes of the mapped end points (minor axis times |cos defect|)', bad['pixellipse'] == 0)
    ctx.oblige('oracle: psf lookups (get_psf_pix2pix / get_psf_sky2pix / get_psf_sky2sky / get_skybeam / beam areas) from the header beam',
               bad['psf'] == 0)
    # ---- the recorded finding: minor axis measured on the opposite side of the centre
    hk = helper_of(KNOWN_DESC)
    mk, clsk = ellipse_problem(KNOWN_DESC, hk, *KNOWN_INPUT)
    ctx.case(key=('known', 0), bucket='sky2pix_ellipse TAN >=4 deg off axis')
    opp = list(acc['opposite'])
    if mk and clsk == 'opposite-side':
        opp.append((KNOWN_DESC, [list(KNOWN_INPUT[0])] + list(KNOWN_INPUT[1:]), mk))
    elif mk:
        ctx.mismatch('ellipse sky -> pixel -> sky (recorded wide-field input)', {'header': KNOWN_DESC, 'input': KNOWN_INPUT}, impl=mk,
                     is_violation={'kind': 'ellipse', 'header': KNOWN_DESC, 'input': [list(KNOWN_INPUT[0])] + list(KNOWN_INPUT[1:]), 'what': mk})
    ok_minor = True
    if opp:
        line = (f'{len(opp)} ellipse round trips: only the minor axis misses {TOL_REL} relative, and would not if pix2sky_ellipse measured it on the '
                f'side of the centre that sky2pix_ellipse used; e.g. header {opp[0][0]} input (pos, a, b, pa) = {opp[0][1]}: {opp[0][2][:260]}')
        ctx.notes.append('minor axis, opposite side: ' + line)
        print('C16 minor-axis clause fails on the implementation: ' + line[:600])
        known = known_minor()
        if known and mk and clsk == 'opposite-side':
            ctx.known_lines.append(known[0])
        else:
            ok_minor = False
            d, inp, m = opp[0]
            ctx.mismatch('ellipse sky -> pixel -> sky: minor axis', {'header': d, 'input': inp}, impl=m,
                         is_violation={'kind': 'ellipse', 'header': d, 'input': inp, 'what': m})
    ctx.oblige(f'oracle: the minor axis of an ellipse returns within {TOL_REL} relative, or the failure is the recorded finding (opposite side of the '
               'centre, wide fields)', ok_minor)
    ctx.notes.append(f'hypotheses of C16_ellipse_roundtrip_partial on the real WCS of this run (square pixels): conformality defect up to '
                     f'{acc["defects"][0]:.2e} deg, odd-linearity defect up to {acc["defects"][1]:.2e} of the minor axis (the round-trip error of '
                     f'the minor axis is of the order of the latter)')
    ctx.extra['ellipse_partial_hypothesis_defects'] = {'conformality_deg': acc['defects'][0], 'odd_linearity_relative': acc['defects'][1]}
    # ---- certified correspondence
    if model_ok:
        for name, desc, inp in acc['shape_bad'][:3]:
            ctx.mismatch(f'{name}: the wcslib calls are not the ones the model prescribes (number / kind / origin / ra_dec_order)',
                         {'header': desc, 'input': inp})
        ctx.oblige('correspondence: every transform makes exactly the wcslib calls of the model (2 resp. 3 single-point calls, origin 0/1, '
                   'ra_dec_order False)', not acc['shape_bad'])
        ctx.hyp['astropy.wcs local continuity: e-neighbourhood of each recorded argument maps into the box of the certificate (9 points each)'] = \
            acc['near_pts']
        ctx.oblige('library hypothesis: local continuity boxes of the certificates hold on the real WCS', not acc['near_bad'], acc['near_bad'][:2])
        t1 = time.time()
        badg = vlib.coq_certify(ctx, HEADER, acc['goals'], shard=4 if quick else 10, workers=12)
        ctx.notes.append(f'{len(acc["goals"])} certificates in {time.time() - t1:.1f}s; {acc["skipped"]} cases skipped next to the RA seam / poles')
        for kk, err in badg[:4]:
            name, desc, inp, out = acc['metas'][kk] if 0 <= kk < len(acc['metas']) else ('?', None, None, None)
            ctx.mismatch(f'certified correspondence: WCSHelper.{name} differs from the generated Coq definition (or queries wcslib at other points)',
                         {'header': desc, 'input': inp}, impl=out, model=err[-400:])
        ctx.oblige(f'certified correspondence: {len(acc["goals"])} certificates (sky2pix_vec, pix2sky_vec, sky2pix_ellipse, pix2sky_ellipse on '
                   f'{nh} real WCSHelpers; interval-checked premises)', not badg and len(acc['goals']) >= 2 * nh, f'{len(badg)} shards failed')
        ctx.traces += len(acc['goals'])
    c16x.run_extra(ctx, model_ok)


# ------------------------------------------------------------------------------------------
def pole_tip_problem():
    """vectors / major axes whose far end is EXACTLY a celestial pole (the arcsin argument of translate rounds to 1 +- 1 ulp)"""
    for dec0, sgn in ((85.0, 1.0), (-85.0, -1.0)):
        desc = {'proj': 'SIN', 'crval': [10.0, dec0], 'crpix': [513.0, 513.0], 'cdelt': [-1 / 60.0, 1 / 60.0], 'naxis': 1024,
                'beam': [0.05, 0.04, 10.0]}
        h = wh().WCSHelper.from_header(header_of(desc))
        for ra in (10.0, 0.0, 359.75):
            for k in range(1, 25):
                r = k / 60.0
                pos = (ra, sgn * (90.0 - r))
                pa = 0.0 if sgn > 0 else 180.0
                out = [float(v) for v in h.sky2pix_vec(pos, r, pa)]
                if not all(math.isfinite(v) for v in out):
                    return {'kind': 'poletip', 'header': desc, 'input': [list(pos), r, pa],
                            'what': f'sky2pix_vec({pos}, {r!r}, {pa!r}) = {out}: a vector that ends exactly on the pole has no finite pixel image'}
                oe = [float(v) for v in h.sky2pix_ellipse(pos, r, r / 2, pa)]
                if not all(math.isfinite(v) for v in oe):
                    return {'kind': 'poletip', 'header': desc, 'input': [list(pos), r, pa],
                            'what': f'sky2pix_ellipse({pos}, {r!r}, {r / 2!r}, {pa!r}) = {oe}: major axis ending on the pole is not finite'}
    return None


def problems_on(desc, h, rng):
    """all oracles on one random input of a header; returns a failing-input dict or None"""
    n = desc['naxis']
    scale = abs(desc['cdelt'][1])
    x, y = rand_pixel(rng, n)
    m = point_problem(desc, h, x, y)
    if m:
        return {'kind': 'point', 'header': desc, 'input': [x, y], 'what': m}
    pos = tuple(float(v) for v in h.pix2sky((x, y)))
    a_px, b_px = rand_shape(rng)
    pa, th = rand_pa(rng), rand_pa(rng)
    m = vec_problem(desc, h, pos, a_px * scale, pa)
    if m:
        return {'kind': 'vec', 'header': desc, 'input': [list(pos), a_px * scale, pa], 'what': m}
    m = pixvec_problem(desc, h, (x, y), a_px, th)
    if m:
        return {'kind': 'pixvec', 'header': desc, 'input': [[x, y], a_px, th], 'what': m}
    m, cls = ellipse_problem(desc, h, pos, a_px * scale, b_px * scale, pa)
    if m and not (cls == 'opposite-side' and known_minor()):
        return {'kind': 'ellipse', 'header': desc, 'input': [list(pos), a_px * scale, b_px * scale, pa], 'what': m}
    m = pixellipse_problem(desc, h, (x, y), a_px, b_px, th)
    if m:
        return {'kind': 'pixellipse', 'header': desc, 'input': [[x, y], a_px, b_px, th], 'what': m}
    return None


def search(ctx):
    rng = ctx.rng
    extra = c16x.search_extra(ctx)
    if extra:
        return extra
    t0 = time.time()
    k = 0
    f = pole_tip_problem()
    if f:
        return f
    while time.time() - t0 < 60:
        hdr, desc = rand_header(rng, k)
        k += 1
        h = wh().WCSHelper.from_header(hdr)
        m = psf_problem(desc, h, [rand_pixel(rng, desc['naxis'])])
        if m:
            return {'kind': 'psf', 'header': desc, 'input': None, 'what': m}
        for _ in range(20):
            f = problems_on(desc, h, rng)
            if f:
                return f
    return None


def replay(ctx, obj):
    fi = obj.get('failing_input')
    if not fi:
        print('replay file has no concrete input; broken obligations were:')
        for b in obj.get('broken', []):
            print('  ', b.get('what'), str(b.get('detail', b.get('case', '')))[:400])
        return 1
    if fi.get('kind') in ('pixinfo', 'beam', 'aips', 'psfmap', 'psfmap-nan', 'psfpix', 'sky_sep', 'from_file', 'beamarea'):
        return c16x.replay_extra(ctx, fi)
    if fi.get('kind') == 'sip-point':
        import warnings
        c = fi['header']['cards']
        n = fi['header']['naxis']
        hdr = make_header((n, n), proj='TAN', crval=(c['CRVAL1'], c['CRVAL2']), cdelt=(c['CDELT1'], c['CDELT2']), crpix=(c['CRPIX1'], c['CRPIX2']),
                          beam=(3 * c['CDELT2'], 2 * c['CDELT2'], 10.0))
        for k_, v_ in c.items():
            hdr[k_] = v_
        with warnings.catch_warnings():
            warnings.simplefilter('ignore')
            h = wh().WCSHelper.from_header(hdr)
        x, y = fi['pixel']
        ra, dec = (float(v) for v in h.pix2sky((x, y)))
        xb, yb = (float(v) for v in h.sky2pix((ra, dec)))
        print(f'TAN-SIP header {c}')
        print(f'implementation: pix2sky(({x}, {y})) = ({ra}, {dec}); sky2pix of that = ({xb}, {yb}); off by ({xb - x:.3e}, {yb - y:.3e}) pixel')
        return 0 if abs(xb - x) <= TOL_SIP and abs(yb - y) <= TOL_SIP else 1
    desc, kind, inp = fi['header'], fi['kind'], fi['input']
    h = helper_of(desc)
    print('header:', desc)
    print('input :', inp)
    if kind == 'point':
        msg = point_problem(desc, h, *inp)
    elif kind == 'vec':
        msg = vec_problem(desc, h, tuple(inp[0]), inp[1], inp[2])
    elif kind == 'pixvec':
        msg = pixvec_problem(desc, h, tuple(inp[0]), inp[1], inp[2])
    elif kind == 'ellipse':
        msg, _ = ellipse_problem(desc, h, tuple(inp[0]), inp[1], inp[2], inp[3])
    elif kind == 'pixellipse':
        msg = pixellipse_problem(desc, h, tuple(inp[0]), inp[1], inp[2], inp[3])
    elif kind == 'poletip':
        f = pole_tip_problem()
        msg = f['what'] if f else None
    elif kind == 'psf':
        msg = psf_problem(desc, h, [(desc['naxis'] / 3.0, desc['naxis'] / 5.0)])
    else:
        msg = f'unknown kind {kind}'
    print('implementation:', msg or 'property holds on this input')
    return 1 if msg else 0
