"""C12 - region exports (MOC FITS, DS9 reg, .mim) describe exactly the region's sky area.

Real Region objects are built by operation histories (generators of C08), exported to real files
before and after queries that demote the internal representation, and the files are read back:

  write_fits -> astropy.io.fits: ORDERING / PIXTYPE / TFORM / MOCORDER, every NUNIQ value decoded by an
                independent Python decoder AND by the Coq model's `ununiq` (vm_compute), expanded to pixels of the
                stated order, compared with the region's own content (get_demoted of a copy), with the set-algebra
                truth of the history, and with the Coq model (uniq, mocorder, moc_pixels)
  write_reg  -> one line per stored cell; the four printed corner positions (sexagesimal, parsed back) are the corners of
                that cell according to healpy.boundaries and to an independent HEALPix corner computation
  save/load  -> maxdepth, every level of pixeldict, demoted and its aliasing are reproduced; later answers are equal;
                MIMAS.mim2fits / mim2reg of the .mim file give the same files as the direct exports
"""
import copy
import json
import math
import os
import re
import time

import numpy as np

import vlib
from harness import c08
from harness import regions_common as rc

GEN = ['Regions', 'RegionExport']
LEVEL = 'proof'
TRUSTED = [
    'Coq 8.16.1 kernel + vm_compute; all C12 theorems are axiom-free (Print Assumptions output is recorded)',
    'translator: tools/translate_points.py (Regions: _uniq loop range and code, MOCORDER) and tools/points_c12.py '
    '(RegionExport: write_reg loops and healpy.boundaries arguments, _uniq accumulate/return skeleton, write_fits column / '
    'keywords / HDU, save / load, MIMAS.mim2reg / mim2fits); matchers fail closed',
    'hand-written models Model/RegionModel.v (uniq, ununiq, histories - shared with C08) and Model/RegionExport.v, tied by '
    'exact correspondence on real exported files',
    'astropy.io.fits (reading the table back), astropy SkyCoord.to_string (its output is parsed back and compared), numpy, '
    'pickle and healpy.boundaries (hypotheses of C12_saveload / C12_reg_polygons, validated on every run)',
]
ASSUMPTIONS = [
    'stored cells are valid for the region (1 <= level <= depth, 0 <= pixel < 12*4^level): guaranteed for every history of '
    'well-formed operations by C08_reachable_inv',
    'healpy.boundaries(2^d, p, step=1, nest=True) returns the corners of nested pixel p of level d (validated against an '
    'independent implementation of the HEALPix projection on every cell used and on random cells of levels 1..12)',
    'pickle reproduces the Region object (validated on every .mim file written by the check)',
    'printed corner positions are compared with a tolerance of half a unit of the printed precision (0.005 s of time in RA, '
    '0.005 arcsec in Dec) plus 1e-6 arcsec; HEALPix cells of depth <= 12 are at least 50 arcsec wide',
]
IMPORTS = rc.IMPORTS + "From Aegean Require Import Gen.RegionExport Model.RegionExport.\n"

MAX_EXPAND = 3200        # deepest-level pixels per export point that are expanded explicitly


# ------------------------------------------------------------------------------------------
# independent pieces (share nothing with AegeanTools / healpy)
def decode_nuniq(u):
    """NUNIQ -> (order, pixel): the largest d with 4*4^d <= u"""
    u = int(u)
    if u < 4:
        return None
    d = 0
    while 4 * 4 ** (d + 1) <= u:
        d += 1
    return d, u - 4 * 4 ** d


JRLL = [2, 2, 2, 2, 3, 3, 3, 3, 4, 4, 4, 4]
JPLL = [1, 3, 5, 7, 0, 2, 4, 6, 1, 3, 5, 7]


def _xyf2vec(x, y, face):
    """HEALPix projection: position (x, y) in [0,1]^2 of base face -> unit vector (Gorski et al. 2005)"""
    jr = JRLL[face] - x - y
    if jr < 1:
        nr = jr
        z = 1 - nr * nr / 3
    elif jr > 3:
        nr = 4 - jr
        z = nr * nr / 3 - 1
    else:
        nr = 1
        z = (2 - jr) * 2 / 3
    t = JPLL[face] * nr + x - y
    if t < 0:
        t += 8
    if t >= 8:
        t -= 8
    phi = 0.0 if nr < 1e-15 else (math.pi / 4) * t / nr
    s = math.sqrt(max(0.0, (1 - z) * (1 + z)))
    return (s * math.cos(phi), s * math.sin(phi), z)


def corners(d, p):
    """the four corners (N, W, S, E) of nested pixel p of level d as unit vectors"""
    n = 2 ** d
    face = p >> (2 * d)
    r = p & (4 ** d - 1)
    ix = iy = 0
    for b in range(d):
        ix |= ((r >> (2 * b)) & 1) << b
        iy |= ((r >> (2 * b + 1)) & 1) << b
    return [_xyf2vec((ix + a) / n, (iy + b) / n, face) for a, b in ((1, 1), (0, 1), (0, 0), (1, 0))]


def sex2deg(s):
    m = re.fullmatch(r'\s*([+-]?)(\d+):(\d+):(\d+(?:\.\d*)?)\s*', s)
    if not m:
        raise ValueError(f'not a sexagesimal string: {s!r}')
    v = int(m.group(2)) + int(m.group(3)) / 60.0 + float(m.group(4)) / 3600.0
    return -v if m.group(1) == '-' else v


def parse_polygon(line):
    """'fk5; polygon(ra,dec,ra,dec,...)' -> list of (ra_deg, dec_deg); RA printed in hours"""
    m = re.fullmatch(r'fk5;\s*polygon\((.*)\)\s*', line)
    if not m:
        raise ValueError(f'not a polygon line: {line[:60]!r}')
    parts = m.group(1).split(',')
    if len(parts) % 2:
        raise ValueError('odd number of coordinates')
    return [(sex2deg(parts[i]) * 15.0, sex2deg(parts[i + 1])) for i in range(0, len(parts), 2)]


def radec2vec(ra, dec):
    ra, dec = math.radians(ra), math.radians(dec)
    return (math.cos(dec) * math.cos(ra), math.cos(dec) * math.sin(ra), math.sin(dec))


def sep_arcsec(a, b):
    c = (a[1] * b[2] - a[2] * b[1], a[2] * b[0] - a[0] * b[2], a[0] * b[1] - a[1] * b[0])
    s = math.sqrt(c[0] ** 2 + c[1] ** 2 + c[2] ** 2)
    return math.degrees(math.atan2(s, a[0] * b[0] + a[1] * b[1] + a[2] * b[2])) * 3600.0


def corner_tol(vec):
    """half a unit of the last printed digit: 0.005 s of time in RA (scaled by cos dec), 0.005 arcsec in Dec"""
    cosd = math.sqrt(max(0.0, 1 - vec[2] ** 2))
    return math.hypot(0.005 * 15.0 * cosd, 0.005) * 1.02 + 1e-6


# ------------------------------------------------------------------------------------------
def stored_cells(r):
    out = []
    for d in sorted(r.pixeldict):
        for p in r.pixeldict[d]:
            out.append((int(d), int(p)))
    return out


def snapshot(r):
    return (r.maxdepth, {d: set(v) for d, v in r.pixeldict.items()}, set(r.demoted),
            r.demoted is r.pixeldict.get(r.maxdepth))


def n_deepest(D, cells):
    return sum(4 ** max(0, D - d) for d, _ in cells)


def read_moc(path):
    from astropy.io import fits
    with fits.open(path) as h:
        hdr = h[1].header
        name = h[1].columns[0].name
        data = h[1].data
        vals = [int(x) for x in data[name]] if data is not None and len(data) else []
        return {k: hdr.get(k) for k in ('ORDERING', 'PIXTYPE', 'COORDSYS', 'MOCORDER', 'TFORM1', 'TTYPE1')}, vals


def match_polygons(polys, cells, hp, hyp):
    """bijection between printed polygons and stored cells such that the printed vertices are the cell's corners.
    returns (problem or None).  hyp: dict counting validations of the healpy.boundaries hypothesis"""
    exp = []
    for d, p in cells:
        own = corners(d, p)
        lib = np.array(hp.boundaries(2 ** d, int(p), step=1, nest=True)).T
        worst = max(abs(lib[i][k] - own[i][k]) for i in range(4) for k in range(3)) if lib.shape == (4, 3) else 1.0
        hyp['n'] += 1
        if worst > 1e-12:
            hyp['bad'].append((d, p, worst))
        exp.append(own)

    def fits_cell(poly, own):
        if len(poly) != 4:
            return False
        pv = [radec2vec(*q) for q in poly]
        # same cyclic order, any starting corner and either orientation
        for rot in range(4):
            for sign in (1, -1):
                if all(sep_arcsec(pv[i], own[(rot + sign * i) % 4]) <= corner_tol(own[(rot + sign * i) % 4])
                       for i in range(4)):
                    return True
        return False

    if len(polys) != len(cells):
        return f'{len(polys)} polygons for {len(cells)} stored cells'
    # fast path: same order as the iteration of pixeldict
    if all(fits_cell(pl, ow) for pl, ow in zip(polys, exp)):
        return None
    free = list(range(len(cells)))
    for k, pl in enumerate(polys):
        hit = next((j for j in free if fits_cell(pl, exp[j])), None)
        if hit is None:
            near = min(range(len(cells)), key=lambda j: sum(sep_arcsec(radec2vec(*pl[i % len(pl)]), exp[j][i]) for i in range(4))) \
                if pl else 0
            return (f'polygon #{k} {[(round(a, 6), round(b, 6)) for a, b in pl]} is not the corner set of any '
                    f'(remaining) stored cell; nearest stored cell {cells[near]} has corners '
                    f'{[(round(math.degrees(math.atan2(v[1], v[0])) % 360, 6), round(math.degrees(math.asin(v[2])), 6)) for v in exp[near]]}')
        free.remove(hit)
    return None


class Exporter:
    """export checks on one real Region; collects direct violations of the property"""

    def __init__(self, work, hyp_b, hyp_p, hyp_f):
        import healpy as hp
        self.hp = hp
        self.work = work
        self.hyp_b, self.hyp_p, self.hyp_f = hyp_b, hyp_p, hyp_f
        self.n = 0

    def check(self, r, D, truth=None, do_reg=True, do_mim=True, do_mimas=True):
        """returns (obs, problems): obs feeds the model comparison"""
        from AegeanTools.regions import Region
        problems = []
        self.n += 1
        before = snapshot(r)
        cells = stored_cells(r)
        expandable = n_deepest(D, cells) <= MAX_EXPAND
        content = None
        if expandable:
            c = copy.deepcopy(r)
            content = set(int(x) for x in c.get_demoted())
        # ---------------- MOC FITS
        fpath = os.path.join(self.work, f'r{self.n}.fits')
        r.write_fits(fpath, moctool='verif')
        hdr, vals = read_moc(fpath)
        handed = [int(x) for x in r._uniq()]
        self.hyp_f['n'] += 1
        if sorted(handed) != sorted(vals) and str(hdr.get('TFORM1', '')).strip() in ('K', '1K'):
            self.hyp_f['bad'].append((handed[:5], vals[:5]))
        if str(hdr.get('ORDERING', '')).strip() != 'NUNIQ':
            problems.append(('fits', f"ORDERING keyword is {hdr.get('ORDERING')!r}, not NUNIQ"))
        if str(hdr.get('PIXTYPE', '')).strip() != 'HEALPIX':
            problems.append(('fits', f"PIXTYPE keyword is {hdr.get('PIXTYPE')!r}, not HEALPIX"))
        if str(hdr.get('TFORM1', '')).strip() not in ('K', '1K'):
            problems.append(('fits', f"NUNIQ column format is {hdr.get('TFORM1')!r}, not a 64-bit integer (K)"))
        order = hdr.get('MOCORDER')
        if order != r.maxdepth:
            problems.append(('fits', f'MOCORDER is {order!r} but the region depth is {r.maxdepth}'))
        dec = []
        for u in vals:
            c = decode_nuniq(u)
            if c is None or not (0 <= c[1] < 12 * 4 ** c[0]):
                problems.append(('fits', f'NUNIQ value {u} does not decode to a valid HEALPix cell'))
                break
            if not (c[0] <= r.maxdepth):
                problems.append(('fits', f'NUNIQ value {u} decodes to order {c[0]} > region depth {r.maxdepth}'))
                break
            dec.append(c)
        moc_pix = None
        if expandable and len(dec) == len(vals):
            moc_pix = rc.deepest(r.maxdepth, dec)
            if moc_pix != content:
                problems.append(('fits', f'decoded MOC differs from the region: {len(moc_pix)} pixels decoded, {len(content)} in the '
                                         f'region; missing {sorted(content - moc_pix)[:5]} extra {sorted(moc_pix - content)[:5]} '
                                         f'(depth {r.maxdepth})'))
            if truth is not None and content != truth:
                problems.append(('c08', f'region content differs from the set algebra of its history: missing '
                                        f'{sorted(truth - content)[:5]} extra {sorted(content - truth)[:5]}'))
        elif len(dec) == len(vals):
            # too coarse to expand: the decoded cells must stand for the same sky as the stored cells; compare per cell after
            # removing cells covered by a coarser stored cell is not needed here (these cases have no overlaps)
            if sorted(set(dec)) != sorted(set(cells)):
                problems.append(('fits', f'decoded cells {sorted(set(dec))[:6]} differ from the stored cells {sorted(set(cells))[:6]}'))
        # ---------------- DS9 region
        nlines = None
        reg_lines = None
        if do_reg:
            gpath = os.path.join(self.work, f'r{self.n}.reg')
            r.write_reg(gpath)
            with open(gpath) as fh:
                reg_lines = [ln.rstrip('\n') for ln in fh if ln.strip()]
            nlines = len(reg_lines)
            try:
                polys = [parse_polygon(ln) for ln in reg_lines]
            except ValueError as e:
                polys = None
                problems.append(('reg', f'unreadable DS9 region line: {e}'))
            if polys is not None:
                pb = match_polygons(polys, cells, self.hp, self.hyp_b)
                if pb:
                    problems.append(('reg', pb))
        # ---------------- .mim
        if do_mim:
            mpath = os.path.join(self.work, f'r{self.n}.mim')
            r.save(mpath)
            r2 = Region.load(mpath)
            self.hyp_p['n'] += 1
            s2 = snapshot(r2) if isinstance(r2, Region) else None
            if s2 != before:
                self.hyp_p['bad'].append(str(s2)[:200])
                problems.append(('mim', f'save/load does not reproduce the region: saved {str(before)[:150]} loaded {str(s2)[:150]}'))
            else:
                a1, a2 = later_answers(copy.deepcopy(r), D, expandable), later_answers(r2, D, expandable)
                if a1 != a2:
                    problems.append(('mim', f'answers after save/load differ: {str(a1)[:150]} vs {str(a2)[:150]}'))
            if do_mimas:
                import AegeanTools.MIMAS as MIMAS
                f2 = os.path.join(self.work, f'r{self.n}_m.fits')
                MIMAS.mim2fits(mpath, f2)
                hdr2, vals2 = read_moc(f2)
                if sorted(vals2) != sorted(vals) or hdr2.get('MOCORDER') != hdr.get('MOCORDER') or hdr2.get('ORDERING') != hdr.get('ORDERING'):
                    problems.append(('mim', f'MIMAS.mim2fits of the saved region differs from write_fits: {vals2[:5]} order '
                                            f'{hdr2.get("MOCORDER")} vs {vals[:5]} order {hdr.get("MOCORDER")}'))
                # the same conversion through the command line (MIMAS --mim2fits in.mim out.fits, all other options at their defaults)
                from AegeanTools.CLI import MIMAS as mimas_cli
                f3 = os.path.join(self.work, f'r{self.n}_c.fits')
                rc_ = mimas_cli.main(['--mim2fits', mpath, f3])
                if rc_ != 0 or not os.path.exists(f3):
                    problems.append(('mim', f'MIMAS --mim2fits returned {rc_} / wrote no file'))
                else:
                    hdr3, vals3 = read_moc(f3)
                    if sorted(vals3) != sorted(vals) or hdr3.get('MOCORDER') != hdr.get('MOCORDER') or hdr3.get('ORDERING') != hdr.get('ORDERING'):
                        problems.append(('mim', f'MIMAS --mim2fits (command line) of the saved region differs from write_fits: {len(vals3)} cells '
                                                f'order {hdr3.get("MOCORDER")} vs {len(vals)} cells order {hdr.get("MOCORDER")}'))
                if do_reg:
                    g3 = os.path.join(self.work, f'r{self.n}_c.reg')
                    rc_ = mimas_cli.main(['--mim2reg', mpath, g3])
                    l3 = None
                    if rc_ == 0 and os.path.exists(g3):
                        with open(g3) as fh:
                            l3 = [ln.rstrip('\n') for ln in fh if ln.strip()]
                    if l3 is None or sorted(l3) != sorted(reg_lines):
                        problems.append(('mim', f'MIMAS --mim2reg (command line) of the saved region differs from write_reg: '
                                                f'{None if l3 is None else len(l3)} vs {len(reg_lines)} lines'))
                if do_reg:
                    g2 = os.path.join(self.work, f'r{self.n}_m.reg')
                    MIMAS.mim2reg(mpath, g2)
                    with open(g2) as fh:
                        l2 = [ln.rstrip('\n') for ln in fh if ln.strip()]
                    if sorted(l2) != sorted(reg_lines):
                        problems.append(('mim', f'MIMAS.mim2reg of the saved region differs from write_reg: {len(l2)} vs '
                                                f'{len(reg_lines)} lines'))
        if snapshot(r) != before:
            problems.append(('pure', 'exporting changed the region'))
        for f in os.listdir(self.work):
            if f.startswith(f'r{self.n}'):
                os.unlink(os.path.join(self.work, f))
        obs = {'vals': vals, 'order': order, 'cells': cells, 'nlines': nlines, 'content': content, 'dec': dec,
               'expandable': expandable}
        return obs, problems


def later_answers(r, D, expandable):
    """answers of a region to a fixed list of later operations (used to compare a region with its reloaded copy)"""
    out = [sorted(int(u) for u in r._uniq()), r.get_area()]
    n = 12 * 4 ** D
    if expandable:
        out.append(sorted(int(p) for p in r.get_demoted()))
        out.append(sorted(int(u) for u in r._uniq()))
        r.add_pixels([0, n - 1], D)
        r._renorm()
        out.append(sorted(int(u) for u in r._uniq()))
    else:
        r.add_pixels([0, n - 1], D)
        out.append(sorted(int(u) for u in r._uniq()))
    return out


# ------------------------------------------------------------------------------------------
# cases: (bucket, D, ops, tail) - exports are taken after `ops` and after each operation of `tail`
def crafted_cases(rng, quick):
    cases = []
    depths = list(range(1, 13))
    # empty regions, every depth
    for D in depths:
        cases.append(('empty', D, [], [{'op': 'Within', 'qs': [0, 12 * 4 ** D - 1]}, {'op': 'GetDemoted'}]))
    # single pixel: first / last / random pixel, at the deepest and at coarser levels
    for D in depths:
        picks = [(D, 0), (D, 12 * 4 ** D - 1), (max(1, D - 1), None), (max(1, D - 4), None)]
        if not quick:
            picks += [(D, None), (max(1, D - 1), 0), (max(1, D - 4), 12 * 4 ** max(1, D - 4) - 1), (max(1, D - 2), None)]
        for d, p in picks:
            p = rng.randrange(12 * 4 ** d) if p is None else p
            tail = [{'op': 'Within', 'qs': [p * 4 ** (D - d), 0, -1]}, {'op': 'GetDemoted'}]
            cases.append(('single-pixel', D, [{'op': 'AddPixels', 'd': d, 'ps': [p]}], tail))
    # coarse cells in a deep region (exported without demotion - expansion would be 4^11 pixels per cell)
    for D in (8, 10, 12):
        for d in (1, 2, 3):
            n = 12 * 4 ** d
            ps = sorted({0, n - 1, rng.randrange(n), rng.randrange(n)})
            cases.append(('coarse-in-deep', D, [{'op': 'AddPixels', 'd': d, 'ps': ps},
                                                 {'op': 'AddPixels', 'd': D, 'ps': [5, 12 * 4 ** D - 1]}], []))
    # multi level, every depth: a renormalised shape (sibling groups merge) plus raw cells at other levels
    for D in depths:
        for _ in range(1 if quick else 4):
            while True:
                ops = []
                lo = max(1, D - 2)
                d1 = rng.randint(lo, D)
                ops.append({'op': 'AddShape', 'd': d1, 'ps': c08.pixset(rng, d1, 'siblings')})
                for _ in range(rng.randint(1, 3)):
                    d2 = rng.randint(lo, D)
                    ops.append({'op': 'AddPixels', 'd': d2, 'ps': c08.pixset(rng, d2)})
                if c08.cost(D, ops) <= (700 if quick else 1500) and (D < 3 or len({o['d'] for o in ops}) >= 2):
                    break
            truth = set()
            for o in ops:
                truth |= rc.deepest(D, [(o['d'], p) for p in o['ps']])
            tail = [{'op': 'Within', 'qs': c08.queries(rng, D, truth)}, {'op': 'GetDemoted'}]
            if rng.random() < 0.5:
                tail.reverse()
            cases.append(('multi-level', D, ops, tail))
    # whole sky at a low depth: all 12*4^d pixels of level d in a region of depth D >= d
    for D, d, kinds in [(D, d, ('AddPixels', 'AddShape')) for D, d in ((1, 1), (2, 1), (2, 2), (3, 1), (3, 3))] + \
            ([] if quick else [(3, 2, ('AddPixels', 'AddShape')), (4, 2, ('AddShape',)), (4, 4, ('AddPixels',))]):
        allp = list(range(12 * 4 ** d))
        for kind in kinds:
            cases.append(('whole-sky', D, [{'op': kind, 'd': d, 'ps': allp}],
                          [{'op': 'GetDemoted'}, {'op': 'Within', 'qs': [0, 7, 12 * 4 ** D - 1]}]))
    # whole sky minus one pixel, and whole sky assembled from two halves by union
    for D in ((2,) if quick else (2, 3)):
        n = 12 * 4 ** D
        cases.append(('whole-sky', D, [{'op': 'AddShape', 'd': D, 'ps': list(range(n))},
                                       {'op': 'Without', 'o': {'depth': D, 'cells': [(D, n // 3)]}}],
                      [{'op': 'Within', 'qs': [n // 3, n // 3 + 1]}]))
        cases.append(('whole-sky', D, [{'op': 'AddShape', 'd': D, 'ps': list(range(n // 2))},
                                       {'op': 'Union', 'o': {'depth': D, 'cells': [(D, p) for p in range(n // 2, n)]}, 'renorm': True}],
                      [{'op': 'GetDemoted'}]))
    return cases


def history_cases(rng, quick):
    cases = []
    for prof, n in (("small", 30 if quick else 250), ("mid", 30 if quick else 220), ("deep", 20 if quick else 150)):
        for _ in range(n):
            D, ops = c08.gen_bounded(rng, prof, limit=500 if quick else 1200)
            truth_hint = set()
            tail = [{'op': 'Within', 'qs': c08.queries(rng, D, truth_hint)}, {'op': 'GetDemoted'}]
            if rng.random() < 0.5:
                tail.reverse()
            if rng.random() < 0.3:
                tail = tail[:1]
            cases.append((f'history-{prof}', D, ops, tail))
    # bounded-exhaustive over the C08 alphabets: every single op, pairs (sampled in quick), then a demoting query
    import itertools
    for D in (2, 3):
        A = [o for o in c08.alphabet(D) if o['op'] not in ('Uniq', 'GetArea')]
        for o in A:
            cases.append((f'alphabet-D{D}-L1', D, [o], [{'op': 'GetDemoted'}]))
        pairs = list(itertools.product(A, repeat=2))
        if quick:
            pairs = rng.sample(pairs, 40)
        for seq in pairs:
            cases.append((f'alphabet-D{D}-L2', D, list(seq), [{'op': 'Within', 'qs': [0, 5, 21, -1]}]))
    return cases


def all_cases(ctx):
    quick = ctx.tier == 'quick'
    cases = []
    cdir = os.path.join(vlib.VERIF, 'corpus', 'C12')
    if os.path.isdir(cdir):
        for f in sorted(os.listdir(cdir)):
            with open(os.path.join(cdir, f)) as fh:
                c = json.load(fh)
            cases.append(('corpus', c['D'], [c08.fix_op(o) for o in c['ops']], [c08.fix_op(o) for o in c.get('tail', [])]))
    cases += crafted_cases(ctx.rng, quick)
    cases += history_cases(ctx.rng, quick)
    return cases


# ------------------------------------------------------------------------------------------
def run_case(ex, D, ops, tail, reg_limit, light=False):
    """runs the history on a real Region; returns list of (prefix ops, obs, problems) per export point.
    light: only raw add_pixels, no truth set (cells too coarse to expand to the deepest level)"""
    im = rc.Impl(D, ex.work)
    out = []
    done = []
    for op in ops:
        try:
            if light:
                assert op['op'] == 'AddPixels' and not tail
                im.r.add_pixels(list(op['ps']), op['d'])
            else:
                im.step(op)
        except Exception as e:  # noqa
            return out + [(done + [op], None, [('raise', f'{op["op"]} raised {type(e).__name__}: {e}')])]
        done.append(op)
    points = [None] + list(tail)
    for k, q in enumerate(points):
        if q is not None:
            try:
                im.step(q)
            except Exception as e:  # noqa
                return out + [(done + [q], None, [('raise', f'{q["op"]} raised {type(e).__name__}: {e}')])]
            done.append(q)
        ncell = sum(len(v) for v in im.r.pixeldict.values())
        small = ncell <= reg_limit
        try:
            obs, problems = ex.check(im.r, D, truth=None if light else set(im.truth), do_reg=small, do_mim=True, do_mimas=small and k == 0)
        except Exception as e:  # noqa
            import traceback
            obs, problems = None, [('raise', f'export raised {type(e).__name__}: {e} {traceback.format_exc()[-400:]}')]
        out.append((list(done), obs, problems))
    return out


def is_light(D, ops):
    """histories of raw add_pixels whose cells are too coarse to be expanded to the deepest level"""
    return bool(ops) and all(o['op'] == 'AddPixels' for o in ops) and \
        n_deepest(D, [(o['d'], p) for o in ops for p in o['ps']]) > MAX_EXPAND


def violation_of(D, ops, work):
    """first property violation (stage, text) of exporting after the history `ops` on the real implementation"""
    hb, hp_, hf = {'n': 0, 'bad': []}, {'n': 0, 'bad': []}, {'n': 0, 'bad': []}
    ex = Exporter(work, hb, hp_, hf)
    res = run_case(ex, D, ops, [], reg_limit=400, light=is_light(D, ops))
    for _, _, problems in res:
        for st, text in problems:
            if st != 'c08':
                return st, text
    return None


def shrink(D, ops, work):
    def bad(o):
        return violation_of(D, o, work) is not None
    changed = True
    while changed and len(ops) > 1:
        changed = False
        for i in range(len(ops)):
            cand = ops[:i] + ops[i + 1:]
            if bad(cand):
                ops, changed = cand, True
                break
    # shrink pixel lists of the remaining ops
    for o in ops:
        if 'ps' in o and len(o['ps']) > 1:
            for keep in ([o['ps'][0]], [o['ps'][-1]], o['ps'][:len(o['ps']) // 2]):
                saved = o['ps']
                o['ps'] = keep
                if bad(ops):
                    break
                o['ps'] = saved
    return ops


def g_state(D, ops):
    return f"run (init {D}) [{'; '.join(rc.g_op(o) for o in ops)}]"


def run(ctx, model_ok=True):
    quick = ctx.tier == 'quick'
    cases = all_cases(ctx)
    ctx.rule = ('export points = (depth, operation history, position in a tail of demoting queries). Regions: empty, single pixel '
                '(first/last/random, deepest and coarser levels), coarse cells in deep regions, multi-level (renormalised shapes + raw '
                'cells), whole sky at low depth (raw, renormalised, minus a pixel, by union), depths 1..12; C08 random histories and '
                'the C08 op alphabets (all single ops, pairs) at depth 2-3; every region is exported before and after sky_within / '
                'get_demoted. Each export point: write_fits read back with astropy and decoded (independent decoder + model ununiq) '
                'against the region content and the model; write_reg polygons against healpy.boundaries and independent corners; '
                '.mim reload; MIMAS.mim2fits/mim2reg. distinct = distinct (depth, history prefix); non-trivial = non-empty region.')
    hyp_b, hyp_p, hyp_f = {'n': 0, 'bad': []}, {'n': 0, 'bad': []}, {'n': 0, 'bad': []}
    ex = Exporter(ctx.work, hyp_b, hyp_p, hyp_f)
    reg_limit = 60 if quick else 260
    exprs, metas = [], []
    nviol = 0
    t0 = time.time()
    npoints = 0
    for (bucket, D, ops, tail) in cases:
        res = run_case(ex, D, ops, tail, reg_limit, light=(not tail) and is_light(D, ops))
        for k, (prefix, obs, problems) in enumerate(res):
            npoints += 1
            nontrivial = obs is not None and len(obs['cells']) > 0
            key = (D, json.dumps(prefix, sort_keys=True)) if nontrivial else None
            ctx.case(key=key, bucket=bucket + ('' if k == 0 else '+query'),
                     sample={'depth': D, 'history': [rc.g_op(o)[:100] for o in prefix], 'NUNIQ': obs['vals'][:8],
                             'MOCORDER': obs['order'], 'polygons': obs['nlines']} if (obs and nontrivial and bucket.startswith('multi')) else None)
            ctx.hist[f'depth:{D}'] = ctx.hist.get(f'depth:{D}', 0) + 1
            real = [(st, tx) for st, tx in problems if st != 'c08']
            if real:
                nviol += 1
                if nviol <= 3:
                    small = shrink(D, copy.deepcopy(prefix), ctx.work)
                    v = violation_of(D, small, ctx.work)
                    ctx.mismatch(f'export of a real Region ({real[0][0]})', {'depth': D, 'history': [rc.g_op(o) for o in small]},
                                 impl=real[0][1],
                                 is_violation={'D': D, 'ops': small, 'stage': v[0] if v else real[0][0], 'what': v[1] if v else real[0][1]})
            if obs is not None:
                vals = obs['vals']
                if obs['expandable']:
                    e = f"let s := {g_state(D, prefix)} in (export_obs s, map ununiq {vlib.zlist(vals)})"
                else:
                    e = (f"let s := {g_state(D, prefix)} in (((uniq s, mocorder (depth s)), (@nil Z, reg_cells s)), "
                         f"map ununiq {vlib.zlist(vals)})")
                exprs.append(e)
                metas.append((D, prefix, obs))
    ctx.notes.append(f'{len(cases)} histories / {npoints} export points on the implementation in {time.time() - t0:.1f}s')
    ctx.oblige(f'real files: {npoints} export points - decoded NUNIQ list = region content, MOCORDER = depth, keywords, one polygon per '
               f'stored cell with its corners, .mim reload identical, MIMAS conversions identical, exports pure', nviol == 0,
               f'{nviol} export points violate the property')
    ctx.hyp['healpy.boundaries(2^d, p, step=1, nest=True) = corners (N,W,S,E) of nested cell (d,p) [independent HEALPix projection]'] = hyp_b['n']
    ctx.hyp['pickle: Region.load(save(r)) has the same maxdepth, pixeldict levels, demoted set and demoted/pixeldict aliasing'] = hyp_p['n']
    ctx.hyp['astropy.io.fits returns the 64-bit integer column that was handed to fits.Column'] = hyp_f['n']
    # extra validation of the boundaries hypothesis on random cells of every level (incl. polar caps and the 0/360 seam)
    import healpy as hp
    nb = 0
    for d in range(1, 13):
        n = 12 * 4 ** d
        for p in [0, n - 1, 4 ** d - 1, 4 * 4 ** d, 8 * 4 ** d - 1] + [ctx.rng.randrange(n) for _ in range(40 if quick else 400)]:
            lib = np.array(hp.boundaries(2 ** d, p, step=1, nest=True)).T
            own = corners(d, p)
            nb += 1
            w = max(abs(lib[i][k] - own[i][k]) for i in range(4) for k in range(3)) if lib.shape == (4, 3) else 1.0
            if w > 1e-12:
                hyp_b['bad'].append((d, p, w))
    ctx.hyp['healpy.boundaries(2^d, p, step=1, nest=True) = corners (N,W,S,E) of nested cell (d,p) [independent HEALPix projection]'] += nb
    ctx.oblige('library hypothesis: healpy.boundaries(2^d,p,step=1,nest=True) are the corners of cell (d,p)', not hyp_b['bad'],
               str(hyp_b['bad'][:3]))
    ctx.oblige('library hypothesis: pickle round trip reproduces the Region object', not hyp_p['bad'], str(hyp_p['bad'][:2]))
    ctx.oblige('library hypothesis: astropy.io.fits round-trips the NUNIQ column', not hyp_f['bad'], str(hyp_f['bad'][:2]))

    # ---------------- codec: model ununiq vs independent decoder on codes of levels 0..29
    codes = []
    for d in range(0, 30):
        n = 12 * 4 ** d
        for p in sorted({0, 1, n - 1, n // 2, 4 ** d - 1, 4 ** d} | {ctx.rng.randrange(n) for _ in range(6 if quick else 60)}):
            if 0 <= p < n:
                codes.append((d, p, 4 * 4 ** d + p))
    if model_ok:
        t1 = time.time()
        order = list(range(len(exprs)))
        ctx.rng.shuffle(order)          # spread the expensive histories over the shards
        exprs = [exprs[i] for i in order]
        metas = [metas[i] for i in order]
        allx = [f"(map ununiq {vlib.zlist([c for _, _, c in codes])}, map (fun c => uniq_code (fst c) (snd c)) "
                f"[{'; '.join(f'({d}, {p})' for d, p, _ in codes)}])"] + exprs
        vals, err = vlib.coq_eval(ctx, IMPORTS, allx, shard=30, workers=12)
        if vals is None:
            ctx.oblige('model evaluation (vm_compute) of the export points', False, err)
            return
        dec_m, enc_m = vals[0]
        okc = [tuple(x) for x in dec_m] == [(d, p) for d, p, _ in codes] and list(enc_m) == [c for _, _, c in codes] \
            and all(decode_nuniq(c) == (d, p) for d, p, c in codes)
        ctx.oblige(f'codec: model ununiq / uniq_code = independent decoder / 4*4^d+p on {len(codes)} cells of levels 0..29 '
                   f'(first, last, face boundaries, random)', okc,
                   'model and independent codec differ')
        ctx.evaluations += len(codes)
        nbad = 0
        for v, (D, prefix, obs) in zip(vals[1:], metas):
            m_uniq, m_order, (m_pix, m_cells), m_dec = v     # Coq prints ((a, b), c) as (a, b, c)
            diffs = []
            if sorted(m_uniq) != sorted(obs['vals']):
                diffs.append(('NUNIQ list', sorted(obs['vals'])[:12], sorted(m_uniq)[:12]))
            if m_order != obs['order']:
                diffs.append(('MOCORDER', obs['order'], m_order))
            if [tuple(c) for c in m_dec] != [decode_nuniq(u) for u in obs['vals']]:
                diffs.append(('ununiq on the file values', [decode_nuniq(u) for u in obs['vals']][:8], [tuple(c) for c in m_dec][:8]))
            if sorted(tuple(c) for c in m_cells) != sorted(obs['cells']):
                diffs.append(('stored cells / polygons', sorted(obs['cells'])[:8], sorted(tuple(c) for c in m_cells)[:8]))
            if obs['nlines'] is not None and obs['nlines'] != len(m_cells):
                diffs.append(('number of polygons', obs['nlines'], len(m_cells)))
            if obs['expandable'] and obs['content'] is not None and set(m_pix) != obs['content']:
                diffs.append(('decoded pixel set', sorted(obs['content'])[:8], sorted(set(m_pix))[:8]))
            if diffs:
                nbad += 1
                if nbad <= 3:
                    ctx.mismatch(f'exported files vs Model.RegionExport ({diffs[0][0]})',
                                 {'depth': D, 'history': [rc.g_op(o) for o in prefix]}, impl=diffs[0][1], model=diffs[0][2])
        ctx.oblige(f'correspondence: {len(metas)} export points - NUNIQ column, MOCORDER, decoded cells, decoded pixel set, polygon '
                   f'cells and count equal to the model (uniq, mocorder, ununiq, moc_pixels, reg_cells)', nbad == 0,
                   f'{nbad} export points differ')
        ctx.traces = len(metas)
        ctx.notes.append(f'model evaluation took {time.time() - t1:.1f}s')


def search(ctx):
    """look for a concrete history whose export violates the property on the real implementation"""
    t0 = time.time()
    rng = ctx.rng
    cases = crafted_cases(rng, True) + history_cases(rng, True)
    for (bucket, D, ops, tail) in cases:
        for k in range(len(tail) + 1):
            seq = ops + tail[:k]
            v = violation_of(D, seq, ctx.work)
            if v:
                small = shrink(D, copy.deepcopy(seq), ctx.work)
                v = violation_of(D, small, ctx.work) or v
                return {'D': D, 'ops': small, 'stage': v[0], 'what': v[1]}
        if time.time() - t0 > 150:
            break
    return None


def replay(ctx, obj):
    fi = obj.get('failing_input')
    if not fi:
        print('replay file has no concrete input; broken obligations were:')
        for b in obj.get('broken', []):
            print('  ', b.get('what'), str(b.get('detail', b.get('case', '')))[:400])
        return 1
    ops = [c08.fix_op(o) for o in fi['ops']]
    v = violation_of(fi['D'], ops, ctx.work)
    print(f"Region(maxdepth={fi['D']}); history:", [rc.g_op(o) for o in ops], '; then write_fits / write_reg / save+load')
    print('implementation:', f'{v[0]}: {v[1]}' if v else 'property holds on this history')
    return 1 if v else 0
