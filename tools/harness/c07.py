"""C07 - BANE always terminates, is schedule-independent and fails cleanly."""
import ast
import itertools
import json
import os
import subprocess
import time
from concurrent.futures import ThreadPoolExecutor

import numpy as np

import vlib
from fixtures import make_header, write_image

GEN = ['BaneSync']
LEVEL = 'proof'
TRUSTED = [
    'Coq 8.16.1 kernel + vm_compute; all C07 theorems are axiom-free',
    'translator tools/translate.py: order of shared-memory writes/reads and barrier waits in BANE.sigma_filter, absence of '
    'barrier.reset(), abort() in the _sf2 handler, Barrier(parties=..), Pool(processes=.., maxtasksperchild=1), the layout '
    'ranges and the close/unlink in the finally block of filter_mc_sharemem; fails closed on any other shape',
    'hand-written transition system Model/BaneProtocol.v, incl. the abstraction of multiprocessing.Barrier (a wait is released '
    'when all parties have arrived and the barrier is not broken; an aborted barrier breaks every present and future wait) and of '
    'Pool(maxtasksperchild=1) (a slot is busy from task start to task end) - tied by replaying the hook traces of real runs',
    'the AEGEAN_VERIF hook in BANE.sigma_filter (delay / fault / trace), time.monotonic as a cross-process clock, /dev/shm listing',
    'CPython multiprocessing, the OS scheduler, fork: not modelled (a worker killed by a signal raises no Python exception and is '
    'outside the model)',
]
ASSUMPTIONS = ['a fault is a Python exception raised inside sigma_filter (what the wrapper _sf2 can catch)',
               'a stripe computes a function of the image rows it reads and of the background rows it reads from shared memory']
IMPORTS = ("From Coq Require Import ZArith List.\nFrom Aegean Require Import Gen.BaneSync Model.BaneProtocol.\n"
           "Import ListNotations.\nOpen Scope Z_scope.\n")
PHASES = ['start', 'wait1', 'pass2', 'wait2', 'mask', 'done']
WATCHDOG = 90


def make_image(work, rows, cols, seed=3):
    rs = np.random.RandomState(seed)
    data = rs.normal(10.0, 1.0, size=(rows, cols)).astype(np.float32)
    if rows > 6 and cols > 6:
        data[rows // 3:rows // 3 + 2, 2:5] = np.nan
    p = os.path.join(work, f'bane_{rows}x{cols}_{seed}.fits')
    if not os.path.exists(p):
        write_image(p, data, make_header((rows, cols)))
    return p


def run_bane(ctx, path, step, box, cores, nslice, mask=True, plan=None, save=None, tag=''):
    """one real run in a subprocess under a watchdog; returns (result dict or None when it hung, trace events)"""
    trace = os.path.join(ctx.work, f'trace_{os.getpid()}_{time.time_ns()}{tag}.txt')
    plan = dict(plan or {})
    plan['trace'] = trace
    env = dict(os.environ)
    env['AEGEAN_VERIF'] = '1'
    env['AEGEAN_VERIF_BANE_PLAN'] = json.dumps(plan)
    box2 = list(box) if isinstance(box, (tuple, list)) else [box, box]
    args = {'path': path, 'step': [step, step], 'box': box2, 'cores': cores, 'nslice': nslice, 'mask': mask, 'save': save}
    runner = os.path.join(vlib.VERIF, 'tools', 'harness', 'bane_runner.py')
    try:
        r = subprocess.run(['timeout', '-s', 'KILL', str(WATCHDOG), vlib.PY, runner, json.dumps(args)], env=env,
                           capture_output=True, text=True, timeout=WATCHDOG + 20)
    except subprocess.TimeoutExpired:
        r = None
    ev = []
    if os.path.exists(trace):
        with open(trace) as fh:
            for line in fh:
                t, s, ph = line.split()
                ev.append((float(t), int(s), ph))
        os.remove(trace)
    ev.sort()
    res = None
    if r is not None:
        for line in r.stdout.splitlines():
            if line.startswith('RESULT '):
                res = json.loads(line[7:])
        if res is not None and r.returncode in (137, -9, 124):
            res['exit_hang'] = True        # the call returned / raised, but the process never exited (killed by the watchdog)
    if res is None:
        # hung or killed: clean up children and shared memory so that later runs are not disturbed
        subprocess.run(['pkill', '-KILL', '-f', 'bane_runner.py'], capture_output=True)
        for n in os.listdir('/dev/shm'):
            if n.startswith(('ibkg_', 'irms_')):
                try:
                    os.remove(os.path.join('/dev/shm', n))
                except OSError:
                    pass
    return res, ev


def to_schedule(ev, mask, fault=None):
    """hook events of a real run -> (stripe ids, list of (stripe index, action code)) for Model.BaneProtocol.accepts"""
    ymins = sorted({s for _, s, _ in ev})
    idx = {s: i for i, s in enumerate(ymins)}
    sched = []
    last = {}
    for _, s, ph in ev:
        i = idx[s]
        last[i] = ph
        if fault is not None and fault[0] == s and fault[1] == ph and ph in ('wait1', 'wait2'):
            continue            # the exception is raised at the hook, before barrier.wait() is called
        if ph == 'start':
            sched.append((i, 0))
        elif ph == 'wait1':
            sched.append((i, 1))
        elif ph == 'pass2':
            sched += [(i, 2), (i, 3)]
        elif ph == 'wait2':
            sched.append((i, 4))
        elif ph == 'mask':
            sched.append((i, 5))
        elif ph == 'done':
            if fault is not None and fault[0] == s and fault[1] == 'done':
                continue        # the exception is raised instead of returning
            sched.append((i, 6) if mask else (i, 4))
    if fault is not None and fault[0] in idx:
        fi = idx[fault[0]]
        # the read follows the 'pass2' hook: a stripe that fails at that hook never reads
        if fault[1] == 'pass2' and (fi, 3) in sched:
            sched.remove((fi, 3))
        sched.append((fi, 7))
        for i, ph in sorted(last.items()):
            if i != fi and ph in ('wait1', 'wait2'):
                sched.append((i, 8))
    return ymins, sched


def g_sched(s):
    return '[' + '; '.join(f'({i}, {a})' for i, a in s) + ']'


def width_expr(repo):
    """the source text of width_y in filter_mc_sharemem, evaluated by Python itself (float semantics are Python's)"""
    with open(os.path.join(repo, 'AegeanTools', 'BANE.py')) as fh:
        tree = ast.parse(fh.read())
    for n in ast.walk(tree):
        if isinstance(n, ast.FunctionDef) and n.name == 'filter_mc_sharemem':
            for a in ast.walk(n):
                if isinstance(a, ast.Assign) and ast.unparse(a.targets[0]) == 'width_y':
                    return ast.unparse(a.value)
    return None


def run(ctx, model_ok=True):
    quick = ctx.tier == 'quick'
    rng = ctx.rng
    ctx.rule = ('(a) stripe width expression of the source evaluated for rows<=300 x grid<=32 x stripes<=16 (width >= 1, layout of '
                'the model for that width); (b) real multi-process runs of BANE.filter_image on a small image under forced arrival '
                'orders at both synchronisation points (rank-proportional delays through the guarded hook), cores 1-4, stripes 1-4 '
                'incl. more stripes than cores, masking on/off; each run under a watchdog, its hook trace replayed through the Coq '
                'model, outputs compared bit for bit across schedules and core counts; (c) one injected exception per (stripe, '
                'phase). distinct = distinct (cores, stripes, mask, schedule/fault); non-trivial = at least 2 stripes.')
    # ---- (a) layout hypothesis: width >= 1 and realised stripe count
    wsrc = width_expr(vlib.REPO)
    ctx.oblige('stripe width expression found in filter_mc_sharemem', wsrc is not None)
    exprs, want = [], []
    if wsrc:
        code = compile(wsrc, 'width_y', 'eval')
        nbad, tot, more = 0, 0, 0
        for rows in range(1, 301 if not quick else 121):
            for grid in (1, 2, 3, 4, 5, 7, 8, 16, 32) if quick else range(1, 33):
                for ns in range(2, 17):
                    w = eval(code, {'max': max, 'int': int}, {'img_y': rows, 'nslice': ns, 'step_size': (grid, grid)})
                    tot += 1
                    if not (isinstance(w, int) and w >= 1):
                        nbad += 1
                        continue
                    if len(range(0, rows, w)) > ns:
                        more += 1
                    if (rows * 7 + grid * 3 + ns) % (97 if quick else 53) == 0:
                        exprs.append(f'(ymins {rows} {w}, ymaxs {rows} {w})')
                        ym = list(range(w, rows, w)) + [rows]
                        want.append((list(range(0, rows, w)), ym))
        ctx.oblige(f'library hypothesis: the stripe width is an integer >= 1 for all {tot} (rows, grid, stripes) triples', nbad == 0,
                   f'{nbad} triples give width < 1')
        ctx.hyp['stripe width >= 1'] = tot
        ctx.notes.append(f'{more} of {tot} triples realise more stripes than requested (handled: one worker per stripe)')
        ctx.evaluations += tot
    # ---- (b)/(c) real runs
    rows, cols, step, box = 40, 18, 4, 12
    path = make_image(ctx.work, rows, cols)
    jobs = []
    confs = [(1, 1), (2, 2), (3, 3), (2, 3), (1, 3), (4, 2)] if quick else [(c, s) for c in (1, 2, 3, 4) for s in (1, 2, 3, 4)]
    for cores, ns in confs:
        if cores == 1:
            ns_eff = 1
        else:
            ns_eff = ns
        # number of realised stripes for this request
        w = eval(compile(wsrc, 'w', 'eval'), {'max': max, 'int': int}, {'img_y': rows, 'nslice': ns_eff, 'step_size': (step, step)}) if ns_eff > 1 else rows
        ymins = list(range(0, rows, w))
        n = len(ymins)
        perms = list(itertools.permutations(range(n)))
        if quick and len(perms) > 2:
            perms = [perms[0], perms[-1]] + rng.sample(perms[1:-1], 1)
        # thorough: every pair of arrival orders up to 3 stripes; a sample of 24 pairs for 4 stripes (576 pairs x 8 configurations
        # of real multi-process runs would take hours)
        pairs = [(p1, p2) for p1 in perms for p2 in (perms if not quick else [perms[-1]])]
        if not quick and len(pairs) > 40:
            pairs = rng.sample(pairs, 24)
        for mask in (True, False) if (not quick or (cores, ns) in ((2, 2), (2, 3))) else (True,):
            for p1, p2 in pairs:
                if True:
                    delay = {}
                    for rank, k in enumerate(p1):
                        delay[f'{ymins[k]}:wait1'] = 0.12 * rank
                    for rank, k in enumerate(p2):
                        delay[f'{ymins[k]}:wait2'] = 0.12 * rank
                    if n > 1 and rng.random() < 0.4:
                        delay[f'{ymins[p1[0]]}:pass2'] = 0.3     # slow to leave the first barrier
                    jobs.append({'cores': cores, 'ns': ns, 'mask': mask, 'plan': {'delay': delay}, 'fault': None, 'n': n,
                                 'desc': {'cores': cores, 'stripes': ns, 'mask': mask, 'order1': p1, 'order2': p2}})
        # single faults
        if n >= 1 and (not quick or (cores, ns) in ((2, 2), (2, 3), (1, 1))):
            for k in range(n):
                for ph in PHASES:
                    if quick and (k + PHASES.index(ph)) % 2 == 1 and n > 1:
                        continue
                    jobs.append({'cores': cores, 'ns': ns, 'mask': True, 'plan': {'fault': f'{ymins[k]}:{ph}'},
                                 'fault': (ymins[k], ph), 'n': n,
                                 'desc': {'cores': cores, 'stripes': ns, 'mask': True, 'fault': f'stripe {k} at {ph}'}})

    def do(job):
        save = os.path.join(ctx.work, f'out_{id(job)}')
        res, ev = run_bane(ctx, path, step, box, job['cores'], job['ns'], job['mask'], job['plan'],
                           save=save if job['fault'] is None else None, tag=str(id(job)))
        return job, res, ev, save
    t0 = time.time()
    ref = {}
    tr_exprs, tr_meta = [], []
    with ThreadPoolExecutor(max_workers=5) as ex:
        results = list(ex.map(do, jobs))
    for job, res, ev, save in results:
        d = job['desc']
        key = json.dumps(d, sort_keys=True, default=list)
        ctx.case(key=key if job['n'] >= 2 else None, bucket=('fault' if job['fault'] else 'schedule') + f'/n={job["n"]}',
                 sample=d if len(ctx.samples) < 4 and job['n'] >= 2 else None)
        if res is None:
            ctx.mismatch('BANE did not finish under the watchdog', d, impl=f'no result after {WATCHDOG}s; trace {ev[-6:]}',
                         is_violation={'kind': 'hang', **d, 'rows': rows, 'cols': cols, 'step': step, 'box': box,
                                       'what': f'filter_image did not return within {WATCHDOG}s'})
            continue
        if res.get('exit_hang'):
            ctx.mismatch('the calling process does not exit after the call', d, impl=f'killed by the watchdog after {WATCHDOG}s although filter_image had returned / raised',
                         is_violation={'kind': 'exit_hang', **d, 'rows': rows, 'cols': cols, 'step': step, 'box': box,
                                       'what': 'filter_image returned or raised, but the process then hangs at interpreter exit (workers left behind)'})
        if res['shm_left']:
            ctx.mismatch('shared memory left behind', d, impl=res['shm_left'],
                         is_violation={'kind': 'shm', **d, 'rows': rows, 'cols': cols, 'step': step, 'box': box,
                                       'what': f'segments left in /dev/shm: {res["shm_left"]}'})
        if job['fault'] is None:
            if res['raised']:
                ctx.mismatch('fault-free run raised', d, impl=res['raised'],
                             is_violation={'kind': 'raise', **d, 'rows': rows, 'cols': cols, 'step': step, 'box': box, 'what': res['raised']})
                continue
            # the stripe LAYOUT (first rows of the realised stripes, from the trace), not merely their number: 3 and 4 requested
            # stripes can both realise 4 stripes of different widths
            lay = (tuple(sorted({s_ for _, s_, _ in ev})), job['mask'])
            sig = (res['bkg_sha'], res['rms_sha'])
            if lay in ref and ref[lay][0] != sig:
                ctx.mismatch('result depends on the schedule / worker count', {'a': ref[lay][1], 'b': d}, impl=sig, model=ref[lay][0],
                             is_violation={'kind': 'nondet', 'a': ref[lay][1], 'b': d, 'rows': rows, 'cols': cols, 'step': step, 'box': box,
                                           'what': 'two runs with the same stripe layout differ bit-wise'})
            ref.setdefault(lay, (sig, d))
            if res.get('shape') != [rows, cols]:
                ctx.mismatch('output shape', d, impl=res.get('shape'))
        else:
            if not res['raised']:
                ctx.mismatch('a failing stripe did not make the call raise', d, impl='returned normally',
                             is_violation={'kind': 'noraise', **d, 'rows': rows, 'cols': cols, 'step': step, 'box': box,
                                           'what': 'filter_image returned although a stripe raised'})
        ymins, sched = to_schedule(ev, job['mask'], job['fault'])
        if len(ymins) != job['n']:
            ctx.mismatch('realised stripes', d, impl=ymins, model=job['n'])
        tr_exprs.append(f"accepts {job['cores']} {len(ymins)} {'true' if job['mask'] else 'false'} {g_sched(sched)}")
        tr_meta.append((d, [1, 1 if job['fault'] else 0, 1], ev))
    ctx.notes.append(f'{len(jobs)} real BANE runs in {time.time() - t0:.1f}s')
    if model_ok:
        vals, err = vlib.coq_eval(ctx, IMPORTS, exprs + tr_exprs, shard=100)
        if vals is None:
            ctx.oblige('model evaluation (vm_compute) of layouts and traces', False, err)
        else:
            nb = 0
            for v, w_ in zip(vals[:len(exprs)], want):
                if (list(v[0]), list(v[1])) != w_:
                    nb += 1
            ctx.oblige(f'correspondence: {len(exprs)} layouts range(0,rows,w)/range(w,rows,w)+[rows] equal to the model', nb == 0, f'{nb} differ')
            nb = 0
            for v, (d, exp, ev) in zip(vals[len(exprs):], tr_meta):
                if list(v) != exp:
                    nb += 1
                    if nb <= 3:
                        ctx.mismatch('hook trace of a real run is not a run of Model.BaneProtocol (or ends differently)', d,
                                     impl=[(s, p) for _, s, p in ev], model=list(v))
            ctx.oblige(f'correspondence: {len(tr_meta)} traces of real runs accepted by the model with the expected outcome', nb == 0,
                       f'{nb} traces rejected')
            ctx.traces = len(tr_meta)
    # ---- stripes vs single stripe on a noise image (validated, not proved)
    if True:
        r1, _ = run_bane(ctx, path, step, box, 1, 1, True, {}, save=os.path.join(ctx.work, 'one'))
        r3, _ = run_bane(ctx, path, step, box, 3, 3, True, {}, save=os.path.join(ctx.work, 'three'))
        if r1 and r3 and not r1['raised'] and not r3['raised']:
            b1, b3 = np.load(os.path.join(ctx.work, 'one_bkg.npy')), np.load(os.path.join(ctx.work, 'three_bkg.npy'))
            s1, s3 = np.load(os.path.join(ctx.work, 'one_rms.npy')), np.load(os.path.join(ctx.work, 'three_rms.npy'))
            noise = float(np.nanmedian(s1))
            db, ds = float(np.nanmax(np.abs(b1 - b3))), float(np.nanmax(np.abs(s1 - s3)))
            ctx.notes.append(f'1 stripe vs 3 stripes: max |dbkg| = {db:.3g}, max |drms| = {ds:.3g}, median rms = {noise:.3g}')
            ok = db <= 0.5 * noise and ds <= 0.5 * noise
            ctx.oblige('changing the number of stripes changes the maps by less than half the local noise (validated on one noise image)',
                       ok, f'dbkg {db} drms {ds} noise {noise}')
            if not ok:
                ctx.counterexample = ctx.counterexample or {'kind': 'stripes', 'rows': rows, 'cols': cols, 'step': step, 'box': box,
                                                            'what': f'1 vs 3 stripes: max |dbkg| {db}, max |drms| {ds}, median rms {noise}'}
        # the same with a NON-SQUARE box (more rows than columns) on a sloping background: the rows a stripe reads beyond its own
        # (the halo) must be half a box of ROWS
        rs = np.random.RandomState(11)
        rr, cc = 72, 24
        ramp = (rs.normal(0.0, 1.0, size=(rr, cc)) + 0.1 * np.arange(rr)[:, None]).astype(np.float32)
        p2 = os.path.join(ctx.work, 'ramp.fits')
        write_image(p2, ramp, make_header((rr, cc)))
        q1, _ = run_bane(ctx, p2, 4, (24, 8), 1, 1, True, {}, save=os.path.join(ctx.work, 'r1'))
        q3, _ = run_bane(ctx, p2, 4, (24, 8), 3, 3, True, {}, save=os.path.join(ctx.work, 'r3'))
        if q1 and q3 and not q1['raised'] and not q3['raised']:
            b1, b3 = np.load(os.path.join(ctx.work, 'r1_bkg.npy')), np.load(os.path.join(ctx.work, 'r3_bkg.npy'))
            s1 = np.load(os.path.join(ctx.work, 'r1_rms.npy'))
            noise = float(np.nanmedian(s1))
            db = float(np.nanmax(np.abs(b1 - b3)))
            ok2 = db <= 0.5 * noise
            ctx.notes.append(f'non-square box (24 rows x 8 cols), sloping background: 1 vs 3 stripes max |dbkg| = {db:.3g}, median rms = {noise:.3g}')
            ctx.oblige('non-square box on a sloping background: 1 vs 3 stripes differ by less than half the local noise', ok2,
                       f'dbkg {db} noise {noise}')
            if not ok2:
                ctx.counterexample = ctx.counterexample or {'kind': 'stripes', 'rows': rr, 'cols': cc, 'step': 4, 'box': [24, 8],
                                                            'what': f'1 vs 3 stripes with box (24, 8) on noise + 0.1 sigma/row ramp: max |dbkg| = {db} = '
                                                                    f'{db / noise:.2f} x local noise'}


def search(ctx):
    """look for a hanging / failing configuration on the real code"""
    rows, cols, step, box = 40, 18, 4, 12
    path = make_image(ctx.work, rows, cols)
    for cores, ns in [(2, 3), (2, 4), (3, 3), (1, 1), (2, 2), (3, 4)]:
        for mask in (True, False):
            res, ev = run_bane(ctx, path, step, box, cores, ns, mask, {})
            d = {'cores': cores, 'stripes': ns, 'mask': mask, 'rows': rows, 'cols': cols, 'step': step, 'box': box}
            if res is None:
                return {'kind': 'hang', **d, 'what': f'filter_image did not return within {WATCHDOG}s'}
            if res['raised']:
                return {'kind': 'raise', **d, 'what': res['raised']}
            if res['shm_left']:
                return {'kind': 'shm', **d, 'what': f'segments left {res["shm_left"]}'}
    for ph in PHASES:
        res, ev = run_bane(ctx, path, step, box, 2, 2, True, {'fault': f'0:{ph}'})
        d = {'cores': 2, 'stripes': 2, 'mask': True, 'fault': f'0:{ph}', 'rows': rows, 'cols': cols, 'step': step, 'box': box}
        if res is None:
            return {'kind': 'hang', **d, 'what': f'a failure of stripe 0 at {ph} hangs the call'}
        if not res['raised']:
            return {'kind': 'noraise', **d, 'what': 'returned normally although a stripe raised'}
        if res['shm_left']:
            return {'kind': 'shm', **d, 'what': f'segments left {res["shm_left"]}'}
    # schedule dependence: slow stripes around the second barrier
    sigs = {}
    for delay in ({}, {'0:pass2': 0.6}, {'20:pass2': 0.6}, {'0:wait2': 0.5}, {'20:wait1': 0.5}):
        res, ev = run_bane(ctx, path, step, box, 2, 2, True, {'delay': delay})
        if res and not res['raised']:
            sigs[json.dumps(delay)] = (res['bkg_sha'], res['rms_sha'])
    if len(set(sigs.values())) > 1:
        return {'kind': 'nondet', 'cores': 2, 'stripes': 2, 'mask': True, 'delays': list(sigs), 'rows': rows, 'cols': cols,
                'step': step, 'box': box, 'what': 'bit-wise different maps under different delays'}
    # a stripe that is LATE by much more than any sensible time-out (the others wait at the barrier all that time): the call must
    # still return the same maps.  Only here (the search runs when a tie is broken), because it costs 35 s per phase.
    base = sigs.get(json.dumps({}))
    for ph in ('start', 'pass2'):
        delay = {f'0:{ph}': 35}
        res, ev = run_bane(ctx, path, step, box, 2, 2, True, {'delay': delay})
        d = {'cores': 2, 'stripes': 2, 'mask': True, 'delays': [json.dumps(delay)], 'rows': rows, 'cols': cols, 'step': step, 'box': box}
        if res is None:
            return {'kind': 'hang', **d, 'what': f'stripe 0 is 35 s late at {ph}: filter_image did not return within {WATCHDOG}s'}
        if res['raised']:
            return {'kind': 'raise', **d, 'what': f'stripe 0 is 35 s late at {ph}: ' + res['raised']}
        if base and (res['bkg_sha'], res['rms_sha']) != base:
            return {'kind': 'nondet', **d, 'delays': [json.dumps({}), json.dumps(delay)], 'what': f'maps differ when stripe 0 is 35 s late at {ph}'}
    return None


def replay(ctx, obj):
    fi = obj.get('failing_input')
    if not fi:
        print('replay file has no concrete input; broken obligations were:')
        for b in obj.get('broken', []):
            print('  ', b.get('what'), str(b.get('detail', b.get('case', '')))[:400])
        return 1
    path = make_image(ctx.work, fi.get('rows', 40), fi.get('cols', 18))
    plan = {}
    if fi.get('fault') and ':' in str(fi['fault']):
        plan['fault'] = fi['fault']
    sig = set()
    for delay in ([{}] if 'delays' not in fi else [json.loads(d) for d in fi['delays']]):
        plan['delay'] = delay
        res, ev = run_bane(ctx, path, fi.get('step', 4), fi.get('box', 12), fi.get('cores', 2), fi.get('stripes', 2), fi.get('mask', True), plan)
        print('run:', res)
        if res is None:
            print('implementation: did not finish')
            return 1
        if res['shm_left'] or (res['raised'] and not plan.get('fault')) or (plan.get('fault') and not res['raised']):
            return 1
        sig.add((res.get('bkg_sha'), res.get('rms_sha')))
    return 1 if len(sig) > 1 else 0
