"""C09 (extension) - the front end that turns user shapes into circles / polygons / pixel sets:
MIMAS.circle2circle / box2poly / poly2poly / reg2mim (DS9 text), MIMAS.mask2mim (image mask), Region.add_circles (scalar / sequence).

  exact correspondence  : the discrete part of the parsers (which word of the line goes to which astropy call with which unit, which
                          lines reg2mim hands to which parser, which image pixels mask2mim takes, the stored pixels of its region) is
                          evaluated in the model (vm_compute) and compared with the real functions on generated inputs; the values are
                          obtained by applying the real astropy to the model's (unit, word) pairs.
  oracles on real code  : reg2mim on generated files against independent healpy queries of the shapes; mask2mim on generated FITS masks
                          with real WCS against an independent hp.ang2pix of the selected pixel centres; add_circles scalar / list / n.
  library hypotheses    : A1-A3 (astropy Angle), S1 (SkyCoord), V1-V2 (healpy vec2pix) of Props/C09x.v sampled on the real libraries.
"""
import json
import math
import os
import time
import warnings

import numpy as np

import vlib

EXTRA_TARGETS = ['Props/C09x.vo']
GEN_EXTRA = ['Ds9']
IMPORTS = ("From Coq Require Import ZArith List.\nFrom Aegean Require Import Gen.Ds9 Model.RegionModel Model.Ds9.\n"
           "Import ListNotations.\nOpen Scope Z_scope.\n")
TRUSTED_EXTRA = [
    'C09x: translator tools/points_c09x.py (character class of re.split, word indices, `[:-1]`, astropy units, corner expressions and '
    'order of box2poly, slices / skip test of poly2poly, dispatch of reg2mim, selection / axis order / origin / depths of mask2mim, the '
    'try-zip / except-TypeError of add_circles); every matcher fails closed',
    'C09x: hand-written Model/Ds9.v (re.split on a character class as a list function, Python slices, the composition of the leaves) - '
    'tied by exact correspondence with the real parsers on generated lines and with real mask2mim on generated FITS masks',
    'C09x: astropy 5/6 (Angle, SkyCoord, float parsing), healpy.vec2pix and wcslib enter the theorems only through the hypotheses '
    'A1-A3, V1-V2, H5 and as the uninterpreted functions angle_str / skycoord / pix2world; sampled against the real libraries',
]
ASSUMPTIONS_EXTRA = [
    'C09x: DS9 lines are ASCII (the model of \\s and str.strip() is the six ASCII white-space characters)',
    'C09x: values of the parsers are compared with astropy applied to the model words with tolerance 1e-9 deg (same library calls, so '
    'normally bit-equal); mask images hold small integers / NaN and integer thresholds (exact in binary64)',
    'C09x: masks have at least one pixel >= threshold (mask2mim raises otherwise: recorded in the notes); mask2mim oracle uses image pixels whose centres are at least 1e-9 rad from a HEALPix cell boundary only implicitly: the '
    'independent path calls the same wcslib and hp.ang2pix on bit-identical angles',
]
UNIT = {0: 'degree', 1: 'hourangle', 2: 'arcmin', 3: 'arcsec', 4: 'radian'}


def zstr(s):
    return '[' + '; '.join(str(ord(c)) for c in s) + ']'


def pstr(codes):
    return ''.join(chr(c) for c in codes)


# ------------------------------------------------------------------------------------------ generators
def fmt_num(rng, x):
    return rng.choice(['{:.4f}', '{:.1f}', '{:.6f}', '{:g}']).format(x)


def sexa(rng, x, hours):
    """x degrees -> [-]DD:MM:SS.s (hours: HH:MM:SS.s of x / 15)"""
    v = abs(x) / (15.0 if hours else 1.0)
    cs = int(round(v * 36000))
    d, r = divmod(cs, 36000)
    m, r = divmod(r, 600)
    s = r / 10.0
    sign = '-' if x < 0 else rng.choice(['', '+']) if not hours else ''
    return f'{sign}{d:02d}:{m:02d}:{s:04.1f}'


def gen_pos(rng):
    ra = rng.choice([0.0, 0.01, 359.99, rng.uniform(0, 360), rng.uniform(0, 360)])
    dec = rng.choice([-0.5, 0.5, -0.25, rng.uniform(-85, 85), rng.uniform(-85, 85), rng.uniform(-1, 1)])
    if rng.random() < 0.5:
        return sexa(rng, ra, True), sexa(rng, dec, False)
    return fmt_num(rng, ra), fmt_num(rng, dec)


def gen_circle_line(rng, suffixes='"', seps=(',', ',', ', ')):
    a, b = gen_pos(rng)
    r = fmt_num(rng, rng.choice([rng.uniform(1, 60), rng.uniform(100, 7200), rng.uniform(3600, 36000)]))
    sep = rng.choice(seps)
    tail = rng.choice(['\n', '\n', '', ' # color=red\n', ' # text={a b}\n'])
    return f'circle({a}{sep}{b}{sep}{r}{rng.choice(suffixes)}){tail}'


def gen_box_line(rng):
    a, b = gen_pos(rng)
    w, h = (fmt_num(rng, rng.uniform(60, 7200)) for _ in range(2))
    ang = rng.choice(['', '', ',0', ',30', ',123.5'])
    tail = rng.choice(['\n', '', ' # color=green\n'])
    return f'box({a},{b},{w}",{h}"{ang}){tail}'


def gen_poly_line(rng, seps=(',',)):
    n = rng.randint(3, 8)
    cra, cdec, rho = rng.uniform(5, 355), rng.uniform(-70, 70), rng.uniform(0.3, 3)
    rot = rng.uniform(0, 2 * math.pi)
    words = []
    hms = rng.random() < 0.4
    for k in range(n):
        t = rot - 2 * math.pi * k / n
        ra = cra + rho * math.cos(t) / math.cos(math.radians(cdec))
        dec = cdec + rho * math.sin(t)
        words += [sexa(rng, ra % 360, True), sexa(rng, dec, False)] if hms else [f'{ra % 360:.5f}', f'{dec:.5f}']
    if rng.random() < 0.08:
        words.append('12.5')                   # odd number of coordinates
    out = 'polygon(' + words[0]
    for w in words[1:]:
        out += rng.choice(seps) + w
    return out + ')' + rng.choice(['\n', '', ' # color=red\n'])


OTHER = ['# Region file format: DS9 version 4.1\n', 'global color=green dashlist=8 3 width=1\n', 'fk5\n', 'galactic\n',
         'ellipse(10,10,5",3",0)\n', 'line(1,2,3,4)\n', '\n', '#circle(1,2,3")\n', ' circle(1,2,3")\n', 'text(1,2) # text={x}\n']
SHORT = ['circle(1,2)\n', 'circle(1\n', 'box(1,2,3")\n', 'box\n', 'circle\n', 'polygon(1,2)\n', 'polygon\n', 'polygon(1, 2, 3, 4, 5, 6)\n',
         'polygon(1,2, 3,4, 5,6, 7,8)\n', 'circle(10,10,1\')\n', 'circle(10,10,0.5)\n', 'circle (1,2,3")\n', 'box(1,2,3",4",5) # x\n']


# ------------------------------------------------------------------------------------------ real astropy on model words
def angle_deg(unit, word):
    from astropy.coordinates import Angle
    import astropy.units as u
    return float(Angle(word, unit=getattr(u, UNIT[unit])).degree)


def skycoord(ra, dec):
    from astropy.coordinates import Angle, SkyCoord
    import astropy.units as u
    c = SkyCoord(Angle(ra, unit=u.degree), Angle(dec, unit=u.degree))
    return float(c.ra.degree), float(c.dec.degree)


def eval_circle(v):
    """model value of circle_sym -> [ra, dec, radius] degrees, or 'raise'"""
    if v is None:
        return 'raise'
    u1, w1, (u2, w2), (u3, w3) = v[1]
    try:
        return [angle_deg(u1, pstr(w1)), angle_deg(u2, pstr(w2)), angle_deg(u3, pstr(w3))]
    except Exception:
        return 'raise'


def eval_box(v):
    if v is None:
        return 'raise'
    u1, w1, (u2, w2), ww, hw = v[1]
    try:
        from astropy.coordinates import Angle
        import astropy.units as u
        ra, dec = skycoord(angle_deg(u1, pstr(w1)), angle_deg(u2, pstr(w2)))
        w = float(Angle(float(pstr(ww)) / 2, unit=u.arcsec).degree)
        h = float(Angle(float(pstr(hw)) / 2, unit=u.arcsec).degree)
    except Exception:
        return 'raise'
    return [ra + w, dec + h, ra - w, dec + h, ra - w, dec - h, ra + w, dec - h]


def eval_poly(v):
    out = []
    try:
        for (u1, w1, (u2, w2)) in v:
            out += list(skycoord(angle_deg(u1, pstr(w1)), angle_deg(u2, pstr(w2))))
    except Exception:
        return 'raise'
    return out


def real_parse(kind, line):
    from AegeanTools import MIMAS
    f = {'circle': MIMAS.circle2circle, 'box': MIMAS.box2poly, 'polygon': MIMAS.poly2poly}[kind]
    try:
        with warnings.catch_warnings():
            warnings.simplefilter('ignore')
            return [float(x) for x in f(line)]
    except Exception:
        return 'raise'


def same(a, b, tol=1e-9):
    if isinstance(a, str) or isinstance(b, str):
        return a == b
    return len(a) == len(b) and all(abs(x - y) <= tol for x, y in zip(a, b))


# ------------------------------------------------------------------------------------------ independent DS9 reading + healpy
def ds9_value(word, hours=False):
    """independent reading of a DS9 coordinate word: decimal degrees or [+-]D:M:S (x 15 for h:m:s)"""
    if ':' in word:
        neg = word.strip().startswith('-')
        d, m, s = (abs(float(x)) for x in word.split(':'))
        v = d + m / 60.0 + s / 3600.0
        return (-v if neg else v) * (15.0 if hours else 1.0)
    return float(word)


def unit(ra, dec):
    ra, dec = np.radians(ra), np.radians(dec)
    return np.array([np.cos(dec) * np.cos(ra), np.cos(dec) * np.sin(ra), np.sin(dec)])


def expected_pixels(lines, D):
    """pixels (nested, depth D) of the circles (radius in arc seconds) and comma-separated polygons / boxes of a region file, read
    independently of MIMAS: DS9 text -> numbers -> healpy queries"""
    import healpy as hp
    import re
    pix = set()
    for ln in lines:
        if ln.startswith('#'):
            continue
        body = ln.split('#')[0]
        nums = [w for w in re.split(r'[(),\s]+', body) if w][1:]
        if ln.startswith('circle'):
            ra, dec, r = ds9_value(nums[0], True), ds9_value(nums[1]), float(nums[2].rstrip('"')) / 3600.0
            pix |= set(hp.query_disc(2 ** D, unit(ra, dec), math.radians(r), inclusive=True, nest=True).tolist())
        elif ln.startswith('polygon'):
            vs = [unit(ds9_value(nums[i], True), ds9_value(nums[i + 1])) for i in range(0, len(nums) - 1, 2)]
            pix |= set(hp.query_polygon(2 ** D, np.array(vs), inclusive=True, nest=True).tolist())
        elif ln.startswith('box'):
            ra, dec = ds9_value(nums[0], True) % 360.0, ds9_value(nums[1])
            w, h = float(nums[2].rstrip('"')) / 7200.0, float(nums[3].rstrip('"')) / 7200.0
            vs = [unit(ra + w, dec + h), unit(ra - w, dec + h), unit(ra - w, dec - h), unit(ra + w, dec - h)]
            pix |= set(hp.query_polygon(2 ** D, np.array(vs), inclusive=True, nest=True).tolist())
    return pix


def gen_regfile(rng):
    n = rng.randint(1, 5)
    lines = [rng.choice(OTHER[:4])]
    for _ in range(n):
        k = rng.random()
        if k < 0.4:
            lines.append(gen_circle_line(rng, seps=(',',)).split(' #')[0].rstrip('\n') + '\n')
        elif k < 0.6:
            ln = gen_box_line(rng)
            lines.append(ln.split(' #')[0].rstrip('\n') + '\n')
        elif k < 0.8:
            ln = gen_poly_line(rng)
            while len(ln.split('(')[1].split(')')[0].split(',')) % 2:
                ln = gen_poly_line(rng)
            lines.append(ln.rstrip('\n') + '\n')
        else:
            lines.append(rng.choice(OTHER))
    return lines, rng.randint(4, 7)


def regfile_problem(lines, D, work):
    """real reg2mim on the file vs the independent reading; returns a description or None"""
    from AegeanTools import MIMAS
    from AegeanTools.regions import Region
    os.makedirs(work, exist_ok=True)
    reg, mim = os.path.join(work, 'x.reg'), os.path.join(work, 'x.mim')
    with open(reg, 'w') as fh:
        fh.writelines(lines)
    try:
        with warnings.catch_warnings():
            warnings.simplefilter('ignore')
            MIMAS.reg2mim(reg, mim, D)
            got = set(int(p) for p in Region.load(mim).get_demoted())
    except Exception as e:  # noqa
        return f'reg2mim raised {type(e).__name__}: {e}'
    want = expected_pixels(lines, D)
    if got != want:
        return (f'reg2mim region has {len(got)} depth-{D} pixels, the shapes of the file (independent healpy queries) {len(want)}; '
                f'missing {sorted(want - got)[:5]} extra {sorted(got - want)[:5]}')
    return None


# ------------------------------------------------------------------------------------------ mask2mim
def gen_mask(rng):
    ny, nx = rng.randint(3, 9), rng.randint(3, 9)
    data = np.array([[rng.choice([0, 0, 1, 1, 2, 3]) for _ in range(nx)] for _ in range(ny)], dtype=np.float32)
    if rng.random() < 0.5:
        for _ in range(rng.randint(1, 3)):
            data[rng.randrange(ny), rng.randrange(nx)] = np.nan
    thr = rng.choice([1, 1, 2, 3, 0])
    finite = data[~np.isnan(data)]
    if finite.size == 0 or finite.max() < thr:      # an all-below-threshold mask makes mask2mim raise (recorded finding): not generated
        data[0, 0] = 3
    D = rng.randint(3, 7)
    proj = rng.choice(['TAN', 'SIN', 'CAR'])
    crval = (rng.choice([0.0, 359.9, rng.uniform(0, 360)]), rng.choice([0.0, rng.uniform(-80, 80), rng.uniform(-80, 80)]))
    cd = rng.uniform(0.3, 2.5)
    return {'data': [[None if math.isnan(v) else int(v) for v in row] for row in data.tolist()], 'thr': thr, 'D': D, 'proj': proj,
            'crval': crval, 'cdelt': (-cd, cd * rng.choice([1.0, 0.5])), 'crpix': (rng.uniform(1, nx), rng.uniform(1, ny))}


def mask_header(m):
    from astropy.wcs import WCS
    w = WCS(naxis=2)
    w.wcs.ctype = ['RA---' + m['proj'], 'DEC--' + m['proj']]
    w.wcs.crval = list(m['crval'])
    w.wcs.cdelt = list(m['cdelt'])
    w.wcs.crpix = list(m['crpix'])
    return w


def run_mask(m, work, default_args=False):
    """real mask2mim; returns (levels dict as lists, demoted set, independent selection, independent pixels, problem)"""
    import healpy as hp
    from astropy.io import fits
    from AegeanTools import MIMAS
    from AegeanTools.regions import Region
    os.makedirs(work, exist_ok=True)
    fn, mim = os.path.join(work, 'm.fits'), os.path.join(work, 'm.mim')
    data = np.array([[np.nan if v is None else v for v in row] for row in m['data']], dtype=np.float32)
    w = mask_header(m)
    fits.PrimaryHDU(data, header=w.to_header()).writeto(fn, overwrite=True)
    with warnings.catch_warnings():
        warnings.simplefilter('ignore')
        if default_args:
            MIMAS.mask2mim(fn, mim)
        else:
            MIMAS.mask2mim(fn, mim, threshold=float(m['thr']), maxdepth=m['D'])
    reg = Region.load(mim)
    D = reg.maxdepth
    levels = [sorted(int(p) for p in reg.pixeldict.get(d, ())) for d in range(1, D + 1)]
    sel = [(r, c) for r in range(data.shape[0]) for c in range(data.shape[1])
           if not math.isnan(data[r, c]) and data[r, c] >= m['thr']]
    pixs = []
    problem = None
    for (r, c) in sel:
        ra, dec = w.wcs_pix2world([[float(c), float(r)]], 0)[0]
        pixs.append(int(hp.ang2pix(2 ** D, math.pi / 2 - math.radians(dec), math.radians(ra), nest=True)))
        with warnings.catch_warnings():
            warnings.simplefilter('ignore')
            if problem is None and not bool(np.all(reg.sky_within(ra, dec, degin=True))):
                problem = f'the sky position ({ra:.6f}, {dec:.6f}) of selected image pixel (row {r}, col {c}) is not inside the region'
    dem = set(int(p) for p in reg.get_demoted())
    if problem is None and dem != set(pixs):
        problem = (f'the region holds {len(dem)} depth-{D} pixels, the selected image pixels fall into {len(set(pixs))}: '
                   f'missing {sorted(set(pixs) - dem)[:4]} extra {sorted(dem - set(pixs))[:4]}')
    return levels, dem, sel, pixs, D, problem


def g_image(data):
    return '[' + '; '.join('[' + '; '.join('None' if v is None else f'Some {vlib.zlit(v)}' for v in row) + ']' for row in data) + ']'


# ------------------------------------------------------------------------------------------ add_circles scalar / list
def circles_problem(rng):
    from AegeanTools.regions import Region
    D = rng.randint(4, 7)
    n = rng.randint(1, 4)
    cs = [(math.radians(rng.uniform(0, 360)), math.radians(rng.uniform(-80, 80)), math.radians(rng.uniform(0.5, 8))) for _ in range(n)]
    depth = rng.choice([None, D, D - 1, D + 2])
    a, b = Region(D), Region(D)
    a.add_circles(cs[0][0], cs[0][1], cs[0][2], depth)
    b.add_circles([cs[0][0]], [cs[0][1]], [cs[0][2]], depth)
    if a.pixeldict != b.pixeldict:
        return {'circles': cs[:1], 'depth': depth, 'D': D}, 'scalar arguments and one-element lists give different regions'
    allr = Region(D)
    ras, decs, rs = (np.array(x) for x in zip(*cs))
    allr.add_circles(ras, decs, rs, depth)
    un = set()
    for c in cs:
        one = Region(D)
        one.add_circles(*c, depth)
        un |= set(int(p) for p in one.get_demoted())
    if set(int(p) for p in allr.get_demoted()) != un:
        return {'circles': cs, 'depth': depth, 'D': D}, 'n circles in one call differ from the union of the n one-circle regions'
    return {'circles': cs, 'depth': depth, 'D': D}, None


# ------------------------------------------------------------------------------------------ library hypotheses
def validate_astropy(ctx, rng, n):
    from astropy.coordinates import Angle
    import astropy.units as u
    bad = {'A1': [], 'A2': [], 'A3': [], 'S1': [], 'SX': []}
    for k in range(n):
        s = fmt_num(rng, rng.choice([rng.uniform(0, 100), rng.uniform(100, 40000)]))
        if abs(Angle(s, unit=u.arcsec).degree - float(s) / 3600.0) > 1e-12 * max(1.0, float(s) / 3600):
            bad['A1'].append(s)
        x = rng.uniform(-360, 360)
        w = rng.choice([fmt_num(rng, x), sexa(rng, rng.uniform(0, 23.99), False)])
        if abs(Angle(w, unit=u.hourangle).degree - 15.0 * Angle(w, unit=u.degree).degree) > 1e-9:
            bad['A2'].append(w)
        y = rng.uniform(0, 40000)
        if abs(Angle(y, unit=u.arcsec).degree - y / 3600.0) > 1e-12 * max(1.0, y / 3600):
            bad['A3'].append(y)
        ra, dec = rng.uniform(-400, 800), rng.uniform(-90, 90)
        cr, cd = skycoord(ra, dec)
        if abs(cr - ra % 360.0) > 1e-9 or abs(cd - dec) > 1e-12:
            bad['S1'].append((ra, dec))
        z = rng.choice([-0.5, -0.25, 0.5, rng.uniform(-90, 90)])
        wz = sexa(rng, z, False)
        if abs(Angle(wz, unit=u.degree).degree - ds9_value(wz)) > 1e-9:
            bad['SX'].append(wz)
    for w, v in (('-00:30:00', -0.5), ('-00:00:36', -0.01), ('+00:30:00', 0.5), ('-0:30:0', -0.5)):
        if abs(Angle(w, unit=u.degree).degree - v) > 1e-12:
            bad['SX'].append(w)
    names = {'A1': 'A1 Angle(s, arcsec).degree = float(s) / 3600 for decimal words',
             'A2': 'A2 Angle(s, hour).degree = 15 Angle(s, deg).degree for decimal words and h:m:s words with h < 24',
             'A3': 'A3 Angle(x, arcsec).degree = x / 3600 for floats',
             'S1': 'S1 SkyCoord(ra, dec): .ra.degree = ra mod 360, .dec.degree = dec',
             'SX': 'SX Angle("[+-]D:M:S", deg).degree = sign (D + M/60 + S/3600), the sign of -00:30:00 included'}
    for k, nm in names.items():
        ctx.hyp['astropy ' + nm] = n
        ctx.oblige('library hypothesis: astropy ' + nm, not bad[k], f'{len(bad[k])} of {n} samples differ, first {bad[k][:2]}')


def validate_vec2pix(ctx, rng, n):
    import healpy as hp
    bad1 = bad2 = 0
    for _ in range(n):
        d = rng.randint(1, 12)
        t = rng.choice([1e-7, math.pi - 1e-7, math.pi / 2, rng.uniform(0, math.pi), rng.uniform(0, math.pi)])
        p = rng.choice([0.0, rng.uniform(-7, 7), rng.uniform(0, 2 * math.pi)])
        x, y, z = hp.ang2vec(t, p)
        q = int(hp.vec2pix(2 ** d, x, y, z, nest=True))
        bad1 += q != int(hp.ang2pix(2 ** d, t, p, nest=True))
        bad2 += not (0 <= q < 12 * 4 ** d)
    ctx.hyp['healpy V1 vec2pix(2^d, ang2vec(t, p), nest) = ang2pix(2^d, t, p, nest)'] = n
    ctx.hyp['healpy V2 vec2pix returns a valid nested pixel number'] = n
    ctx.oblige('library hypothesis: healpy V1 vec2pix(ang2vec(theta, phi)) = ang2pix(theta, phi) (nested, depths 1-12, 0 < theta < pi incl. 1e-7 from the poles, any phi)',
               bad1 == 0, f'{bad1} of {n} differ')
    ctx.oblige('library hypothesis: healpy V2 vec2pix gives 0 <= pix < 12 * 4^d', bad2 == 0, f'{bad2} of {n}')


# ------------------------------------------------------------------------------------------ findings (replayed, reported as notes)
def finding_notes(ctx):
    from AegeanTools import MIMAS
    notes = []
    try:
        r1 = MIMAS.circle2circle("circle(10,10,1')")[2]
        r2 = MIMAS.circle2circle("circle(10,10,0.5)")[2]
        if abs(r1 - 1 / 3600.0) < 1e-12:
            notes.append("circle2circle cuts the last character of the radius without looking at it: `circle(10,10,1')` (one arc "
                         f"minute in DS9) gives radius {r1:.6g} deg = 1 arc second; `circle(10,10,0.5)` (0.5 deg in DS9) gives {r2:.6g} deg")
        p = MIMAS.box2poly('box(0,60,7200",7200")')
        notes.append(f"box2poly adds the half width to RA as a coordinate difference: box(0,60,7200\",7200\") (2 deg x 2 deg on the sky at "
                     f"dec 60) gives RA corners {p[0]:.3f} / {p[2]:.3f}, i.e. +-1 deg in RA = +-0.5 deg on the sky; the true box reaches "
                     "RA +-2 deg; the rotation angle is never read (C09x_box_angle_ignored)")
        q = MIMAS.poly2poly('polygon(1,2, 3,4, 5,6, 7,8, 9,10)')
        notes.append(f"poly2poly pairs words by position: `polygon(1,2, 3,4, 5,6, 7,8, 9,10)` (blank after every second comma) gives {q} "
                     "- vertices dropped without a message; `polygon(1, 2, 3, 4, 5, 6)` gives [] (add_poly then raises)")
        try:
            run_mask({'data': [[0, 0], [0, 0]], 'thr': 1, 'D': 4, 'proj': 'TAN', 'crval': (10.0, 10.0), 'cdelt': (-1.0, 1.0),
                      'crpix': (1.0, 1.0)}, os.path.join(ctx.work, 'c09x_empty'))
        except Exception as e:  # noqa
            notes.append(f'mask2mim on a mask without any pixel >= threshold raises {type(e).__name__} ({e}) instead of writing an empty region')
        try:
            MIMAS.circle2circle('circle(10, 10, 3")')
        except Exception as e:  # noqa
            notes.append(f'`circle(10, 10, 3")` (blank after the commas) raises {type(e).__name__}: the empty word between , and blank is '
                         'taken as dec; `galactic` / `fk5` header lines of a region file are ignored (coordinates always read as FK5)')
    except Exception as e:  # noqa
        notes.append(f'finding replays raised {type(e).__name__}: {e}')
    for n in notes:
        ctx.notes.append('C09x finding (not a violation of the C09 text, which starts from circles / polygons): ' + n)


# ------------------------------------------------------------------------------------------ entry points
def gen_lines(ctx):
    rng = ctx.rng
    quick = ctx.tier == 'quick'
    cases = []
    for _ in range(60 if quick else 600):
        cases.append(('circle', gen_circle_line(rng, suffixes=['"', '"', '"', "'", 'd', ''])))
    for _ in range(40 if quick else 400):
        cases.append(('box', gen_box_line(rng)))
    for _ in range(50 if quick else 500):
        cases.append(('polygon', gen_poly_line(rng, seps=rng.choice([(',',), (',',), (',', ', '), (', ',), (',', ' ')]))))
    for ln in SHORT:
        cases.append(('circle' if ln.startswith('circle') else 'box' if ln.startswith('box') else 'polygon', ln))
    return cases


def parse_problem(kind, line, mv):
    real = real_parse(kind, line)
    want = {'circle': eval_circle, 'box': eval_box, 'polygon': eval_poly}[kind](mv)
    if not same(real, want):
        return real, want
    return None


def ds9_semantic_problem(kind, line):
    """independent of the model: well-formed lines (arc-second sizes, comma separated) against a direct reading of the DS9 text"""
    import re
    body = line.split('#')[0]
    nums = [w for w in re.split(r'[(),\s]+', body) if w][1:]
    real = real_parse(kind, line)
    try:
        if kind == 'circle':
            want = [ds9_value(nums[0], True), ds9_value(nums[1]), float(nums[2][:-1]) / 3600.0]
        elif kind == 'polygon':
            want = []
            if len(nums) % 2:
                return None
            for i in range(0, len(nums) - 1, 2):
                want += [ds9_value(nums[i], True) % 360.0, ds9_value(nums[i + 1])]
        else:
            ra, dec = ds9_value(nums[0], True) % 360.0, ds9_value(nums[1])
            w, h = float(nums[2][:-1]) / 7200.0, float(nums[3][:-1]) / 7200.0
            want = [ra + w, dec + h, ra - w, dec + h, ra - w, dec - h, ra + w, dec - h]
    except Exception:
        return None
    if isinstance(real, str) or len(real) != len(want) or any(abs(x - y) > 1e-7 for x, y in zip(real, want)):
        return real, want
    return None


def well_formed(kind, line):
    return ' ' not in line.split('#')[0].strip()


def run_extra(ctx, model_ok=True):
    import logging
    root = logging.getLogger()
    saved = root.level
    root.setLevel(logging.CRITICAL)
    try:
        _run_extra(ctx, model_ok)
    finally:
        root.setLevel(saved)


def _run_extra(ctx, model_ok=True):
    t0 = time.time()
    rng = ctx.rng
    quick = ctx.tier == 'quick'
    # the translator obligation for Gen/Ds9.v is reported by check.py (GEN of c09.py includes GEN_EXTRA)
    names = vlib.theorems_of('C09x')
    if model_ok:
        for n in names:
            ctx.oblige(f'theorem {n}', True)
        ax, out = vlib.print_assumptions(ctx, 'C09x', names)
        if ax is None:
            ctx.oblige('Print Assumptions (C09x) runs', False, out)
        else:
            for n in names:
                badax = vlib.axioms_ok(ax.get(n, ['<missing>']))
                ctx.axioms[n] = ax.get(n, ['<missing>'])
                ctx.oblige(f'axioms of {n} within the allow-list', not badax, badax)
    ctx.rule += (' EXTENSION C09x (DS9 text / mask front end): distinct = distinct line / region file / mask image; non-trivial = a '
                 'shape line that parses, a file with at least two shapes, a mask with at least one selected pixel.')
    work = os.path.join(ctx.work, 'c09x')
    # ---- parsers: real vs independent DS9 reading (oracle), real vs model (correspondence)
    cases = gen_lines(ctx)
    nsem = 0
    for kind, line in cases:
        if kind == 'circle' and not line.split('#')[0].rstrip().endswith('")'):
            continue
        if not well_formed(kind, line):
            continue
        p = ds9_semantic_problem(kind, line)
        if p:
            nsem += 1
            if nsem <= 2:
                ctx.mismatch(f'{kind} parser vs a direct reading of the DS9 line', {'line': line}, impl=p[0], model=p[1],
                             is_violation={'kind': 'ds9', 'parser': kind, 'line': line, 'got': p[0], 'expected': p[1]})
    ctx.oblige(f'oracle: {len(cases)} generated DS9 lines; for arc-second sizes and comma-separated coordinates circle2circle / box2poly / '
               'poly2poly return the numbers of the line (h:m:s x 15, [+-]d:m:s incl. -00:30:00, size / 3600, box half sizes)',
               nsem == 0, f'{nsem} lines differ')
    nreg = 20 if quick else 150
    nrb = 0
    for k in range(nreg):
        lines, D = gen_regfile(rng)
        p = regfile_problem(lines, D, work)
        nshapes = sum(1 for ln in lines if ln.startswith(('circle', 'box', 'polygon')))
        ctx.case(key=('regfile', ''.join(lines)) if nshapes >= 2 else None, bucket='reg2mim-file',
                 sample={'regfile': lines, 'depth': D} if k == 0 else None)
        if p:
            nrb += 1
            if nrb <= 2:
                ctx.mismatch('reg2mim vs independent healpy queries of the shapes in the file', {'lines': lines, 'depth': D}, impl=p,
                             is_violation={'kind': 'regfile', 'lines': lines, 'depth': D, 'what': p})
    ctx.oblige(f'oracle: {nreg} region files (fk5 / galactic / global headers, comments, unknown shapes, circles, boxes, polygons), the '
               'region written by reg2mim holds exactly the pixels of inclusive healpy queries of the shapes read independently',
               nrb == 0, f'{nrb} files differ')
    # ---- masks
    nmask = 24 if quick else 200
    masks, mres, nmb = [], [], 0
    for k in range(nmask):
        m = gen_mask(rng)
        try:
            levels, dem, sel, pixs, D, p = run_mask(m, work)
        except Exception as e:  # noqa
            levels, dem, sel, pixs, D, p = None, None, [], [], m['D'], f'mask2mim raised {type(e).__name__}: {e}'
        masks.append(m)
        mres.append((levels, sel, pixs))
        ctx.case(key=('mask', json.dumps(m, sort_keys=True)) if sel else None, bucket=f"mask2mim-{m['proj']}",
                 sample={'mask': m['data'], 'threshold': m['thr'], 'depth': m['D'], 'selected': len(sel)} if k == 0 else None)
        if p:
            nmb += 1
            if nmb <= 2:
                ctx.mismatch('mask2mim vs hp.ang2pix of the sky positions of the selected image pixels', {'mask': m}, impl=p,
                             is_violation={'kind': 'mask', 'mask': m, 'what': p})
    ctx.oblige(f'oracle: {nmask} FITS masks (TAN / SIN / CAR, NaN pixels, thresholds 0-3, depths 3-7): every pixel >= threshold has its '
               'sky position inside the region written by mask2mim, and the region is exactly the HEALPix cells of those positions',
               nmb == 0, f'{nmb} masks differ')
    try:
        dm = dict(gen_mask(rng), thr=1, D=8)
        _, _, _, _, Dd, p = run_mask(dm, work, default_args=True)
        ctx.oblige('mask2mim defaults: threshold 1.0 and depth 8 (C09x_defaults)', Dd == 8 and p is None, f'depth {Dd}, {p}')
    except Exception as e:  # noqa
        ctx.oblige('mask2mim defaults: threshold 1.0 and depth 8 (C09x_defaults)', False, repr(e))
    # ---- add_circles scalar / list / n
    ncb = 0
    for k in range(12 if quick else 100):
        c, p = circles_problem(rng)
        ctx.case(key=('circles', json.dumps(c)), bucket='add_circles-args')
        if p:
            ncb += 1
            if ncb <= 1:
                ctx.mismatch('add_circles argument handling', c, impl=p, is_violation={'kind': 'circles', 'case': c, 'what': p})
    ctx.oblige('oracle: add_circles with scalars = with one-element lists; n circles (numpy arrays) = union of the n one-circle regions',
               ncb == 0, f'{ncb} cases differ')
    # ---- model
    if model_ok:
        exprs = [f"{ {'circle': 'circle_sym', 'box': 'box_sym', 'polygon': 'poly_sym'}[k] } {zstr(l)}" for k, l in cases]
        allines = [l for _, l in cases] + OTHER
        exprs.append('map line_kind [' + '; '.join(zstr(l) for l in allines) + ']')
        for m, (levels, sel, pixs) in zip(masks, mres):
            exprs.append(f"(selected {g_image(m['data'])} {vlib.zlit(m['thr'])}, mask_obs {m['D']} {vlib.zlist(pixs)})")
        vals, err = vlib.coq_eval(ctx, IMPORTS, exprs, shard=60, workers=6)
        if vals is None:
            ctx.oblige('model evaluation (vm_compute) of the DS9 lines and masks', False, err)
        else:
            nb = 0
            for (kind, line), mv in zip(cases, vals[:len(cases)]):
                p = parse_problem(kind, line, mv)
                ok_line = p is None
                ctx.case(key=('line', line) if not isinstance(real_parse(kind, line), str) else None, bucket=f'ds9-{kind}',
                         sample={'line': line} if kind == 'polygon' and nb == 0 and len(ctx.samples) < 4 else None)
                if not ok_line:
                    nb += 1
                    if nb <= 3:
                        ctx.mismatch(f'{kind} parser vs Model.Ds9 (astropy applied to the model words)', {'line': line}, impl=p[0], model=p[1],
                                     is_violation={'kind': 'ds9', 'parser': kind, 'line': line, 'got': p[0], 'expected': p[1]})
            ctx.oblige(f'correspondence: {len(cases)} DS9 lines (all unit suffixes, decimal / sexagesimal, negative zero degrees, boxes '
                       'with / without angle, polygons of 3-8 vertices with , and blank separators, odd coordinate counts, too few '
                       'words), circle2circle / box2poly / poly2poly equal astropy applied to the words the model selects; '
                       'exceptions <-> None', nb == 0, f'{nb} lines differ')
            kinds = vals[len(cases)]
            want = []
            for l in allines:
                want.append(0 if l.startswith('#') else 1 if l.startswith('box') else 2 if l.startswith('circle') else
                            3 if l.startswith('polygon') else 0)
            ctx.oblige(f'correspondence: dispatch of reg2mim on {len(allines)} lines (comment, box, circle, polygon, ignored) equals '
                       'line_kind of the model', list(kinds) == want, 'dispatch differs')
            nbm = 0
            for m, (levels, sel, pixs), v in zip(masks, mres, vals[len(cases) + 1:]):
                msel, mlev = v
                if [tuple(x) for x in msel] != sel or (levels is not None and [sorted(l) for l in mlev] != levels):
                    nbm += 1
                    if nbm <= 2:
                        ctx.mismatch('mask2mim vs Model.Ds9 (selected pixels in np.where order; stored pixels per level)', {'mask': m},
                                     impl={'selected': sel, 'levels': levels}, model={'selected': msel, 'levels': mlev},
                                     is_violation={'kind': 'mask', 'mask': m, 'what': 'stored pixels differ from the model'})
            ctx.oblige(f'correspondence: {len(masks)} masks, pixels taken by mask2mim (row, col, row-major) and the pixeldict of the '
                       'saved region equal to the model (healpy / wcslib answers supplied as a table)', nbm == 0, f'{nbm} masks differ')
            ctx.traces += len(vals)
    validate_astropy(ctx, rng, 60 if quick else 600)
    validate_vec2pix(ctx, rng, 300 if quick else 3000)
    finding_notes(ctx)
    ctx.notes.append(f'C09x: total {time.time() - t0:.1f}s')


def search_extra(ctx):
    """bounded search on the real code alone: DS9 lines, region files, masks, add_circles"""
    rng = ctx.rng
    work = os.path.join(ctx.work, 'c09x_search')
    t0 = time.time()
    while time.time() - t0 < 20:
        kind = rng.choice(['circle', 'box', 'polygon'])
        line = {'circle': lambda r: gen_circle_line(r, seps=(',',)), 'box': gen_box_line, 'polygon': gen_poly_line}[kind](rng)
        p = ds9_semantic_problem(kind, line)
        if p:
            return {'kind': 'ds9', 'parser': kind, 'line': line, 'got': p[0], 'expected': p[1]}
        lines, D = gen_regfile(rng)
        p = regfile_problem(lines, D, work)
        if p:
            return {'kind': 'regfile', 'lines': lines, 'depth': D, 'what': p}
        m = gen_mask(rng)
        try:
            p = run_mask(m, work)[5]
        except Exception as e:  # noqa
            p = f'mask2mim raised {type(e).__name__}: {e}'
        if p:
            return {'kind': 'mask', 'mask': m, 'what': p}
        c, p = circles_problem(rng)
        if p:
            return {'kind': 'circles', 'case': c, 'what': p}
    return None


def replay_extra(ctx, fi):
    work = os.path.join(ctx.work, 'c09x_replay')
    k = fi.get('kind')
    if k == 'ds9':
        p = ds9_semantic_problem(fi['parser'], fi['line'])
        print('line:', repr(fi['line']))
        print('implementation:', real_parse(fi['parser'], fi['line']))
        print('expected (direct reading of the DS9 text / model):', p[1] if p else fi.get('expected'))
        bad = p is not None or not same(real_parse(fi['parser'], fi['line']), fi.get('expected'))
    elif k == 'regfile':
        p = regfile_problem(fi['lines'], fi['depth'], work)
        print('region file:', fi['lines'], 'depth', fi['depth'])
        print('implementation:', p or 'property holds on this input')
        bad = p is not None
    elif k == 'mask':
        m = fi['mask']
        m['crval'], m['cdelt'], m['crpix'] = tuple(m['crval']), tuple(m['cdelt']), tuple(m['crpix'])
        try:
            p = run_mask(m, work)[5]
        except Exception as e:  # noqa
            p = f'mask2mim raised {type(e).__name__}: {e}'
        print('mask:', json.dumps(m))
        print('implementation:', p or 'property holds on this input')
        bad = p is not None
    else:
        print('case:', fi)
        print('implementation: re-run the check; add_circles cases are regenerated from the seed')
        bad = True
    return 1 if bad else 0
