"""C08 - region operations are set algebra on sky pixels, for every history."""
import itertools
import json
import os
import time

import vlib
from harness import regions_common as rc
from harness import c08x

GEN = ['Regions', 'RegionOps']
EXTRA_TARGETS = c08x.EXTRA_TARGETS
LEVEL = 'proof'
TRUSTED = [
    'Coq 8.16.1 kernel + vm_compute; theorems over Z/list are axiom-free (Print Assumptions output is recorded)',
    'translator tools/translate.py: leaves children/parent/degrade/sibling test/ranges/NUNIQ code and the shape '
    'constants of regions.py (add_pixels cache reset, loop ranges); matchers fail closed',
    'hand-written control skeleton Model/RegionModel.v (sets as lists, demote/renorm as closed forms over the '
    'generated leaves) - tied by exact correspondence on operation histories after every operation',
    'healpy (pix2ang/ang2pix round trip at pixel centres; query_disc answers are inputs), pickle, numpy.isin',
]
ASSUMPTIONS = ['operands and pixel arguments are valid for their level (1 <= level <= depth, 0 <= p < 12*4^level)',
               'healpy.ang2pix(pix2ang(q)) = q at pixel centres (validated on every Within query)',
               'get_area is checked on renormalised states; overlap after raw add_pixels is a recorded finding']


def pixset(rng, d, style=None):
    n = 12 * 4 ** d
    style = style or rng.choice(['cluster', 'cluster', 'scatter', 'siblings', 'mixed'])
    ps = set()
    if style in ('cluster', 'mixed'):
        a = rng.randrange(n)
        a -= a % rng.choice([1, 4, 4, 16])
        ps |= set(range(a, min(n, a + rng.randint(1, 20))))
    if style in ('scatter', 'mixed'):
        ps |= {rng.randrange(n) for _ in range(rng.randint(1, 6))}
    if style == 'siblings':
        for _ in range(rng.randint(1, 3)):
            a = rng.randrange(n // 4) * 4
            ps |= {a, a + 1, a + 2, a + 3}
        if rng.random() < 0.5:
            a = rng.randrange(max(1, n // 16)) * 16
            ps |= set(range(a, min(n, a + 16)))
    return sorted(ps)


def operand(rng, D, same_depth=False, deep=False):
    if same_depth:
        Do = D
    else:
        Do = max(1, min(12, D + rng.choice([-2, -1, 0, 0, 1, 1, 2])))
    cells = []
    lo = max(1, Do - 2) if deep else 1
    for _ in range(rng.randint(1, 3)):
        d = rng.randint(lo, Do)
        cells += [(d, p) for p in pixset(rng, d)]
    return {'depth': Do, 'cells': cells}


def queries(rng, D, truth_hint, deep=False):
    n = 12 * 4 ** D
    qs = []
    hint = sorted(truth_hint)
    for _ in range(rng.randint(3, 30 if deep else 10)):
        c = rng.random()
        if hint and c < 0.4:
            qs.append(rng.choice(hint))
        elif c < 0.5:
            qs.append(-1)          # stands for a NaN position
        else:
            qs.append(rng.randrange(n))
    # duplicates inside one batch (several positions in one pixel)
    for _ in range(rng.randint(0, len(qs))):
        qs.append(rng.choice(qs))
    rng.shuffle(qs)
    return qs


def gen_sequence(rng, profile):
    if profile == 'small':
        D = rng.choice([1, 2, 2, 3, 3])
        L = rng.randint(2, 8)
    elif profile == 'mid':
        D = rng.choice([4, 5, 6])
        L = rng.randint(3, 12)
    else:
        D = rng.choice([8, 9, 10])
        L = rng.randint(3, 8)
    deep = profile == 'deep'
    ops = []
    truth = set()
    for i in range(L):
        c = rng.random()
        lo = max(1, D - 2) if deep else 1
        if c < 0.16:
            d = rng.randint(lo, D)
            op = {'op': 'AddPixels', 'd': d, 'ps': pixset(rng, d)}
            truth |= rc.deepest(D, [(d, p) for p in op['ps']])
        elif c < 0.30:
            d = rng.randint(lo, D)
            op = {'op': 'AddShape', 'd': d, 'ps': pixset(rng, d)}
            truth |= rc.deepest(D, [(d, p) for p in op['ps']])
        elif c < 0.42:
            o = operand(rng, D, deep=deep)
            op = {'op': 'Union', 'o': o, 'renorm': rng.random() < 0.7}
            truth |= rc.deepest(D, o['cells'])
        elif c < 0.62:
            o = operand(rng, D, same_depth=rng.random() < 0.9, deep=deep)
            if hintable(truth) and rng.random() < 0.6:
                # make the operand overlap the current content
                h = sorted(truth)
                a = rng.choice(h)
                o['cells'] += [(D, p) for p in h if a <= p < a + 12][:12] if o['depth'] == D else []
            k = rng.choice(['Without', 'Intersect', 'SymDiff'])
            op = {'op': k, 'o': o}
            if o['depth'] == D:
                t = rc.deepest(D, o['cells'])
                truth = truth - t if k == 'Without' else truth & t if k == 'Intersect' else truth ^ t
        elif c < 0.76:
            op = {'op': 'Within', 'qs': queries(rng, D, truth, deep)}
        elif c < 0.83:
            op = {'op': 'GetDemoted'}
        elif c < 0.89:
            op = {'op': 'GetArea'}
        elif c < 0.94:
            op = {'op': 'Uniq'}
        elif c < 0.98:
            op = {'op': 'SaveLoad'}
        else:
            op = {'op': 'Renorm'}
        ops.append(op)
    return D, ops


def gen_samecount(rng):
    """query; change WHICH pixels are stored but not HOW MANY; query again (a cache keyed by size would go stale)"""
    D = rng.choice([2, 3, 4, 5, 6])
    n = 12 * 4 ** D
    base = sorted(rng.sample(range(n), rng.randint(4, 24)))
    k = rng.randint(1, min(6, len(base)))
    out = rng.sample(base, k)
    rest = [p for p in range(n) if p not in set(base)]
    inn = rng.sample(rest, k)
    probes = list(base) + inn + [rng.randrange(n) for _ in range(4)]
    rng.shuffle(probes)
    ops = [{'op': rng.choice(['AddPixels', 'AddShape']), 'd': D, 'ps': base}, {'op': 'Within', 'qs': probes}]
    if rng.random() < 0.5:
        ops.append({'op': 'SymDiff', 'o': {'depth': D, 'cells': [(D, p) for p in out + inn]}})
    else:
        ops.append({'op': 'Without', 'o': {'depth': D, 'cells': [(D, p) for p in out]}})
        if rng.random() < 0.4:
            ops.append({'op': 'SaveLoad'})
        ops.append({'op': 'Union', 'o': {'depth': D, 'cells': [(D, p) for p in inn]}, 'renorm': rng.random() < 0.7})
    if rng.random() < 0.3:
        ops.append({'op': rng.choice(['SaveLoad', 'GetArea', 'Uniq'])})
    ops.append({'op': 'Within', 'qs': probes})
    ops.append({'op': 'GetDemoted'})
    return D, ops


def cost(D, ops):
    """number of deepest-level pixels the history touches (the list model is quadratic in it)"""
    n = 0
    for o in ops:
        cells = [(o['d'], p) for p in o['ps']] if 'ps' in o else o['o']['cells'] if 'o' in o else []
        for d, p in cells:
            n += 4 ** max(0, D - d)
    return n


def gen_bounded(rng, profile, limit=1500):
    while True:
        D, ops = gen_sequence(rng, profile)
        if cost(D, ops) <= limit:
            return D, ops


def hintable(t):
    return len(t) > 0


def alphabet(D):
    """small fixed alphabet for the bounded-exhaustive part"""
    if D == 2:
        return [
            {'op': 'AddPixels', 'd': 2, 'ps': [0, 1, 2, 3, 5]},
            {'op': 'AddPixels', 'd': 1, 'ps': [0, 2]},
            {'op': 'AddShape', 'd': 2, 'ps': [4, 5, 6, 7, 16]},
            {'op': 'Union', 'o': {'depth': 3, 'cells': [(3, p) for p in list(range(16)) + [80]]}, 'renorm': True},
            {'op': 'Union', 'o': {'depth': 1, 'cells': [(1, 1)]}, 'renorm': False},
            {'op': 'Without', 'o': {'depth': 2, 'cells': [(2, 1), (2, 5), (1, 1)]}},
            {'op': 'Intersect', 'o': {'depth': 2, 'cells': [(1, 0), (2, 16), (2, 17), (2, 20)]}},
            {'op': 'SymDiff', 'o': {'depth': 2, 'cells': [(2, 3), (2, 4)]}},
            {'op': 'GetDemoted'},
            {'op': 'Within', 'qs': [0, 1, 4, 16, 100, 0, 100, -1]},
            {'op': 'GetArea'},
            {'op': 'Uniq'},
            {'op': 'SaveLoad'},
        ]
    return [
        {'op': 'AddPixels', 'd': 3, 'ps': [0, 1, 2, 3, 21]},
        {'op': 'AddPixels', 'd': 2, 'ps': [1, 2, 3]},
        {'op': 'AddShape', 'd': 3, 'ps': list(range(16, 33))},
        {'op': 'AddShape', 'd': 1, 'ps': [5]},
        {'op': 'Union', 'o': {'depth': 4, 'cells': [(4, p) for p in list(range(64, 81))] + [(2, 0)]}, 'renorm': True},
        {'op': 'Union', 'o': {'depth': 2, 'cells': [(2, 0), (1, 5)]}, 'renorm': False},
        {'op': 'Without', 'o': {'depth': 3, 'cells': [(3, 1), (3, 17), (2, 1)]}},
        {'op': 'Intersect', 'o': {'depth': 3, 'cells': [(1, 0), (1, 5), (3, 100)]}},
        {'op': 'SymDiff', 'o': {'depth': 3, 'cells': [(3, 3), (3, 4), (2, 2)]}},
        {'op': 'Without', 'o': {'depth': 2, 'cells': [(2, 0)]}},
        {'op': 'GetDemoted'},
        {'op': 'Within', 'qs': [0, 4, 21, 21, 500, 500, 64, -1]},
        {'op': 'GetArea'},
        {'op': 'Uniq'},
        {'op': 'SaveLoad'},
    ]


def all_cases(ctx):
    rng = ctx.rng
    quick = ctx.tier == 'quick'
    cases = []
    # corpus first
    cdir = os.path.join(vlib.VERIF, 'corpus', 'C08')
    if os.path.isdir(cdir):
        for f in sorted(os.listdir(cdir)):
            with open(os.path.join(cdir, f)) as fh:
                c = json.load(fh)
            cases.append(('corpus', c['D'], [fix_op(o) for o in c['ops']]))
    for D in (2, 3):
        A = alphabet(D)
        for L in (1, 2):
            for seq in itertools.product(A, repeat=L):
                cases.append((f'exhaustive-D{D}-L{L}', D, list(seq)))
        trip = list(itertools.product(A, repeat=3))
        if quick:
            trip = rng.sample(trip, 250)
        for seq in trip:
            cases.append((f'exhaustive-D{D}-L3' if not quick else f'sampled-D{D}-L3', D, list(seq)))
    for _ in range(60 if quick else 800):
        D, ops = gen_samecount(rng)
        cases.append(('same-count', D, ops))
    for prof, n in (('small', 150 if quick else 2500), ('mid', 120 if quick else 2000), ('deep', 40 if quick else 600)):
        for _ in range(n):
            D, ops = gen_bounded(rng, prof)
            cases.append((f'random-{prof}', D, ops))
    return cases


def fix_op(o):
    if 'o' in o:
        o['o']['cells'] = [tuple(c) for c in o['o']['cells']]
    return o


def is_known_area_history(ops):
    return any(o['op'] == 'AddPixels' or (o['op'] == 'Union' and not o['renorm']) for o in ops)


def shrink(D, ops, work, pred):
    """delete ops / pixels while pred(D, ops) still holds"""
    changed = True
    while changed:
        changed = False
        for i in range(len(ops)):
            cand = ops[:i] + ops[i + 1:]
            if cand and pred(D, cand):
                ops = cand
                changed = True
                break
    return ops


def impl_problem(D, ops, work):
    tr, problems, known = rc.run_impl(D, ops, work)
    return problems[0] if problems else None


def run(ctx, model_ok=True):
    cases = all_cases(ctx)
    ctx.rule = ('operation histories on a real Region (13-15 op alphabet bounded-exhaustive to length 2, length 3 '
                'exhaustive in thorough / sampled in quick, at depth 2 and 3; random histories of length 2-12 at depth 1-10 '
                'with operands of lower/equal/higher depth, duplicate and NaN queries, pickle round trips). After every '
                'operation the output and the stored pixels per level are compared with the Coq model and with an '
                'independent set-algebra oracle. distinct = distinct (depth, op sequence); non-trivial = contains a mutating '
                'op followed by a query or another mutating op.')
    exprs, impls, metas = [], [], []
    t0 = time.time()
    known_area_seen = 0
    for (bucket, D, ops) in cases:
        tr, problems, known = rc.run_impl(D, ops, ctx.work)
        nmut = sum(1 for o in ops if o['op'] in ('AddPixels', 'AddShape', 'Union', 'Without', 'Intersect', 'SymDiff'))
        key = (D, json.dumps(ops, sort_keys=True)) if (nmut >= 1 and len(ops) >= 2) else None
        ctx.case(key=key, sample={'depth': D, 'ops': [rc.g_op(o)[:120] for o in ops]} if bucket.startswith('random') else None,
                 bucket=bucket)
        for o in ops:
            ctx.hist['op:' + o['op']] = ctx.hist.get('op:' + o['op'], 0) + 1
        if known:
            known_area_seen += 1
        if problems:
            small = shrink(D, ops, ctx.work, lambda d, o: impl_problem(d, o, ctx.work) is not None)
            ctx.mismatch('set-algebra oracle on Region', {'depth': D, 'ops': [rc.g_op(o) for o in small]}, impl=problems[0],
                         is_violation={'D': D, 'ops': small, 'what': impl_problem(D, small, ctx.work)})
        exprs.append(rc.g_trace(D, ops))
        impls.append(rc.canon_impl(tr))
        metas.append((D, ops))
    ctx.notes.append(f'{len(cases)} histories on the implementation in {time.time() - t0:.1f}s; '
                     f'{known_area_seen} histories hit the recorded get_area finding')
    if model_ok:
        t1 = time.time()
        vals, err = vlib.coq_eval(ctx, rc.IMPORTS, exprs, shard=200, workers=12)
        if vals is None:
            ctx.oblige('model evaluation (vm_compute) of the histories', False, err)
        else:
            nbad = 0
            steps = 0
            for v, iv, (D, ops) in zip(vals, impls, metas):
                mv = rc.canon_model(v)
                steps += len(mv)
                # implementation trace may be shorter if it raised
                if mv != iv:
                    nbad += 1
                    if nbad <= 3:
                        k = next((i for i, (a, b) in enumerate(zip(mv, iv)) if a != b), min(len(mv), len(iv)))
                        ctx.mismatch('Region vs Model.RegionModel (trace after each op)',
                                     {'depth': D, 'ops': [rc.g_op(o) for o in ops], 'first_difference_at_op': k},
                                     impl=iv[k] if k < len(iv) else None, model=mv[k] if k < len(mv) else None)
            ctx.oblige(f'correspondence: {len(vals)} histories / {steps} steps, outputs and stored pixels equal to the model',
                       nbad == 0, f'{nbad} histories differ')
            ctx.traces = len(vals)
            ctx.notes.append(f'model evaluation took {time.time() - t1:.1f}s')
    # recorded finding: get_area double counts overlapping cells after raw adds
    for kind, text in vlib.known_findings('C08'):
        if kind == 'finding' and 'get_area' in text:
            D, ops = 2, [{'op': 'AddPixels', 'd': 2, 'ps': [0]}, {'op': 'AddPixels', 'd': 1, 'ps': [0]}, {'op': 'GetArea'}]
            tr, problems, known = rc.run_impl(D, ops, ctx.work)
            if known:
                ctx.known_lines.append(text)
    c08x.run_extra(ctx, model_ok)


def search(ctx):
    rng = ctx.rng
    extra = c08x.search_extra(ctx)
    if extra:
        return extra
    t0 = time.time()
    # exhaustive small alphabet first, then random
    for D in (2, 3):
        A = alphabet(D)
        for L in (1, 2, 3):
            for seq in itertools.product(A, repeat=L):
                p = impl_problem(D, list(seq), ctx.work)
                if p:
                    ops = shrink(D, list(seq), ctx.work, lambda d, o: impl_problem(d, o, ctx.work) is not None)
                    return {'D': D, 'ops': ops, 'what': impl_problem(D, ops, ctx.work)}
                if time.time() - t0 > 90:
                    break
            if time.time() - t0 > 90:
                break
        if time.time() - t0 > 90:
            break
    while time.time() - t0 < 180:
        D, ops = gen_sequence(rng, rng.choice(['small', 'mid', 'deep']))
        p = impl_problem(D, ops, ctx.work)
        if p:
            ops = shrink(D, ops, ctx.work, lambda d, o: impl_problem(d, o, ctx.work) is not None)
            return {'D': D, 'ops': ops, 'what': impl_problem(D, ops, ctx.work)}
    return None


def replay(ctx, obj):
    fi = obj.get('failing_input')
    if not fi:
        print('replay file has no concrete input; broken obligations were:')
        for b in obj.get('broken', []):
            print('  ', b.get('what'), str(b.get('detail', b.get('case', '')))[:400])
        return 1
    if 'kind' in fi:
        return c08x.replay_extra(ctx, fi)
    ops = [fix_op(o) for o in fi['ops']]
    p = impl_problem(fi['D'], ops, ctx.work)
    print('history:', [rc.g_op(o) for o in ops])
    print('implementation:', p or 'property holds on this history')
    return 1 if p else 0
