"""Run BANE.filter_image for a list of jobs in this process (the workers are forked from it) and print one RESULT json line per
job.  Used by the C06 harness under a watchdog.  A job: {id, path, step:[r,c], box:[r,c], cores, nslice, mask, cube_index,
patch: None|'maxrange', save: prefix}.  With patch='maxrange' BANE.sigmaclip is replaced IN THIS PROCESS (never in the repo)
by the exactly computable statistic (max, max-min) of the finite values; fork propagates the patch to the workers."""
import json
import os
import sys
import time
import warnings

warnings.simplefilter('ignore')
import numpy as np  # noqa: E402


def maxrange(arr, lo, hi, reps=10):
    a = np.asarray(arr)
    a = a[np.isfinite(a)]
    if len(a) < 1:
        return np.nan, np.nan
    return a.max(), a.max() - a.min()


def main():
    with open(sys.argv[1]) as fh:
        jobs = json.load(fh)
    import logging
    logging.disable(logging.CRITICAL)
    from AegeanTools import BANE
    real = BANE.sigmaclip
    for a in jobs:
        out = {'id': a['id'], 'raised': None}
        print('START ' + json.dumps({'id': a['id']}), flush=True)
        BANE.sigmaclip = maxrange if a.get('patch') == 'maxrange' else real
        if a.get('copy_from'):
            # the file at this path is REPLACED between two runs of the same process (state kept between calls must not matter)
            import shutil
            shutil.copyfile(a['copy_from'], a['path'])
        t0 = time.time()
        try:
            res = BANE.filter_image(a['path'], out_base=a.get('out_base'), step_size=tuple(a['step']) if a.get('step') else None,
                                    box_size=tuple(a['box']) if a.get('box') else None,
                                    cores=a['cores'], nslice=a['nslice'], mask=a['mask'], cube_index=a.get('cube_index'),
                                    compressed=a.get('compressed', False))
            if res is None:
                out['raised'] = 'returned None'
            else:
                bkg, rms = res
                out['shape'] = [list(bkg.shape), list(rms.shape)]
                out['dtype'] = [str(bkg.dtype), str(rms.dtype)]
                np.save(a['save'] + '_bkg.npy', bkg)
                np.save(a['save'] + '_rms.npy', rms)
                if a.get('out_base') and not a.get('compressed', False):
                    # the written maps as a reader sees them (BSCALE applied by astropy)
                    try:
                        from astropy.io import fits
                        fb = fits.getdata(a['out_base'] + '_bkg.fits').astype(np.float64)
                        fr = fits.getdata(a['out_base'] + '_rms.fits').astype(np.float64)
                        np.save(a['save'] + '_fbkg.npy', fb.astype(np.float32))
                        np.save(a['save'] + '_frms.npy', fr.astype(np.float32))
                        out['files'] = True
                    except BaseException as e:  # noqa
                        out['files'] = False
                        out['files_error'] = f'{type(e).__name__}: {str(e)[-300:]}'
        except BaseException as e:  # noqa
            out['raised'] = f'{type(e).__name__}: {str(e)[-400:]}'
        out['wall'] = round(time.time() - t0, 3)
        mid = getattr(BANE, 'memory_id', None)
        out['shm_left'] = [n for n in (f'ibkg_{mid}', f'irms_{mid}') if mid and os.path.exists(os.path.join('/dev/shm', n))]
        print('RESULT ' + json.dumps(out), flush=True)


if __name__ == '__main__':
    main()
