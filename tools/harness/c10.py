"""C10 - masking keeps or removes exactly the pixels/rows whose position is in the region.

Real astropy WCS + real Region.  For every case the harness tabulates `inside(x, y)` = "the sky position of the
centre of FITS pixel (x, y) is in the region" with an INDEPENDENT membership test (wcs_pix2world with origin 1 on
1-based pixels, healpy.ang2pix, pixel number in Region.get_demoted()), hands the table to the Coq model
(Model/Mask.v, vm_compute) and compares bit-exactly with MIMAS.mask_plane / mask_file / mask_table / mask_catalog;
the same table feeds the per-pixel / per-row oracle of the property, which gives the direct violation evidence."""
import json
import os
import time
import warnings

import numpy as np

import vlib
from fixtures import make_header

GEN = ['Mask']
LEVEL = 'proof'
EXTRA_TARGETS = ['Refuted/C10_squeeze.vo', 'Refuted/C10_origin.vo']
TRUSTED = [
    'Coq 8.16.1 kernel + vm_compute; all C10 theorems are axiom-free (Print Assumptions: closed)',
    'translator tools/points_c10.py -> Gen/Mask.v: index array size, which tuple slot holds the column counter, which slot the '
    'row counter overwrites, the axes of the comprehension / loop / stride, the block limits i*n:(i+1)*n, the origin argument of '
    'wcs_pix2world, the negate rule of mask_plane and mask_table; textual match (fail closed) of sky_within(ra, dec, degin=True), '
    'reshape(data.shape), data[bigmask] = np.nan, which axes np.squeeze removes (leaf squeeze_image_axes) and the plane loop of mask_file, WCS(header, naxis=2), '
    'table[mask], the body of mask_catalog and the NaN mask of Region.sky_within',
    'hand-written Model/Mask.v (numpy slice assignment, row-major reshape, boolean-index assignment, np.squeeze, table[mask] as '
    'filter) tied by exact correspondence on mask_plane / mask_file / mask_table / mask_catalog',
    'astropy.wcs.WCS.wcs_pix2world, healpy.ang2pix and Region.get_demoted (their answers are inputs of the model, tabulated per case); '
    'astropy.io.fits / astropy.table file round trips; numpy',
    'command line glue AegeanTools/CLI/MIMAS.py (argument parsing, defaults, option -> keyword mapping, argument order, output '
    'naming) is not modelled in Coq; it is tied on every run by tools/harness/cli_cases.py: MIMAS command lines (--maskimage and --maskcat with and without --negate / --colnames, csv / fits / vot tables, cubes, -o +c -c region building) run in subprocesses and '
    'the files they write equal, bit for bit (tables apart from uuids), those of the library call that --help and the docstrings promise',
]
ASSUMPTIONS = [
    'wcs_pix2world(p, origin) is the sky position of FITS pixel p + 1 - origin (hypothesis of every image theorem; validated on every run)',
    'Region.sky_within(ra, dec, degin=True) answers, element by element, healpy.ang2pix(2**maxdepth, pi/2 - dec, ra, nest=True) in '
    'get_demoted() for finite coordinates (validated on every run by scalar calls); non-finite coordinates are modelled as None',
    'pixel values are compared by their bit patterns (float32/float64), NaN = blank; no float arithmetic is involved',
    'rotation-free WCS (CDELT only), 2-D / 3-D / 4-D FITS arrays whose axes other than the image axes have length 1 or are the plane axis',
]

PROJ = ['SIN', 'TAN', 'ZEA', 'ARC', 'STG']
SPECIAL = [0.0, -0.0, 1.0, -1.0, 1e-310, 1e300, -2.5e-7, 123456.789, 3.0, 0.1]
IMPORTS = ('From Coq Require Import ZArith Bool List.\nFrom Aegean Require Import Gen.Mask Model.Mask.\n'
           'Import ListNotations.\nOpen Scope Z_scope.\n')


# ------------------------------------------------------------------------------------------ regions / membership
def build_region(spec, depth):
    from AegeanTools.regions import Region
    reg = Region(maxdepth=depth)
    for s in spec:
        if s[0] == 'circle':
            reg.add_circles(np.radians(s[1]), np.radians(s[2]), np.radians(s[3]))
        else:
            reg.add_poly([(np.radians(a), np.radians(d)) for a, d in s[1]])
    return reg


class Member:
    """independent membership test: ang2pix of the position, pixel number in the region's pixel set"""

    def __init__(self, reg):
        import healpy as hp
        self.hp = hp
        self.nside = 2 ** reg.maxdepth
        self.pix = np.array(sorted(int(p) for p in reg.get_demoted()), dtype=np.int64)

    def __call__(self, ra_deg, dec_deg):
        ra = np.atleast_1d(np.asarray(ra_deg, dtype=float))
        dec = np.atleast_1d(np.asarray(dec_deg, dtype=float))
        ok = np.isfinite(ra) & np.isfinite(dec)
        out = np.zeros(ra.shape, dtype=bool)
        if ok.any():
            th = np.pi / 2 - np.radians(dec[ok])
            good = (th >= 0) & (th <= np.pi)
            res = np.zeros(int(ok.sum()), dtype=bool)
            if good.any():
                p = self.hp.ang2pix(self.nside, th[good], np.radians(ra[ok][good]), nest=True)
                res[good] = np.isin(p, self.pix)
            out[ok] = res
        return out


def pixsize(depth):
    return 58.6323 / 2 ** depth


def pick_depth(rng, rad, cdelt):
    """a depth whose cells are (usually) finer than the pixel grid, with a bounded number of cells in the region"""
    cand = [d for d in range(3, 13) if rad / pixsize(d) <= 45]
    fine = [d for d in cand if pixsize(d) < cdelt]
    if fine and rng.random() < 0.8:
        return rng.choice(fine[-3:])
    return rng.choice(cand[-4:])


def gen_wcs_region(rng, R, C):
    proj = rng.choice(PROJ)
    crval = (rng.choice([0.01, 359.99, 150.0, 210.5, 83.0]), rng.choice([-70.0, -30.0, 0.0, 45.0, 80.0, -26.7]))
    cdelt = rng.choice([0.2, 0.5, 1.0, 0.05])
    if rng.random() < 0.35:   # CRPIX off the image
        crpix = (rng.choice([-1, 1]) * rng.uniform(C + 2, C + 20), rng.choice([-1, 1]) * rng.uniform(R + 2, R + 20))
    else:
        crpix = (rng.uniform(-1, C + 2), rng.uniform(-1, R + 2))
    h = make_header((R, C), proj=proj, crval=crval, cdelt=cdelt, crpix=crpix)
    from astropy.wcs import WCS
    with warnings.catch_warnings():
        warnings.simplefilter('ignore')
        w = WCS(h, naxis=2)
    spec = []
    kind = rng.choice(['circle', 'circle', 'two', 'poly', 'all', 'none'] if rng.random() < 0.3 else ['circle', 'two', 'poly'])
    span = max(R, C) * cdelt

    def sky_of(x, y):
        s = w.wcs_pix2world([[x, y]], 1)[0]
        return float(s[0]), float(s[1])
    rad = cdelt * rng.uniform(0.6, max(1.0, max(R, C) * 0.55))
    if kind in ('circle', 'two'):
        for _ in range(1 if kind == 'circle' else 2):
            ra, dec = sky_of(rng.uniform(0.5, C + 0.5), rng.uniform(0.5, R + 0.5))
            spec.append(('circle', ra, dec, rad if _ == 0 else rad * rng.uniform(0.3, 1.0)))
    elif kind == 'poly':
        cx, cy = rng.uniform(1, C), rng.uniform(1, R)
        k = rng.randint(3, 6)
        rp = max(1.0, rng.uniform(0.3, 0.7) * max(R, C))
        a0 = rng.uniform(0, 2 * np.pi)
        verts = [sky_of(cx + rp * np.cos(a0 + 2 * np.pi * i / k), cy + rp * np.sin(a0 + 2 * np.pi * i / k)) for i in range(k)]
        spec.append(('poly', verts))
        rad = rp * cdelt
    elif kind == 'all':
        ra, dec = sky_of((C + 1) / 2, (R + 1) / 2)
        rad = span * 1.5 + 2 * cdelt
        spec.append(('circle', ra, dec, rad))
    else:  # a circle far away from the image
        ra, dec = sky_of((C + 1) / 2, (R + 1) / 2)
        spec.append(('circle', (ra + 180.0) % 360.0, -dec, rad))
    if any(not np.isfinite(v) for s in spec for v in (s[1:] if s[0] == 'circle' else [x for p in s[1] for x in p])):
        return gen_wcs_region(rng, R, C)
    depth = pick_depth(rng, rad, cdelt)
    meta = {'shape': [R, C], 'proj': proj, 'crval': list(crval), 'cdelt': cdelt, 'crpix': list(crpix), 'depth': depth,
            'region': [list(s) for s in spec]}
    return meta


def setup_case(meta):
    """-> (header, WCS, Region, inside set over FITS pixels [-1, max+2]^2, number of convention checks, ok flag)"""
    from astropy.wcs import WCS
    R, C = meta['shape']
    h = make_header((R, C), proj=meta['proj'], crval=meta['crval'], cdelt=meta['cdelt'], crpix=meta['crpix'])
    with warnings.catch_warnings():
        warnings.simplefilter('ignore')
        w = WCS(h, naxis=2)
    spec = [tuple(s) if s[0] == 'circle' else ('poly', [tuple(p) for p in s[1]]) for s in meta['region']]
    reg = build_region(spec, meta['depth'])
    mem = Member(reg)
    M = max(R, C) + 2
    pts = [(x, y) for y in range(-1, M + 1) for x in range(-1, M + 1)]
    sky = w.wcs_pix2world(np.array(pts, dtype=float), 1)
    ins = mem(sky[:, 0], sky[:, 1])
    table = {p for p, b in zip(pts, ins) if b}
    # library hypothesis 1: origin convention
    s0 = w.wcs_pix2world(np.array(pts, dtype=float) - 1.0, 0)
    conv_ok = bool(np.allclose(s0, sky, rtol=0, atol=1e-9, equal_nan=True)) and bool(np.array_equal(mem(s0[:, 0], s0[:, 1]), ins))
    return h, w, reg, mem, table, sky, pts, ins, conv_ok


def gen_data(rng, shape, dtype):
    n = int(np.prod(shape))
    vals = np.empty(n, dtype=dtype)
    mode = rng.choice(['ramp', 'random', 'special'])
    for k in range(n):
        if mode == 'ramp':
            v = float(k + 1)
        elif mode == 'random':
            v = rng.uniform(-1e3, 1e3)
        else:
            v = rng.choice(SPECIAL)
        vals[k] = v
    nan_frac = rng.choice([0.0, 0.0, 0.1, 0.3])
    for k in range(n):
        if rng.random() < nan_frac:
            vals[k] = np.nan
    return vals.reshape(shape)


def bits(a):
    """flat list: None for NaN, else the integer bit pattern of the value"""
    a = np.ascontiguousarray(a)
    if a.dtype.itemsize == 4:
        iv = a.astype('<f4').view('<i4').ravel()
    else:
        iv = a.astype('<f8').view('<i8').ravel()
    nan = np.isnan(a).ravel()
    return [None if n else int(v) for v, n in zip(iv, nan)]


def oracle_plane(table, R, C, flat, negate):
    """the property, pixel by pixel"""
    out = []
    for r in range(R):
        for c in range(C):
            v = flat[r * C + c]
            inside = (c + 1, r + 1) in table
            blank = (not inside) if not negate else inside
            out.append(None if blank else v)
    return out


def first_diff(R, C, got, exp):
    for k, (g, e) in enumerate(zip(got, exp)):
        if g != e:
            return {'row': (k // C) % R, 'col': k % C, 'plane': k // (R * C), 'impl': g, 'expected': e}
    return {'length_impl': len(got), 'length_expected': len(exp)}


def g_opt(v):
    return 'None' if v is None else f'(Some {vlib.zlit(v)})'


def g_list(xs, f):
    return '[' + '; '.join(f(x) for x in xs) + ']'


def g_table(t):
    return g_list(sorted(t), lambda p: f'({vlib.zlit(p[0])}, {vlib.zlit(p[1])})')


def canon_opt_list(v):
    return [None if x is None else x[1] for x in v]


# ------------------------------------------------------------------------------------------ implementation runners
def run_plane(w, reg, data, negate):
    from AegeanTools import MIMAS
    d = data.copy()
    with warnings.catch_warnings():
        warnings.simplefilter('ignore')
        out = MIMAS.mask_plane(d, w, reg, negate) if negate is not None else MIMAS.mask_plane(d, w, reg)
    if out is not d:
        raise AssertionError('mask_plane did not return its (modified) argument')
    return out


def run_file(ctx, h, reg, raw, negate, tag):
    from astropy.io import fits
    from AegeanTools import MIMAS
    rf = os.path.join(ctx.work, f'reg_{tag}.mim')
    fi = os.path.join(ctx.work, f'in_{tag}.fits')
    fo = os.path.join(ctx.work, f'out_{tag}.fits')
    reg.save(rf)
    hh = h.copy()
    hh['NAXIS'] = raw.ndim
    for k in range(3, raw.ndim + 1):
        hh[f'CTYPE{k}'] = 'FREQ' if k == 3 else 'STOKES'
        hh[f'CRVAL{k}'] = 1.0
        hh[f'CRPIX{k}'] = 1.0
        hh[f'CDELT{k}'] = 1.0
    fits.PrimaryHDU(data=raw, header=hh).writeto(fi, overwrite=True)
    with warnings.catch_warnings():
        warnings.simplefilter('ignore')
        if negate is None:
            MIMAS.mask_file(rf, fi, fo)
        else:
            MIMAS.mask_file(rf, fi, fo, negate=negate)
    with fits.open(fo) as hd:
        out = np.array(hd[0].data)
    with fits.open(fi) as hd:
        same_in = np.array_equal(np.array(hd[0].data), raw, equal_nan=True)
    for f in (rf, fi, fo):
        os.remove(f)
    if not same_in:
        raise AssertionError('mask_file modified its input file')
    return out


# ------------------------------------------------------------------------------------------ tables
COLSETS = [('ra', 'dec'), ('RAJ2000', 'DEJ2000'), ('alpha', 'delta'), ('dec', 'ra'), ('RA (deg)', 'Dec (deg)')]


def gen_table_case(rng, n=None):
    R, C = rng.randint(4, 16), rng.randint(4, 16)
    meta = gen_wcs_region(rng, R, C)
    n = rng.choice([0, 1, 2, 3, 8, 20, 40]) if n is None else n
    racol, deccol = rng.choice(COLSETS)
    if rng.random() < 0.15:
        # the region also contains a celestial pole: a NaN position that is zeroed (theta = phi = 0) instead of being
        # answered False lands exactly there
        meta['region'].append(['circle', rng.choice([0.0, 123.0]), rng.choice([90.0, 90.0, -90.0]), 2.0])
        meta['depth'] = min(meta['depth'], 9)
    rows = []
    masked_cols = rng.random() < 0.3      # coordinate columns are MaskedColumns (what readers give for empty cells)
    for k in range(n):
        u = rng.random()
        x, y = rng.uniform(-1, C + 2), rng.uniform(-1, R + 2)
        kind = 'pix'
        if u < 0.12:
            kind = rng.choice(['nan_ra', 'nan_dec', 'nan_both', 'inf_ra', 'inf_dec'])
        elif u < 0.3 and masked_cols:
            # a MASKED cell: the value stored under the mask is a perfectly good position (often inside the region)
            kind = rng.choice(['mask_ra', 'mask_dec', 'mask_both'])
            x, y = rng.uniform(1, C), rng.uniform(1, R)
        elif u < 0.2 and rows:
            kind = 'dup'
        rows.append([kind, x, y])
    return {**meta, 'n': n, 'racol': racol, 'deccol': deccol, 'rows': rows, 'negate': rng.choice([False, True, None]),
            'seed': rng.randint(0, 10 ** 9)}


def build_table(tc, w):
    from astropy.table import Table
    ras, decs = [], []
    stored_ra, stored_dec, mask_ra, mask_dec = [], [], [], []
    for kind, x, y in tc['rows']:
        if kind == 'dup':
            ras.append(ras[0]); decs.append(decs[0])
            stored_ra.append(stored_ra[0]); stored_dec.append(stored_dec[0]); mask_ra.append(mask_ra[0]); mask_dec.append(mask_dec[0])
            continue
        s = w.wcs_pix2world([[x, y]], 1)[0]
        ra, dec = float(s[0]), float(s[1])
        if kind in ('nan_ra', 'nan_both'):
            ra = float('nan')
        if kind in ('nan_dec', 'nan_both'):
            dec = float('nan')
        if kind == 'inf_ra':
            ra = float('inf')
        if kind == 'inf_dec':
            dec = float('-inf')
        stored_ra.append(ra); stored_dec.append(dec)
        mask_ra.append(kind in ('mask_ra', 'mask_both')); mask_dec.append(kind in ('mask_dec', 'mask_both'))
        # for the oracle and the model a masked coordinate is an undefined one
        ras.append(float('nan') if mask_ra[-1] else ra); decs.append(float('nan') if mask_dec[-1] else dec)
    n = tc['n']
    import random
    r2 = random.Random(tc['seed'])
    t = Table()
    t['id'] = np.arange(100, 100 + n, dtype=np.int64)
    t['name'] = np.array([f'src{r2.randint(0, 999):03d}' for _ in range(n)], dtype='U6')
    if any(mask_ra) or any(mask_dec):
        from astropy.table import MaskedColumn
        t[tc['racol']] = MaskedColumn(np.array(stored_ra, dtype=float), mask=np.array(mask_ra, dtype=bool))
    else:
        t[tc['racol']] = np.array(ras, dtype=float)
    t['peak_flux'] = np.array([r2.choice([r2.uniform(-1, 1), float('nan')]) for _ in range(n)], dtype=float)
    if any(mask_ra) or any(mask_dec):
        from astropy.table import MaskedColumn
        t[tc['deccol']] = MaskedColumn(np.array(stored_dec, dtype=float), mask=np.array(mask_dec, dtype=bool))
    else:
        t[tc['deccol']] = np.array(decs, dtype=float)
    t['flags'] = np.array([r2.randint(0, 7) for _ in range(n)], dtype=np.int32)
    return t, ras, decs


def canon_rows(t):
    """rows as tuples of exact values: floats by bit pattern (None = NaN / masked)"""
    out = []
    for row in t:
        tup = []
        for name in t.colnames:
            v = row[name]
            if v is np.ma.masked:
                tup.append(None)
            elif isinstance(v, (float, np.floating)):
                tup.append(None if np.isnan(v) else ('f', float(v).hex()))
            elif isinstance(v, (int, np.integer)):
                tup.append(int(v))
            else:
                tup.append(str(v))
        out.append(tuple(tup))
    return out


def table_expected(tc, mem, t, ras, decs):
    ins = mem(ras, decs) if ras else np.zeros(0, dtype=bool)
    neg = bool(tc['negate'])
    keep = [bool(i) if neg else (not bool(i)) for i in ins]
    return ins, keep


def run_table(reg, t, tc):
    from AegeanTools import MIMAS
    kw = {}
    if (tc['racol'], tc['deccol']) != ('ra', 'dec'):
        kw = {'racol': tc['racol'], 'deccol': tc['deccol']}
    if tc['negate'] is not None:
        kw['negate'] = tc['negate']
    before = canon_rows(t)
    with warnings.catch_warnings():
        warnings.simplefilter('ignore')
        out = MIMAS.mask_table(reg, t, **kw)
    if canon_rows(t) != before:
        raise AssertionError('mask_table modified its input table')
    return out


def run_catalog(ctx, reg, t, tc, ext, tag):
    from AegeanTools import MIMAS
    from AegeanTools.catalogs import load_table
    rf = os.path.join(ctx.work, f'reg_{tag}.mim')
    fi = os.path.join(ctx.work, f'cat_in_{tag}.{ext}')
    fo = os.path.join(ctx.work, f'cat_out_{tag}.{ext}')
    reg.save(rf)
    t.write(fi, overwrite=True)
    kw = {'racol': tc['racol'], 'deccol': tc['deccol']}
    if tc['negate'] is not None:
        kw['negate'] = tc['negate']
    with warnings.catch_warnings():
        warnings.simplefilter('ignore')
        MIMAS.mask_catalog(rf, fi, fo, **kw)
        back_in = load_table(fi)
        out = load_table(fo)
    for f in (rf, fi, fo):
        os.remove(f)
    return back_in, out


# ------------------------------------------------------------------------------------------ one case of each kind
def image_case(rng, tier_big=False):
    u = rng.random()
    if u < 0.12:
        R, C = rng.choice([(1, 1), (1, 2), (2, 1), (1, 7), (9, 1), (24, 31), (31, 24) if tier_big else (24, 31)])
    else:
        R, C = rng.randint(2, 24), rng.randint(2, 31)
        while R == C:
            C = rng.randint(2, 31)
    meta = gen_wcs_region(rng, R, C)
    meta['negate'] = rng.choice([False, True, False, True, None])
    meta['dtype'] = rng.choice(['f4', 'f8'])
    return meta


def check_image(ctx, meta, data, via, raw_shape=None, tag='x'):
    """run one image / cube case on the implementation and against the oracle.
    returns (violation dict or None, model expression or None, canonical implementation output)"""
    R, C = meta['shape']
    h, w, reg, mem, table, sky, pts, ins, conv_ok = setup_case(meta)
    negate = meta['negate']
    neg = bool(negate)
    info = {'meta': meta, 'via': via, 'raw_shape': list(raw_shape) if raw_shape else [R, C],
            'data': [None if np.isnan(x) else float(x) for x in data.ravel()]}
    if not conv_ok:
        return {'what': 'library hypothesis falsified: wcs_pix2world(p, 0) != wcs_pix2world(p + 1, 1)', **info}, None, None, None
    try:
        if via == 'plane':
            out = run_plane(w, reg, data, negate)
            got_shape = list(out.shape)
        else:
            out = run_file(ctx, h, reg, data, negate, tag)
            got_shape = list(out.shape)
    except Exception as e:  # noqa
        return {'what': f'{via} raised {type(e).__name__}: {e}', **info}, None, None, None
    flat = bits(data)
    got = bits(out)
    # the property: every plane of the raw array is masked as an R x C image
    planes = int(np.prod(data.shape[:-2])) if data.ndim > 2 else 1
    exp = []
    for p in range(planes):
        exp += oracle_plane(table, R, C, flat[p * R * C:(p + 1) * R * C], neg)
    # degenerate leading axes are dropped, the two image axes are always kept
    exp_shape = [s for s in data.shape[:-2] if s != 1] + [R, C] if data.ndim > 2 else list(data.shape)
    viol = None
    if got != exp or got_shape != exp_shape or out.dtype.itemsize != data.dtype.itemsize:
        d = first_diff(R, C, got, exp)
        x, y = d.get('col', 0) + 1, d.get('row', 0) + 1
        viol = {'what': f'{via}: output differs from the property at {d}; FITS pixel ({x},{y}) inside={((x, y) in table)} '
                        f'negate={neg}; output shape {got_shape} (expected {exp_shape})', **info}
    # model expression
    dims = list(data.shape)
    if via == 'plane':
        expr = f'obs_plane {g_table(table)} {R} {C} {g_list(flat, g_opt)} {"true" if neg else "false"}'
    else:
        expr = f'obs_file {g_table(table)} {vlib.zlist(dims)} {g_list(flat, g_opt)} {"true" if neg else "false"}'
    nblank = sum(1 for r in range(R) for c in range(C) if ((c + 1, r + 1) in table) == neg)
    return viol, expr, (got_shape, got), {'nontrivial': 0 < nblank < R * C, 'scalar': (reg, mem, sky, ins)}


def validate_scalar(ctx, rng, reg, mem, sky, ins, k=4):
    """library hypothesis 2: Region.sky_within answers element by element = independent membership"""
    n = 0
    idx = [rng.randrange(len(ins)) for _ in range(k)]
    for i in idx:
        ra, dec = float(sky[i, 0]), float(sky[i, 1])
        with warnings.catch_warnings():
            warnings.simplefilter('ignore')
            a = bool(reg.sky_within(ra, dec, degin=True)[0])
        n += 1
        if a != bool(ins[i]):
            ctx.oblige('library hypothesis: Region.sky_within (scalar) = ang2pix membership in get_demoted()', False,
                       f'ra={ra!r} dec={dec!r} sky_within={a} membership={bool(ins[i])}')
    with warnings.catch_warnings():
        warnings.simplefilter('ignore')
        v = reg.sky_within(sky[:, 0], sky[:, 1], degin=True)
    n += 1
    if not np.array_equal(np.asarray(v, dtype=bool), ins):
        bad = int(np.flatnonzero(np.asarray(v, dtype=bool) != ins)[0])
        ctx.oblige('library hypothesis: Region.sky_within (vector) = ang2pix membership in get_demoted()', False,
                   f'ra={sky[bad, 0]!r} dec={sky[bad, 1]!r} sky_within={bool(v[bad])} membership={bool(ins[bad])}')
    return n


def check_table(ctx, tc, via, ext=None, tag='t'):
    h, w, reg, mem, table, sky, pts, ins_px, conv_ok = setup_case(tc)
    t, ras, decs = build_table(tc, w)
    ins, keep = table_expected(tc, mem, t, ras, decs)
    info = {'table_case': tc, 'via': via, 'ext': ext, 'ra': ras, 'dec': decs}
    try:
        if via == 'table':
            out = run_table(reg, t, tc)
            src_rows = canon_rows(t)
        else:
            back_in, out = run_catalog(ctx, reg, t, tc, ext, tag)
            src_rows = canon_rows(back_in)   # what the file reader gives for the unmasked catalogue
    except Exception as e:  # noqa
        return {'what': f'mask_{via} raised {type(e).__name__}: {e}', 'empty': tc['n'] == 0, **info}, None, None, None
    got = canon_rows(out)
    exp = [r for r, k in zip(src_rows, keep) if k]
    viol = None
    if got != exp or list(out.colnames) != list(t.colnames):
        viol = {'what': f'mask_{via}: kept rows differ from the property: impl ids {[g[0] for g in got]} expected '
                        f'{[e[0] for e in exp]} (inside={[bool(i) for i in ins]}, negate={bool(tc["negate"])}); columns {out.colnames}',
                'empty': tc['n'] == 0, **info}
    # model: codes for the distinct finite coordinate values
    fin = lambda v: np.isfinite(v)  # noqa: E731
    rav = sorted({v for v in ras if fin(v)})
    dev = sorted({v for v in decs if fin(v)})
    rows = []
    tab = set()
    for k, (a, d) in enumerate(zip(ras, decs)):
        ca = rav.index(a) if fin(a) else None
        cd = dev.index(d) if fin(d) else None
        rows.append((k, ca, cd))
        if ca is not None and cd is not None and ins[k]:
            tab.add((ca, cd))
    expr = (f'obs_table {g_table(tab)} {g_list(rows, lambda r: f"({r[0]}, {g_opt(r[1])}, {g_opt(r[2])})")} '
            f'{"true" if tc["negate"] else "false"}')
    impl_ids = [g[0] - 100 for g in got]
    return viol, expr, impl_ids, {'nontrivial': 0 < sum(keep) < len(keep), 'nan': any(not (fin(a) and fin(d)) for a, d in zip(ras, decs))}


# ------------------------------------------------------------------------------------------ fixed inputs of past defects
PROBE_EMPTY = {'shape': [6, 8], 'proj': 'SIN', 'crval': [150.0, -30.0], 'cdelt': 0.5, 'crpix': [4.0, 3.0], 'depth': 8,
               'region': [['circle', 150.0, -30.0, 1.0]], 'n': 0, 'racol': 'ra', 'deccol': 'dec', 'rows': [], 'negate': False, 'seed': 1}
PROBE_SQUEEZE = {'shape': [1, 5], 'proj': 'SIN', 'crval': [150.0, -30.0], 'cdelt': 0.5, 'crpix': [3.0, 1.0], 'depth': 8,
                 'region': [['circle', 150.0, -30.0, 0.8]], 'negate': False, 'dtype': 'f4'}
PROBE_SQUEEZE_COL = {'shape': [5, 1], 'proj': 'SIN', 'crval': [150.0, -30.0], 'cdelt': 0.5, 'crpix': [1.0, 3.0], 'depth': 8,
                     'region': [['circle', 150.0, -30.0, 0.8]], 'negate': True, 'dtype': 'f8'}


def probes(ctx, exprs, impls, whats):
    """the inputs of the repaired defects (empty table; cubes of single-row / single-column images, Refuted/C10_squeeze.v)
    as ordinary oracle + correspondence cases"""
    v, expr, impl, _ = check_table(ctx, PROBE_EMPTY, 'table')
    ctx.case(key=None, bucket='probe: empty table')
    if v is not None:
        ctx.mismatch('mask_table on an empty table', PROBE_EMPTY, impl=v['what'], model='[] (empty table returned)', is_violation=v)
    else:
        exprs.append(expr); impls.append(('tab', impl)); whats.append(('table', PROBE_EMPTY, None))
    for meta, shape in ((PROBE_SQUEEZE, (3, 1, 5)), (PROBE_SQUEEZE_COL, (2, 5, 1)), (PROBE_SQUEEZE, (1, 2, 1, 5)), (PROBE_SQUEEZE, (4, 1, 1))):
        R, C = shape[-2:]
        meta = {**meta, 'shape': [R, C]}
        dt = np.float32 if meta['dtype'] == 'f4' else np.float64
        data = (np.arange(int(np.prod(shape)), dtype=dt) + 1).reshape(shape)
        v, expr, impl, _ = check_image(ctx, meta, data, 'file', raw_shape=shape, tag='probe')
        ctx.case(key=None, bucket='probe: cube of single-row / single-column images')
        if v is not None:
            ctx.mismatch(f'mask_file on a {shape} cube (an image axis of length 1)', meta, impl=v['what'],
                         model=f'every plane masked as a {R} x {C} image', is_violation=v)
        if expr is not None:
            exprs.append(expr); impls.append(('img', impl)); whats.append(('file', meta, list(shape)))


# ------------------------------------------------------------------------------------------ driver
def cube_shape(rng, R, C):
    return rng.choice([(R, C), (R, C), (R, C), (1, R, C), (1, R, C), (rng.randint(2, 4), R, C), (rng.randint(2, 4), R, C),
                       (rng.randint(2, 4), R, C), (1, 1, R, C), (1, rng.randint(2, 3), R, C), (rng.randint(2, 3), 1, R, C)])


def run(ctx, model_ok=True):
    rng = ctx.rng
    quick = ctx.tier == 'quick'
    ctx.rule = ('images 1x1..24x31 (non-square), float32/float64 with NaNs and special values, real astropy WCS (SIN/TAN/ZEA/ARC/STG, '
                'CRPIX on/off image, RA wrap, high dec, CDELT 0.05-1 deg) and real Region (circles, two circles, convex polygons, '
                'everything, nothing; depth 3-12, mostly finer than the pixel grid), negate False/True/default; through mask_plane '
                'and through mask_file on FITS files of 2, 3 and 4 axes. Tables of 0-40 rows with NaN/inf coordinates, duplicates, '
                'custom column names, extra columns, through mask_table and mask_catalog (fits, csv). Each output is compared '
                'bit-exactly with the Coq model fed with the tabulated membership and with the per-pixel / per-row property oracle. '
                'distinct = distinct (wcs, region, data/table, negate); non-trivial = some but not all pixels (rows) are blanked (removed).')
    n_plane = 160 if quick else 2500
    n_file = 80 if quick else 800
    n_table = 200 if quick else 3000
    n_cat = 30 if quick else 300
    exprs, impls, whats = [], [], []
    conv = scal = 0
    t0 = time.time()
    probes(ctx, exprs, impls, whats)

    def handle(v, what, case_json):
        """v: violation dict from the oracle"""
        ctx.mismatch(what, case_json, impl=v['what'], model='property oracle', is_violation=v)

    for k in range(n_plane + n_file):
        via = 'plane' if k < n_plane else 'file'
        meta = image_case(rng, tier_big=not quick)
        R, C = meta['shape']
        dt = np.float32 if meta['dtype'] == 'f4' else np.float64
        shape = (R, C) if via == 'plane' else cube_shape(rng, R, C)
        data = gen_data(rng, shape, dt)
        v, expr, impl, extra = check_image(ctx, meta, data, via, raw_shape=shape, tag=str(k))
        conv += 1
        key = json.dumps([meta, list(shape), bits(data)[:50]], sort_keys=True, default=str)
        nontriv = bool(extra and extra['nontrivial'])
        ctx.case(key=key if nontriv else None,
                 bucket=f'{via} {"x".join(str(s) for s in shape[:-2]) + "x" if len(shape) > 2 else ""}RxC '
                        f'{"partly" if nontriv else "all-or-nothing"}',
                 sample={'shape': list(shape), 'proj': meta['proj'], 'depth': meta['depth'], 'cdelt': meta['cdelt'],
                         'negate': meta['negate'], 'region': meta['region'][0][0]} if nontriv and len(ctx.samples) < 3 else None)
        if v is not None:
            if 'library hypothesis' in v['what']:
                ctx.oblige('library hypothesis: wcs_pix2world(p, 0) = wcs_pix2world(p + 1, 1)', False, json.dumps(meta))
                continue
            handle(v, f'{via} vs the per-pixel property oracle', meta)
            if expr is None:
                continue
        if extra and k % 5 == 0:
            scal += validate_scalar(ctx, rng, *extra['scalar'])
        if expr is not None:
            exprs.append(expr); impls.append(('img', impl)); whats.append((via, meta, list(shape)))
    for k in range(n_table + n_cat):
        via = 'table' if k < n_table else 'catalog'
        tc = gen_table_case(rng, n=(0 if k in (3, 4) else None))
        ext = rng.choice(['fits', 'csv']) if via == 'catalog' else None
        if ext == 'csv' and ' ' in tc['racol']:
            ext = 'fits'
        v, expr, impl, extra = check_table(ctx, tc, via, ext=ext, tag=str(k))
        nontriv = bool(extra and extra['nontrivial'])
        ctx.case(key=json.dumps(tc, sort_keys=True, default=str) if nontriv else None,
                 bucket=f'{via}{" " + ext if ext else ""} rows={"0" if tc["n"] == 0 else "1-3" if tc["n"] <= 3 else "8-40"}'
                        f'{" nan" if extra and extra["nan"] else ""}',
                 sample={'rows': tc['n'], 'cols': [tc['racol'], tc['deccol']], 'negate': tc['negate'], 'via': via}
                 if nontriv and len(ctx.samples) < 6 and k % 7 == 0 else None)
        if v is not None:
            handle(v, f'mask_{via} vs the per-row property oracle', {kk: vv for kk, vv in tc.items() if kk != 'rows'})
            continue
        if via == 'table':
            exprs.append(expr); impls.append(('tab', impl)); whats.append((via, tc, None))
    ctx.hyp['wcs_pix2world(p, origin) = position of FITS pixel p + 1 - origin (positions and membership, >= 9 points per case)'] = conv
    ctx.hyp['Region.sky_within (scalar and vector) = healpy.ang2pix membership in get_demoted()'] = scal
    ctx.notes.append(f'{n_plane} mask_plane + {n_file} mask_file + {n_table} mask_table + {n_cat} mask_catalog cases on the '
                     f'implementation in {time.time() - t0:.1f}s')
    if model_ok and exprs:
        vals, err = vlib.coq_eval(ctx, IMPORTS, exprs, shard=25, workers=12)
        if vals is None:
            ctx.oblige('model evaluation (vm_compute) of Model.Mask', False, err)
        else:
            nbad = 0
            for v, (kind, iv), (via, meta, shape) in zip(vals, impls, whats):
                if kind == 'img':
                    if v is None:
                        mv = None
                    elif via == 'plane':
                        mv = (shape, canon_opt_list(v[1]))
                    else:
                        mv = (list(v[1][0]), canon_opt_list(v[1][1]))
                    same = mv is not None and mv[0] == iv[0] and mv[1] == iv[1]
                else:
                    mv = list(v)
                    same = mv == iv
                if not same:
                    nbad += 1
                    if nbad <= 3:
                        ctx.mismatch(f'{via} vs Model.Mask', meta if kind == 'img' else {kk: vv for kk, vv in meta.items() if kk != 'rows'},
                                     impl=str(iv)[:600], model=str(mv)[:600])
            ctx.oblige(f'correspondence: {len(vals)} mask_plane / mask_file / mask_table outputs equal to the model', nbad == 0,
                       f'{nbad} differ')
            ctx.traces = len(vals)
    # ---- command line tie: the argument glue of AegeanTools/CLI vs the library call that --help promises
    from harness import cli_cases
    cli_cases.hook(ctx, cli_cases.mimas_mask_cli, 'MIMAS')


def _one(ctx, rng):
    if rng.random() < 0.6:
        meta = image_case(rng)
        R, C = meta['shape']
        via = rng.choice(['plane', 'plane', 'file'])
        shape = (R, C) if via == 'plane' else cube_shape(rng, R, C)
        data = gen_data(rng, shape, np.float32 if meta['dtype'] == 'f4' else np.float64)
        v, _, _, _ = check_image(ctx, meta, data, via, raw_shape=shape, tag='s')
        return v
    tc = gen_table_case(rng)
    v, _, _, _ = check_table(ctx, tc, 'table')
    return v


def search(ctx):
    t0 = time.time()
    while time.time() - t0 < 100:
        v = _one(ctx, ctx.rng)
        if v:
            return v
    return None


def replay(ctx, obj):
    fi = obj.get('failing_input')
    if not fi:
        print('replay file has no concrete input; broken obligations were:')
        for b in obj.get('broken', []):
            print('  ', b.get('what'), str(b.get('detail', b.get('case', '')))[:400])
        return 1
    if fi.get('kind') == 'cli':
        from harness import cli_cases
        return cli_cases.replay_cli(ctx, fi)
    if 'table_case' in fi:
        v, _, ids, _ = check_table(ctx, fi['table_case'], fi['via'], ext=fi.get('ext'), tag='r')
        print('table case:', {k: x for k, x in fi['table_case'].items() if k != 'rows'})
        print('ra :', fi.get('ra')); print('dec:', fi.get('dec'))
    else:
        meta = fi['meta']
        dt = np.float32 if meta.get('dtype') == 'f4' else np.float64
        data = np.array([np.nan if x is None else x for x in fi['data']], dtype=dt).reshape(fi['raw_shape'])
        v, _, _, _ = check_image(ctx, meta, data, fi['via'], raw_shape=fi['raw_shape'], tag='r')
        print('image case:', meta, 'raw shape', fi['raw_shape'], 'via', fi['via'])
    if v is None:
        print('the implementation now satisfies the property on this input')
        return 0
    print('STILL FAILING:', v['what'])
    return 1
