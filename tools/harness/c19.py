"""C19 - regrouping = eps-connected partition of the catalogue, independent of row order."""
import itertools
import math
import os
import time

import numpy as np

import vlib
from vlib import rlit
from harness import cluster_common as cc

GEN = ['ClusterShape', 'ClusterR']
EXTRA_TARGETS = ['Refuted/C19_greedy.vo']
LEVEL = 'proof'
TRUSTED = [
    'Coq 8.16.1 kernel + vm_compute; the grouping / numbering / attribute theorems (Z, lists) are axiom-free; C19_resize_id, '
    'C19_resize_mono, C19_eps_chord use the real-number axioms of the standard library (sig_forall_dec, sig_not_dec, '
    'functional_extensionality_dep)',
    'translator tools/points_c19.py (fail-closed): sort key and reverse flag of the relabelling loops, first labels of enumerate, the '
    'assigned attributes (only island, source), DBSCAN keywords (eps=eps, min_samples=1, nothing else), group construction from '
    'labels_, argsort kind/direction, reversed(groups), the early `new group` test, comparison kinds of regroup_vectorized (Z back '
    'end); unit-vector embedding, eps conversions of AeReg.main and priorized_fit_islands, resize ratio formulas, norm_dist, rafar (R)',
    'hand-written skeleton Model/Cluster.v (groups from labels_, stable sort + rank relabelling, greedy scan) tied by exact '
    'correspondence with cluster.regroup_dbscan / cluster.regroup on every generated catalogue and row order',
    'sklearn.cluster.DBSCAN: library hypothesis dbscan_ok (labels_ = index of the Graph.components class of `distance <= eps`, '
    'classes numbered by first row), validated against the real labels_ on every case; CPython set iteration order of small ints; '
    'Python sorted() is stable; numpy argsort(kind=mergesort) is stable',
    'Interval tactic: per-case lemmas |generated formula - implementation value| <= tol for emb, eps conversion, resize, norm_dist, rafar',
    'angle_tools.gcd / bear enter norm_dist as given numbers (they belong to C17)',
]
ASSUMPTIONS = [
    'catalogues have >= 1 source, finite peak fluxes (integer-valued in the tests so that float ordering is exact), finite positions',
    'DBSCAN variant: positions are rational unit vectors on an integer lattice; eps is moved so that no pairwise separation is within '
    '4e-6 relative of it, hence the float comparison `distance <= eps` inside sklearn equals the exact rational one of the model',
    'greedy variant: declinations and far are multiples of 2^-12 deg (exact in binary64), far >= 0, eps at least 4e-6 relative away '
    'from every normalised distance; link(rec, m) is evaluated with the implementation\'s own norm_dist; permutation invariance is '
    'claimed (and tested) for pairwise distinct declinations only',
    'resize: psf_a, psf_b finite, a, b >= 0, ratio >= 1 (ratio 1 identity is exact in binary64 because sqrt(fl(a*a)) = a)',
]

CHORD_DIRECT_MAX = 40       # up to this size the model evaluates the chord test inside the graph search


def _dbscan_expr(cat, srcs, rows, en, ed):
    c = cc.g_cat(cat, srcs, rows)
    if len(rows) <= CHORD_DIRECT_MAX:
        return (f'let c := {c} in (nat_labels (comp_labels (link_chord {en} {ed}) c), '
                f'obs (regroup_dbscan (comp_labels (link_chord {en} {ed})) c))')
    return (f'let c := with_nbrs (link_chord {en} {ed}) {c} in (nat_labels (comp_labels link_tbl c), '
            f'obs (regroup_dbscan (comp_labels link_tbl) c))')


def _perms(rng, n, nrand):
    if n <= 1 or nrand == 1:
        return [tuple(range(n))]
    if math.factorial(n) <= nrand or n <= 6:
        return list(itertools.permutations(range(n)))
    out = [tuple(range(n)), tuple(reversed(range(n)))]
    while len(out) < nrand:
        p = list(range(n))
        rng.shuffle(p)
        out.append(tuple(p))
    return out


def _cat_json(cat, e, eps, en, ed, rows, what):
    return {'kind': 'dbscan', 'pts': [list(p) for p in cat['pts']], 'flux': list(cat['flux']), 'eps_arcmin': e, 'eps': eps,
            'en': en, 'ed': ed, 'rows': list(rows), 'what': what}


def _shrink_dbscan(cat, e, eps, en, ed, rows, rng):
    """delete sources while the implementation still breaks the property"""
    def fails(c, r):
        try:
            m, _, _ = cc.dbscan_property(c, eps, en, ed, rng, perm=r)
        except Exception as ex:  # noqa
            return f'raised {type(ex).__name__}: {ex}'
        return m
    cur, r = cat, list(rows)
    changed = True
    while changed and len(r) > 1:
        changed = False
        for k in range(len(r)):
            drop = r[k]
            keep = [i for i in range(len(cur['pts'])) if i != drop]
            ren = {old: new for new, old in enumerate(keep)}
            c2 = dict(cur, pts=[cur['pts'][i] for i in keep], flux=[cur['flux'][i] for i in keep])
            r2 = [ren[i] for i in r if i != drop]
            if fails(c2, r2):
                cur, r, changed = c2, r2, True
                break
    return cur, r, fails(cur, r)


def run_dbscan(ctx, model_ok):
    rng = ctx.rng
    quick = ctx.tier == 'quick'
    sizes = [(n, 2) for n in (1, 2, 3, 4, 5)] + [(6, 1)]
    if quick:
        sizes += [(8, 3), (12, 3), (20, 2), (35, 2), (60, 2), (100, 1), (150, 1), (250, 1), (500, 1)]
        nrand = {8: 6, 12: 6, 20: 5, 35: 4, 60: 3, 100: 2, 150: 2, 250: 2, 500: 1}
    else:
        sizes = [(n, 4) for n in (1, 2, 3, 4, 5, 6)] + [(7, 3), (8, 6), (12, 6), (20, 6), (35, 5), (60, 4), (100, 3), (150, 2),
                                                        (250, 2), (400, 1), (500, 2)]
        nrand = {7: 50, 8: 50, 12: 50, 20: 50, 35: 50, 60: 30, 100: 20, 150: 10, 250: 6, 400: 3, 500: 3}
    exprs, impls, metas = [], [], []
    nlab = 0
    t0 = time.time()
    emb_samples = []
    ncat = ctx.seed % 7
    for n, reps in sizes:
        for rep in range(reps):
            # every style at every size class (round robin); the largest catalogues avoid long chains (model cost)
            pool = ['clusters', 'mixed', 'dups', 'sparse'] if n >= 250 else \
                ['clusters', 'pole', 'wrap', 'dups', 'chain', 'mixed', 'sparse'] if n >= 2 else ['pole', 'wrap', 'mixed']
            style = pool[ncat % len(pool)]
            ncat += 1
            # large catalogues: long linking lengths = coarse lattice, keeps the model's integer arithmetic cheap
            for _attempt in range(8):
                cat = cc.gen_lattice_catalogue(rng, n, style, e=rng.choice([120, 240, 600, 900]) if n >= 100 else None)
                try:
                    e, eps, en, ed = cc.eps_for(cat, rng)
                    break
                except RuntimeError:
                    continue
            else:
                ctx.notes.append(f'no catalogue of {n} sources with a linking length clear of all separations in 8 draws: size skipped')
                continue
            srcs = cc.make_sources(cat, rng)
            base = None
            for rows in _perms(rng, n, nrand.get(n, 0)):
                try:
                    msg, obs, cap = cc.dbscan_property(cat, eps, en, ed, rng, perm=rows, srcs=srcs)
                except Exception as ex:  # noqa
                    msg, obs, cap = f'regroup_dbscan raised {type(ex).__name__}: {ex}', None, None
                if msg is None:
                    if base is None:
                        base = cc.partition_of(obs)
                    elif cc.partition_of(obs) != base:
                        msg = f'row order {list(rows)} gives groups {cc.partition_of(obs)}, the original order gives {base}'
                ngroups = len(obs) if obs else 0
                ctx.case(key=(n, rep, hash(rows)) if n >= 2 else None,
                         bucket=f"dbscan/{cat['style']}/n{_nb(n)}",
                         sample={'variant': 'dbscan', 'n': n, 'style': cat['style'], 'eps_arcmin': e, 'groups': ngroups,
                                 'rows': list(rows)[:12]} if (n in (5, 20) and rows == tuple(range(n))) else None)
                if msg:
                    c2, r2, m2 = _shrink_dbscan(cat, e, eps, en, ed, rows, rng)
                    ctx.mismatch('property oracle on cluster.regroup_dbscan', _cat_json(c2, e, eps, en, ed, r2, m2), impl=m2,
                                 is_violation=_cat_json(c2, e, eps, en, ed, r2, m2))
                    continue
                exprs.append(_dbscan_expr(cat, srcs, rows, en, ed))
                impls.append((cap['labels'], obs))
                metas.append(_cat_json(cat, e, eps, en, ed, rows, ''))
                # library-side facts seen on this call
                if cap['params'] != (eps, 1, 'euclidean'):
                    ctx.mismatch('DBSCAN called with other parameters than (eps, min_samples=1, euclidean)', metas[-1], impl=cap['params'])
                X = cap['X']
                ref = np.array([[cat['pts'][i][j] / cat['pts'][i][3] for j in range(3)] for i in rows])
                if X.shape != ref.shape or np.max(np.abs(X - ref)) > 1e-12:
                    ctx.mismatch('X handed to DBSCAN is not the unit vector of the lattice position', metas[-1],
                                 impl=float(np.max(np.abs(X - ref))) if X.shape == ref.shape else X.shape)
                if rows == tuple(range(n)) and len(emb_samples) < (12 if quick else 60):
                    i = rng.randrange(n)
                    emb_samples.append((srcs[i].ra, srcs[i].dec, [float(v) for v in X[i]]))
    ctx.notes.append(f'dbscan variant: {len(exprs)} (catalogue, row order) runs of the implementation in {time.time() - t0:.1f}s')
    if model_ok and exprs:
        t0 = time.time()
        vals, err = _balanced_eval(ctx, exprs, [len(m['rows']) for m in metas])
        if len(vals) != len(exprs):
            ctx.oblige('model evaluation (vm_compute) of Model.Cluster.regroup_dbscan', False, err)
        else:
            nbad = nhyp = 0
            for i in range(len(exprs)):
                lab, obs = impls[i]
                mlab, mobs = list(vals[i][0]), cc.to_obs(vals[i][1])
                if mlab != lab:
                    nhyp += 1
                    if nhyp <= 3:
                        ctx.mismatch('library hypothesis dbscan_ok: DBSCAN labels_ differ from the class indices of the model',
                                     metas[i], impl=lab, model=mlab)
                if mobs != obs:
                    nbad += 1
                    if nbad <= 3:
                        ctx.mismatch('cluster.regroup_dbscan vs Model.Cluster.regroup_dbscan (groups, order, labels)', metas[i],
                                     impl=obs, model=mobs)
            nlab = len(exprs)
            ctx.oblige(f'correspondence: {len(exprs)} (catalogue, row order) results of regroup_dbscan equal to the model '
                       f'(group order, member order, island and source labels)', nbad == 0, f'{nbad} differ')
            ctx.oblige('library hypothesis: DBSCAN(eps, min_samples=1).labels_ = class index of the eps graph (first-row order) '
                       f'on {nlab} catalogues', nhyp == 0, f'{nhyp} differ')
            ctx.hyp['sklearn DBSCAN(eps, min_samples=1).fit(X).labels_ = index of the connectivity class (Graph.components order)'] = nlab
            ctx.hyp['set(labels) of small ints iterates in ascending order; sorted() is stable'] = nlab
            ctx.traces += len(exprs)
        ctx.notes.append(f'dbscan variant: model evaluation {time.time() - t0:.1f}s')
    return emb_samples


def _balanced_eval(ctx, exprs, sizes, small_shard=60, workers=10):
    """vm_compute all expressions; big catalogues get a file of their own and start first, so that the
    parallel coqc runs finish together.  returns ({index: value} or partial, error text)"""
    from concurrent.futures import ThreadPoolExecutor
    order = sorted(range(len(exprs)), key=lambda i: -sizes[i])
    big = [[i] for i in order if sizes[i] > 120]
    small = [i for i in order if sizes[i] <= 120]
    chunks = big + [small[i:i + small_shard] for i in range(0, len(small), small_shard)]
    base = len(__import__('os').listdir(ctx.work))
    jobs = [(ctx.work, f'{base}_{k}', cc.IMPORTS, [exprs[i] for i in ch]) for k, ch in enumerate(chunks)]
    vals, err = {}, ''
    with ThreadPoolExecutor(max_workers=workers) as ex:
        for ch, (v, e) in zip(chunks, ex.map(vlib._coq_eval_file, jobs)):
            if v is None:
                err = e
                continue
            vals.update(dict(zip(ch, v)))
    return vals, err


def _nb(n):
    return '1' if n == 1 else '2-6' if n <= 6 else '7-60' if n <= 60 else '61-250' if n <= 250 else '251-500'


# ------------------------------------------------------------------------------------------ greedy variant
def _table_case(rng, n, distinct=True, far=1):
    """arbitrary (also asymmetric) link tables driven through cluster.regroup with a custom dist function"""
    decs = rng.sample(range(-3 * n - 5, 3 * n + 5), n) if distinct else [rng.randint(0, max(1, n // 2)) for _ in range(n)]
    p = rng.choice([0.05, 0.15, 0.3, 0.6])
    nbrs = [[j for j in range(n) if j != i and rng.random() < p] for i in range(n)]
    if rng.random() < 0.5:      # symmetric
        s = [set(x) for x in nbrs]
        for i in range(n):
            for j in list(s[i]):
                s[j].add(i)
        nbrs = [sorted(x) for x in s]
    flux = [rng.randint(0, max(1, n // 2)) for _ in range(n)]
    if far < 0:      # the RA pre-filter |dRA| <= far / cos(dec) is part of the link: nothing passes it
        nbrs = [[] for _ in range(n)]
    return {'decs': decs, 'nbrs': nbrs, 'flux': flux, 'fark': far}


def _run_table_impl(tc, rows):
    """the real cluster.regroup with dist = table lookup; identity of a record is carried in its `a` field"""
    from AegeanTools import cluster
    from AegeanTools.models import ComponentSource
    nbrs = tc['nbrs']
    srcs = []
    for i in rows:
        s = ComponentSource()
        s.ra, s.dec, s.a, s.b, s.pa = 10.0, tc['decs'][i] / 4096.0, float(i), 1.0, 0.0
        s.peak_flux = float(tc['flux'][i])
        s.island, s.source, s.vid = 5, 5, i
        srcs.append(s)

    def dist(rec, recs):
        li = nbrs[int(rec.a)]
        return np.array([0.0 if int(a) in li else 2.0 for a in np.atleast_1d(recs.a)])
    groups = cluster.regroup(srcs, eps=1.0, far=tc['fark'] / 4096.0, dist=dist)
    return cc.obs_groups(groups)


def _table_expr(tc, rows):
    items = [cc.g_source(i, (0, 0, 1, 1), tc['decs'][i], tc['flux'][i], 5, 5, tc['nbrs'][i]) for i in rows]
    return f"obs (regroup_greedy link_tbl {vlib.zlit(tc['fark'])} [{'; '.join(items)}])"


def _table_property(tc, obs, rows):
    flat = sorted(t[0] for g in obs for t in g)
    if flat != sorted(rows):
        return f'sources {sorted(rows)} went in, {flat} came out (each must be in exactly one group)'
    nb = tc['nbrs']
    for g in obs:
        idl = [t[0] for t in g]
        comp = cc.oracle_components(len(idl), lambda a, b: idl[b] in nb[idl[a]] or idl[a] in nb[idl[b]])
        if len(comp) != 1:
            return f'group {sorted(idl)} is not connected by links inside the group'
    return cc.check_numbering(obs, {i: tc['flux'][i] for i in rows})


def run_greedy(ctx, model_ok):
    rng = ctx.rng
    quick = ctx.tier == 'quick'
    exprs, impls, metas = [], [], []
    nd_samples = []
    t0 = time.time()
    # (a) geometry: the implementation's own norm_dist decides the links
    sizes = [(1, 1), (2, 2), (3, 2), (4, 2), (5, 2), (8, 2), (15, 2), (30, 2), (60, 1), (120, 1)] if quick else \
        [(1, 2), (2, 4), (3, 4), (4, 4), (5, 4), (6, 2), (8, 5), (15, 5), (30, 5), (60, 4), (120, 3), (250, 2), (500, 1)]
    for n, reps in sizes:
        for rep in range(reps):
            for _attempt in range(8):
                cat = cc.gen_greedy_catalogue(rng, n, distinct_dec=True)
                try:
                    eps = cc.greedy_eps(cat, rng)
                    break
                except RuntimeError:
                    continue
            else:
                ctx.notes.append(f'no greedy catalogue of {n} sources with an eps clear of all distances in 8 draws: size skipped')
                continue
            nbrs, dists = cc.greedy_links(cat, eps)
            srcs = cc.make_greedy_sources(cat, rng)
            decs = [r['dk'] for r in cat['rows']]
            base = None
            for rows in _perms(rng, n, 6 if quick else 30) if n <= 5 else _perms(rng, n, 3 if quick else 10):
                try:
                    msg, obs = cc.greedy_property(cat, eps, nbrs, rng, perm=rows, srcs=srcs)
                except Exception as ex:  # noqa
                    msg, obs = f'regroup raised {type(ex).__name__}: {ex}', None
                if msg is None:
                    if base is None:
                        base = obs
                    elif obs != base:
                        msg = (f'distinct declinations, row order {list(rows)}: result {obs} differs from the result {base} of the '
                               f'original order')
                meta = {'kind': 'greedy', 'rows_data': cat['rows'], 'flux': cat['flux'], 'far': cat['far'], 'eps': eps,
                        'rows': list(rows), 'what': msg or ''}
                ctx.case(key=('g', n, rep, hash(rows)) if n >= 2 else None, bucket=f'greedy/norm_dist/n{_nb(n)}',
                         sample={'variant': 'greedy', 'n': n, 'eps': eps, 'far_deg': cat['far'], 'groups': len(obs or [])}
                         if (n == 8 and rows == tuple(range(n))) else None)
                if msg:
                    ctx.mismatch('property oracle on cluster.regroup (greedy, norm_dist)', meta, impl=msg, is_violation=meta)
                    continue
                items = [cc.g_source(i, (0, 0, 1, 1), decs[i], cat['flux'][i], srcs[i].island, srcs[i].source, nbrs[i]) for i in rows]
                exprs.append(f"obs (regroup_greedy link_tbl {cat['fark']} [{'; '.join(items)}])")
                impls.append(obs)
                metas.append(meta)
            if n >= 2 and len(nd_samples) < (10 if quick else 40):
                nd_samples.append((cat, rng.randrange(n), rng.randrange(n)))
    # (b) arbitrary link tables (symmetric or not), equal declinations, negative far: skeleton only
    for k in range(60 if quick else 600):
        n = rng.choice([1, 2, 3, 3, 4, 5, 6, 8, 12, 20])
        kind = rng.choice(['distinct', 'distinct', 'ties', 'negfar'])
        if kind == 'negfar':      # the early `new group` test then fires for every scanned group: the group list doubles per source
            n = min(n, 6)
        tc = _table_case(rng, n, distinct=(kind != 'ties'), far=rng.choice([0, 1, 7, 100]) if kind != 'negfar' else -rng.choice([1, 3, 50]))
        base = None
        ps = _perms(rng, n, 3)
        ps = [ps[0]] + rng.sample(ps[1:], min(5, len(ps) - 1))
        for rows in ps:
            try:
                obs = _run_table_impl(tc, rows)
                msg = _table_property(tc, obs, rows) if kind != 'negfar' else None
            except Exception as ex:  # noqa
                obs, msg = None, f'regroup raised {type(ex).__name__}: {ex}'
            if msg is None and kind == 'distinct':
                if base is None:
                    base = obs
                elif obs != base:
                    msg = f'distinct declinations, row order {list(rows)}: result {obs} differs from {base}'
            meta = {'kind': 'greedy-table', 'table': tc, 'rows': list(rows), 'what': msg or ''}
            ctx.case(key=('t', k, rows) if n >= 2 else None, bucket=f'greedy/table-{kind}')
            if msg:
                ctx.mismatch('property oracle on cluster.regroup (greedy, link table)', meta, impl=msg, is_violation=meta)
                continue
            exprs.append(_table_expr(tc, rows))
            impls.append(obs)
            metas.append(meta)
    # (c) the recorded non-guarantees (Refuted/C19_greedy.v) replayed on the implementation
    w1 = {'decs': [3, 2, 1], 'nbrs': [[2], [2], [0, 1]], 'flux': [1, 1, 1], 'fark': 1}
    o1 = cc.partition_of(_run_table_impl(w1, [0, 1, 2]))
    w2 = {'decs': [10, 5, 5], 'nbrs': [[2], [2], [0, 1]], 'flux': [1, 1, 1], 'fark': 1}
    o2a, o2b = cc.partition_of(_run_table_impl(w2, [0, 1, 2])), cc.partition_of(_run_table_impl(w2, [0, 2, 1]))
    ctx.notes.append(f'greedy variant, recorded non-guarantees replayed on cluster.regroup: linked sources 0-2 end in different groups '
                     f'{o1}; equal declinations: rows [0,1,2] -> {o2a}, rows [0,2,1] -> {o2b}')
    ctx.oblige('Refuted/C19_greedy.v witnesses reproduce on cluster.regroup (groups not maximal; ties in declination break order '
               'independence)', o1 == [[0], [1, 2]] and o2a == [[0, 1, 2]] and o2b == [[0], [1, 2]], (o1, o2a, o2b))
    ctx.notes.append(f'greedy variant: {len(exprs)} runs of the implementation in {time.time() - t0:.1f}s')
    if model_ok and exprs:
        t0 = time.time()
        vals, err = vlib.coq_eval(ctx, cc.IMPORTS, exprs, shard=60, workers=10)
        if vals is None:
            ctx.oblige('model evaluation (vm_compute) of Model.Cluster.regroup_greedy', False, err)
        else:
            nbad = 0
            for v, obs, m in zip(vals, impls, metas):
                mv = cc.to_obs(v)
                if m['kind'] == 'greedy-table' and m['table']['fark'] < 0:
                    # outside the domain (far >= 0): a source then sits in several groups, and because the groups hold
                    # the same python object its labels are those of the last group; only the group structure is compared
                    mv, obs = [[t[0] for t in g] for g in mv], [[t[0] for t in g] for g in obs]
                if mv != obs:
                    nbad += 1
                    if nbad <= 3:
                        ctx.mismatch('cluster.regroup vs Model.Cluster.regroup_greedy (groups, order, labels)', m, impl=obs,
                                     model=mv)
            ctx.oblige(f'correspondence: {len(vals)} (catalogue, row order) results of cluster.regroup equal to the model '
                       f'(norm_dist links, arbitrary link tables, equal declinations, negative far)', nbad == 0, f'{nbad} differ')
            ctx.hyp['numpy argsort(kind=mergesort) is stable; reversed(list) scans newest first'] = len(vals)
            ctx.traces += len(vals)
        ctx.notes.append(f'greedy variant: model evaluation {time.time() - t0:.1f}s')
    return nd_samples


# ------------------------------------------------------------------------------------------ resize
def resize_property(a, b, pa, pb, ratios):
    """ratio 1 is the identity, ratios >= 1 never shrink, larger ratios give larger sources, nothing else changes"""
    from AegeanTools import cluster
    from AegeanTools.models import ComponentSource

    def mk():
        out = []
        for i in range(len(a)):
            s = ComponentSource()
            s.ra, s.dec, s.a, s.b, s.pa, s.psf_a, s.psf_b, s.psf_pa = 10.0 + i, -5.0, a[i], b[i], 12.0, pa[i], pb[i], 0.0
            s.peak_flux, s.island, s.source, s.vid = 1.0 + i, i, 0, i
            out.append(s)
        return out
    prev = None
    for r in ratios:
        srcs = mk()
        before = cc.snapshot(srcs)
        out = cluster.resize(srcs, ratio=r)
        if [s.vid for s in out] != list(range(len(a))):
            return f'ratio {r}: sources {[s.vid for s in out]} returned for {len(a)} finite inputs'
        after = cc.snapshot(out)
        ch = [(v, k) for v in before for k in cc.ATTRS if k not in ('a', 'b') and before[v][k] != after[v][k]]
        if ch:
            return f'ratio {r}: attributes other than a, b changed: {ch[:3]}'
        for i, s in enumerate(out):
            if r == 1 and (s.a != a[i] or s.b != b[i]):
                return f'ratio 1 is not the identity: (a, b) = ({a[i]!r}, {b[i]!r}) became ({s.a!r}, {s.b!r})'
            if s.a < a[i] or s.b < b[i]:
                return f'ratio {r} shrinks source {i}: (a, b) = ({a[i]!r}, {b[i]!r}) became ({s.a!r}, {s.b!r})'
            if prev is not None and (s.a < prev[i][0] * (1 - 1e-15) or s.b < prev[i][1] * (1 - 1e-15)):
                return f'ratio {r} gives a smaller source {i} than the smaller ratio before it'
        prev = [(s.a, s.b) for s in out]
    return None


def run_resize(ctx):
    rng = ctx.rng
    samples = []
    for k in range(40 if ctx.tier == 'quick' else 400):
        n = rng.randint(1, 6)
        if k % 3 == 0:
            a = [float(rng.randint(1, 200)) for _ in range(n)]
            b = [float(rng.randint(1, 100)) for _ in range(n)]
        else:
            a = [rng.uniform(0.1, 300) for _ in range(n)]
            b = [rng.uniform(0.1, 300) for _ in range(n)]
        if k % 7 == 0:
            a[0] = 0.0
        pa = [rng.uniform(0.0, 200) for _ in range(n)]
        pb = [rng.uniform(0.0, 200) for _ in range(n)]
        ratios = sorted([1] + [rng.choice([1.0, 1.0000001, 1.5, 2, 3.25, 10, 1e6]) for _ in range(3)])
        msg = resize_property(a, b, pa, pb, ratios)
        ctx.case(key=('rs', k), bucket='resize/ratio', sample={'variant': 'resize', 'a': a, 'psf_a': pa, 'ratios': ratios} if k == 1 else None)
        if msg:
            v = {'kind': 'resize', 'a': a, 'b': b, 'psf_a': pa, 'psf_b': pb, 'ratios': ratios, 'what': msg}
            ctx.mismatch('property oracle on cluster.resize(ratio=..)', v, impl=msg, is_violation=v)
        samples.append((a[0], b[0], pa[0], pb[0], ratios[-1]))
    return samples


# ------------------------------------------------------------------------------------------ certified leaves
HEADER = ("From Coq Require Import Reals.\nFrom Interval Require Import Tactic.\n"
          "From Aegean Require Import Lib.RBase Gen.ClusterR.\nOpen Scope R_scope.")


def run_certified(ctx, model_ok, emb_samples, nd_samples, rs_samples):
    from AegeanTools import cluster
    from AegeanTools.angle_tools import bear, gcd
    from AegeanTools.models import ComponentSource
    goals, metas = [], []

    def tol(v, rel=2.0 ** -40):
        return rlit(max(abs(v), 1e-6) * rel)
    unf = 'cbv beta iota zeta delta [emb rad hypot fst snd eps_chord_aereg eps_chord_finder resize_a resize_b norm_dist rafar]'
    for ra, dec, X in emb_samples:
        for j, proj in enumerate(['fst (fst (emb {0} {1}))', 'snd (fst (emb {0} {1}))', 'snd (emb {0} {1})']):
            t = proj.format(rlit(ra), rlit(dec))
            goals.append(f'Goal Rabs ({t} - {rlit(X[j])}) <= {rlit(2.0 ** -44)}. Proof. {unf}. interval with (i_prec 90). Qed.')
            metas.append(('embedding column %d' % j, (ra, dec), X[j]))
    for e in [0.5, 1, 2, 4, 10, 30, 60, 240, 900, 3.3, 4 * 17.5 / 60]:
        v = float(2 * np.sin(np.radians(e / 60) / 2))
        for nm in ('eps_chord_aereg', 'eps_chord_finder'):
            goals.append(f'Goal Rabs ({nm} {rlit(e)} - {rlit(v)}) <= {tol(v)}. Proof. {unf}. interval with (i_prec 90). Qed.')
            metas.append((nm, e, v))
    for a, b, pa, pb, r in rs_samples[:12 if ctx.tier == 'quick' else 60]:
        s = ComponentSource()
        s.a, s.b, s.psf_a, s.psf_b = a, b, pa, pb
        out = cluster.resize([s], ratio=r)
        if out:
            # 1 - 1/ratio**2 cancels for ratios close to 1: its binary64 error (a few 1e-16 absolute) is amplified by psf^2 / (2 result)
            def tolr(v, psf):
                return rlit(max(max(abs(v), 1e-3) * 2.0 ** -36, psf * psf * 2e-15 / max(abs(v), 1e-300)))
            goals.append(f'Goal Rabs (resize_a {rlit(a)} {rlit(pa)} {rlit(float(r))} - {rlit(out[0].a)}) <= {tolr(out[0].a, pa)}. '
                         f'Proof. {unf}. interval with (i_prec 90). Qed.')
            metas.append(('resize_a', (a, pa, r), out[0].a))
            goals.append(f'Goal Rabs (resize_b {rlit(b)} {rlit(pb)} {rlit(float(r))} - {rlit(out[0].b)}) <= {tolr(out[0].b, pb)}. '
                         f'Proof. {unf}. interval with (i_prec 90). Qed.')
            metas.append(('resize_b', (b, pb, r), out[0].b))
    for cat, i, j in nd_samples:
        if i == j:
            continue
        r1, r2 = cat['rows'][i], cat['rows'][j]
        s1, s2 = ComponentSource(), ComponentSource()
        for s, r, k in ((s1, r1, 0), (s2, r2, 1)):
            s.ra, s.dec, s.a, s.b, s.pa, s.island, s.source = r['ra'], r['dec'], r['a'], r['b'], r['pa'], k, 0
        v = float(cluster.norm_dist(s1, s2))
        d = float(gcd(s1.ra, s1.dec, s2.ra, s2.dec))
        phi = float(bear(s1.ra, s1.dec, s2.ra, s2.dec))
        args = ' '.join(rlit(x) for x in (d, phi, s1.a, s1.b, s1.pa, s2.a, s2.b, s2.pa))
        goals.append(f'Goal Rabs (norm_dist {args} - {rlit(v)}) <= {tol(v, 2.0 ** -36)}. Proof. {unf}. interval with (i_prec 90). Qed.')
        metas.append(('norm_dist', (d, phi, r1, r2), v))
        far = cat['far'] if cat['far'] > 0 else 0.5
        rf = float(far / np.cos(np.radians(s1.dec)))
        goals.append(f'Goal Rabs (rafar {rlit(far)} {rlit(s1.dec)} - {rlit(rf)}) <= {tol(rf)}. Proof. {unf}. interval with (i_prec 90). Qed.')
        metas.append(('rafar', (far, s1.dec), rf))
    for _ in goals:
        ctx.case(key=None, bucket='certified-leaf')
    if model_ok and goals:
        t0 = time.time()
        bad = vlib.coq_certify(ctx, HEADER, goals, shard=12, workers=10)
        for k, err in bad[:4]:
            what, a, v = metas[k] if 0 <= k < len(metas) else ('?', None, None)
            ctx.mismatch(f'certified correspondence: {what} differs from the generated Coq definition', {'args': a}, impl=v, model=err[-300:])
        ctx.oblige(f'certified correspondence: {len(goals)} interval lemmas (embedding columns, eps conversions, resize_a/b, norm_dist, rafar)',
                   not bad, f'{len(bad)} shards failed')
        ctx.traces += len(goals)
        ctx.notes.append(f'certified leaves: {len(goals)} lemmas in {time.time() - t0:.1f}s')


# ------------------------------------------------------------------------------------------ AeReg command line
def cli_property(ctx, cat, e, en, ed, rng, tag):
    """the regroup program on a catalogue file: output table must carry the classes of `separation <= eps arcmin`"""
    import logging
    import os
    from AegeanTools import catalogs
    from AegeanTools.CLI import AeReg
    if not logging.getLogger().handlers:
        logging.basicConfig(level=logging.CRITICAL)
    logging.getLogger('Aegean').setLevel(logging.CRITICAL)
    srcs = cc.make_sources(cat, rng)
    for s in srcs:
        s.uuid = f'v{s.vid}'
    base = os.path.join(ctx.work, f'cli_{tag}')
    catalogs.save_catalog(base + '.csv', srcs)
    rc = AeReg.main(['--input', base + '_comp.csv', '--table', base + '_out.csv', '--eps', repr(e)])
    logging.getLogger('Aegean').setLevel(logging.CRITICAL)
    if rc != 0:
        return f'AeReg returned {rc}'
    t = catalogs.load_table(base + '_out_comp.csv')
    groups = {}
    for r in t:
        groups.setdefault(int(r['island']), []).append((int(str(r['uuid'])[1:]), int(r['island']), int(r['source'])))
    obs = [groups[k] for k in sorted(groups)]
    n = len(srcs)
    if sorted(x[0] for g in obs for x in g) != list(range(n)):
        return f'{n} sources went in, rows {sorted(x[0] for g in obs for x in g)} came out'
    pts = cat['pts']
    want = cc.oracle_components(n, lambda a, b: cc.chord2(pts[a], pts[b])[0] * ed <= en * cc.chord2(pts[a], pts[b])[1])
    if cc.partition_of(obs) != want:
        return f'AeReg --eps {e!r}: groups {cc.partition_of(obs)} are not the classes {want} of `separation <= {e!r} arcmin`'
    return cc.check_numbering(obs, {i: cat['flux'][i] for i in range(n)})


def boundary_sources(e, orient, rng):
    """four sources for the linking length e arcmin: A-B separated by e (1 - d), C-D by e (1 + d), d = x^2/48 with x = e in radians
    (half the relative gap between the chord 2 sin(x/2) and the arc x, never below 1e-7), the two pairs more than 75 deg apart.  Separations
    are exact by construction: along a meridian (same RA) or along the equator (dec = 0).  Classes wanted: {A, B}, {C}, {D}."""
    from AegeanTools.models import ComponentSource
    x = math.radians(e / 60.0)
    d = max(x * x / 48.0, 1e-7)
    s_in, s_out = e * (1 - d) / 60.0, e * (1 + d) / 60.0
    if orient == 'meridian':
        pos = [(10.0, -20.0), (10.0, -20.0 + s_in), (100.0, 5.0), (100.0, 5.0 - s_out)]
    else:
        pos = [(359.5, 0.0), ((359.5 + s_in) % 360.0, 0.0), (180.0, 0.0), (180.0 - s_out, 0.0)]
    out = []
    for i, (ra, dec) in enumerate(pos):
        c = ComponentSource()
        c.ra, c.dec = ra, dec
        c.peak_flux = float([3, 7, 2, 5][i])
        c.a, c.b, c.pa = 20.0, 10.0, 0.0
        c.island, c.source = rng.randint(0, 5), rng.randint(0, 3)
        c.int_flux, c.flags, c.background, c.local_rms = 1.0, 0, 0.25, 0.5
        c.ra_str, c.dec_str = f'r{i}', f'd{i}'
        c.uuid = f'v{i}'
        out.append(c)
    return out, pos, (s_in * 60, s_out * 60)


def cli_boundary(ctx, e, orient, rng, tag):
    """AeReg --eps e on pairs just inside / just outside the linking length (the arcmin -> chord conversion at its boundary)"""
    import logging
    import os
    from AegeanTools import catalogs
    from AegeanTools.CLI import AeReg
    srcs, pos, (s_in, s_out) = boundary_sources(e, orient, rng)
    base = os.path.join(ctx.work, f'clib_{tag}')
    catalogs.save_catalog(base + '.csv', srcs)
    rc = AeReg.main(['--input', base + '_comp.csv', '--table', base + '_out.csv', '--eps', repr(e)])
    logging.getLogger('Aegean').setLevel(logging.CRITICAL)
    if rc != 0:
        return f'AeReg returned {rc}', pos
    t = catalogs.load_table(base + '_out_comp.csv')
    groups = {}
    for r in t:
        groups.setdefault(int(r['island']), []).append(int(str(r['uuid'])[1:]))
    got = sorted(sorted(g) for g in groups.values())
    if got != [[0, 1], [2], [3]]:
        return (f'AeReg --eps {e!r} ({orient}): sources 0,1 are {s_in!r} arcmin apart and sources 2,3 are {s_out!r} arcmin apart; '
                f'wanted groups [[0, 1], [2], [3]], got {got}'), pos
    return None, pos


BOUNDARY_EPS = (0.5, 4.0, 30.0, 60.0, 300.0, 600.0, 1800.0, 3000.0)


def run_cli_boundary(ctx):
    """returns the first violation dict or None"""
    first = None
    for k, e in enumerate(BOUNDARY_EPS):
        for orient in ('meridian', 'equator'):
            try:
                msg, pos = cli_boundary(ctx, e, orient, ctx.rng, f'{k}{orient[0]}')
            except Exception as ex:  # noqa
                msg, pos = f'AeReg raised {type(ex).__name__}: {ex}', None
            ctx.case(key=('cli-boundary', e, orient), bucket='AeReg-cli linking length boundary')
            if msg:
                v = {'kind': 'cli-boundary', 'eps_arcmin': e, 'orient': orient, 'positions_deg': pos, 'what': msg}
                ctx.mismatch('AeReg command line at the boundary of the linking length', v, impl=msg, is_violation=v)
                first = first or v
    return first


def run_cli(ctx):
    rng = ctx.rng
    for k in range(3 if ctx.tier == 'quick' else 12):
        n = rng.choice([2, 5, 12, 30])
        try:
            cat = cc.gen_lattice_catalogue(rng, n, e=rng.choice([1, 4, 30, 240]))
            e, eps, en, ed = cc.eps_for(cat, rng)
        except RuntimeError:
            continue
        try:
            msg = cli_property(ctx, cat, e, en, ed, rng, k)
        except Exception as ex:  # noqa
            msg = f'AeReg raised {type(ex).__name__}: {ex}'
        ctx.case(key=('cli', k), bucket='AeReg-cli')
        if msg:
            v = _cat_json(cat, e, eps, en, ed, list(range(n)), msg)
            v['kind'] = 'cli'
            ctx.mismatch('property oracle on the AeReg command line (csv in, csv out)', v, impl=msg, is_violation=v)


def run(ctx, model_ok=True):
    ctx.rule = ('(1) regroup_dbscan on lattice catalogues of 1..500 sources (clusters, chains, sparse, around both poles, across RA = 0, '
                'duplicate positions, distinct / tied / all-equal fluxes, junk input labels), every row permutation for n <= 6 and random '
                'ones above: implementation checked against an independent union of the exact rational relation, the numbering rule and '
                'an attribute snapshot, and compared exactly (groups, their order, labels) with the Coq model; DBSCAN labels_ compared with '
                'the model classes (library hypothesis). (2) cluster.regroup on dyadic catalogues with its own norm_dist, and with '
                'arbitrary link tables passed as dist=, incl. equal declinations and negative far: compared exactly with the model; '
                'partition / connectedness / numbering / order independence (distinct declinations) checked on the implementation. '
                '(3) resize(ratio) oracle; the AeReg command line on csv catalogues. (4) interval-certified values of the generated real-valued leaves. distinct = distinct '
                '(catalogue, row order); non-trivial = at least 2 sources.')
    emb = run_dbscan(ctx, model_ok)
    nd = run_greedy(ctx, model_ok)
    rs = run_resize(ctx)
    run_cli(ctx)
    run_cli_boundary(ctx)
    run_priorized_eps(ctx)
    run_certified(ctx, model_ok, emb, nd, rs)


# ------------------------------------------------------------------------------------------ linking length of priorized fitting
def priorized_eps_problem(ctx, e, tag='peps'):
    """priorized_fit_islands(doregroup=True, regroup_eps=e): e is a linking length in ARCMIN (None = 4 x the mean major axis).
    The value handed to regroup_dbscan must be the chord 2 sin(e/2) of that angle, and the groups formed must be the classes of
    `separation <= e`.  Catalogue: pairs 0.6 e and 1.5 e apart plus one far source, on a small noise-free image."""
    import math
    from AegeanTools import source_finder as sfm
    from AegeanTools.models import ComponentSource
    from fixtures import make_header, write_image
    import numpy as np
    shape = (96, 96)
    cd = 20.0 / 3600
    h = make_header(shape, proj='SIN', crval=(150.0, 0.0), cdelt=cd, beam=(60.0 / 3600, 60.0 / 3600, 0.0))
    path = os.path.join(ctx.work, f'{tag}.fits')
    write_image(path, np.zeros(shape, dtype=np.float32), h)
    a_arcsec = 70.0
    eff = e if e is not None else 4 * a_arcsec / 60          # arcmin
    step = eff / 60.0                                           # degrees
    pos = [(150.0, 0.0), (150.0, 0.6 * step), (150.0 + 3 * step, 0.0), (150.0 + 3 * step, 1.5 * step), (150.0 - 4 * step, -3 * step)]
    cat = []
    for k, (ra, dec) in enumerate(pos):
        c = ComponentSource()
        c.island, c.source, c.ra, c.dec, c.peak_flux, c.a, c.b, c.pa = k, 0, ra, dec, 1.0 + k, a_arcsec, a_arcsec, 0.0
        c.psf_a, c.psf_b, c.psf_pa = 60.0, 60.0, 0.0
        c.uuid = f'u{k}'
        cat.append(c)
    seen = {}
    from AegeanTools import cluster as _cl
    real = _cl.regroup_dbscan

    def wrap(srccat, eps=4):
        seen['eps'] = float(eps)
        seen['mean_a'] = float(np.mean([s.a / 60 for s in srccat]))      # arcmin, after cluster.resize
        groups = real(srccat, eps=eps)
        seen['groups'] = sorted(sorted(s.uuid for s in g) for g in groups)
        return groups
    _cl.regroup_dbscan = wrap
    try:
        sfm.SourceFinder(log=quiet_log()).priorized_fit_islands(path, catalogue=cat, stage=1, rms=1.0, bkg=0.0, cores=1,
                                                                  doregroup=True, regroup_eps=e)
    except Exception as ex:  # noqa
        if 'eps' not in seen:
            return f'priorized_fit_islands(regroup_eps={e!r}) raised {type(ex).__name__}: {ex}'
    finally:
        _cl.regroup_dbscan = real
    if 'eps' not in seen:
        return f'priorized_fit_islands(regroup_eps={e!r}, doregroup=True) did not call regroup_dbscan'
    if e is None:
        eff = 4 * seen['mean_a']      # the documented default: 4 x the mean major axis of the (rescaled) catalogue sources
    want = 2 * math.sin(math.radians(eff / 60) / 2)
    if abs(seen['eps'] - want) > 1e-12 * want:
        return (f'priorized_fit_islands(regroup_eps={e!r}): regroup_dbscan received eps = {seen["eps"]!r}, the chord of a linking '
                f'length of {eff!r} arcmin is {want!r}')
    exp = [['u0', 'u1'], ['u2'], ['u3'], ['u4']]
    if seen['groups'] != exp:
        return f'priorized_fit_islands(regroup_eps={e!r}): groups {seen["groups"]}, the classes of `separation <= {eff!r} arcmin` are {exp}'
    return None


def quiet_log():
    import logging
    lg = logging.getLogger('c19quiet')
    lg.setLevel(logging.CRITICAL)
    return lg


PRIOR_EPS = [None, 2.0, 0.5, 10.0, 45.0]


def run_priorized_eps(ctx):
    bad = []
    for e in PRIOR_EPS:
        ctx.case(key=f'prior-eps:{e}', bucket='priorized linking length ' + ('default' if e is None else 'given'))
        msg = priorized_eps_problem(ctx, e)
        if msg:
            bad.append(msg)
            ctx.mismatch('linking length of priorized fitting', {'regroup_eps': e}, impl=msg,
                         is_violation={'kind': 'prior-eps', 'regroup_eps': e, 'what': msg})
    ctx.oblige(f'priorized_fit_islands: regroup_eps None / {PRIOR_EPS[1:]} arcmin reaches regroup_dbscan as the chord of that angle and '
               'forms the classes of `separation <= eps`', not bad, bad[:2])


# ------------------------------------------------------------------------------------------ search / replay
def search(ctx):
    rng = ctx.rng
    t0 = time.time()
    for e in PRIOR_EPS:
        msg = priorized_eps_problem(ctx, e, 'speps')
        if msg:
            return {'kind': 'prior-eps', 'regroup_eps': e, 'what': msg}
    if not any(f.get('case', {}).get('kind') == 'cli-boundary' for f in getattr(ctx, 'failures', []) if isinstance(f.get('case'), dict)):
        v = run_cli_boundary(ctx)
        if v:
            return v
    while time.time() - t0 < 100:
        n = rng.choice([1, 2, 3, 4, 5, 6, 8, 12, 20, 40])
        cat = cc.gen_lattice_catalogue(rng, n)
        try:
            e, eps, en, ed = cc.eps_for(cat, rng)
        except RuntimeError:
            continue
        srcs = cc.make_sources(cat, rng)
        base = None
        for rows in _perms(rng, n, 4)[:8]:
            try:
                msg, obs, _ = cc.dbscan_property(cat, eps, en, ed, rng, perm=rows, srcs=srcs)
            except Exception as ex:  # noqa
                msg, obs = f'regroup_dbscan raised {type(ex).__name__}: {ex}', None
            if msg is None:
                if base is None:
                    base = cc.partition_of(obs)
                elif base != cc.partition_of(obs):
                    msg = f'row order {list(rows)} gives groups {cc.partition_of(obs)}, the original order gives {base}'
            if msg:
                c2, r2, m2 = _shrink_dbscan(cat, e, eps, en, ed, rows, rng)
                return _cat_json(c2, e, eps, en, ed, r2, m2 or msg)
        n = rng.choice([1, 2, 3, 4, 6, 10])
        tc = _table_case(rng, n, distinct=True, far=rng.choice([0, 1, 100]))
        base = None
        for rows in _perms(rng, n, 3)[:6]:
            try:
                obs = _run_table_impl(tc, rows)
                msg = _table_property(tc, obs, rows)
            except Exception as ex:  # noqa
                obs, msg = None, f'regroup raised {type(ex).__name__}: {ex}'
            if msg is None:
                if base is None:
                    base = obs
                elif obs != base:
                    msg = f'distinct declinations, row order {list(rows)}: result {obs} differs from {base}'
            if msg:
                return {'kind': 'greedy-table', 'table': tc, 'rows': list(rows), 'what': msg}
        a = [rng.uniform(0.1, 300)]
        msg = resize_property(a, [rng.uniform(0.1, 300)], [rng.uniform(0, 100)], [rng.uniform(0, 100)], [1, 1.5, 4])
        if msg:
            return {'kind': 'resize', 'a': a, 'what': msg}
    return None


def replay(ctx, obj):
    fi = obj.get('failing_input')
    if not fi:
        print('replay file has no concrete input; broken obligations were:')
        for b in obj.get('broken', []):
            print('  ', b.get('what'), str(b.get('detail', b.get('case', '')))[:400])
        return 1
    kind = fi.get('kind')
    msg = None
    if kind == 'prior-eps':
        msg = priorized_eps_problem(ctx, fi['regroup_eps'], 'replay')
        print('implementation:', msg or 'property holds for this linking length')
        return 1 if msg else 0
    if kind == 'dbscan':
        cat = {'pts': [tuple(p) for p in fi['pts']], 'flux': fi['flux']}
        try:
            msg, obs, _ = cc.dbscan_property(cat, fi['eps'], fi['en'], fi['ed'], ctx.rng, perm=fi['rows'])
            if msg is None and fi['rows'] != sorted(fi['rows']):
                _, obs0, _ = cc.dbscan_property(cat, fi['eps'], fi['en'], fi['ed'], ctx.rng, perm=sorted(fi['rows']))
                if cc.partition_of(obs0) != cc.partition_of(obs):
                    msg = f"row order {fi['rows']} gives groups {cc.partition_of(obs)}, the original order gives {cc.partition_of(obs0)}"
        except Exception as ex:  # noqa
            msg = f'regroup_dbscan raised {type(ex).__name__}: {ex}'
    elif kind == 'greedy-table':
        tc = fi['table']
        try:
            obs = _run_table_impl(tc, fi['rows'])
            msg = _table_property(tc, obs, fi['rows'])
            if msg is None:
                obs0 = _run_table_impl(tc, sorted(fi['rows']))
                if obs0 != obs and len(set(tc['decs'])) == len(tc['decs']):
                    msg = f"row order {fi['rows']}: result {obs} differs from {obs0}"
        except Exception as ex:  # noqa
            msg = f'regroup raised {type(ex).__name__}: {ex}'
    elif kind == 'greedy':
        cat = {'rows': fi['rows_data'], 'flux': fi['flux'], 'far': fi['far']}
        nbrs, _ = cc.greedy_links(cat, fi['eps'])
        try:
            msg, obs = cc.greedy_property(cat, fi['eps'], nbrs, ctx.rng, perm=fi['rows'])
            if msg is None:
                _, obs0 = cc.greedy_property(cat, fi['eps'], nbrs, ctx.rng, perm=sorted(fi['rows']))
                if obs0 != obs:
                    msg = f"row order {fi['rows']}: result {obs} differs from {obs0}"
        except Exception as ex:  # noqa
            msg = f'regroup raised {type(ex).__name__}: {ex}'
    elif kind == 'cli-boundary':
        try:
            msg, _ = cli_boundary(ctx, fi['eps_arcmin'], fi['orient'], ctx.rng, 'replay')
        except Exception as ex:  # noqa
            msg = f'AeReg raised {type(ex).__name__}: {ex}'
    elif kind == 'cli':
        cat = {'pts': [tuple(p) for p in fi['pts']], 'flux': fi['flux'], 'style': 'replay'}
        try:
            msg = cli_property(ctx, cat, fi['eps_arcmin'], fi['en'], fi['ed'], ctx.rng, 'replay')
        except Exception as ex:  # noqa
            msg = f'AeReg raised {type(ex).__name__}: {ex}'
    elif kind == 'resize':
        msg = resize_property(fi['a'], fi.get('b', fi['a']), fi.get('psf_a', [1.0] * len(fi['a'])),
                              fi.get('psf_b', [1.0] * len(fi['a'])), fi.get('ratios', [1, 2]))
    print('implementation:', msg or 'property holds on this input')
    return 1 if msg else 0
