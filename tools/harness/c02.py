"""C02 - islands are exactly the seeded, flood-thresholded 8-connected pixel groups."""
import json
import os
import time

import numpy as np

import vlib
from harness import islands_common as ic

GEN = ['Islands', 'IslandBox']
LEVEL = 'proof'
TRUSTED = [
    'Coq 8.16.1 kernel + vm_compute; all C02 theorems are axiom-free',
    'translator tools/translate.py: snr numerator, flood/seed/mask comparisons (cross-multiplied fractions), seed scope '
    '(own pixels vs bounding box), connectivity structure, bounding box source, mask expression of source_finder.find_islands; '
    'the matcher fails closed on any other shape',
    'translator point IslandBox (tools/points_c02x.py): body of models.PixelIsland.calc_bounding_box (np.any axis, offsets entry and '
    'limit arithmetic per bounding_box slot) and set_mask; Model/IslandBox.v (own pixels in cut-out coordinates) tied by exact '
    'correspondence on the real method over boolean arrays with any offsets and empty border rows / columns',
    'hand-written skeleton Model/IslandModel.v (label = Graph.components of the 8-neighbour graph, filter by seed, box, mask) '
    'tied by exact correspondence on find_islands',
    'scipy.ndimage.label / find_objects (library hypothesis: classes = Graph.components, validated on every case); numpy',
]
ASSUMPTIONS = ['rms > 0 and finite thresholds 0 < flood <= seed',
               'integer-valued test images so that float signal-to-noise comparisons are exact (ties included)',
               'a pixel is blank when any of im/bkg/rms is NaN; +-inf pixel values are not modelled']


def cases(ctx):
    rng = ctx.rng
    quick = ctx.tier == 'quick'
    out = []
    cdir = os.path.join(vlib.VERIF, 'corpus', 'C02')
    if os.path.isdir(cdir):
        for f in sorted(os.listdir(cdir)):
            with open(os.path.join(cdir, f)) as fh:
                out.append(('corpus', ic.case_from_json(json.load(fh))))
    for shape in [(1, 1), (1, 2), (2, 1), (1, 7), (7, 1), (2, 2), (3, 3)]:
        for _ in range(4):
            out.append((f'tiny{shape}', ic.gen_image(rng, shape)))
    for style in ['blobs', 'levels', 'ring', 'lshape', 'diag', 'noise']:
        for _ in range(40 if quick else 1200):
            out.append((style, ic.gen_image(rng, None, style)))
    return out


def compare(case):
    """oracle on the implementation: None or message"""
    try:
        got = ic.run_impl(case)
    except Exception as e:  # noqa
        return f'find_islands raised {type(e).__name__}: {e}'
    exp = ic.oracle(case)
    if got != exp:
        ge = [g for g in got if g not in exp]
        eg = [e for e in exp if e not in got]
        return f'find_islands returned {len(got)} islands, flood-fill oracle expects {len(exp)}; unexpected {ge[:2]} missing {eg[:2]}'
    return None


def shrink(case):
    """blank rows/cols/pixels while the implementation still disagrees with the oracle"""
    cur = case
    changed = True
    while changed:
        changed = False
        R, C = cur['im'].shape
        cands = []
        if R > 1:
            cands += [('r', 0), ('r', R - 1)]
        if C > 1:
            cands += [('c', 0), ('c', C - 1)]
        for kind, k in cands:
            new = dict(cur)
            for nm in ('im', 'bkg', 'rms'):
                new[nm] = np.delete(cur[nm], k, axis=0 if kind == 'r' else 1)
            if compare(new):
                cur = new
                changed = True
                break
    return cur


def run(ctx, model_ok=True):
    cs = cases(ctx)
    ctx.rule = ('integer-valued images 1x1..14x14 (styles: blobs, threshold-level mosaics with exact ties at both thresholds, rings '
                'around a bright pixel, L shapes sharing their box with another island, diagonal chains, noise), NaN blocks in '
                'im/bkg/rms, zero-valued pixels, negative islands. Each image: find_islands vs an independent flood fill and vs '
                'the Coq model (box, own pixels, mask). distinct = distinct (image, thresholds); non-trivial = at least one '
                'flood-passing pixel.')
    exprs, impls, metas = [], [], []
    t0 = time.time()
    for bucket, case in cs:
        msg = compare(case)
        nflood = len(ic.oracle({**case, 'seed': (0, 1)}))
        key = json.dumps(ic.case_json(case), sort_keys=True) if nflood else None
        ctx.case(key=key, bucket=bucket, sample=ic.case_json(case) if (nflood and len(ctx.samples) < 3) else None)
        if msg:
            small = shrink(case)
            ctx.mismatch('flood-fill oracle on find_islands', ic.case_json(small), impl=compare(small),
                         is_violation={'case': ic.case_json(small), 'what': compare(small)})
            continue
        exprs.append(f'obs {ic.g_image(case)} {ic.g_clip(case["flood"])} {ic.g_clip(case["seed"])}')
        impls.append(ic.run_impl(case))
        metas.append(case)
    ctx.notes.append(f'{len(cs)} images on the implementation in {time.time() - t0:.1f}s')
    if model_ok and exprs:
        vals, err = vlib.coq_eval(ctx, ic.IMPORTS, exprs, shard=150, workers=12)
        if vals is None:
            ctx.oblige('model evaluation (vm_compute) of Model.IslandModel.obs', False, err)
        else:
            nbad = 0
            for v, iv, case in zip(vals, impls, metas):
                mv = ic.canon_model(v)
                m1 = [(b, own) for b, own, unm in mv]
                m2 = [(b, unm) for b, own, unm in mv]
                if m1 != iv or m2 != iv:
                    nbad += 1
                    if nbad <= 3:
                        ctx.mismatch('find_islands vs Model.IslandModel.obs', ic.case_json(case), impl=iv, model=mv)
            ctx.oblige(f'correspondence: {len(vals)} images, boxes / own pixels / masks equal to the model', nbad == 0,
                       f'{nbad} images differ')
            ctx.traces = len(vals)
            ctx.hyp['scipy.ndimage.label(structure=ones(3,3)) classes = Graph.components'] = len(vals)
    run_boxes(ctx, model_ok)


BOX_IMPORTS = ("From Coq Require Import ZArith List Bool.\nFrom Aegean Require Import Gen.Islands Gen.IslandBox Lib.Graph "
               "Model.IslandModel Model.IslandBox.\nImport ListNotations.\nOpen Scope Z_scope.\n")


def box_cases(ctx):
    """boolean cut-outs (non-square, empty border rows / columns allowed, at least one true cell) with offsets"""
    rng = ctx.rng
    out = []
    for k in range(120 if ctx.tier == 'quick' else 1500):
        R, C = rng.randint(1, 7), rng.randint(1, 9)
        if k % 3 == 0:
            R, C = rng.choice([(1, rng.randint(1, 9)), (rng.randint(1, 7), 1), (2, 7), (6, 2)])
        d = np.zeros((R, C), dtype=bool)
        for _ in range(rng.randint(1, max(1, R * C // 2))):
            d[rng.randrange(R), rng.randrange(C)] = True
        off = [rng.choice([0, 0, 1, 3, 17, 250]), rng.choice([0, 0, 2, 5, 31, 999])]
        out.append((d, off))
    return out


def box_impl(d, off):
    from AegeanTools.models import PixelIsland
    isl = PixelIsland()
    isl.calc_bounding_box(d.copy(), offsets=list(off))
    (a0, a1), (b0, b1) = [tuple(int(v) for v in b) for b in isl.bounding_box]
    return (a0, a1, b0, b1)


def box_oracle(d, off):
    rr, cc = np.nonzero(d)
    return (off[0] + int(rr.min()), off[0] + int(rr.max()) + 1, off[1] + int(cc.min()), off[1] + int(cc.max()) + 1)


def run_boxes(ctx, model_ok):
    cs = box_cases(ctx)
    exprs, impls, nbad = [], [], 0
    for d, off in cs:
        key = json.dumps([d.astype(int).tolist(), off])
        ctx.case(key='box' + key, bucket='calc_bounding_box',
                 sample={'data': d.astype(int).tolist(), 'offsets': off} if len(ctx.samples) < 4 else None)
        try:
            got = box_impl(d, off)
        except Exception as e:  # noqa
            got = f'raised {type(e).__name__}: {e}'
        exp = box_oracle(d, off)
        if got != exp:
            nbad += 1
            if nbad <= 3:
                ctx.mismatch('PixelIsland.calc_bounding_box vs the tight box of the true cells', {'data': d.astype(int).tolist(),
                             'offsets': off}, impl=got, model=exp,
                             is_violation={'box_case': {'data': d.astype(int).tolist(), 'offsets': off},
                                           'what': f'calc_bounding_box gives {got}, the tight box of the true cells is {exp}'})
        rr, cc = np.nonzero(d)
        px = '[' + '; '.join(f'({int(r) + off[0]}, {int(c) + off[1]})' for r, c in zip(rr, cc)) + ']'
        exprs.append(f'calc_bounding_box (rel_pixels {px} {off[0]} {off[1]}) {off[0]} {off[1]}')
        impls.append(got)
    ctx.oblige(f'calc_bounding_box: {len(cs)} boolean cut-outs with offsets give the tight box (implementation vs oracle)',
               nbad == 0, f'{nbad} differ')
    if model_ok and exprs:
        vals, err = vlib.coq_eval(ctx, BOX_IMPORTS, exprs, shard=200, workers=8)
        if vals is None:
            ctx.oblige('model evaluation (vm_compute) of Model.IslandBox.calc_bounding_box', False, err)
        else:
            mb = 0
            for v, iv, (d, off) in zip(vals, impls, cs):
                if tuple(v) != iv:
                    mb += 1
                    if mb <= 3:
                        ctx.mismatch('PixelIsland.calc_bounding_box vs Model.IslandBox.calc_bounding_box',
                                     {'data': d.astype(int).tolist(), 'offsets': off}, impl=iv, model=v)
            ctx.oblige(f'correspondence: {len(vals)} cut-outs, calc_bounding_box equal to Model.IslandBox', mb == 0,
                       f'{mb} differ')


def search(ctx):
    rng = ctx.rng
    for d, off in box_cases(ctx):
        try:
            got = box_impl(d, off)
        except Exception as e:  # noqa
            got = f'raised {type(e).__name__}: {e}'
        if got != box_oracle(d, off):
            return {'box_case': {'data': d.astype(int).tolist(), 'offsets': off},
                    'what': f'calc_bounding_box gives {got}, the tight box of the true cells is {box_oracle(d, off)}'}
    t0 = time.time()
    while time.time() - t0 < 150:
        case = ic.gen_image(rng)
        if compare(case):
            small = shrink(case)
            return {'case': ic.case_json(small), 'what': compare(small)}
    return None


def replay(ctx, obj):
    fi = obj.get('failing_input')
    if not fi:
        print('replay file has no concrete input; broken obligations were:')
        for b in obj.get('broken', []):
            print('  ', b.get('what'), str(b.get('detail', b.get('case', '')))[:400])
        return 1
    if 'box_case' in fi:
        d = np.array(fi['box_case']['data'], dtype=bool)
        off = fi['box_case']['offsets']
        try:
            got = box_impl(d, off)
        except Exception as e:  # noqa
            got = f'raised {type(e).__name__}: {e}'
        exp = box_oracle(d, off)
        print('implementation:', f'calc_bounding_box gives {got}, tight box {exp}' if got != exp else 'property holds on this cut-out')
        return 1 if got != exp else 0
    case = ic.case_from_json(fi['case'])
    msg = compare(case)
    print('implementation:', msg or 'property holds on this image')
    return 1 if msg else 0
