"""C02 - islands are exactly the seeded, flood-thresholded 8-connected pixel groups."""
import json
import os
import time

import numpy as np

import vlib
from harness import islands_common as ic

GEN = ['Islands']
LEVEL = 'proof'
TRUSTED = [
    'Coq 8.16.1 kernel + vm_compute; all C02 theorems are axiom-free',
    'translator tools/translate.py: snr numerator, flood/seed/mask comparisons (cross-multiplied fractions), seed scope '
    '(own pixels vs bounding box), connectivity structure, bounding box source, mask expression of source_finder.find_islands; '
    'the matcher fails closed on any other shape',
    'hand-written skeleton Model/IslandModel.v (label = Graph.components of the 8-neighbour graph, filter by seed, box, mask) '
    'tied by exact correspondence on find_islands',
    'scipy.ndimage.label / find_objects (library hypothesis: classes = Graph.components, validated on every case); numpy',
]
ASSUMPTIONS = ['rms > 0 and finite thresholds 0 < flood <= seed',
               'integer-valued test images so that float signal-to-noise comparisons are exact (ties included)',
               'a pixel is blank when any of im/bkg/rms is NaN; +-inf pixel values are not modelled']


def cases(ctx):
    rng = ctx.rng
    quick = ctx.tier == 'quick'
    out = []
    cdir = os.path.join(vlib.VERIF, 'corpus', 'C02')
    if os.path.isdir(cdir):
        for f in sorted(os.listdir(cdir)):
            with open(os.path.join(cdir, f)) as fh:
                out.append(('corpus', ic.case_from_json(json.load(fh))))
    for shape in [(1, 1), (1, 2), (2, 1), (1, 7), (7, 1), (2, 2), (3, 3)]:
        for _ in range(4):
            out.append((f'tiny{shape}', ic.gen_image(rng, shape)))
    for style in ['blobs', 'levels', 'ring', 'lshape', 'diag', 'noise']:
        for _ in range(40 if quick else 1200):
            out.append((style, ic.gen_image(rng, None, style)))
    return out


def compare(case):
    """oracle on the implementation: None or message"""
    try:
        got = ic.run_impl(case)
    except Exception as e:  # noqa
        return f'find_islands raised {type(e).__name__}: {e}'
    exp = ic.oracle(case)
    if got != exp:
        ge = [g for g in got if g not in exp]
        eg = [e for e in exp if e not in got]
        return f'find_islands returned {len(got)} islands, flood-fill oracle expects {len(exp)}; unexpected {ge[:2]} missing {eg[:2]}'
    return None


def shrink(case):
    """blank rows/cols/pixels while the implementation still disagrees with the oracle"""
    cur = case
    changed = True
    while changed:
        changed = False
        R, C = cur['im'].shape
        cands = []
        if R > 1:
            cands += [('r', 0), ('r', R - 1)]
        if C > 1:
            cands += [('c', 0), ('c', C - 1)]
        for kind, k in cands:
            new = dict(cur)
            for nm in ('im', 'bkg', 'rms'):
                new[nm] = np.delete(cur[nm], k, axis=0 if kind == 'r' else 1)
            if compare(new):
                cur = new
                changed = True
                break
    return cur


def run(ctx, model_ok=True):
    cs = cases(ctx)
    ctx.rule = ('integer-valued images 1x1..14x14 (styles: blobs, threshold-level mosaics with exact ties at both thresholds, rings '
                'around a bright pixel, L shapes sharing their box with another island, diagonal chains, noise), NaN blocks in '
                'im/bkg/rms, zero-valued pixels, negative islands. Each image: find_islands vs an independent flood fill and vs '
                'the Coq model (box, own pixels, mask). distinct = distinct (image, thresholds); non-trivial = at least one '
                'flood-passing pixel.')
    exprs, impls, metas = [], [], []
    t0 = time.time()
    for bucket, case in cs:
        msg = compare(case)
        nflood = len(ic.oracle({**case, 'seed': (0, 1)}))
        key = json.dumps(ic.case_json(case), sort_keys=True) if nflood else None
        ctx.case(key=key, bucket=bucket, sample=ic.case_json(case) if (nflood and len(ctx.samples) < 3) else None)
        if msg:
            small = shrink(case)
            ctx.mismatch('flood-fill oracle on find_islands', ic.case_json(small), impl=compare(small),
                         is_violation={'case': ic.case_json(small), 'what': compare(small)})
            continue
        exprs.append(f'obs {ic.g_image(case)} {ic.g_clip(case["flood"])} {ic.g_clip(case["seed"])}')
        impls.append(ic.run_impl(case))
        metas.append(case)
    ctx.notes.append(f'{len(cs)} images on the implementation in {time.time() - t0:.1f}s')
    if model_ok and exprs:
        vals, err = vlib.coq_eval(ctx, ic.IMPORTS, exprs, shard=150, workers=12)
        if vals is None:
            ctx.oblige('model evaluation (vm_compute) of Model.IslandModel.obs', False, err)
        else:
            nbad = 0
            for v, iv, case in zip(vals, impls, metas):
                mv = ic.canon_model(v)
                m1 = [(b, own) for b, own, unm in mv]
                m2 = [(b, unm) for b, own, unm in mv]
                if m1 != iv or m2 != iv:
                    nbad += 1
                    if nbad <= 3:
                        ctx.mismatch('find_islands vs Model.IslandModel.obs', ic.case_json(case), impl=iv, model=mv)
            ctx.oblige(f'correspondence: {len(vals)} images, boxes / own pixels / masks equal to the model', nbad == 0,
                       f'{nbad} images differ')
            ctx.traces = len(vals)
            ctx.hyp['scipy.ndimage.label(structure=ones(3,3)) classes = Graph.components'] = len(vals)


def search(ctx):
    rng = ctx.rng
    t0 = time.time()
    while time.time() - t0 < 150:
        case = ic.gen_image(rng)
        if compare(case):
            small = shrink(case)
            return {'case': ic.case_json(small), 'what': compare(small)}
    return None


def replay(ctx, obj):
    fi = obj.get('failing_input')
    if not fi:
        print('replay file has no concrete input; broken obligations were:')
        for b in obj.get('broken', []):
            print('  ', b.get('what'), str(b.get('detail', b.get('case', '')))[:400])
        return 1
    case = ic.case_from_json(fi['case'])
    msg = compare(case)
    print('implementation:', msg or 'property holds on this image')
    return 1 if msg else 0
