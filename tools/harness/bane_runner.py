"""Run BANE.filter_image once in this process and print one json line (used by c06/c07 harnesses under a watchdog)."""
import hashlib
import json
import os
import sys
import time
import warnings

warnings.simplefilter('ignore')
import numpy as np  # noqa: E402


def shm_names():
    try:
        return sorted(n for n in os.listdir('/dev/shm') if n.startswith(('ibkg_', 'irms_')))
    except OSError:
        return []


def main():
    a = json.loads(sys.argv[1])
    from AegeanTools import BANE
    before = shm_names()
    t0 = time.time()
    out = {'raised': None}
    try:
        bkg, rms = BANE.filter_image(a['path'], out_base=None, step_size=tuple(a['step']), box_size=tuple(a['box']),
                                     cores=a['cores'], nslice=a['nslice'], mask=a['mask'], cube_index=a.get('cube_index'))
        out['bkg_sha'] = hashlib.sha1(np.ascontiguousarray(bkg).tobytes()).hexdigest()
        out['rms_sha'] = hashlib.sha1(np.ascontiguousarray(rms).tobytes()).hexdigest()
        out['shape'] = list(bkg.shape)
        out['nan_bkg'] = int(np.isnan(bkg).sum())
        out['unwritten'] = int((np.asarray(bkg) == a.get('sentinel', 1e300)).sum())
        if a.get('save'):
            np.save(a['save'] + '_bkg.npy', bkg)
            np.save(a['save'] + '_rms.npy', rms)
    except BaseException as e:  # noqa
        out['raised'] = f'{type(e).__name__}: {str(e)[-300:]}'
    out['wall'] = time.time() - t0
    # the segments of THIS call (other runs may be going on at the same time)
    mid = getattr(BANE, 'memory_id', None)
    out['shm_left'] = [n for n in (f'ibkg_{mid}', f'irms_{mid}') if mid and os.path.exists(os.path.join('/dev/shm', n))]
    out['memory_id'] = mid
    print('RESULT ' + json.dumps(out))


if __name__ == '__main__':
    main()
