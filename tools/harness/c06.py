"""C06 - BANE background/noise maps obey the estimator contract."""
import json
import os
import time
from concurrent.futures import ThreadPoolExecutor
from fractions import Fraction

import numpy as np

import vlib
from harness import bane_filter_common as bc

GEN = ['BaneFilter', 'BaneSync']
EXTRA_TARGETS = ['Refuted/C06_thin.vo']
LEVEL = 'proof'
TRUSTED = [
    'Coq 8.16.1 kernel + vm_compute; axioms: only those of the standard library of real numbers (sig_forall_dec, sig_not_dec, '
    'functional_extensionality_dep); C06_shape is about the Q instance',
    'translator tools/points_c06.py (+ BaneSync point): sigmaclip prologue / loop skeleton (exact statement text), strictness of its two '
    'comparisons, thresholds mean -+ std*level, levels (3, 3) and default reps; in sigma_filter the box closure, the slice '
    'data[r_min:r_max, c_min:c_max], the grids list(range(a, b, s)) + [b], np.mgrid pixel grid, RegularGridInterpolator((rows, cols), '
    'vals) calls, the rows that are background-subtracted, the mask slice, data_row_min/max, BSCALE scaling, float64 cast; in '
    'filter_mc_sharemem the layout block and the float32 casts. Any other shape is refused.',
    'hand-written model Model/BaneFilter.v (one text, generic over the scalar type; executed at Q, proved at R) and Lib/Stats.v; '
    'tied to the code by exact correspondence of whole multi-process filter_image runs (with BANE.sigmaclip replaced in the runner '
    'process by (max, max-min)) and by correspondence of sigmaclip itself; sigmaclip over Q (variance, squared comparisons) is '
    'PROVED equal to the real-valued one used in the theorems (C06_sigmaclip_q_is_r)',
    'scipy RegularGridInterpolator (library hypothesis: bilinear on the cell whose lower node is the largest node <= x, NaN if any '
    'corner is NaN; validated on every run), numpy mean/std (population variance), astropy.io.fits section reads, multiprocessing fork',
    'stripe width width_y: evaluated by Python from the source text (float arithmetic); the theorems hold for every width >= 1',
    'command line glue AegeanTools/CLI/BANE.py (argument parsing, defaults, option -> keyword mapping, argument order, output '
    'naming) is not modelled in Coq; it is tied on every run by tools/harness/cli_cases.py: BANE command lines (non-square --grid / --box, --cores, --stripes, --slice, --nomask, --compress, --out, --noclobber) run in subprocesses and '
    'the files they write equal, bit for bit (tables apart from uuids), those of the library call that --help and the docstrings promise',
]
ASSUMPTIONS = [
    'real arithmetic: the theorems are about the model over R; binary64 / float32 rounding of the implementation is outside (the '
    'correspondence uses small integers so that all arithmetic is exact where it is compared exactly, otherwise a 2^-21 relative bound)',
    'non-finite pixels (NaN, +-inf) are one value None; images have at least 2 rows and 2 columns in C06_constant / mask_far_finite / '
    'no_blank (single-row / single-column images give all-NaN maps: recorded finding)',
    '"equals m and s within sampling error for Gaussian noise" is statistics: validated on one noise image, not proved',
]


# ------------------------------------------------------------------------------------------ generators
def gen_pipeline_case(rng, i):
    u = rng.random()
    rows = 1 if u < 0.04 else rng.randint(2, 70)
    cols = 1 if 0.04 <= u < 0.08 else rng.randint(2, 24)
    sr = rng.choice([1, 2, 4, 4, 8, 8, 16, 3, 5])
    sc = sr if rng.random() < 0.6 else rng.choice([1, 2, 4, 8, 16, 6])
    br = rng.randint(max(4, sr), max(4, sr) + rng.choice([0, 2, 9, 20]))
    bcol = br if rng.random() < 0.5 else rng.randint(max(4, sc), max(4, sc) + rng.choice([0, 3, 12]))
    cores = rng.randint(1, 4)
    ns = rng.choice([None] + list(range(1, 2 * cores + 1)))
    mask = rng.random() < 0.75
    style = rng.choice(['rand', 'rand', 'grad', 'const', 'spiky'])
    if style == 'rand':
        arr = np.array([[rng.randint(-30, 90) for _ in range(cols)] for _ in range(rows)], dtype=float)
    elif style == 'grad':
        a, b = rng.randint(-3, 3), rng.randint(-3, 3)
        arr = np.array([[a * y + b * x + rng.randint(0, 2) for x in range(cols)] for y in range(rows)], dtype=float)
    elif style == 'const':
        arr = np.full((rows, cols), float(rng.randint(-9, 99)))
    else:
        arr = np.array([[rng.choice([0, 0, 0, 1, 500]) for _ in range(cols)] for _ in range(rows)], dtype=float)
    if rng.random() < 0.6:
        for _ in range(rng.randint(1, 3)):
            r0, c0 = rng.randrange(rows), rng.randrange(cols)
            arr[r0:r0 + rng.randint(1, 14), c0:c0 + rng.randint(1, 9)] = np.nan
    if rng.random() < 0.1:
        arr[rng.randrange(rows), rng.randrange(cols)] = np.inf
    if rng.random() < 0.08:
        arr[rng.randrange(rows), :] = np.nan
    if rng.random() < 0.15:
        # a blank quadrant / band anchored at a corner of the image (large blank regions make whole boxes blank)
        y0, x0 = rng.randint(0, rows), rng.randint(0, cols)
        ys = slice(y0, None) if rng.random() < 0.5 else slice(None, y0)
        xs = slice(x0, None) if rng.random() < 0.5 else slice(None, x0)
        if rng.random() < 0.3:
            xs = slice(None)
        arr[ys, xs] = np.nan
    # single-row / single-column cubes are squeezed to 1-D by sigma_filter and raise (part of the recorded thin-image finding)
    naxis = rng.choice([2, 2, 2, 3, 4]) if rows > 1 and cols > 1 else 2
    depth = rng.randint(1, 3) if naxis > 2 else 1
    idx = rng.randrange(depth)
    bscale = rng.choice([None, None, None, 0.5, 2.0, 4.0])
    return {'id': i, 'rows': rows, 'cols': cols, 'step': [sr, sc], 'box': [br, bcol], 'cores': cores, 'nslice': ns, 'mask': mask,
            'naxis': naxis, 'cube': [idx, depth], 'cube_index': (idx if (idx or rng.random() < 0.5) else None) if naxis > 2 else None,
            'bscale': bscale, 'write': rng.random() < 0.4,
            'pixels': [[None if not np.isfinite(v) else int(v) for v in r] for r in arr]}


def case_array(case):
    return np.array([[np.nan if v is None else float(v) for v in r] for r in case['pixels']], dtype=float)


def case_job(ctx, case, patch, tag):
    arr = case_array(case)
    p = os.path.join(ctx.work, f'{tag}_{case["id"]}.fits')
    bc.write_fits_case(p, arr, naxis=case.get('naxis', 2), bscale=case.get('bscale'), cube=tuple(case.get('cube', (0, 1))))
    save = os.path.join(ctx.work, f'{tag}_{case["id"]}')
    # write: the maps are ALSO written (out_base given); the returned maps and the files must both be the maps of the image
    return {'id': case['id'], 'path': p, 'step': case['step'], 'box': case['box'], 'cores': case['cores'], 'nslice': case['nslice'],
            'mask': case['mask'], 'cube_index': case.get('cube_index'), 'patch': patch, 'save': save,
            'out_base': save + '_out' if case.get('write') else None}


def case_expr(case):
    w = bc.stripe_width(case['rows'], case['cores'], case['nslice'], case['step'])
    return (f"run_mr {case['rows']} {case['cols']} {case['step'][0]} {case['step'][1]} {case['box'][0]} {case['box'][1]} {w} "
            f"{bc.g_bool(case['mask'])} {bc.g_table(case_array(case))}"), w


def run_jobs(ctx, jobs, tag, par=4):
    """real runs in `par` runner processes.  A run that raised or did not return is repeated once on its own (fork / shared
    memory can fail transiently on a loaded machine); only the second result counts, the first is kept in the notes."""
    res = {}
    with ThreadPoolExecutor(max_workers=par) as ex:
        for r in ex.map(lambda b: bc.run_batch(ctx, b[1], tag=f'{tag}{b[0]}'), list(enumerate(bc.split_batches(jobs, par)))):
            res.update(r)
    again = [j for j in jobs if res[j['id']].get('hung') or res[j['id']].get('raised')]
    if again:
        second = {}
        for j in again[:12]:
            second.update(bc.run_batch(ctx, [j], tag=f'{tag}r'))
        for j in again[:12]:
            a, b = res[j['id']], second[j['id']]
            if not (b.get('hung') or b.get('raised')):
                ctx.notes.append(f"transient failure of a real run (not reproduced on repetition): {str(a.get('raised') or 'no result')[-300:]}")
            res[j['id']] = b
    return res


def case_public(case):
    d = {k: case[k] for k in ('rows', 'cols', 'step', 'box', 'cores', 'nslice', 'mask') if k in case}
    for k in ('naxis', 'cube', 'cube_index', 'bscale', 'write'):
        if case.get(k) is not None and case.get(k) is not False:
            d[k] = case[k]
    return d


def pipeline_compare(ctx, cases, model_ok):
    """whole filter_image with the (max, max-min) statistic: real multi-process runs vs the Coq model. returns #bad"""
    jobs = [case_job(ctx, c, 'maxrange', 'mr') for c in cases]
    t0 = time.time()
    res = run_jobs(ctx, jobs, 'mr')
    ctx.notes.append(f'{len(jobs)} real filter_image runs (patched statistic) in {time.time() - t0:.1f}s')
    exprs = [case_expr(c)[0] for c in cases]
    vals = None
    if model_ok:
        t0 = time.time()
        vals, err = vlib.coq_eval(ctx, bc.PREAMBLE, exprs, shard=max(2, len(exprs) // 12), workers=12)
        ctx.notes.append(f'{len(exprs)} model evaluations (vm_compute) in {time.time() - t0:.1f}s')
        if vals is None:
            ctx.oblige('model evaluation (vm_compute) of Model.BaneFilter.run_maxrange', False, err)
    nbad = nexact = nfar = nfile = 0
    for k, (c, j) in enumerate(zip(cases, jobs)):
        r = res[c['id']]
        pub = case_public(c)
        w = bc.stripe_width(c['rows'], c['cores'], c['nslice'], c['step'])
        nst = -(-c['rows'] // w)
        nontrivial = c['rows'] >= 2 and c['cols'] >= 2
        ctx.case(key=json.dumps([pub, c['pixels']], sort_keys=True) if nontrivial else None,
                 bucket=f"stripes={min(nst, 5)}{'+' if nst > 5 else ''}/naxis={c.get('naxis', 2)}/{'mask' if c['mask'] else 'nomask'}",
                 sample={**pub, 'pixels': '%dx%d small integers' % (c['rows'], c['cols'])} if nontrivial else None)
        full = {'kind': 'correspondence', **pub, 'pixels': c['pixels']}
        if r.get('hung'):
            nbad += 1
            ctx.mismatch('filter_image did not return under the watchdog', pub, impl=r,
                         is_violation={**full, 'kind': 'hang', 'what': f'filter_image did not return within {bc.WATCHDOG}s'})
            continue
        if r['raised']:
            nbad += 1
            ctx.mismatch('filter_image raised', pub, impl=r['raised'], is_violation={**full, 'kind': 'raise', 'what': r['raised']})
            continue
        if r['shape'] != [[c['rows'], c['cols']]] * 2 or r['dtype'] != ['float32', 'float32']:
            nbad += 1
            ctx.mismatch('maps do not have the shape of the image', pub, impl=[r['shape'], r['dtype']],
                         is_violation={**full, 'kind': 'shape', 'what': f"maps {r['shape']} for an image {c['rows']}x{c['cols']}"})
            continue
        b, s = bc.load_maps(j)
        # mask rules at the radius the property states (they do not depend on the statistic): direct oracle on the real run
        if c['mask'] and nontrivial:
            arr = case_array(c)
            blank = ~np.isfinite(arr)
            ry, rx = c['box'][0] // 2 + c['step'][0], c['box'][1] // 2 + c['step'][1]
            viol = (blank & (np.isfinite(b) | np.isfinite(s))) | (far_mask(blank, ry, rx) & (~np.isfinite(b) | ~np.isfinite(s)))
            nfar += int(far_mask(blank, ry, rx).sum())
            if viol.any():
                y, x = [int(v) for v in np.argwhere(viol)[0]]
                nbad += 1
                what = (f'pixel ({y},{x}) is {"blank" if blank[y, x] else f"farther than {ry} rows / {rx} columns from every blank pixel"} '
                        f'but bkg = {b[y, x]}, rms = {s[y, x]}')
                ctx.mismatch('mask rule on the real filter_image', pub, impl=what, is_violation={**full, 'kind': 'maskrule', 'what': what})
                continue
        if vals is None:
            continue
        mb, ms = bc.dec_table(vals[k][0]), bc.dec_table(vals[k][1])
        ex = bc.weights_dyadic(c['rows'], c['cols'], c['step'], w)
        nexact += ex
        msg = bc.compare_map(mb, b, 'bkg', ex) or bc.compare_map(ms, s, 'rms', ex)
        if not msg and j.get('out_base'):
            nfile += 1
            if not r.get('files'):
                msg = f"out_base given but the map files were not written / not readable: {r.get('files_error')}"
            else:
                fb, fs = np.load(j['save'] + '_fbkg.npy'), np.load(j['save'] + '_frms.npy')
                msg = bc.compare_map(mb, fb, 'bkg file', ex) or bc.compare_map(ms, fs, 'rms file', ex)
        if msg:
            nbad += 1
            if nbad <= 3:
                ctx.mismatch('filter_image (statistic = (max, max-min)) differs from Model.BaneFilter', pub, impl=msg,
                             is_violation={**full, 'what': msg + ' [model of the unmodified code vs this implementation, '
                                                                 'BANE.sigmaclip replaced by (max, max-min)]'})
    ctx.notes.append(f'{nfile} pipeline cases ran with out_base: returned maps AND the written _bkg/_rms files (read back with BSCALE applied) '
                     f'compared with the model')
    ctx.notes.append(f'{nexact} of {len(cases)} pipeline cases compared exactly (all interpolation weights dyadic); mask rules at the '
                     f'stated radius box/2+grid checked on the same real runs: {nfar} far pixels are finite in both maps')
    return nbad, (vals is not None)


# ------------------------------------------------------------------------------------------ sigmaclip alone
def gen_clip_array(rng):
    n = rng.randint(1, 80)
    style = rng.choice(['u', 'out', 'const', 'two', 'gauss', 'gauss', 'ramp'])
    if style == 'u':
        return [rng.randint(-50, 50) for _ in range(n)]
    if style == 'out':
        return [rng.randint(-5, 5) for _ in range(n)] + [rng.choice([100, -100, 1000, 37]) for _ in range(rng.randint(1, 3))]
    if style == 'const':
        return [rng.randint(-9, 9)] * n
    if style == 'two':
        return [rng.choice([0, 10]) for _ in range(n)]
    if style == 'ramp':
        return list(range(n)) + [n * 7]
    return [int(round(rng.gauss(100, 15))) for _ in range(n)] + [rng.randint(150, 400) for _ in range(rng.randint(0, 4))]


def clip_compare(ctx, n, model_ok):
    from AegeanTools import BANE
    rng = ctx.rng
    arrs = [gen_clip_array(rng) for _ in range(n)]
    # arrays with non-finite entries: the finite part is what counts
    exprs = [f'clipq {vlib.zlist(a)}' for a in arrs]
    if not model_ok:
        return
    vals, err = vlib.coq_eval(ctx, bc.PREAMBLE, exprs, shard=max(20, n // 10), workers=12)
    if vals is None:
        ctx.oblige('model evaluation (vm_compute) of Lib.Stats.sigmaclip_q', False, err)
        return
    nbad = nskip = 0
    for a, v in zip(arrs, vals):
        (mn, md, vn, vd), mg = v
        m, var, mg = Fraction(mn, md), Fraction(vn, vd), bc.dec(mg)
        ctx.case(key=('clip', tuple(a)) if len(set(a)) > 1 else None, bucket='sigmaclip/n<=%d' % (10 * (len(a) // 10 + 1)))
        if mg is not None and mg < Fraction(1, 10 ** 6):
            nskip += 1
            continue
        arr = np.array(a, dtype=float)
        if rng.random() < 0.3:
            arr = np.concatenate([arr, [np.nan, np.inf][:rng.randint(1, 2)]])
            rng.shuffle(arr)
        im, istd = BANE.sigmaclip(arr, 3, 3)
        ok = abs(im - float(m)) <= 1e-9 * max(1, abs(float(m))) and abs(istd ** 2 - float(var)) <= 1e-9 * max(1, float(var))
        if not ok:
            nbad += 1
            if nbad <= 3:
                ctx.mismatch('BANE.sigmaclip differs from Lib.Stats.sigmaclip_q', {'arr': [None if not np.isfinite(x) else x for x in arr.tolist()]},
                             impl=[float(im), float(istd) ** 2], model=[float(m), float(var)],
                             is_violation={'kind': 'sigmaclip', 'arr': [None if not np.isfinite(x) else x for x in arr.tolist()],
                                           'what': f'sigmaclip(arr, 3, 3) = (mean {im!r}, var {istd ** 2!r}); the model of the unmodified '
                                                   f'code gives (mean {float(m)!r}, var {float(var)!r})'})
        # the statistic is homogeneous (C06_scale at the level of one box): multiplying the samples by a power of two - exact in
        # binary64, also for very small and very large units (2^-40, 2^-34, 2^30) - multiplies mean and std by it
        if ok and float(var) > 0:
            for kexp in (-40, -34, 30):
                k = 2.0 ** kexp
                km, ks = BANE.sigmaclip(arr * k, 3, 3)
                if not (abs(km - im * k) <= 1e-9 * max(abs(im * k), abs(istd * k)) and abs(ks - istd * k) <= 1e-9 * abs(istd * k)):
                    nbad += 1
                    if nbad <= 3:
                        ctx.mismatch('BANE.sigmaclip is not homogeneous', {'arr': [None if not np.isfinite(x) else x for x in arr.tolist()], 'scale': f'2^{kexp}'},
                                     impl=[float(km), float(ks)], model=[float(im * k), float(istd * k)],
                                     is_violation={'kind': 'sigmaclip-scale', 'arr': [None if not np.isfinite(x) else x for x in arr.tolist()], 'kexp': kexp,
                                                   'what': f'sigmaclip(arr * 2^{kexp}) = ({km!r}, {ks!r}) but 2^{kexp} * sigmaclip(arr) = ({im * k!r}, {istd * k!r})'})
                    break
    e = BANE.sigmaclip(np.array([np.nan, np.inf]), 3, 3)
    ctx.oblige('sigmaclip of an array without finite values is (nan, nan)', bool(np.isnan(e[0]) and np.isnan(e[1])), e)
    ctx.oblige(f'correspondence: BANE.sigmaclip = Lib.Stats.sigmaclip_q (mean, variance) to 1e-9 on {n - nskip} integer arrays '
               f'({nskip} discarded by the exact margin test)', nbad == 0, f'{nbad} arrays differ')


# ------------------------------------------------------------------------------------------ library hypothesis
def validate_interpolator(ctx, n):
    from scipy.interpolate import RegularGridInterpolator
    rng = ctx.rng
    nbad = npts = 0
    first = None
    for _ in range(n):
        def axis():
            a, step, ln = rng.randint(0, 9), rng.randint(1, 9), rng.randint(1, 30)
            g = list(range(a, a + ln, step)) + [a + ln]
            return g
        gr, gc = axis(), axis()
        vals = np.array([[rng.choice([rng.randint(-50, 50), rng.random() * 10]) for _ in gc] for _ in gr], dtype=float)
        if rng.random() < 0.5:
            vals[rng.randrange(len(gr)), rng.randrange(len(gc))] = np.nan
        f = RegularGridInterpolator((gr, gc), vals)
        R, C = np.mgrid[gr[0]:gr[-1], gc[0]:gc[-1]]
        got = np.array(f((R, C)), dtype=np.float64)
        for y in range(gr[0], gr[-1]):
            i = max(k for k in range(len(gr) - 1) if gr[k] <= y)
            for x in range(gc[0], gc[-1]):
                j = max(k for k in range(len(gc) - 1) if gc[k] <= x)
                t = (y - gr[i]) / (gr[i + 1] - gr[i])
                u = (x - gc[j]) / (gc[j + 1] - gc[j])
                corners = [vals[i, j], vals[i, j + 1], vals[i + 1, j], vals[i + 1, j + 1]]
                if any(np.isnan(corners)):
                    exp = np.nan
                else:
                    exp = corners[0] * (1 - t) * (1 - u) + corners[1] * (1 - t) * u + corners[2] * t * (1 - u) + corners[3] * t * u
                g = got[y - gr[0], x - gc[0]]
                npts += 1
                if not ((np.isnan(exp) and np.isnan(g)) or abs(g - exp) <= 1e-12 * max(1, abs(exp))):
                    nbad += 1
                    first = first or {'rows': gr, 'cols': gc, 'at': [y, x], 'scipy': float(g), 'bilinear': float(exp)}
    ctx.hyp['RegularGridInterpolator((rows, cols), vals)((r, c)) = bilinear on the cell whose lower node is the largest node <= x; '
            'NaN iff a corner of that cell is NaN'] = npts
    ctx.oblige(f'library hypothesis: RegularGridInterpolator is the bilinear interpolation of the model ({npts} points)', nbad == 0, first)


# ------------------------------------------------------------------------------------------ metamorphic oracles (real sigmaclip)
def quant_noise(rng, rows, cols, blanks=True, sources=True):
    """values are multiples of 2^-6 in (-8, 8) (+ gradient + a few sources): adding 1024 or multiplying by +-2^k is exact in float32"""
    rs = np.random.RandomState(rng.randrange(2 ** 31))
    a = np.clip(np.round(rs.normal(0, 1, size=(rows, cols)) * 64) / 64, -7.9, 7.9)
    gy, gx = rng.randint(-4, 4) / 64.0, rng.randint(-4, 4) / 64.0
    a = a + np.round((gy * np.arange(rows)[:, None] + gx * np.arange(cols)[None, :]) * 64) / 64
    if sources:
        for _ in range(rng.randint(0, 4)):
            a[rng.randrange(rows), rng.randrange(cols)] += rng.choice([16, 40, 100])
    if blanks and rng.random() < 0.7:
        for _ in range(rng.randint(1, 3)):
            r0, c0 = rng.randrange(rows), rng.randrange(cols)
            a[r0:r0 + rng.randint(1, 12), c0:c0 + rng.randint(1, 9)] = np.nan
    if blanks and rng.random() < 0.35:
        # blank pixels of the other kinds: +inf / -inf (saturated or flagged samples), alone or next to NaNs
        for _ in range(rng.randint(1, 4)):
            a[rng.randrange(rows), rng.randrange(cols)] = rng.choice([np.inf, -np.inf])
    return a


def _enc64(v):
    if np.isnan(v):
        return None
    if np.isinf(v):
        return 'inf' if v > 0 else '-inf'
    return int(round(v * 64))


def _dec64(v):
    if v is None:
        return np.nan
    if isinstance(v, str):
        return float(v)
    return v / 64.0


def gen_oracle_case(rng, i, thin_ok=False):
    rows, cols = rng.randint(2, 64), rng.randint(2, 40)
    sr = rng.choice([2, 4, 4, 8, 8, 16])
    sc = sr if rng.random() < 0.7 else rng.choice([2, 4, 8])
    br = rng.randint(max(4, sr), 3 * max(4, sr))
    bcol = br if rng.random() < 0.6 else rng.randint(max(4, sc), 3 * max(4, sc))
    cores = rng.randint(1, 4)
    ns = rng.choice([None, None] + list(range(1, 2 * cores + 1)))
    arr = quant_noise(rng, rows, cols)
    return {'id': i, 'rows': rows, 'cols': cols, 'step': [sr, sc], 'box': [br, bcol], 'cores': cores, 'nslice': ns, 'mask': True,
            'pixels64': [[_enc64(v) for v in r] for r in arr]}


def oracle_array(case):
    return np.array([[_dec64(v) for v in r] for r in case['pixels64']], dtype=float)


def ulp32(x):
    return float(np.spacing(np.float32(abs(x)))) if np.isfinite(x) else 0.0


def far_mask(blank, ry, rx):
    """pixels with no blank pixel within ry rows and rx columns"""
    from scipy.ndimage import maximum_filter
    near = maximum_filter(blank.astype(np.uint8), size=(2 * ry + 1, 2 * rx + 1), mode='constant', cval=0)
    return near == 0


def oracle_jobs(ctx, case, tag):
    """the runs needed by the oracles of one case: base, +1024, *(-2), *0.5, mask off"""
    arr = oracle_array(case)
    variants = {'base': (arr, True), 'shift': (arr + 1024.0, True), 'neg2': (arr * -2.0, True), 'half': (arr * 0.5, True),
                'nomask': (arr, False)}
    jobs = []
    for name, (a, mask) in variants.items():
        p = os.path.join(ctx.work, f'{tag}_{case["id"]}_{name}.fits')
        bc.write_fits_case(p, a)
        jobs.append({'id': f'{case["id"]}:{name}', 'path': p, 'step': case['step'], 'box': case['box'], 'cores': case['cores'],
                     'nslice': case['nslice'], 'mask': mask, 'patch': None, 'save': os.path.join(ctx.work, f'{tag}_{case["id"]}_{name}')})
    return jobs


def oracle_check(case, res, jobs):
    """returns None or (oracle name, message)"""
    arr = oracle_array(case)
    out = {}
    for j in jobs:
        name = j['id'].split(':')[1]
        r = res[j['id']]
        if r.get('hung'):
            return 'terminates', f'filter_image ({name}) did not return within {bc.WATCHDOG}s'
        if r['raised']:
            return 'no exception', f'filter_image ({name}) raised {r["raised"]}'
        out[name] = bc.load_maps(j)
        for m in out[name]:
            if m.shape != arr.shape:
                return 'shape', f'map shape {m.shape} for an image of shape {arr.shape}'
    b, s = [x.astype(np.float64) for x in out['base']]
    fin = np.isfinite(arr)
    blank = ~fin
    # masking
    if np.isfinite(b[blank]).any() or np.isfinite(s[blank]).any():
        y, x = np.argwhere(blank & (np.isfinite(b) | np.isfinite(s)))[0]
        return 'mask_nan', f'input pixel ({y},{x}) is blank but bkg={b[y, x]}, rms={s[y, x]}'
    ry, rx = case['box'][0] // 2 + case['step'][0], case['box'][1] // 2 + case['step'][1]
    far = far_mask(blank, ry, rx)
    badfar = far & (~np.isfinite(b) | ~np.isfinite(s))
    if badfar.any():
        y, x = np.argwhere(badfar)[0]
        return 'mask_far_finite', (f'pixel ({y},{x}) has no blank pixel within {ry} rows / {rx} columns but bkg={b[y, x]}, rms={s[y, x]}')
    if fin.all() and not (np.isfinite(b).all() and np.isfinite(s).all()):
        return 'no_blank', 'image without blank pixels gives maps with blank pixels'
    # bounds
    if fin.any():
        lo, hi = float(np.nanmin(arr[fin])), float(np.nanmax(arr[fin]))
        eps = 4 * ulp32(max(abs(lo), abs(hi), 1.0))
        ok = np.isfinite(b)
        if ok.any() and (b[ok].min() < lo - eps or b[ok].max() > hi + eps):
            return 'bounds', f'bkg range [{b[ok].min()}, {b[ok].max()}] outside the range [{lo}, {hi}] of the finite input'
        ok = np.isfinite(s)
        if ok.any() and (s[ok].min() < 0 or s[ok].max() > hi - lo + eps):
            return 'bounds', f'rms range [{s[ok].min()}, {s[ok].max()}] outside [0, max-min = {hi - lo}]'
    # nomask: identical where finite, and no new blanks
    bn, sn = [x.astype(np.float64) for x in out['nomask']]
    okb, oks = np.isfinite(b), np.isfinite(s)
    if not (np.array_equal(bn[okb], b[okb]) and np.array_equal(sn[oks], s[oks])):
        return 'mask_only_blanks', 'masking changed finite values of the maps'
    # shift
    bs, ss = [x.astype(np.float64) for x in out['shift']]
    if not np.array_equal(np.isfinite(bs), np.isfinite(b)) or not np.array_equal(np.isfinite(ss), np.isfinite(s)):
        return 'shift', 'adding 1024 changed which pixels are blank'
    ok = np.isfinite(b) & np.isfinite(s)
    if ok.any():
        d = np.abs(bs[ok] - b[ok] - 1024.0)
        tol = 4 * ulp32(1100.0)
        if d.max() > tol:
            k = int(np.argmax(d)); y, x = np.argwhere(ok)[k]
            return 'shift', f'image + 1024: bkg({y},{x}) = {bs[y, x]!r} but bkg + 1024 = {b[y, x] + 1024!r}'
        d = np.abs(ss[ok] - s[ok])
        tolr = 1e-4 * max(1.0, float(np.nanmax(s[ok])))
        if d.max() > tolr:
            k = int(np.argmax(d)); y, x = np.argwhere(ok)[k]
            return 'shift', f'image + 1024: rms({y},{x}) changed from {s[y, x]!r} to {ss[y, x]!r}'
    # scale
    for name, kf in (('neg2', -2.0), ('half', 0.5)):
        bk, sk = [x.astype(np.float64) for x in out[name]]
        if not np.array_equal(np.isfinite(bk), np.isfinite(b)) or not np.array_equal(np.isfinite(sk), np.isfinite(s)):
            return 'scale', f'multiplying by {kf} changed which pixels are blank'
        if ok.any():
            d = np.abs(bk[ok] - kf * b[ok])
            tol = 1e-5 * max(1.0, float(np.abs(b[ok]).max()))
            if d.max() > tol:
                k = int(np.argmax(d)); y, x = np.argwhere(ok)[k]
                return 'scale', f'image * {kf}: bkg({y},{x}) = {bk[y, x]!r} but {kf} * bkg = {kf * b[y, x]!r}'
            d = np.abs(sk[ok] - abs(kf) * s[ok])
            if d.max() > tol:
                k = int(np.argmax(d)); y, x = np.argwhere(ok)[k]
                return 'scale', f'image * {kf}: rms({y},{x}) = {sk[y, x]!r} but |{kf}| * rms = {abs(kf) * s[y, x]!r}'
    return None


def run_oracles(ctx, cases, tag, par=4):
    jobs_of = {c['id']: oracle_jobs(ctx, c, tag) for c in cases}
    alljobs = [j for c in cases for j in jobs_of[c['id']]]
    res = run_jobs(ctx, alljobs, tag, par)
    out = []
    for c in cases:
        out.append((c, oracle_check(c, res, jobs_of[c['id']])))
    return out


def sequence_check(ctx, rng, n, tag):
    """two runs in ONE process on the SAME path whose file is replaced in between (other shape, BSCALE, NAXIS): the second result
    must equal the result of a fresh process on the second file - a call must not depend on state left by an earlier call"""
    bad, seqjobs, freshjobs, metas = [], [], [], []
    for i in range(n):
        r1, c1 = rng.randint(6, 30), rng.randint(6, 24)
        r2, c2 = (r1, c1) if rng.random() < 0.5 else (rng.randint(6, 30), rng.randint(6, 24))
        a1 = np.round(np.array([[rng.gauss(20, 2) for _ in range(c1)] for _ in range(r1)]) * 64) / 64
        a2 = np.round(np.array([[rng.gauss(-5, 3) for _ in range(c2)] for _ in range(r2)]) * 64) / 64
        f1 = os.path.join(ctx.work, f'{tag}_{i}_first.fits'); f2 = os.path.join(ctx.work, f'{tag}_{i}_second.fits')
        shared = os.path.join(ctx.work, f'{tag}_{i}_shared.fits')
        k1 = rng.choice([None, 2.0]); k2 = rng.choice([0.5, 4.0, None] if k1 is None else [None, 0.5])
        n2 = rng.choice([2, 3]) if (k1, (r1, c1)) == (k2, (r2, c2)) else rng.choice([2, 2, 3])
        bc.write_fits_case(f1, a1, naxis=2, bscale=k1)
        bc.write_fits_case(f2, a2, naxis=n2, bscale=k2, cube=(0, 2) if n2 == 3 else None)
        sr = rng.choice([2, 4]); br = rng.randint(4, 10); cores = rng.randint(1, 3)
        common = {'step': [sr, sr], 'box': [br, br], 'cores': cores, 'nslice': None, 'mask': True, 'patch': None}
        seqjobs.append([{'id': f'q{i}a', 'path': shared, 'copy_from': f1, 'save': os.path.join(ctx.work, f'{tag}_{i}_a'), **common},
                        {'id': f'q{i}b', 'path': shared, 'copy_from': f2, 'save': os.path.join(ctx.work, f'{tag}_{i}_b'), **common,
                         'cube_index': 0 if n2 == 3 else None}])
        freshjobs.append({'id': f'q{i}f', 'path': f2, 'save': os.path.join(ctx.work, f'{tag}_{i}_f'), **common,
                          'cube_index': 0 if n2 == 3 else None})
        metas.append({'first': {'shape': [r1, c1], 'bscale': k1}, 'second': {'shape': [r2, c2], 'bscale': k2, 'naxis': n2},
                      'step': sr, 'box': br, 'cores': cores})
    for i, (sj, fj, m) in enumerate(zip(seqjobs, freshjobs, metas)):
        rs = bc.run_batch(ctx, sj, tag=f'{tag}s{i}')
        rf = bc.run_batch(ctx, [fj], tag=f'{tag}f{i}')
        a, b, f = rs[sj[0]['id']], rs[sj[1]['id']], rf[fj['id']]
        if any(x.get('hung') or x['raised'] for x in (a, f)):
            continue                                    # a problem of a single run is reported by the other obligations
        if b.get('hung') or b['raised']:
            bad.append((m, f'the second call in the same process failed: {b}'))
            continue
        b2, s2 = bc.load_maps(sj[1]); bf, sf = bc.load_maps(fj)
        if b2.shape != bf.shape or not (np.array_equal(b2, bf, equal_nan=True) and np.array_equal(s2, sf, equal_nan=True)):
            bad.append((m, f'second call on the replaced file differs from a fresh process on that file: shapes {b2.shape} vs {bf.shape}, '
                           f'bkg mean {float(np.nanmean(b2)):.6g} vs {float(np.nanmean(bf)):.6g}'))
    return bad, len(metas)


def constant_check(ctx, rng, n, tag):
    """constant images: bkg = c, rms = 0 (every pixel), with the real sigmaclip"""
    cases, jobs = [], []
    for i in range(n):
        rows, cols = rng.randint(2, 50), rng.randint(2, 30)
        sr = rng.choice([2, 4, 8, 16]); br = rng.randint(max(4, sr), 3 * max(4, sr))
        cores = rng.randint(1, 4); ns = rng.choice([None] + list(range(1, 2 * cores + 1)))
        cval = rng.choice([0.0, 1.0, -3.5, 1000.25, 7.0e4, -2.0 ** -4])
        c = {'id': f'k{i}', 'rows': rows, 'cols': cols, 'step': [sr, sr], 'box': [br, br], 'cores': cores, 'nslice': ns, 'mask': True, 'const': cval}
        p = os.path.join(ctx.work, f'{tag}_{i}.fits')
        bc.write_fits_case(p, np.full((rows, cols), cval))
        jobs.append({'id': c['id'], 'path': p, 'step': c['step'], 'box': c['box'], 'cores': cores, 'nslice': ns, 'mask': True, 'patch': None,
                     'save': os.path.join(ctx.work, f'{tag}_{i}')})
        cases.append(c)
    res = run_jobs(ctx, jobs, tag, 3)
    bad = []
    for c, j in zip(cases, jobs):
        r = res[c['id']]
        if r.get('hung') or r['raised']:
            bad.append((c, f'filter_image failed: {r}'))
            continue
        b, s = bc.load_maps(j)
        cv = c['const']
        if not (np.all(np.abs(b.astype(np.float64) - cv) <= 2 * ulp32(cv) + 1e-30) and np.all(np.abs(s) <= 1e-6 * max(1.0, abs(cv)) * 1e-3)):
            bad.append((c, f'constant image {cv}: bkg in [{np.nanmin(b)}, {np.nanmax(b)}] (nan: {int(np.isnan(b).sum())}), '
                           f'rms max {np.nanmax(s) if np.isfinite(s).any() else "nan"} (nan: {int(np.isnan(s).sum())})'))
    return cases, bad


def thin_image_finding(ctx):
    """recorded finding: a constant image with one row / one column gives all-NaN maps"""
    jobs = []
    for i, (r, c) in enumerate([(1, 9), (9, 1)]):
        p = os.path.join(ctx.work, f'thin_{i}.fits')
        bc.write_fits_case(p, np.full((r, c), 5.0))
        jobs.append({'id': i, 'path': p, 'step': [2, 2], 'box': [4, 4], 'cores': 1, 'nslice': 1, 'mask': True, 'patch': None,
                     'save': os.path.join(ctx.work, f'thin_{i}')})
    res = bc.run_batch(ctx, jobs, tag='thin')
    rep = []
    for j in jobs:
        r = res[j['id']]
        if r.get('hung') or r['raised']:
            rep.append(None)
            continue
        b, s = bc.load_maps(j)
        rep.append(bool(np.isnan(b).all() and np.isnan(s).all()))
    return rep


# ------------------------------------------------------------------------------------------ driver
def run(ctx, model_ok=True):
    quick = ctx.tier == 'quick'
    rng = ctx.rng
    ctx.rule = ('(i) BANE.sigmaclip vs Lib.Stats.sigmaclip_q on integer arrays (uniform, outliers, constant, two-valued, gaussian + '
                'bright tail, ramps, with NaN/inf entries) whose comparisons all stay 1e-6 (relative, on squares) away from their '
                'threshold by an exact margin test in the model; (ii) whole multi-process BANE.filter_image with BANE.sigmaclip '
                'replaced in the runner by (max, max-min) vs Model.BaneFilter.run_maxrange, every pixel of both maps: images 1..70 x '
                '1..24 small integers (random / gradient / constant / spiky), NaN blocks, inf, blank rows, steps 1..16 (also non-square, '
                'non powers of two), box >= max(4, step), cores 1..4, stripes None/1..2*cores, masking on/off, 2-D/3-D/4-D with cube '
                'index, BSCALE; exact where the model value is dyadic, 2^-21 relative otherwise; (iii) metamorphic oracles on the real '
                'filter_image with the real sigmaclip (shape, shift by 1024, scale by -2 and 0.5, bounds, mask rules, constant '
                'images), inputs quantised to 2^-6 so that shift and scale are exact in float32. distinct = distinct (configuration, '
                'pixels); non-trivial = at least 2 rows and 2 columns (pipeline) / at least two different values (sigmaclip).')
    # ---- library hypothesis
    validate_interpolator(ctx, 25 if quick else 200)
    # ---- (i) sigmaclip
    clip_compare(ctx, 300 if quick else 4000, model_ok)
    # ---- stripe layout: closed form of the model vs python ranges, for the widths the source realises
    if model_ok:
        trip = []
        for rows in (list(range(1, 72)) if quick else list(range(1, 140))):
            for ns in (2, 3, 5, 8) if quick else range(2, 9):
                for st in (1, 4, 16) if quick else (1, 2, 3, 4, 8, 16):
                    trip.append((rows, bc.stripe_width(rows, 4, ns, (st, st))))
        trip = sorted(set(trip))
        vals, err = vlib.coq_eval(ctx, bc.PREAMBLE, [f'lay {r} {w}' for r, w in trip], shard=200)
        if vals is None:
            ctx.oblige('model evaluation of the stripe layout', False, err)
        else:
            nb = sum(1 for (r, w), v in zip(trip, vals)
                     if [tuple(x) for x in v] != list(zip(range(0, r, w), list(range(w, r, w)) + [r])))
            ctx.oblige(f'correspondence: stripes of the model = zip(range(0, rows, w), range(w, rows, w) + [rows]) for {len(trip)} '
                       f'(rows, realised width) pairs', nb == 0, f'{nb} differ')
            ctx.evaluations += len(trip)
    # ---- (ii) whole pipeline
    n = 64 if quick else 1200
    cases = [gen_pipeline_case(rng, i) for i in range(n)]
    cdir = os.path.join(vlib.VERIF, 'corpus', 'C06')
    if os.path.isdir(cdir):
        for f in sorted(os.listdir(cdir)):
            with open(os.path.join(cdir, f)) as fh:
                c = json.load(fh)
            c['id'] = len(cases)
            cases.append(c)
    nbad, compared = pipeline_compare(ctx, cases, model_ok)
    if compared:
        ctx.oblige(f'correspondence: {len(cases)} multi-process filter_image runs (statistic (max, max-min)) equal the model at every '
                   f'pixel of both maps', nbad == 0, f'{nbad} runs differ')
        ctx.traces = len(cases)
    else:
        ctx.oblige(f'{len(cases)} filter_image runs return maps of the image shape without exception', nbad == 0, f'{nbad} failed')
    # ---- (iii) oracles with the real sigmaclip
    t0 = time.time()
    ocases = [gen_oracle_case(rng, i) for i in range(10 if quick else 150)]
    nb = 0
    for c, bad in run_oracles(ctx, ocases, 'or'):
        pub = case_public(c)
        ctx.case(key=json.dumps([pub, c['pixels64']], sort_keys=True), bucket='oracle/real sigmaclip')
        if bad:
            nb += 1
            small = shrink_oracle(ctx, c, bad[0]) if nb <= 3 else (c, bad)
            if small is None:
                nb -= 1
                ctx.notes.append(f'oracle {bad[0]} failed once and held on repetition (transient): {bad[1][:200]}')
                continue
            if nb <= 3:
                msg = small[1]
                ctx.mismatch(f'oracle {msg[0]} on the real filter_image', case_public(small[0]), impl=msg[1],
                             is_violation={'kind': 'oracle', 'oracle': msg[0], **case_public(small[0]), 'pixels64': small[0]['pixels64'],
                                           'what': msg[1]})
    ctx.oblige(f'oracles (shape, shift, scale, bounds, mask rules) hold on {len(ocases)} images x 5 real runs', nb == 0, f'{nb} images fail')
    kc, kbad = constant_check(ctx, rng, 6 if quick else 40, 'kc')
    for c, msg in kbad[:2]:
        ctx.mismatch('constant image', c, impl=msg, is_violation={'kind': 'constant', **c, 'what': msg})
    ctx.oblige(f'constant images give bkg = c and rms = 0 ({len(kc)} real runs)', not kbad, kbad[:1])
    ctx.evaluations += len(kc)
    sbad, nseq = sequence_check(ctx, rng, 3 if quick else 20, 'sq')
    for m, msg in sbad[:2]:
        ctx.mismatch('two calls in one process on a replaced file', m, impl=msg, is_violation={'kind': 'sequence', **m, 'what': msg})
    ctx.oblige(f'a call does not depend on an earlier call in the same process: {nseq} (run, replace the file at the same path, run) '
               f'sequences equal a fresh process bit for bit', not sbad, sbad[:1])
    ctx.evaluations += nseq
    ctx.notes.append(f'oracle runs with the real sigmaclip in {time.time() - t0:.1f}s')
    # ---- Gaussian noise (statistics: validated, not proved)
    gauss_validation(ctx)
    # ---- recorded finding
    thin = thin_image_finding(ctx)
    if any(t for t in thin if t):
        listed = [t for k, t in vlib.known_findings('C06') if k == 'finding' and ('single row' in t or 'one row' in t)]
        ctx.notes.append('constant 1x9 / 9x1 images give all-NaN maps (every box slice is empty): ' + ('recorded finding' if listed else
                         'NOT yet listed in known_findings.txt; excluded from the theorems by 2 <= rows, cols (Refuted/C06_thin.v)'))
        for t in listed:
            ctx.known_lines.append(t)
    else:
        ctx.notes.append('single-row / single-column images no longer give all-NaN maps')
    # ---- command line tie: the argument glue of AegeanTools/CLI vs the library call that --help promises
    from harness import cli_cases
    cli_cases.hook(ctx, cli_cases.bane_cli, 'BANE')


def gauss_validation(ctx):
    rs = np.random.RandomState(ctx.seed % (2 ** 31))
    m, sd = 10.0, 2.0
    arr = rs.normal(m, sd, size=(160, 160))
    p = os.path.join(ctx.work, 'gauss.fits')
    bc.write_fits_case(p, arr)
    job = {'id': 'g', 'path': p, 'step': [8, 8], 'box': [48, 48], 'cores': 2, 'nslice': 2, 'mask': True, 'patch': None,
           'save': os.path.join(ctx.work, 'gauss')}
    r = bc.run_batch(ctx, [job], tag='g')['g']
    if r.get('hung') or r['raised']:
        ctx.oblige('Gaussian noise image runs', False, r)
        return
    b, s = bc.load_maps(job)
    nbox = 48 * 48
    db, ds = float(np.abs(b - m).max()), float(np.abs(s / sd - 1).max())
    ctx.notes.append(f'Gaussian noise m=10 s=2 (160x160, box 48): max |bkg - m| = {db:.3f} ({db / (sd / np.sqrt(nbox)):.1f} standard errors), '
                     f'max |rms/s - 1| = {ds:.3f}; clipping at 3 sigma biases rms low by about 1.3%')
    ctx.oblige('validated (not proved): for stationary Gaussian noise the maps equal m and s within 12 standard errors of a full box '
               '(boxes at the image corners hold a quarter of the pixels; + the 3-sigma clipping bias of the rms)',
               db <= 12 * sd / np.sqrt(nbox) and ds <= 12 / np.sqrt(2 * nbox) + 0.03,
               f'dbkg {db} drms {ds}')


def shrink_oracle(ctx, case, oracle):
    """fewer rows / columns while the same oracle still fails"""
    cur = case
    res = run_oracles(ctx, [cur], 'sh0', 2)[0][1]
    if res is None:
        return None
    best = (cur, res)
    for it in range(6):
        arr = cur['pixels64']
        cands = []
        if len(arr) > 4:
            cands.append([r for r in arr[:len(arr) // 2 + 1]])
            cands.append([r for r in arr[len(arr) // 2 - 1:]])
        if len(arr[0]) > 4:
            cands.append([r[:len(r) // 2 + 1] for r in arr])
            cands.append([r[len(r) // 2 - 1:] for r in arr])
        found = False
        for k, px in enumerate(cands):
            c2 = dict(cur, pixels64=px, rows=len(px), cols=len(px[0]), id=f's{it}{k}')
            r2 = run_oracles(ctx, [c2], f'sh{it}{k}', 2)[0][1]
            if r2 and r2[0] == best[1][0]:
                cur, best, found = c2, (c2, r2), True
                break
        if not found:
            break
    return best


def scale_problem(arr, kexp):
    from AegeanTools import BANE
    k = 2.0 ** kexp
    im, istd = BANE.sigmaclip(arr, 3, 3)
    km, ks = BANE.sigmaclip(arr * k, 3, 3)
    if not (np.isfinite(im) and np.isfinite(istd)) or istd == 0:
        return None
    if not (abs(km - im * k) <= 1e-9 * max(abs(im * k), abs(istd * k)) and abs(ks - istd * k) <= 1e-9 * abs(istd * k)):
        return f'sigmaclip(arr * 2^{kexp}) = ({km!r}, {ks!r}) but 2^{kexp} * sigmaclip(arr) = ({im * k!r}, {istd * k!r})'
    return None


def homogeneity_problem(rng, n):
    """sigmaclip(k arr) = k sigmaclip(arr) for exact powers of two, on integer arrays with outliers (no model needed)"""
    for _ in range(n):
        arr = np.array(gen_clip_array(rng), dtype=float)
        for kexp in (-40, -34, 30):
            msg = scale_problem(arr, kexp)
            if msg:
                return {'kind': 'sigmaclip-scale', 'arr': arr.tolist(), 'kexp': kexp, 'what': msg}
    return None


def search(ctx):
    """metamorphic oracles on the real code, structured random configurations"""
    rng = ctx.rng
    t0 = time.time()
    kc, kbad = constant_check(ctx, rng, 8, 'skc')
    if kbad:
        c, msg = kbad[0]
        return {'kind': 'constant', **c, 'what': msg}
    hb = homogeneity_problem(rng, 300)
    if hb:
        return hb
    i = 0
    while time.time() - t0 < 140:
        cases = [gen_oracle_case(rng, f'q{i}_{k}') for k in range(8)]
        i += 1
        for c, bad in run_oracles(ctx, cases, f'se{i}'):
            sm = shrink_oracle(ctx, c, bad[0]) if bad else None
            if sm:
                small, msg = sm
                return {'kind': 'oracle', 'oracle': msg[0], **case_public(small), 'pixels64': small['pixels64'], 'what': msg[1]}
    return None


def replay(ctx, obj):
    fi = obj.get('failing_input')
    if not fi:
        print('replay file has no concrete input; broken obligations were:')
        for b in obj.get('broken', []):
            print('  ', b.get('what'), str(b.get('detail', b.get('case', '')))[:400])
        return 1
    if fi.get('kind') == 'cli':
        from harness import cli_cases
        return cli_cases.replay_cli(ctx, fi)
    kind = fi.get('kind')
    if kind == 'sigmaclip':
        from AegeanTools import BANE
        arr = np.array([np.nan if v is None else v for v in fi['arr']], dtype=float)
        print('implementation: sigmaclip ->', BANE.sigmaclip(arr, 3, 3))
        vals, err = vlib.coq_eval(ctx, bc.PREAMBLE, [f'clipq {vlib.zlist([int(v) for v in arr if np.isfinite(v)])}'])
        if vals:
            (mn, md, vn, vd), _ = vals[0]
            m, var = Fraction(mn, md), Fraction(vn, vd)
            print('model: mean', float(m), 'variance', float(var))
            im, istd = BANE.sigmaclip(arr, 3, 3)
            return 0 if abs(im - float(m)) <= 1e-9 * max(1, abs(float(m))) and abs(istd ** 2 - float(var)) <= 1e-9 * max(1, float(var)) else 1
        return 1
    if kind == 'sigmaclip-scale':
        arr = np.array([np.nan if v is None else v for v in fi['arr']], dtype=float)
        msg = scale_problem(arr, fi['kexp'])
        print('implementation:', msg or 'sigmaclip is homogeneous on this array')
        return 1 if msg else 0
    if kind == 'oracle':
        c = dict(fi, id='r')
        bad = run_oracles(ctx, [c], 'rp', 2)[0][1]
        print('implementation:', f'oracle {bad[0]} fails: {bad[1]}' if bad else 'all oracles hold on this input')
        return 1 if bad else 0
    if kind == 'constant':
        c = dict(fi)
        p = os.path.join(ctx.work, 'rk.fits')
        bc.write_fits_case(p, np.full((c['rows'], c['cols']), c['const']))
        job = {'id': 'rk', 'path': p, 'step': c['step'], 'box': c['box'], 'cores': c['cores'], 'nslice': c['nslice'], 'mask': True, 'patch': None,
               'save': os.path.join(ctx.work, 'rk')}
        r = bc.run_batch(ctx, [job], tag='rk')['rk']
        if r.get('hung') or r['raised']:
            print('implementation:', r)
            return 1
        b, s = bc.load_maps(job)
        ok = np.all(np.abs(b.astype(np.float64) - c['const']) <= 2 * ulp32(c['const']) + 1e-30) and np.all(np.abs(s) <= 1e-9 * max(1.0, abs(c['const'])))
        print('implementation: bkg range', float(np.nanmin(b)) if np.isfinite(b).any() else 'nan', float(np.nanmax(b)) if np.isfinite(b).any() else 'nan',
              'rms max', float(np.nanmax(s)) if np.isfinite(s).any() else 'nan')
        return 0 if ok else 1
    # correspondence / hang / raise / shape on a pipeline case
    c = dict(fi, id=0)
    nbad, _ = pipeline_compare(ctx, [c], True)
    for f in ctx.failures:
        print('implementation vs model:', f.get('what'), str(f.get('impl'))[:500])
    if not nbad:
        print('implementation agrees with the model on this input')
    return 1 if nbad else 0
