"""Shared by C02 / C11 / C13: images for find_islands, implementation runner, model terms, oracle."""
import math
import warnings

import numpy as np

import vlib

IMPORTS = ("From Coq Require Import ZArith List Bool.\nFrom Aegean Require Import Gen.Islands Lib.Graph Model.IslandModel.\n"
           "Import ListNotations.\nOpen Scope Z_scope.\n")

CLIPS = [(4, 1), (5, 1), (3, 1), (7, 2), (9, 2), (5, 2), (6, 1), (10, 3), (1, 1), (2, 1)]


def gen_image(rng, shape=None, style=None):
    """integer-valued im / bkg / rms (rms > 0) with NaNs; returns dict with arrays and clips (fractions)"""
    if shape is None:
        shape = (rng.randint(1, 14), rng.randint(1, 14))
    R, C = shape
    fl = rng.choice(CLIPS)
    sd = rng.choice([c for c in CLIPS if c[0] * fl[1] >= fl[0] * c[1]])
    style = style or rng.choice(['blobs', 'blobs', 'levels', 'ring', 'lshape', 'diag', 'noise'])
    rms = np.full(shape, float(rng.choice([1, 2, 3])))
    if rng.random() < 0.3:
        rms = np.array([[float(rng.choice([1, 2, 3, 4])) for _ in range(C)] for _ in range(R)])
    bkg = np.full(shape, float(rng.choice([0, 0, 5, -3, 100])))
    if rng.random() < 0.3:
        bkg = bkg + np.array([[float(rng.randint(-2, 2)) for _ in range(C)] for _ in range(R)])
    # snr levels: multiples of 1/ (fd*sd) around the thresholds -> exact ties at both thresholds
    f = fl[0] / fl[1]
    s = sd[0] / sd[1]
    levels = [0, 1, f - 1, f, f, f + 0.5, s, s, s + 0.5, s + 3, 2 * s]

    def lvl():
        return max(0.0, rng.choice(levels))
    snr = np.zeros(shape)
    sign = np.ones(shape)
    if style == 'noise':
        for r in range(R):
            for c in range(C):
                snr[r, c] = lvl()
                sign[r, c] = rng.choice([1, -1])
    elif style == 'levels':
        for r in range(R):
            for c in range(C):
                snr[r, c] = rng.choice([0, 0, 0, f, f, s, s + 1])
    else:
        nb = rng.randint(1, 4)
        for _ in range(nb):
            r0, c0 = rng.randrange(R), rng.randrange(C)
            sg = rng.choice([1, 1, -1])
            peak = rng.choice([f, f + 0.5, s, s + 0.5, s + 2])
            if style == 'ring':
                for dr in range(-2, 3):
                    for dc in range(-2, 3):
                        if max(abs(dr), abs(dc)) == 2 and 0 <= r0 + dr < R and 0 <= c0 + dc < C:
                            snr[r0 + dr, c0 + dc] = f
                if 0 <= r0 < R and 0 <= c0 < C:
                    snr[r0, c0] = s + 2
            elif style == 'lshape':
                ln = rng.randint(2, 6)
                for k in range(ln):
                    if r0 + k < R:
                        snr[r0 + k, c0] = f
                        sign[r0 + k, c0] = sg
                    if c0 + k < C:
                        snr[min(R - 1, r0 + ln - 1), c0 + k] = f
                        sign[min(R - 1, r0 + ln - 1), c0 + k] = sg
                # a bright pixel of ANOTHER island inside the L's bounding box
                rr, cc = r0 + rng.randint(0, 1), c0 + rng.randint(2, 4)
                if rr < R and cc < C:
                    snr[rr, cc] = s + 3
                if rng.random() < 0.4 and r0 + ln - 1 < R:
                    snr[r0 + ln - 1, c0] = s + 1
            elif style == 'diag':
                for k in range(rng.randint(2, 5)):
                    if r0 + k < R and c0 + k < C:
                        snr[r0 + k, c0 + k] = peak if k == 0 else f
                        sign[r0 + k, c0 + k] = sg
            else:
                h, w = rng.randint(1, 3), rng.randint(1, 4)
                for dr in range(h):
                    for dc in range(w):
                        if r0 + dr < R and c0 + dc < C:
                            snr[r0 + dr, c0 + dc] = rng.choice([f, f, f + 0.5, peak])
                            sign[r0 + dr, c0 + dc] = sg
                if rng.random() < 0.7 and r0 < R and c0 < C:
                    snr[r0, c0] = peak
    # integer image: |im - bkg| = snr * rms must be an integer -> scale rms by the denominators
    den = fl[1] * sd[1] * 2
    rms = rms * den
    im = bkg + sign * np.round(snr * rms)
    # zeros: a pixel value of exactly 0 with bkg != 0
    if rng.random() < 0.3:
        r, c = rng.randrange(R), rng.randrange(C)
        im[r, c] = 0.0
    # NaN blocks in any of the three maps
    for arr in (im, im, bkg, rms):
        if rng.random() < 0.35:
            r0, c0 = rng.randrange(R), rng.randrange(C)
            arr[r0:r0 + rng.randint(1, 3), c0:c0 + rng.randint(1, 3)] = np.nan
    return {'im': im, 'bkg': bkg, 'rms': rms, 'flood': fl, 'seed': sd}


def case_json(case):
    def a(x):
        return [[None if not math.isfinite(v) else int(v) for v in row] for row in x.tolist()]
    return {'im': a(case['im']), 'bkg': a(case['bkg']), 'rms': a(case['rms']), 'flood': list(case['flood']),
            'seed': list(case['seed'])}


def case_from_json(j):
    def a(x):
        return np.array([[np.nan if v is None else float(v) for v in row] for row in x], dtype=float)
    return {'im': a(j['im']), 'bkg': a(j['bkg']), 'rms': a(j['rms']), 'flood': tuple(j['flood']), 'seed': tuple(j['seed'])}


def run_impl(case, region=None, wcs=None):
    """returns sorted list of (bbox tuple, sorted unmasked pixels)"""
    from AegeanTools.source_finder import find_islands
    fl, sd = case['flood'], case['seed']
    with warnings.catch_warnings():
        warnings.simplefilter('ignore')
        isl = find_islands(case['im'].copy(), case['bkg'].copy(), case['rms'].copy(), seed_clip=sd[0] / sd[1],
                           flood_clip=fl[0] / fl[1], region=region, wcs=wcs)
    out = []
    for i in isl:
        (r0, r1), (c0, c1) = [tuple(int(v) for v in b) for b in i.bounding_box]
        m = np.asarray(i.mask)
        if m.shape != (r1 - r0, c1 - c0):
            out.append(((r0, r1, c0, c1), 'mask shape %s' % (m.shape,)))
            continue
        px = sorted((r0 + int(a), c0 + int(b)) for a, b in zip(*np.where(~m)))
        out.append(((r0, r1, c0, c1), px))
    return sorted(out, key=lambda t: (t[1][0] if isinstance(t[1], list) and t[1] else (-1, -1), t[0]))


def oracle(case, inside=None):
    """independent flood fill: expected sorted list of (tight bbox, sorted pixels)"""
    im, bkg, rms = case['im'], case['bkg'], case['rms']
    fl, sd = case['flood'], case['seed']
    R, C = im.shape
    ok = np.zeros((R, C), bool)
    seed = np.zeros((R, C), bool)
    for r in range(R):
        for c in range(C):
            if math.isfinite(im[r, c]) and math.isfinite(bkg[r, c]) and math.isfinite(rms[r, c]):
                n, d = abs(int(im[r, c]) - int(bkg[r, c])), int(rms[r, c])
                ok[r, c] = n * fl[1] >= fl[0] * d
                seed[r, c] = n * sd[1] > sd[0] * d
    seen = np.zeros((R, C), bool)
    out = []
    for r in range(R):
        for c in range(C):
            if ok[r, c] and not seen[r, c]:
                st, comp = [(r, c)], []
                seen[r, c] = True
                while st:
                    a, b = st.pop()
                    comp.append((a, b))
                    for da in (-1, 0, 1):
                        for db in (-1, 0, 1):
                            x, y = a + da, b + db
                            if 0 <= x < R and 0 <= y < C and ok[x, y] and not seen[x, y]:
                                seen[x, y] = True
                                st.append((x, y))
                if any(seed[p] for p in comp):
                    if inside is not None and not any(inside(q[1] + 1, q[0] + 1) for q in comp):
                        continue
                    rs = [p[0] for p in comp]
                    cs = [p[1] for p in comp]
                    out.append(((min(rs), max(rs) + 1, min(cs), max(cs) + 1), sorted(comp)))
    return sorted(out, key=lambda t: (t[1][0], t[0]))


def g_image(case):
    im, bkg, rms = case['im'], case['bkg'], case['rms']

    def o(v):
        return 'None' if not math.isfinite(v) else f'(Some {vlib.zlit(int(v))})'
    rows = []
    for r in range(im.shape[0]):
        rows.append('[' + '; '.join(f'mkPixel {o(im[r, c])} {o(bkg[r, c])} {o(rms[r, c])}' for c in range(im.shape[1])) + ']')
    return '[' + '; '.join(rows) + ']'


def g_clip(c):
    return f'(mkClip {c[0]} {c[1]})'


def canon_model(v):
    """model obs value -> comparable list of (bbox, own pixels sorted, unmasked sorted)"""
    out = []
    for t in v:
        r0, r1, c0, c1, own, unm = t
        out.append(((r0, r1, c0, c1), sorted(tuple(p) for p in own), sorted(tuple(p) for p in unm)))
    return sorted(out, key=lambda t: (t[1][0] if t[1] else (-1, -1), t[0]))
