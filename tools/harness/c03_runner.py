"""fresh-process run of the real finder for C03: python c03_runner.py '<json args>' -> one line RESULT <json>"""
import json
import os
import sys
import warnings

warnings.simplefilter('ignore')
sys.path.insert(0, os.path.dirname(os.path.dirname(os.path.abspath(__file__))))
from harness import c03_common as cc  # noqa: E402


def main():
    a = json.loads(sys.argv[1])
    out = []
    for job in a['jobs']:
        try:
            if job['mode'] == 'blind':
                comps, isles = cc.run_blind(job['path'], doislandflux=job.get('island', False))
            else:
                with open(job['cat']) as fh:
                    cat = json.load(fh)
                comps, isles = cc.run_priorized(job['path'], cat, job['stage'], job['regroup'])
            out.append({'ok': True, 'comps': comps, 'isles': isles})
        except Exception as e:  # noqa
            import traceback
            out.append({'ok': False, 'error': f'{type(e).__name__}: {e}', 'trace': traceback.format_exc()[-1500:]})
    print('RESULT ' + json.dumps(out))


if __name__ == '__main__':
    main()
