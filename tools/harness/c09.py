"""C09 - circle and polygon regions cover their shape and nothing far from it."""
import math
import time

import numpy as np

import vlib
from vlib import rlit
from harness import c09x

GEN = ['SkyCoords', 'Regions'] + c09x.GEN_EXTRA
EXTRA_TARGETS = c09x.EXTRA_TARGETS
LEVEL = 'proof'
K_ALLOWED = 3.0
TRUSTED = [
    'Coq 8.16.1 kernel + Interval tactic; the real-number axioms of the standard library as listed by Print Assumptions',
    'translator tools/points_c09.py: symbolic execution of the column swap and `pi/2 - col0` of sky2ang on a row (ra, dec); '
    'argument order / flags / depth of the hp.ang2vec, hp.ang2pix, hp.query_disc, hp.query_polygon calls; degin block, mask '
    'expression, fill value, masked result; depth clamp of add_circles / add_poly; every matcher fails closed',
    'hand-written Model/SkyCoords.v (composition of the generated leaves with the C08 region model) - tied by interval-certified '
    'correspondence of sky2ang / sky2vec / vec2sky / the angles handed to ang2pix, and by exact correspondence of the mask / '
    'degin / NaN logic with hp.ang2pix replaced by a table',
    'healpy 1.20 (HEALPix C++): enters the theorems only through hypotheses H0-H6, P0-P2, H4b (Model/SkyCoordsSpec.v); each is '
    'sampled against the real library on every run, with cell membership read from healpy.vec2pix / healpy.boundaries',
    'the area measure of the sphere (Mu_mono, Mu_cells, Mu_cap) is a premise of C09_area_between_caps_partial, not constructed; '
    'the area inequality itself is checked on the real Region on every run',
    'the independent great-circle distance atan2(|u x v|, u.v) and the tangent-plane point generator of this harness',
]
ASSUMPTIONS = [
    'positions have -pi/2 <= dec <= pi/2 (healpy raises outside); radii 0.01..60 deg; depths 3..12; the number of deepest-level '
    'pixels of a test region is kept below about 3e5 (large radii are paired with shallow depths)',
    'probes closer than 1e-12 rad to the boundaries r and r + 3 pixel sizes are not classified (binary64 round-off of the '
    'coordinate conversions)',
    'pixel size = sqrt(4 pi / (12 * 4^d)) of the insertion depth d (healpy.nside2resol); for polygons the circle is a '
    '(near-)smallest circle containing the vertices, of radius < 90 deg',
    'library hypotheses hold on the sampled inputs only; measured overshoot of inclusive queries is reported (k_disc, k_poly)',
    'binary64 round-off of each compared conversion is bounded by 1e-14 absolute (values are O(1) .. O(360))',
]

TRUSTED = TRUSTED + c09x.TRUSTED_EXTRA
ASSUMPTIONS = ASSUMPTIONS + c09x.ASSUMPTIONS_EXTRA

HEADER = ("From Coq Require Import Reals ZArith Bool List.\nFrom Interval Require Import Tactic.\n"
          "From Aegean Require Import Lib.RBase Gen.SkyCoords Model.RegionModel Model.SkyCoords.\n"
          "Import ListNotations.\nOpen Scope R_scope.\n"
          "Definition hp0 : healpy := mkHealpy dirvec (fun _ => (0, 0)) (fun _ _ _ _ => 0%Z) "
          "(fun _ _ _ _ _ => []) (fun _ _ _ _ => []).\n"
          "Definition vx (v : vec) := fst (fst v). Definition vy (v : vec) := snd (fst v). Definition vz (v : vec) := snd v.\n"
          "Ltac go := cbv [hp0 vx vy vz sky2vec sky2ang ang2vec dirvec sky2ang_theta sky2ang_phi sky2vec_theta_first "
          "vec2sky_ra vec2sky_dec vec2sky_ra_degrees vec2sky_dec_degrees degin_conv within_angles a_theta a_phi a_mask "
          "row_mask mask_negated_all_finite mask_fill omap omap2 finite oval fst snd negb andb rad deg]; "
          "interval with (i_prec 128).")
IMPORTS = ("From Coq Require Import ZArith Bool List.\nFrom Aegean Require Import Gen.SkyCoords Model.RegionModel Model.SkyCoords.\n"
           "Import ListNotations.\nOpen Scope Z_scope.\n")
TOL = '(1 / 10 ^ 14)'
TWO_PI = 2 * math.pi


# ------------------------------------------------------------------------------------------
# independent spherical geometry (never through the code under test)
def unit(ra, dec):
    ra, dec = np.asarray(ra, float), np.asarray(dec, float)
    return np.stack([np.cos(dec) * np.cos(ra), np.cos(dec) * np.sin(ra), np.sin(dec)], axis=-1)


def adist(u, v):
    c = np.cross(u, v)
    return np.arctan2(np.sqrt((c * c).sum(-1)), (u * v).sum(-1))


def sky_of(v):
    v = np.asarray(v, float)
    ra = np.arctan2(v[..., 1], v[..., 0]) % TWO_PI
    dec = np.arctan2(v[..., 2], np.hypot(v[..., 0], v[..., 1]))
    return ra, dec


def basis(c):
    a = np.array([0.0, 0.0, 1.0]) if abs(c[2]) < 0.9 else np.array([1.0, 0.0, 0.0])
    e1 = np.cross(a, c)
    e1 /= np.linalg.norm(e1)
    e2 = np.cross(c, e1)
    return e1, e2


def offset(c, rho, alpha):
    """points at angular distance rho from the unit vector c in directions alpha"""
    e1, e2 = basis(c)
    rho, alpha = np.asarray(rho, float), np.asarray(alpha, float)
    return (np.cos(rho)[..., None] * c + np.sin(rho)[..., None] *
            (np.cos(alpha)[..., None] * e1 + np.sin(alpha)[..., None] * e2))


def dirvec_py(theta, phi):
    return np.array([math.sin(theta) * math.cos(phi), math.sin(theta) * math.sin(phi), math.cos(theta)])


def pixsize(d):
    return math.sqrt(4 * math.pi / (12 * 4 ** d))


def cap(r):
    return TWO_PI * (1 - math.cos(min(r, math.pi)))


def eff_depth(depth, D):
    return D if depth is None or depth > D else depth


def enclosing_circle(vs, iters=200):
    """a near-smallest circle containing the unit vectors vs (Badoiu-Clarkson); any result is a valid
    containing circle since the radius is the maximum distance"""
    c = vs.mean(0)
    c /= np.linalg.norm(c)
    for i in range(1, iters):
        far = vs[np.argmax(adist(vs, c))]
        c = c + (far - c) / (i + 1)
        c /= np.linalg.norm(c)
    return c, float(adist(vs, c).max())


def inside_poly(vs, v):
    """v strictly on the inner side of every edge (either orientation); margin in units of sin(distance)"""
    nxt = np.roll(vs, -1, axis=0)
    n = np.cross(vs, nxt)
    n /= np.linalg.norm(n, axis=1)[:, None]
    s = v @ n.T            # (nprobe, nedge) signed sines of the distance to each edge
    return np.minimum(np.abs(s.min(1)), np.abs(s.max(1))) * (np.sign(s.min(1)) == np.sign(s.max(1))), s


# ------------------------------------------------------------------------------------------
# the property's statement on the real Region
def _call_within(reg, ras, decs, degin, scalar):
    if degin:
        ras, decs = np.degrees(ras), np.degrees(decs)
    if scalar:
        out = []
        for a, b in zip(ras, decs):
            r = reg.sky_within(float(a), float(b), degin=degin)
            if np.shape(r) != (1,):
                return None, f'sky_within(scalar) returned shape {np.shape(r)}'
            out.append(bool(r[0]))
        return np.array(out), None
    r = reg.sky_within(np.array(ras), np.array(decs), degin=degin)
    if np.shape(r) != (len(ras),):
        return None, f'sky_within(vector of {len(ras)}) returned shape {np.shape(r)}'
    return np.asarray(r, bool), None


def circle_problem(p, nprobe=40, seed=0):
    """None if the property holds for this circle, else a dict describing the violation"""
    from AegeanTools.regions import Region
    rs = np.random.RandomState(seed)
    D, depth, r = p['maxdepth'], p['depth'], p['r']
    d = eff_depth(depth, D)
    px = pixsize(d)
    reg = Region(maxdepth=D)
    if p.get('vector_centre'):
        reg.add_circles([p['ra']], [p['dec']], [r], depth=depth)
    else:
        reg.add_circles(p['ra'], p['dec'], r, depth=depth)
    c = unit(p['ra'], p['dec'])
    far_lim = r + K_ALLOWED * px
    rho = np.concatenate([[0.0, r * (1 - 1e-9), r * (1 - 1e-6)], r * np.sqrt(rs.uniform(0, 1, nprobe)),
                          [min(far_lim * (1 + 1e-6) + 1e-9, math.pi), min(far_lim + 0.5 * px, math.pi)],
                          np.minimum(far_lim + px * 10 ** rs.uniform(-2, 2, nprobe // 2), math.pi),
                          rs.uniform(0, math.pi, nprobe // 4)])
    alpha = rs.uniform(0, TWO_PI, len(rho))
    alpha[1:3] = rs.choice([0, math.pi / 2, math.pi, 1.5 * math.pi], 2)
    pr, pd = sky_of(offset(c, rho, alpha))
    if p.get('wrap'):                       # the same positions written with ra just below 2 pi / negative ra
        pr = np.where(pr < 1e-3, pr + TWO_PI * (rs.rand(len(pr)) < 0.5), pr)
    dist = adist(unit(pr, pd), c)            # recomputed from the coordinates actually passed
    got, err = _call_within(reg, pr, pd, p['degin'], p['scalar'])
    if err:
        return dict(p, what=err)
    for i in range(len(pr)):
        if dist[i] <= r - 1e-12 and not got[i]:
            return dict(p, probe=[float(pr[i]), float(pd[i])], distance=float(dist[i]),
                        what=f'position at distance {float(dist[i])!r} <= radius {r!r} of the centre is reported outside')
        if dist[i] > far_lim + 1e-12 and got[i]:
            return dict(p, probe=[float(pr[i]), float(pd[i])], distance=float(dist[i]),
                        what=f'position at distance {float(dist[i])!r} > radius + 3 pixel sizes = {far_lim!r} is reported inside')
    # NaN positions are never inside
    for a, b in ((math.nan, p['dec']), (p['ra'], math.nan), (math.inf, p['dec'])):
        g, err = _call_within(reg, np.array([a, p['ra']]), np.array([b, p['dec']]), False, False)
        if err or g[0] or not g[1]:
            return dict(p, probe=[a, b], what=f'non-finite position ({a}, {b}) next to the centre: answers {g} (want [False, True]) {err}')
    area = reg.get_area(degrees=False)
    if not (cap(r) * (1 - 1e-9) <= area <= cap(far_lim) * (1 + 1e-9)):
        return dict(p, area=area, what=f'area {area!r} sr is not between the caps {cap(r)!r} and {cap(far_lim)!r}')
    return None


def make_poly(rs, cra, cdec, rho, n):
    """convex n-gon: n points on the small circle of radius rho about (cra, cdec), in azimuth order"""
    while True:
        az = np.sort(rs.uniform(0, TWO_PI, n))
        gaps = np.diff(np.concatenate([az, [az[0] + TWO_PI]]))
        if gaps.min() > 0.25 and gaps.max() < math.pi - 0.2:
            break
    v = offset(unit(cra, cdec), np.full(n, rho), az)
    ra, dec = sky_of(v)
    return [[float(a), float(b)] for a, b in zip(ra, dec)]


def poly_problem(p, nprobe=40, seed=0):
    from AegeanTools.regions import Region
    rs = np.random.RandomState(seed)
    D, depth = p['maxdepth'], p['depth']
    d = eff_depth(depth, D)
    px = pixsize(d)
    pos = np.array(p['positions'], float)
    vs = unit(pos[:, 0], pos[:, 1])
    reg = Region(maxdepth=D)
    reg.add_poly([list(x) for x in p['positions']], depth=depth)
    c, rho = enclosing_circle(vs)
    far_lim = rho + K_ALLOWED * px
    n = len(vs)
    w = rs.dirichlet(np.ones(n) * 0.7, nprobe)                       # interior: convex combinations
    w = np.vstack([w, np.eye(n) * 0.98 + 0.02 / n, np.full((1, n), 1.0 / n)])
    inner = w @ vs
    inner /= np.linalg.norm(inner, axis=1)[:, None]
    rho_out = np.concatenate([[min(far_lim * (1 + 1e-6) + 1e-9, math.pi)],
                              np.minimum(far_lim + px * 10 ** rs.uniform(-2, 2, nprobe // 2), math.pi),
                              rs.uniform(0, math.pi, nprobe // 2)])
    outer = offset(c, rho_out, rs.uniform(0, TWO_PI, len(rho_out)))
    allv = np.vstack([inner, outer])
    pr, pd = sky_of(allv)
    pv = unit(pr, pd)
    margin, _ = inside_poly(vs, pv)
    dist = adist(pv, c)
    got, err = _call_within(reg, pr, pd, p['degin'], p['scalar'])
    if err:
        return dict(p, what=err)
    for i in range(len(pr)):
        if i < len(inner) and margin[i] > 1e-12 and not got[i]:
            return dict(p, probe=[float(pr[i]), float(pd[i])],
                        what=f'interior position (sin of distance to the nearest edge {margin[i]!r}) is reported outside')
        if dist[i] > far_lim + 1e-12 and got[i]:
            return dict(p, probe=[float(pr[i]), float(pd[i])], distance=float(dist[i]),
                        what=f'position {dist[i]!r} from the centre of the containing circle (radius {rho!r}) > radius + 3 pixel '
                             f'sizes = {far_lim!r} is reported inside')
    return None


def gen_circle(rng, k=None):
    """structured stream: poles, RA wrap, all depths, both units, scalar and vector"""
    D = rng.choice([3, 4, 5, 6, 7, 8, 9, 10, 11, 12])
    depth = rng.choice([None, None, D, max(3, D - 1), max(3, D - 2), D + 1])
    d = eff_depth(depth, D)
    pxD = pixsize(D)
    # radius: 0.01 .. 60 deg, limited so that the deepest-level pixel count stays below ~3e5
    rmax = min(math.radians(60), 300 * pxD)
    rmin = math.radians(0.01)
    r = math.exp(rng.uniform(math.log(rmin), math.log(max(rmax, rmin * 1.01))))
    if rng.random() < 0.15:
        r = rng.choice([rmin, rmax, min(rmax, math.radians(1.0))])
    ra = rng.choice([0.0, TWO_PI - 1e-9, TWO_PI - 1e-3, math.pi / 2, rng.uniform(0, TWO_PI), rng.uniform(0, TWO_PI)])
    dec = rng.choice([math.pi / 2, -math.pi / 2, 0.0, math.asin(2 / 3), rng.uniform(-math.pi / 2, math.pi / 2),
                      rng.uniform(-math.pi / 2, math.pi / 2), math.pi / 2 - r / 2])
    return {'kind': 'circle', 'ra': ra, 'dec': dec, 'r': r, 'depth': depth, 'maxdepth': D,
            'degin': rng.random() < 0.5, 'scalar': rng.random() < 0.4, 'vector_centre': rng.random() < 0.3,
            'wrap': rng.random() < 0.5}


def gen_poly(rng):
    D = rng.choice([3, 4, 5, 6, 7, 8, 9, 10, 11, 12])
    depth = rng.choice([None, None, D, max(3, D - 1), D + 2])
    pxD = pixsize(D)
    rmax = min(math.radians(50), 250 * pxD)
    rmin = max(math.radians(0.02), 0.5 * pxD)
    rho = math.exp(rng.uniform(math.log(rmin), math.log(max(rmax, rmin * 1.01))))
    cra = rng.choice([0.0, TWO_PI - 1e-6, rng.uniform(0, TWO_PI), rng.uniform(0, TWO_PI)])
    cdec = rng.choice([math.pi / 2, -math.pi / 2, 0.0, rng.uniform(-math.pi / 2, math.pi / 2),
                       rng.uniform(-math.pi / 2, math.pi / 2)])
    n = rng.choice([3, 3, 4, 4, 5, 6, 7, 8])
    rs = np.random.RandomState(rng.randrange(2 ** 31))
    return {'kind': 'poly', 'positions': make_poly(rs, cra, cdec, rho, n), 'depth': depth, 'maxdepth': D,
            'degin': rng.random() < 0.5, 'scalar': rng.random() < 0.3}


def convert_problem(p):
    """sky2vec / vec2sky against the independent unit-vector formula (vec2sky to 1e-7: healpy.vec2ang uses acos)"""
    from AegeanTools.regions import Region
    ra, dec = p['ra'], p['dec']
    u = unit(ra, dec)
    v = np.asarray(Region.sky2vec(np.array([[ra, dec]])), float)
    if v.shape != (1, 3) or not np.allclose(v[0], u, rtol=0, atol=1e-14):
        return dict(p, what=f'sky2vec gives {v.tolist()} for (ra, dec) = ({ra!r}, {dec!r}); the unit vector is {u.tolist()}')
    if abs(dec) < math.pi / 2 - 1e-6:
        for degrees in (False, True):
            s = np.asarray(Region.vec2sky(u * p.get('scale', 1.0), degrees=degrees), float)
            want = np.array([ra % TWO_PI, dec]) * (180 / math.pi if degrees else 1.0)
            if s.shape != (1, 2):
                return dict(p, what=f'vec2sky returns shape {s.shape}')
            full = 360.0 if degrees else TWO_PI
            dra = abs((s[0, 0] - want[0] + full / 2) % full - full / 2)
            tol = 1e-7 * (180 / math.pi if degrees else 1.0)
            if dra * math.cos(dec) > tol or abs(s[0, 1] - want[1]) > tol:
                return dict(p, what=f'vec2sky(unit vector of ({ra!r}, {dec!r}), degrees={degrees}) = {s[0].tolist()}, want {want.tolist()}')
    return None


def gen_convert(rng):
    return {'kind': 'convert', 'ra': rng.choice([0.0, TWO_PI - 1e-9, rng.uniform(0, TWO_PI), rng.uniform(0, TWO_PI)]),
            'dec': rng.choice([0.0, math.pi / 2, -math.pi / 2, rng.uniform(-math.pi / 2, math.pi / 2), rng.uniform(-1.5, 1.5)]),
            'scale': rng.choice([1.0, 1.0, 3.0])}


def problem(p, seed=0):
    try:
        if p['kind'] == 'convert':
            return convert_problem(p)
        return circle_problem(p, seed=seed) if p['kind'] == 'circle' else poly_problem(p, seed=seed)
    except Exception as e:  # the implementation raised on a valid input
        return dict(p, what=f'raised {type(e).__name__}: {e}')


def shrink(p, seed):
    """simplify a failing case while it keeps failing"""
    best = problem(p, seed)
    if p['kind'] == 'convert':
        cands = [dict(scale=1.0), dict(ra=1.0), dict(dec=0.5)]
    elif p['kind'] == 'circle':
        cands = [dict(scalar=False), dict(degin=False), dict(vector_centre=False), dict(wrap=False), dict(depth=None),
                 dict(maxdepth=4, depth=None), dict(maxdepth=3, depth=None), dict(ra=0.0), dict(dec=0.0),
                 dict(ra=1.0, dec=0.5), dict(r=round(p['r'], 2) or 0.01)]
    else:
        cands = [dict(scalar=False), dict(degin=False), dict(depth=None), dict(maxdepth=4, depth=None)]
    for cnd in cands:
        q = dict(p)
        q.update(cnd)
        m = problem(q, seed)
        if m:
            p, best = q, m
    return best


# ------------------------------------------------------------------------------------------
# validation of the hypotheses about healpy
def _in_cell_polygon(hp, nside, pix, v, px):
    """is v inside the boundary polygon of pixel pix (gnomonic projection about the pixel centre)?
    returns (inside, distance to the boundary in pixel sizes)"""
    b = hp.boundaries(nside, int(pix), step=8, nest=True).T          # (32, 3)
    c = np.array(hp.pix2vec(nside, int(pix), nest=True))
    e1, e2 = basis(c)

    def proj(w):
        w = np.atleast_2d(w)
        z = w @ c
        return np.stack([(w @ e1) / z, (w @ e2) / z], -1)
    P = proj(b)
    q = proj(v)[0]
    x, y = P[:, 0], P[:, 1]
    xn, yn = np.roll(x, -1), np.roll(y, -1)
    cond = (y > q[1]) != (yn > q[1])
    with np.errstate(divide='ignore', invalid='ignore'):
        xi = x + (q[1] - y) * (xn - x) / (yn - y)
    inside = bool(np.sum(cond & (q[0] < xi)) % 2)
    # distance to the polygon edges
    ex, ey = xn - x, yn - y
    t = np.clip(((q[0] - x) * ex + (q[1] - y) * ey) / (ex * ex + ey * ey), 0, 1)
    dmin = np.sqrt(((x + t * ex - q[0]) ** 2 + (y + t * ey - q[1]) ** 2).min())
    return inside, dmin / px


def validate_healpy(ctx, quick):
    import healpy as hp
    rs = np.random.RandomState(ctx.rng.randrange(2 ** 31))
    n = 400 if quick else 4000
    special_theta = [0.0, math.pi, math.pi / 2, math.acos(2 / 3), math.acos(-2 / 3)]
    special_phi = [0.0, TWO_PI - 1e-9, math.pi / 2, math.pi, TWO_PI - 1e-12]
    theta = np.concatenate([np.arccos(rs.uniform(-1, 1, n)), np.repeat(special_theta, len(special_phi)),
                            rs.uniform(0, 1e-6, 20), math.pi - rs.uniform(0, 1e-6, 20)])
    phi = np.concatenate([rs.uniform(0, TWO_PI, n), np.tile(special_phi, len(special_theta)), rs.uniform(0, TWO_PI, 40)])
    dirv = np.stack([np.sin(theta) * np.cos(phi), np.sin(theta) * np.sin(phi), np.cos(theta)], -1)

    # H4 (numeric; a subset is certified through interval lemmas in run()) and H4b, H4c
    v = hp.ang2vec(theta, phi)
    ok = bool(np.abs(v - dirv).max() < 1e-15)
    ctx.hyp['H4 ang2vec(theta, phi) = (sin theta cos phi, sin theta sin phi, cos theta)'] = len(theta)
    ctx.oblige('library hypothesis H4: healpy.ang2vec is the direction of (theta, phi)', ok, float(np.abs(v - dirv).max()))
    m = (theta > 1e-3) & (theta < math.pi - 1e-3) & (phi < TWO_PI - 1e-8)
    t2, p2 = hp.vec2ang(v[m])
    e = max(np.abs(t2 - theta[m]).max(), np.abs(p2 - phi[m]).max())
    ctx.hyp['H4b vec2ang(ang2vec(theta, phi)) = (theta, phi), 0 < theta < pi, 0 <= phi < 2 pi'] = int(m.sum())
    ctx.oblige('library hypothesis H4b: healpy.vec2ang inverts ang2vec on the principal range', e < 1e-9, e)
    t3, p3 = hp.vec2ang(dirv)
    e = np.abs(hp.ang2vec(t3, p3) - dirv).max()
    ctx.hyp['H4c ang2vec(vec2ang(v)) = v for unit v'] = len(dirv)
    # healpy.vec2ang takes theta = acos(z): near the poles it is only accurate to sqrt(eps) ~ 1.5e-8
    ctx.oblige('library hypothesis H4c: healpy.ang2vec inverts vec2ang on unit vectors (to 1e-7)', e < 1e-7, e)
    # recorded anomaly of healpy (not of AegeanTools): at z = 2/3 exactly and phi one ulp below 2 pi (or -1e-15) ang2pix
    # returns a pixel ~55 deg away; such directions are outside the validated domain of H3
    pa = hp.ang2pix(256, math.acos(2 / 3), float(np.nextafter(TWO_PI, 0)), nest=True)
    ctx.extra['healpy_anomaly_z=2/3_phi=2pi-ulp'] = bool(
        adist(np.array(hp.pix2vec(256, pa, nest=True)), dirvec_py(math.acos(2 / 3), 0.0)) > hp.max_pixrad(256))

    # H3: the direction lies in the cell of the returned pixel (boundary polygon from healpy.boundaries), H5: nesting
    depths = list(range(1, 13))
    pix = {d: hp.ang2pix(2 ** d, theta, phi, nest=True) for d in depths}
    bad5 = []
    for d in depths:
        for D in depths:
            if d <= D:
                w = np.nonzero(pix[D] // 4 ** (D - d) != pix[d])[0]
                if len(w):
                    bad5.append((d, D, float(theta[w[0]]), float(phi[w[0]])))
    ctx.hyp['H5 ang2pix(2^D) // 4^(D-d) = ang2pix(2^d), nest, 1 <= d <= D <= 12'] = len(theta) * 78
    ctx.oblige('library hypothesis H5: nested numbering - the depth-d pixel of a direction is the ancestor of its depth-D pixel',
               not bad5, bad5[:3])
    bad3, n3, nskip = [], 0, 0
    idx = rs.choice(len(theta), 300 if quick else 3000, replace=False)
    idx = np.concatenate([idx, np.arange(n, len(theta))])
    for i in idx:
        d = int(rs.choice([3, 4, 5, 6, 8, 10, 12]))
        ns = 2 ** d
        p = int(pix[d][i])
        ctr = np.array(hp.pix2vec(ns, p, nest=True))
        if adist(ctr, dirv[i]) > hp.max_pixrad(ns) * (1 + 1e-9):
            bad3.append(('farther than max_pixrad from the pixel centre', d, float(theta[i]), float(phi[i])))
            continue
        ins, db = _in_cell_polygon(hp, ns, p, dirv[i], pixsize(d))
        if db < 2e-3:
            nskip += 1          # on / next to a cell boundary: closed cells, either side is fine
            continue
        n3 += 1
        if not ins:
            bad3.append(('outside the boundary polygon of the pixel', d, float(theta[i]), float(phi[i])))
    ctx.hyp['H3 direction inside the healpy.boundaries polygon of ang2pix(direction) (and within max_pixrad of its centre)'] = n3
    ctx.oblige('library hypothesis H3: ang2pix returns the pixel whose cell contains the direction', not bad3 and n3 > 50, bad3[:3])

    # H0, H1, H2 (discs) ; H6 (cells nested) on the boundary points used for H2
    kmax, nd, n1, n2, n6 = 0.0, 0, 0, 0, 0
    bad0, bad1, bad2, bad6 = [], [], [], []
    ncirc = 60 if quick else 600
    for it in range(ncirc):
        d = int(rs.choice(range(3, 13)))
        ns, px = 2 ** d, pixsize(d)
        r = math.radians(10 ** rs.uniform(-2, math.log10(60)))
        r = min(r, 150 * px)
        if it % 7 == 0:
            r = max(r, math.radians(0.01))
        ra = float(rs.choice([0.0, TWO_PI - 1e-9, rs.uniform(0, TWO_PI)]))
        dec = float(rs.choice([math.pi / 2, -math.pi / 2, rs.uniform(-math.pi / 2, math.pi / 2), rs.uniform(-math.pi / 2, math.pi / 2)]))
        c = unit(ra, dec)
        got = hp.query_disc(ns, c, r, inclusive=True, nest=True)
        nd += 1
        if not (got.dtype.kind == 'i' and len(got) and got.min() >= 0 and got.max() < 12 * 4 ** d):
            bad0.append((d, ra, dec, r))
        s = set(got.tolist())
        rho = np.concatenate([[0.0, r * (1 - 1e-9)], r * np.sqrt(rs.uniform(0, 1, 60)), np.full(20, r * (1 - 1e-9))])
        pv = offset(c, rho, rs.uniform(0, TWO_PI, len(rho)))
        keep = adist(pv, c) <= r
        pp = hp.vec2pix(ns, pv[keep, 0], pv[keep, 1], pv[keep, 2], nest=True)
        n1 += int(keep.sum())
        miss = [int(q) for q in pp if int(q) not in s]
        if miss:
            bad1.append((d, ra, dec, r, miss[:3]))
        sel = got if len(got) <= 3000 else rs.choice(got, 3000, replace=False)
        b = hp.boundaries(ns, sel, step=2, nest=True)                   # (npix, 3, 8)
        b = np.moveaxis(b, 1, 2).reshape(-1, 3)
        dm = float(adist(b, c).max())
        n2 += len(b)
        k = (dm - r) / px
        kmax = max(kmax, k)
        if k > K_ALLOWED:
            bad2.append((d, ra, dec, r, k))
        # H6: the corners / edge points of a depth-d cell lie in (the closure of) its depth-(d-j) ancestor:
        # nudged towards the centre of the small cell they must be numbered as descendants of the ancestor
        j = int(rs.choice([1, 2, 3]))
        if d - j >= 1:
            sub = sel[:200]
            bb = hp.boundaries(ns, sub, step=1, nest=True)              # (n, 3, 4)
            cc = np.array(hp.pix2vec(ns, sub, nest=True)).T[:, :, None]
            nud = bb + 1e-6 * (cc - bb)
            nud /= np.linalg.norm(nud, axis=1)[:, None, :]
            anc = hp.vec2pix(2 ** (d - j), nud[:, 0, :], nud[:, 1, :], nud[:, 2, :], nest=True)
            n6 += anc.size
            w = np.nonzero(anc != (sub // 4 ** j)[:, None])
            if len(w[0]):
                bad6.append((d, j, int(sub[w[0][0]])))
    ctx.hyp['H0 query_disc(inclusive, nest) returns integer pixel numbers in [0, 12*4^d)'] = nd
    ctx.oblige('library hypothesis H0: query_disc returns valid pixel numbers', not bad0, bad0[:3])
    ctx.hyp['H1 the pixel of every sampled direction within r of the centre is returned by query_disc(inclusive=True)'] = n1
    ctx.oblige('library hypothesis H1: inclusive query_disc returns every pixel that meets the disc', not bad1, bad1[:3])
    ctx.hyp[f'H2 every boundary point of every returned pixel lies within r + {K_ALLOWED:g} pixel sizes of the centre'] = n2
    ctx.oblige(f'library hypothesis H2: query_disc returns nothing reaching beyond r + {K_ALLOWED:g} pixel sizes '
               f'(measured overshoot k = {kmax:.3f})', not bad2, bad2[:3])
    ctx.hyp['H6 corners of a cell (nudged inwards) are numbered as descendants of its ancestors'] = n6
    ctx.oblige('library hypothesis H6: HEALPix cells are nested', not bad6 and n6 > 0, bad6[:3])
    ctx.extra['k_disc_measured'] = round(kmax, 4)

    # P0-P2 (polygons)
    kpmax, npoly, np1, np2 = 0.0, 0, 0, 0
    badp0, badp1, badp2 = [], [], []
    for it in range(40 if quick else 400):
        d = int(rs.choice(range(3, 13)))
        ns, px = 2 ** d, pixsize(d)
        rho = math.radians(10 ** rs.uniform(-1.5, math.log10(50)))
        rho = max(min(rho, 120 * px), 0.5 * px)
        cra = float(rs.choice([0.0, TWO_PI - 1e-6, rs.uniform(0, TWO_PI)]))
        cdec = float(rs.choice([math.pi / 2, -math.pi / 2, rs.uniform(-math.pi / 2, math.pi / 2), rs.uniform(-math.pi / 2, math.pi / 2)]))
        nv = int(rs.choice([3, 4, 5, 6, 7, 8]))
        pos = np.array(make_poly(rs, cra, cdec, rho, nv))
        vs = unit(pos[:, 0], pos[:, 1])
        try:
            got = hp.query_polygon(ns, vs, inclusive=True, nest=True)
        except Exception as e:
            badp0.append((d, pos.tolist(), f'raised {e}'))
            continue
        npoly += 1
        if not (got.dtype.kind == 'i' and len(got) and got.min() >= 0 and got.max() < 12 * 4 ** d):
            badp0.append((d, pos.tolist(), 'invalid pixel numbers'))
        s = set(got.tolist())
        w = rs.dirichlet(np.ones(nv) * 0.6, 60)
        inner = w @ vs
        inner /= np.linalg.norm(inner, axis=1)[:, None]
        mg, _ = inside_poly(vs, inner)
        inner = inner[mg > 1e-12]
        pp = hp.vec2pix(ns, inner[:, 0], inner[:, 1], inner[:, 2], nest=True)
        np1 += len(pp)
        miss = [int(q) for q in pp if int(q) not in s]
        if miss:
            badp1.append((d, pos.tolist(), miss[:3]))
        c, rr = enclosing_circle(vs)
        sel = got if len(got) <= 3000 else rs.choice(got, 3000, replace=False)
        b = hp.boundaries(ns, sel, step=2, nest=True)
        b = np.moveaxis(b, 1, 2).reshape(-1, 3)
        k = (float(adist(b, c).max()) - rr) / px
        np2 += len(b)
        kpmax = max(kpmax, k)
        if k > K_ALLOWED:
            badp2.append((d, pos.tolist(), k))
    ctx.hyp['P0 query_polygon(inclusive, nest) accepts convex 3..8-gons and returns valid pixel numbers'] = npoly
    ctx.oblige('library hypothesis P0: query_polygon returns valid pixel numbers', not badp0, badp0[:2])
    ctx.hyp['P1 the pixel of every sampled interior direction (convex combination of the vertices) is returned'] = np1
    ctx.oblige('library hypothesis P1: inclusive query_polygon returns every pixel that meets the polygon', not badp1, badp1[:2])
    ctx.hyp[f'P2 every boundary point of every returned pixel lies within {K_ALLOWED:g} pixel sizes of a containing circle'] = np2
    ctx.oblige(f'library hypothesis P2: query_polygon returns nothing reaching beyond the containing circle + {K_ALLOWED:g} pixel '
               f'sizes (measured overshoot k = {kpmax:.3f})', not badp2, badp2[:2])
    ctx.extra['k_poly_measured'] = round(kpmax, 4)
    # pixel size / area conventions used in the statements
    e = max(abs(hp.nside2resol(2 ** d) - pixsize(d)) / pixsize(d) for d in range(1, 13))
    e2 = max(abs(hp.nside2pixarea(2 ** d) - 4 * math.pi / (12 * 4 ** d)) for d in range(1, 13))
    ctx.oblige('library convention: nside2resol(2^d) = sqrt(4 pi / (12 4^d)), nside2pixarea(2^d) = 4 pi / (12 4^d)',
               e < 1e-12 and e2 < 1e-15, (e, e2))


# ------------------------------------------------------------------------------------------
# correspondence model <-> implementation
class _HpProxy:
    """healpy with ang2pix replaced by a table (records what it is called with)"""

    def __init__(self, real, table):
        self._real, self._table, self.calls = real, table, []

    def __getattr__(self, name):
        return getattr(self._real, name)

    def ang2pix(self, nside, theta, phi, nest=False, **kw):
        theta, phi = np.array(theta, float), np.array(phi, float)
        self.calls.append((nside, theta.copy(), phi.copy(), nest, kw))
        return np.array(self._table[:len(theta)], dtype=np.int64)


def stub_cases(ctx, quick):
    """sky_within with healpy.ang2pix stubbed: returns (list of cases, interval goals, metas)"""
    from AegeanTools import regions
    import healpy as real_hp
    rng = ctx.rng
    cases, goals, metas = [], [], []
    nfmt = lambda x: None if not math.isfinite(x) else x  # noqa: E731
    for k in range(30 if quick else 300):
        D = rng.choice([3, 4, 6, 9, 12])
        npix = 12 * 4 ** D
        dem = sorted({rng.randrange(npix) for _ in range(rng.randint(1, 6))})
        scalar = k % 5 == 0
        n = 1 if scalar else rng.randint(1, 7)
        degin = rng.random() < 0.5
        scale = 180 / math.pi if degin else 1.0
        ras, decs, table = [], [], []
        for i in range(n):
            c = rng.random()
            ra = rng.choice([0.0, rng.uniform(0, TWO_PI), TWO_PI - 1e-9, rng.uniform(-1, 7)]) * scale
            dec = rng.choice([math.pi / 2, -math.pi / 2, rng.uniform(-1.5, 1.5)]) * scale
            if abs(ra / scale - (math.pi / 2 - dec / scale)) < 1e-2:
                ra += 0.3 * scale
            if c < 0.15:
                ra = math.nan
            elif c < 0.3:
                dec = math.nan
            elif c < 0.36:
                ra = dec = math.nan
            elif c < 0.42:
                ra = rng.choice([math.inf, -math.inf])
            elif c < 0.48:
                dec = rng.choice([math.inf, -math.inf])
            ras.append(ra)
            decs.append(dec)
            table.append(rng.choice(dem) if rng.random() < 0.6 else rng.randrange(npix))
        reg = regions.Region(maxdepth=D)
        reg.add_pixels(dem, D)
        proxy = _HpProxy(real_hp, table)
        old = regions.hp
        regions.hp = proxy
        res, exc = None, None
        try:
            if scalar:
                res = reg.sky_within(ras[0], decs[0], degin=degin)
            else:
                res = reg.sky_within(np.array(ras), np.array(decs), degin=degin)
        except Exception as e:
            exc = repr(e)
        finally:
            regions.hp = old
        case = {'D': D, 'dem': dem, 'ras': ras, 'decs': decs, 'degin': degin, 'scalar': scalar, 'table': table}
        ok_call = (exc is None and len(proxy.calls) == 1 and proxy.calls[0][0] == 2 ** D and proxy.calls[0][3] is True
                   and not proxy.calls[0][4] and len(proxy.calls[0][1]) == n and np.shape(res) == (n,))
        case['impl'] = None if not ok_call else [bool(x) for x in res]
        case['call_ok'] = ok_call
        if exc:
            case['why'] = 'raised ' + exc
        if ok_call:
            th, ph = proxy.calls[0][1], proxy.calls[0][2]
            case['theta'], case['phi'] = th.tolist(), ph.tolist()
            b = 'true' if degin else 'false'
            for i in range(n):
                co = lambda x: f'(Some {rlit(x)})' if math.isfinite(x) else 'None'  # noqa: E731
                row = f'({co(ras[i])}, {co(decs[i])})'
                if not (math.isfinite(th[i]) and math.isfinite(ph[i])):
                    case['impl'] = None
                    case['call_ok'] = False
                    case['why'] = f'non-finite angle handed to ang2pix in row {i}'
                    break
                goals.append(f'Goal Rabs (a_theta (within_angles {b} {row}) - {rlit(th[i])}) <= {TOL}. Proof. go. Qed.')
                metas.append(('theta handed to ang2pix by sky_within', {'ra': nfmt(ras[i]), 'dec': nfmt(decs[i]), 'degin': degin}, float(th[i])))
                goals.append(f'Goal Rabs (a_phi (within_angles {b} {row}) - {rlit(ph[i])}) <= {TOL}. Proof. go. Qed.')
                metas.append(('phi handed to ang2pix by sky_within', {'ra': nfmt(ras[i]), 'dec': nfmt(decs[i]), 'degin': degin}, float(ph[i])))
        cases.append(case)
    return cases, goals, metas


def conversion_goals(ctx, quick):
    from AegeanTools.regions import Region
    import healpy as hp
    rng = ctx.rng
    goals, metas = [], []
    pts = [(0.0, math.pi / 2), (0.0, -math.pi / 2), (TWO_PI - 1e-9, 0.3), (0.0, 0.0)]
    for _ in range(16 if quick else 120):
        ra, dec = rng.uniform(-0.5, TWO_PI + 0.5), rng.uniform(-math.pi / 2, math.pi / 2)
        if abs(ra - (math.pi / 2 - dec)) < 1e-2:
            ra += 0.3
        pts.append((ra, dec))
    for ra, dec in pts:
        sky = np.array([[ra, dec]])
        try:
            tp = Region.sky2ang(sky)
            vec = Region.sky2vec(sky)
        except Exception as e:
            ctx.mismatch('sky2ang / sky2vec raised on a valid position', {'ra': ra, 'dec': dec}, impl=repr(e),
                         is_violation={'kind': 'convert', 'what': f'sky2vec raised {e!r} for the valid position', 'ra': ra, 'dec': dec})
            continue
        if not np.array_equal(sky, np.array([[ra, dec]])):
            ctx.mismatch('sky2ang modifies its argument', {'ra': ra, 'dec': dec},
                         is_violation={'kind': 'convert', 'what': 'sky2ang modified its input array', 'ra': ra, 'dec': dec})
        a = f'{rlit(ra)} {rlit(dec)}'
        for nm, val in (('sky2ang_theta', tp[0, 0]), ('sky2ang_phi', tp[0, 1])):
            goals.append(f'Goal Rabs ({nm} {a} - {rlit(val)}) <= {TOL}. Proof. go. Qed.')
            metas.append((f'Region.sky2ang column {nm[8:]}', {'ra': ra, 'dec': dec}, float(val)))
        for nm, val in zip(('vx', 'vy', 'vz'), vec[0]):
            goals.append(f'Goal Rabs ({nm} (sky2vec hp0 ({rlit(ra)}, {rlit(dec)})) - {rlit(val)}) <= {TOL}. Proof. go. Qed.')
            metas.append((f'Region.sky2vec component {nm[1]}', {'ra': ra, 'dec': dec}, float(val)))
        # H4 certified: healpy.ang2vec at the angles sky2ang produced
        av = hp.ang2vec(tp[0, 0], tp[0, 1])
        for nm, val in zip(('vx', 'vy', 'vz'), av):
            goals.append(f'Goal Rabs ({nm} (dirvec {rlit(tp[0, 0])} {rlit(tp[0, 1])}) - {rlit(val)}) <= {TOL}. Proof. go. Qed.')
            metas.append((f'healpy.ang2vec component {nm[1]} (hypothesis H4)', {'theta': float(tp[0, 0]), 'phi': float(tp[0, 1])}, float(val)))
        # vec2sky: healpy.vec2ang is the table, the rest is the model
        v = vec[0] * rng.choice([1.0, 1.0, 2.5])
        th, ph = hp.vec2ang(v)
        for degrees in (False, True):
            try:
                out = Region.vec2sky(v, degrees=degrees)
            except Exception as e:
                out = repr(e)
            if np.shape(out) != (1, 2):
                ctx.mismatch('vec2sky shape', {'vec': v.tolist()}, impl=str(np.shape(out)),
                             is_violation={'kind': 'convert', 'what': f'vec2sky returned {out!r:.200}', 'vec': v.tolist()})
                continue
            mra = f'vec2sky_ra {rlit(th[0])} {rlit(ph[0])}'
            mdec = f'vec2sky_dec {rlit(th[0])} {rlit(ph[0])}'
            if degrees:
                mra, mdec = f'vec2sky_ra_degrees ({mra})', f'vec2sky_dec_degrees ({mdec})'
            for nm, m, val in (('ra', mra, out[0, 0]), ('dec', mdec, out[0, 1])):
                goals.append(f'Goal Rabs ({m} - {rlit(val)}) <= (1 / 10 ^ 12). Proof. go. Qed.')
                metas.append((f'Region.vec2sky {nm} (degrees={degrees})', {'vec': v.tolist(), 'theta,phi from healpy': [float(th[0]), float(ph[0])]},
                              float(val)))
    return goals, metas


def run(ctx, model_ok=True):
    quick = ctx.tier == 'quick'
    rng = ctx.rng
    ctx.rule = ('(a) certified correspondence: every output of Region.sky2ang / sky2vec / vec2sky and every (theta, phi) handed to '
                'hp.ang2pix by sky_within at generic positions (ra != pi/2 - dec by > 0.01, poles, ra = 0 and 2 pi - 1e-9, both '
                'units) against the generated Coq definitions through interval lemmas; (b) exact correspondence of the mask / degin '
                '/ NaN / scalar-vector logic of sky_within with hp.ang2pix replaced by a table, against Model.SkyCoords.within_logic '
                '(vm_compute); (c) hypotheses H0-H6, P0-P2 sampled against healpy; (d) the property itself on real Regions: circles '
                'and convex polygons at poles / RA wrap / depths 3..12 / degin / scalar, probes classified by an independent '
                'great-circle distance. distinct = distinct (shape, depth, units, input kind) configurations and positions.')
    from AegeanTools import regions  # noqa: F401
    # ---- (c) hypotheses
    validate_healpy(ctx, quick)
    # ---- (a) conversions
    goals, metas = conversion_goals(ctx, quick)
    # ---- (b) stubbed logic
    cases, g2, m2 = stub_cases(ctx, quick)
    goals += g2
    metas += m2
    nbad = 0
    exprs = []
    for cs in cases:
        key = ('stub', cs['D'], cs['degin'], cs['scalar'], tuple(math.isfinite(a) and math.isfinite(b) for a, b in zip(cs['ras'], cs['decs'])))
        ctx.case(key=key, bucket='stubbed sky_within', sample={k: cs[k] for k in ('D', 'ras', 'decs', 'degin', 'scalar')} if len(ctx.samples) < 2 else None)
        if not cs['call_ok']:
            nbad += 1
            ctx.mismatch('sky_within does not call hp.ang2pix(2**maxdepth, theta, phi, nest=True) exactly once with one angle pair per row',
                         {k: cs[k] for k in ('D', 'ras', 'decs', 'degin', 'scalar')}, impl=cs.get('why'))
            continue
        fins = '[' + '; '.join(f"({'true' if math.isfinite(a) else 'false'}, {'true' if math.isfinite(b) else 'false'})"
                               for a, b in zip(cs['ras'], cs['decs'])) + ']'
        exprs.append((cs, f"within_logic {fins} {vlib.zlist(cs['table'])} {vlib.zlist(cs['dem'])}"))
    if model_ok and exprs:
        vals, err = vlib.coq_eval(ctx, IMPORTS, [e for _, e in exprs])
        if vals is None:
            ctx.oblige('model evaluation of within_logic', False, err)
        else:
            for (cs, _), v in zip(exprs, vals):
                mres = [bool(x[1]) for x in v]
                mmask = [bool(x[0]) for x in v]
                imask = [not (math.isfinite(a) and math.isfinite(b)) for a, b in zip(cs['ras'], cs['decs'])]
                # rows the implementation zero-filled are exactly the model's masked rows (fill value checked by interval below)
                if mres != cs['impl'] or mmask != imask:
                    nbad += 1
                    want = [(not m) and (t in cs['dem']) for m, t in zip(imask, cs['table'])]
                    viol = None
                    if cs['impl'] != want:
                        viol = {'kind': 'stub', 'what': 'with hp.ang2pix replaced by a table, sky_within answers '
                                f"{cs['impl']} but rows with a non-finite coordinate must be False and the others follow the pixel "
                                f'membership: {want}', **{k: cs[k] for k in ('D', 'dem', 'ras', 'decs', 'degin', 'scalar', 'table')}}
                    ctx.mismatch('sky_within (hp.ang2pix stubbed) vs Model.SkyCoords.within_logic',
                                 {k: cs[k] for k in ('D', 'ras', 'decs', 'degin', 'scalar', 'table', 'dem')}, impl=cs['impl'],
                                 model=mres, is_violation=viol)
            ctx.traces += len(vals)
    ctx.oblige(f'exact correspondence: mask / degin / NaN / scalar-vector logic of sky_within on {len(cases)} stubbed calls', nbad == 0,
               f'{nbad} calls differ')
    if model_ok:
        bad = vlib.coq_certify(ctx, HEADER, goals, shard=60)
        for k, err in bad[:4]:
            what, a, v = metas[k] if 0 <= k < len(metas) else ('?', None, None)
            ctx.mismatch(f'certified correspondence: {what} differs from the generated Coq definition', a, impl=v, model=err[-300:])
        ctx.oblige(f'certified correspondence: {len(goals)} interval lemmas (sky2ang, sky2vec, vec2sky, ang2vec, angles of sky_within)',
                   not bad, f'{len(bad)} shards failed')
        ctx.traces += len(goals)
        for k in range(0, len(metas), 7):
            ctx.case(key=('conv', metas[k][0], repr(metas[k][1])), bucket='certified conversion')
    # ---- (d) the property on the real Region
    nc, npoly = (150, 80) if quick else (1500, 800)
    nviol = 0
    t0 = time.time()
    nconv = 60 if quick else 600
    for k in range(nc + npoly + nconv):
        p = gen_circle(rng) if k < nc else gen_poly(rng) if k < nc + npoly else gen_convert(rng)
        seed = rng.randrange(2 ** 31)
        m = problem(p, seed)
        key = (p['kind'], p.get('maxdepth'), p.get('depth'), p.get('degin'), p.get('scalar'),
               round(p.get('ra', 0), 6), round(p.get('dec', 0), 6), len(p.get('positions', [])))
        ctx.case(key=key, bucket=f"{p['kind']} depth={p.get('maxdepth')}", sample=p if k in (0, nc) else None)
        if m:
            nviol += 1
            if nviol <= 2:
                m = shrink(p, seed) or m
                m['seed'] = seed
                ctx.mismatch(f"property oracle on the real Region ({p['kind']})", {k2: v for k2, v in m.items() if k2 != 'what'},
                             impl=m['what'], is_violation=m)
    ctx.oblige(f'property oracle: {nc} circles and {npoly} convex polygons on the real Region (coverage, tightness, NaN, area, '
               f'degin, scalar/vector) and {nconv} sky2vec / vec2sky conversions', nviol == 0, f'{nviol} shapes violate the property')
    ctx.notes.append(f'oracle time {time.time() - t0:.1f}s')
    c09x.run_extra(ctx, model_ok)


def search(ctx):
    extra = c09x.search_extra(ctx)
    if extra:
        return extra
    rng = ctx.rng
    t0 = time.time()
    while time.time() - t0 < 60:
        c = rng.random()
        p = gen_circle(rng) if c < 0.5 else gen_poly(rng) if c < 0.8 else gen_convert(rng)
        seed = rng.randrange(2 ** 31)
        m = problem(p, seed)
        if m:
            m = shrink(p, seed) or m
            m['seed'] = seed
            return m
    return None


def replay(ctx, obj):
    fi = obj.get('failing_input')
    if not fi:
        print('replay file has no concrete input; broken obligations were:')
        for b in obj.get('broken', []):
            print('  ', b.get('what'), str(b.get('detail', b.get('case', '')))[:400])
        return 1
    if fi.get('kind') in ('ds9', 'regfile', 'mask', 'circles'):
        return c09x.replay_extra(ctx, fi)
    if fi.get('kind') in ('circle', 'poly', 'convert'):
        p = {k: v for k, v in fi.items() if k not in ('what', 'probe', 'distance', 'area', 'seed')}
        m = problem(p, fi.get('seed', 0))
        print('implementation:', m['what'] if m else 'property holds on this input')
        return 1 if m else 0
    if fi.get('kind') == 'stub':
        from AegeanTools import regions
        import healpy as real_hp
        reg = regions.Region(maxdepth=fi['D'])
        reg.add_pixels(fi['dem'], fi['D'])
        proxy = _HpProxy(real_hp, fi['table'])
        old = regions.hp
        regions.hp = proxy
        try:
            ras = [math.nan if x is None else x for x in fi['ras']]
            decs = [math.nan if x is None else x for x in fi['decs']]
            res = reg.sky_within(ras[0], decs[0], degin=fi['degin']) if fi['scalar'] else \
                reg.sky_within(np.array(ras), np.array(decs), degin=fi['degin'])
        finally:
            regions.hp = old
        want = [math.isfinite(a) and math.isfinite(b) and (t in fi['dem']) for a, b, t in zip(ras, decs, fi['table'])]
        bad = [bool(x) for x in res] != want
        print('implementation:', f'answers {list(res)} want {want}' if bad else 'property holds on this input')
        return 1 if bad else 0
    print('implementation:', fi.get('what'))
    return 1
