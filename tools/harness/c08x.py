"""C08 (extension) - MIMAS.combine_regions / intersect_regions / save_region and the command line that fills the container.

Hooked into the C08 check (MANIFEST checks are per property id): tools/harness/c08.py calls run_extra(ctx, model_ok) at the end
of run() and search_extra(ctx) at the start of search(); EXTRA_TARGETS there lists EXTRA_TARGETS of this module.

  library level : containers (MIMAS.Dummy) with 0-3 entries per stage.  +r / -r entries are files written with Region.save into
                  ctx.work (equal / lower / higher depth); circles and polygons are pixel lists: healpy.query_disc / query_polygon
                  are replaced by a table lookup (the shape index is encoded in ra and radius, the sign of dec tells whether
                  galactic2fk5 - replaced by (l, b) -> (l, -b) - has been applied).  The real MIMAS.combine_regions /
                  intersect_regions / save_region run; stored pixels per level + get_demoted of the (saved and reloaded) result
                  are compared with Model/CombineModel.v (vm_compute) and with an independent set expression in Python.
  command line  : AegeanTools.CLI.MIMAS.main([...]) in-process with real healpy and astropy (no stubs): -o -depth +r -r +c -c +p -p
                  -g --intersect --area.  The saved .mim and the printed area are compared with the library-level result for the
                  same container and with independent healpy queries combined by set algebra.
"""
import contextlib
import copy
import io
import json
import os
import re
import time

import numpy as np

import vlib
from harness import regions_common as rc

EXTRA_TARGETS = ['Props/C08x.vo', 'Refuted/C08x_galactic_polygons.vo']
IMPORTS = ("From Coq Require Import ZArith List.\n"
           "From Aegean Require Import Gen.Regions Gen.Combine Model.RegionModel Model.CombineModel.\n"
           "Import ListNotations.\nOpen Scope Z_scope.\n")
TRUSTED_EXTRA = [
    'translator point Combine (tools/points_c08x.py): order of the six stages of combine_regions, method / receiver per stage, '
    'depths of the fresh regions, renorm flag, galactic branches, skeleton of intersect_regions / save_region, argparse dests and '
    'dispatch of CLI/MIMAS.py; fails closed',
    'Model/CombineModel.v tied by exact correspondence on generated containers; healpy.query_disc / query_polygon / astropy '
    'galactic->fk5 answers are inputs of the model (validated: nested ids valid for nside 2^depth)',
]
ASSUMPTIONS_EXTRA = [
    'combine_regions: region files hold valid regions; circle / polygon pixel lists are what healpy answers at nside 2^maxdepth',
    'with -g the polygon stages do not convert (recorded finding); the oracle follows the generated galactic_*_polygons constants '
    'for polygons and REQUIRES the conversion for circles',
]

STAGES = ('add', 'rem', 'ci', 'co', 'pi', 'po')


# ------------------------------------------------------------------------------------------ generated constants
def gen_flags():
    """galactic_* constants as generated into Gen/Combine.v"""
    out = {}
    try:
        with open(os.path.join(vlib.COQ, 'Gen', 'Combine.v')) as fh:
            t = fh.read()
    except OSError:
        return {'galactic_incl_polygons': False, 'galactic_excl_polygons': False}
    for m in re.finditer(r'Definition (galactic_\w+) : bool := (true|false)\.', t):
        out[m.group(1)] = m.group(2) == 'true'
    return out


# ------------------------------------------------------------------------------------------ case generation
def universe(rng, D):
    """a pool of depth-D pixels in which all stages of one container live, so that the stages interact"""
    n = 12 * 4 ** D
    U = set()
    for _ in range(rng.randint(1, 3)):
        a = rng.randrange(n)
        a -= a % rng.choice([1, 4, 16])
        U |= set(range(a, min(n, a + rng.randint(3, 20))))
    for _ in range(rng.randint(0, 2)):
        a = rng.randrange(n // 4) * 4
        U |= {a, a + 1, a + 2, a + 3}
    U |= {rng.randrange(n) for _ in range(rng.randint(0, 4))}
    return sorted(U)


def subset(rng, U, lo=1):
    k = rng.randint(lo, max(lo, min(len(U), 14)))
    if rng.random() < 0.6:
        i = rng.randrange(len(U))
        return sorted(set(U[i:i + k]))
    return sorted(rng.sample(U, min(k, len(U))))


def operand(rng, D, U, Do):
    """a region of depth Do whose sky overlaps the pool"""
    cells = []
    base = subset(rng, U)
    if Do >= D:
        for p in base:
            c = rng.random()
            if c < 0.6 or D == 1:
                cells.append((D, p))
            elif c < 0.8 and D >= 2:
                cells.append((D - 1, p // 4))          # a coarser cell: four pool-level pixels
            elif Do > D:
                k = rng.randint(1, Do - D)
                q = p * 4 ** k + rng.randrange(4 ** k)
                cells.append((D + k, q))               # a finer cell: degraded by union
            else:
                cells.append((D, p))
    else:
        for p in base:
            k = rng.randint(D - Do, min(D - 1, D - Do + 1))
            cells.append((D - k, p // 4 ** k))
    cells = [(d, p) for d, p in cells if 1 <= d <= Do]
    if not cells:
        cells = [(Do, rng.randrange(12 * 4 ** Do))]
    return {'depth': Do, 'cells': sorted(set(cells))}


def gen_shape(rng, D, U, parts=1):
    n = 12 * 4 ** D
    ps = []
    for _ in range(parts):
        plain = subset(rng, U)
        conv = subset(rng, U) if rng.random() < 0.7 else sorted({rng.randrange(n) for _ in range(rng.randint(1, 5))})
        ps.append({'plain': plain, 'conv': conv})
    return {'parts': ps}


def gen_container(rng, profile='small'):
    D = rng.choice({'small': [1, 2, 2, 3, 3, 4], 'mid': [4, 5, 6], 'deep': [8, 9, 10]}[profile])
    U = universe(rng, D)
    c = {'D': D, 'galactic': rng.random() < 0.4}
    style = rng.random()

    def count():
        if style < 0.15:
            return rng.choice([0, 0, 1])
        return rng.choice([0, 1, 1, 2, 3])
    c['add'] = [operand(rng, D, U, max(1, min(12, D + rng.choice([-2, -1, 0, 0, 0, 1, 2])))) for _ in range(count())]
    bad = rng.random() < 0.12
    c['rem'] = [operand(rng, D, U, D) for _ in range(count())]
    if bad and c['rem']:
        i = rng.randrange(len(c['rem']))
        c['rem'][i] = operand(rng, D, U, max(1, D + rng.choice([-1, 1])) if D > 1 else 2)
    c['ci'] = [gen_shape(rng, D, U, parts=rng.choice([1, 1, 1, 2])) for _ in range(count())]
    c['co'] = [gen_shape(rng, D, U, parts=rng.choice([1, 1, 1, 2])) for _ in range(count())]
    c['pi'] = [gen_shape(rng, D, U) for _ in range(count())]
    c['po'] = [gen_shape(rng, D, U) for _ in range(count())]
    return c


def cost(c):
    n = 0
    for o in c['add'] + c['rem']:
        for d, p in o['cells']:
            n += 4 ** max(0, c['D'] - d)
    for k in ('ci', 'co', 'pi', 'po'):
        for sh in c[k]:
            for part in sh['parts']:
                n += len(part['plain']) + len(part['conv'])
    return n


def gen_bounded(rng, profile, limit=700):
    while True:
        c = gen_container(rng, profile)
        if cost(c) <= limit:
            return c


def fixed_containers():
    """hand-written cases: every pair of adjacent stages interacts; depth mismatches; empty container"""
    sh = lambda *p: {'parts': [{'plain': list(p), 'conv': [x + 16 for x in p]}]}  # noqa: E731
    reg = lambda d, *cells: {'depth': d, 'cells': list(cells)}  # noqa: E731
    base = {'D': 3, 'galactic': False, 'add': [], 'rem': [], 'ci': [], 'co': [], 'pi': [], 'po': []}
    out = [dict(base)]
    out.append(dict(base, add=[reg(3, (3, 0), (3, 1), (3, 2), (3, 3), (2, 5))], rem=[reg(3, (3, 1), (3, 20))]))
    out.append(dict(base, ci=[sh(5, 6)], co=[sh(5)]))
    out.append(dict(base, rem=[reg(3, (3, 5))], ci=[sh(5, 6)]))
    out.append(dict(base, co=[sh(7)], pi=[sh(7, 8)]))
    out.append(dict(base, pi=[sh(7, 8)], po=[sh(8, 9)]))
    out.append(dict(base, add=[reg(3, (3, 9))], po=[sh(9)], ci=[sh(9, 10)]))
    out.append(dict(base, add=[reg(5, (5, 1300), (1, 11))], rem=[reg(3, (2, 44))], galactic=True,
                    ci=[sh(8, 9, 10, 11)], co=[sh(9)], pi=[sh(40, 41)], po=[sh(41, 21)]))
    out.append(dict(base, add=[reg(2, (2, 1))], rem=[reg(2, (2, 1))]))            # -r of lower depth: raises
    out.append(dict(base, add=[reg(4, (4, 17))], rem=[reg(4, (4, 17))]))          # -r of higher depth: raises
    out.append(dict(base, add=[reg(2, (2, 1)), reg(4, (4, 16), (4, 17), (4, 100))]))
    out.append(dict(base, D=1, add=[reg(1, (1, 3))], ci=[{'parts': [{'plain': [4, 5], 'conv': [6]}]}],
                    co=[{'parts': [{'plain': [5], 'conv': [6]}]}]))
    out.append(dict(base, galactic=True, ci=[sh(1, 2)], co=[sh(1)], pi=[sh(17)], po=[sh(18)]))
    return [copy.deepcopy(c) for c in out]


def gen_intersect(rng):
    D = rng.choice([1, 2, 3, 3, 4, 5])
    U = universe(rng, D)
    n = rng.choice([0, 1, 2, 2, 2, 3, 3, 4])
    bad = rng.random() < 0.2
    fl = [operand(rng, D, U, D) for _ in range(n)]
    if bad and n >= 1:
        i = rng.randrange(n)
        fl[i] = operand(rng, D, U, D + 1 if (D == 1 or rng.random() < 0.5) else D - 1)
    return fl


# ------------------------------------------------------------------------------------------ Gallina
def g_shape(sh):
    plain = [p for part in sh['parts'] for p in part['plain']]
    conv = [p for part in sh['parts'] for p in part['conv']]
    return f"mkShape {vlib.zlist(plain)} {vlib.zlist(conv)}"


def g_container(c):
    regs = lambda l: '[' + '; '.join(rc.g_region(o) for o in l) + ']'  # noqa: E731
    shs = lambda l: '[' + '; '.join(g_shape(s) for s in l) + ']'  # noqa: E731
    return (f"mkContainer {c['D']} {'true' if c['galactic'] else 'false'} {regs(c['add'])} {regs(c['rem'])} "
            f"{shs(c['ci'])} {shs(c['co'])} {shs(c['pi'])} {shs(c['po'])}")


def g_filelist(fl):
    return '[' + '; '.join(rc.g_region(o) for o in fl) + ']'


# ------------------------------------------------------------------------------------------ independent truth
def truth_combine(c, flags):
    """None = AssertionError expected; else the set of depth-D pixels"""
    D = c['D']
    g = c['galactic']
    T = set()

    def pix(sh, converts):
        s = set()
        for part in sh['parts']:
            s |= set(part['conv'] if (g and converts) else part['plain'])
        return s
    for o in c['add']:
        T |= rc.deepest(D, o['cells'])
    for o in c['rem']:
        if o['depth'] != D:
            return None
        T -= rc.deepest(D, o['cells'])
    for sh in c['ci']:
        T |= pix(sh, True)
    for sh in c['co']:
        T -= pix(sh, True)
    for sh in c['pi']:
        T |= pix(sh, flags.get('galactic_incl_polygons', False))
    for sh in c['po']:
        T -= pix(sh, flags.get('galactic_excl_polygons', False))
    return T


def truth_intersect(fl):
    """(code, set): 0 ok, 1 too few, 2 AssertionError"""
    if len(fl) < 2:
        return 1, None
    D = fl[0]['depth']
    if any(o['depth'] != D for o in fl[1:]):
        return 2, None
    T = rc.deepest(D, fl[0]['cells'])
    for o in fl[1:]:
        T &= rc.deepest(D, o['cells'])
    return 0, T


# ------------------------------------------------------------------------------------------ running the implementation
class Stub:
    """table lookup instead of healpy.query_disc / query_polygon; galactic2fk5 flips the sign of the latitude"""

    def __init__(self, D):
        self.D = D
        self.table = {}
        self.anomalies = []
        self.calls = []

    def register(self, part):
        i = len(self.table) + 1
        self.table[i] = part
        return i

    def answer(self, nside, idx, conv, kind):
        d = int(round(np.log2(nside)))
        if 2 ** d != nside:
            self.anomalies.append(f'{kind}: nside {nside} is not a power of two')
        self.calls.append((kind, d, idx, conv))
        part = self.table.get(idx)
        if part is None:
            self.anomalies.append(f'{kind}: coordinates of no registered shape (index {idx})')
            return np.array([], dtype=np.int64)
        ps = part['conv'] if conv else part['plain']
        if d > self.D:
            k = 4 ** (d - self.D)
            ps = [p * k + j for p in ps for j in range(k)]
        elif d < self.D:
            ps = sorted({p // 4 ** (self.D - d) for p in ps})
        return np.array(ps, dtype=np.int64)

    def flags(self, kind, kw):
        if kw.get('nest') is not True or kw.get('inclusive') is not True:
            self.anomalies.append(f'{kind} called with {kw} (expected inclusive=True, nest=True)')

    def query_disc(self, nside, vec, radius, **kw):
        self.flags('query_disc', kw)
        vec = np.asarray(vec, dtype=float)
        ra = np.degrees(np.arctan2(vec[1], vec[0])) % 360
        idx, idr = int(round(ra)), int(round(np.degrees(radius)))
        if idx != idr or abs(ra - idx) > 1e-6:
            self.anomalies.append(f'query_disc: centre ra {ra!r} and radius {np.degrees(radius)!r} belong to different circles')
        return self.answer(nside, idx, vec[2] < 0, 'query_disc')

    def query_polygon(self, nside, vertices, **kw):
        self.flags('query_polygon', kw)
        v = np.asarray(vertices, dtype=float)
        if v.ndim != 2 or v.shape[1] != 3 or v.shape[0] != 3:
            self.anomalies.append(f'query_polygon: vertices of shape {v.shape}, expected (3, 3)')
            return np.array([], dtype=np.int64)
        ra = np.degrees(np.arctan2(v[0, 1], v[0, 0])) % 360
        idx = int(round(ra))
        if abs(ra - idx) > 1e-6 or len({bool(z < 0) for z in v[:, 2]}) != 1:
            self.anomalies.append(f'query_polygon: unexpected vertices {v.tolist()}')
        return self.answer(nside, idx, v[0, 2] < 0, 'query_polygon')


@contextlib.contextmanager
def stubbed(stub):
    import AegeanTools.regions as regions
    from AegeanTools import MIMAS
    hp = regions.hp
    saved = (hp.query_disc, hp.query_polygon, MIMAS.galactic2fk5)
    hp.query_disc = stub.query_disc
    hp.query_polygon = stub.query_polygon
    MIMAS.galactic2fk5 = lambda l, b: (np.asarray(l), -np.asarray(b))
    try:
        yield
    finally:
        hp.query_disc, hp.query_polygon, MIMAS.galactic2fk5 = saved


def region_obs(r, problems):
    """(stored pixels per level, sorted get_demoted) of a real Region; pixel ids must be valid integers"""
    D = r.maxdepth
    levels = []
    for d in range(1, D + 1):
        lv = r.pixeldict.get(d, set())
        for p in lv:
            if not isinstance(p, (int, np.integer)) or isinstance(p, bool) or not (0 <= int(p) < 12 * 4 ** d):
                problems.append(f'level {d} stores an invalid pixel id {p!r}')
        try:
            levels.append(sorted(int(p) for p in lv))
        except Exception:  # noqa
            levels.append(sorted(map(repr, lv)))
    extra = sorted(k for k in r.pixeldict if not (isinstance(k, (int, np.integer)) and 1 <= k <= D) and r.pixeldict[k])
    if extra:
        problems.append(f'pixels stored at levels {extra} outside 1..{D}')
    dem = sorted(int(p) for p in copy.deepcopy(r).get_demoted())
    return levels, dem


def normal_form_problems(levels, D, T):
    out = []
    area = sum(len(lv) * 4 ** (D - d) for d, lv in enumerate(levels, start=1))
    if area != len(T):
        out.append(f'the stored cells cover {area} deepest-level pixels but the pixel set has {len(T)} (sky stored twice)')
    for d in range(3, D + 1):
        s = set(levels[d - 1])
        for p in s:
            if p % 4 == 0 and {p + 1, p + 2, p + 3} <= s:
                out.append(f'level {d} still holds the complete sibling group {p}..{p + 3}')
                break
    return out


def write_operand(o, path):
    rc.py_region(o).save(path)
    return path


def run_combine(c, work, flags):
    """runs the real combine_regions + save_region on the container; returns (obs or None for AssertionError, problems)"""
    from AegeanTools import MIMAS
    from AegeanTools.regions import Region
    D = c['D']
    problems = []
    os.makedirs(work, exist_ok=True)
    cont = MIMAS.Dummy(maxdepth=D)
    cont.galactic = c['galactic']
    n = 0
    for key, attr in (('add', 'add_region'), ('rem', 'rem_region')):
        for o in c[key]:
            n += 1
            getattr(cont, attr).append([write_operand(o, os.path.join(work, f'op{n}.mim'))])
    stub = Stub(D)
    for key, attr in (('ci', 'include_circles'), ('co', 'exclude_circles')):
        for sh in c[key]:
            ids = [stub.register(part) for part in sh['parts']]
            # layout read by combine_regions: circles.reshape(3, n) -> all ra, all dec, all radii (degrees)
            getattr(cont, attr).append([float(i) for i in ids] + [10.0] * len(ids) + [float(i) for i in ids])
    for key, attr in (('pi', 'include_polygons'), ('po', 'exclude_polygons')):
        for sh in c[key]:
            i = stub.register(sh['parts'][0])
            getattr(cont, attr).append([float(i), 10.0, i + 0.5, 10.0, float(i), 11.0])
    snapshot = copy.deepcopy({k: getattr(cont, k) for k in ('add_region', 'rem_region', 'include_circles', 'exclude_circles',
                                                           'include_polygons', 'exclude_polygons', 'maxdepth', 'galactic')})
    T = truth_combine(c, flags)
    try:
        with stubbed(stub):
            region = MIMAS.combine_regions(cont)
    except AssertionError:
        if T is not None:
            problems.append('combine_regions raised AssertionError although every subtracted file has the depth of the container')
        return None, problems + stub.anomalies
    except Exception as e:  # noqa
        return ('raised', f'{type(e).__name__}: {e}'), problems + [f'combine_regions raised {type(e).__name__}: {e}'] + stub.anomalies
    problems += stub.anomalies
    if T is None:
        problems.append('combine_regions returned a region although a subtracted file has another depth (expected AssertionError)')
    for k, v in snapshot.items():
        if getattr(cont, k) != v:
            problems.append(f'combine_regions changed container.{k}')
    if not isinstance(region, Region) or region.maxdepth != D:
        problems.append(f'result has maxdepth {getattr(region, "maxdepth", None)!r}, container {D}')
        return ('raised', 'wrong depth'), problems
    obs = region_obs(region, problems)
    # save_region + load: the file holds the same region
    out = os.path.join(work, 'out.mim')
    MIMAS.save_region(region, out)
    obs2 = region_obs(Region.load(out), problems)
    if obs2 != obs:
        problems.append('the region written by save_region and loaded again differs from the region that was saved')
    if T is not None:
        got = set(obs[1])
        if got != T:
            problems.append(f'pixel set differs from ((((+r \\ -r) U +c) \\ -c) U +p) \\ -p: extra {sorted(got - T)[:6]} '
                            f'missing {sorted(T - got)[:6]}')
        else:
            problems += normal_form_problems(obs[0], D, T)
    return obs, problems


def run_intersect(fl, work):
    """returns ((code, obs), problems)"""
    from AegeanTools import MIMAS
    problems = []
    os.makedirs(work, exist_ok=True)
    paths = [write_operand(o, os.path.join(work, f'in{i}.mim')) for i, o in enumerate(fl)]
    code, T = truth_intersect(fl)
    try:
        region = MIMAS.intersect_regions(paths)
    except AssertionError:
        got = (2, ([], []))
    except IndexError:
        got = (3, ([], []))
    except Exception as e:  # noqa
        got = (1, ([], [])) if type(e) is Exception else (9, (type(e).__name__, str(e)))
    else:
        obs = region_obs(region, problems)
        got = (0, obs)
        if code == 0:
            if set(obs[1]) != T:
                problems.append(f'intersect_regions differs from the intersection of the pixel sets: extra '
                                f'{sorted(set(obs[1]) - T)[:6]} missing {sorted(T - set(obs[1]))[:6]}')
            else:
                problems += normal_form_problems(obs[0], region.maxdepth, T)
    if got[0] != code:
        names = {0: 'a region', 1: 'Exception (too few files)', 2: 'AssertionError', 3: 'IndexError', 9: 'another exception'}
        problems.append(f'intersect_regions gave {names.get(got[0])}, expected {names.get(code)}')
    return got, problems


def canon_combine_model(v):
    if v is None:
        return None
    levels, dem = v[1]
    return [sorted(l) for l in levels], sorted(set(dem))


def canon_obs(o):
    if o is None:
        return None
    if isinstance(o, tuple) and o and o[0] == 'raised':
        return o
    return [list(l) for l in o[0]], list(o[1])


def describe(c):
    return {'maxdepth': c['D'], 'galactic': c['galactic'],
            '+r': [rc.g_region(o) for o in c['add']], '-r': [rc.g_region(o) for o in c['rem']],
            '+c': [g_shape(s) for s in c['ci']], '-c': [g_shape(s) for s in c['co']],
            '+p': [g_shape(s) for s in c['pi']], '-p': [g_shape(s) for s in c['po']]}


def shrink_container(c, pred):
    """drop entries / pixels while pred(container) still holds"""
    c = copy.deepcopy(c)
    changed = True
    while changed:
        changed = False
        for k in STAGES:
            for i in range(len(c[k])):
                cand = copy.deepcopy(c)
                del cand[k][i]
                if pred(cand):
                    c, changed = cand, True
                    break
            if changed:
                break
        if changed:
            continue
        for k in ('ci', 'co', 'pi', 'po'):
            for i, sh in enumerate(c[k]):
                for j, part in enumerate(sh['parts']):
                    for f in ('plain', 'conv'):
                        if len(part[f]) > 1:
                            cand = copy.deepcopy(c)
                            cand[k][i]['parts'][j][f] = part[f][:len(part[f]) // 2]
                            if pred(cand):
                                c, changed = cand, True
                                break
                            cand = copy.deepcopy(c)
                            cand[k][i]['parts'][j][f] = part[f][len(part[f]) // 2:]
                            if pred(cand):
                                c, changed = cand, True
                                break
                    if changed:
                        break
                if changed:
                    break
            if changed:
                break
    return c


def combine_problem(c, work, flags):
    obs, problems = run_combine(c, work, flags)
    return problems[0] if problems else None


# ------------------------------------------------------------------------------------------ the command line, real healpy
def hp_disc(D, ra, dec, radius):
    import healpy as hp
    v = hp.ang2vec(np.pi / 2 - dec, ra)
    return hp.query_disc(2 ** D, v, radius, inclusive=True, nest=True)


def hp_poly(D, pts):
    import healpy as hp
    pts = np.asarray(pts)
    v = hp.ang2vec(np.pi / 2 - pts[:, 1], pts[:, 0])
    return hp.query_polygon(2 ** D, v, inclusive=True, nest=True)


def gal2fk5(l, b):
    import astropy.units as u
    from astropy.coordinates import SkyCoord
    a = SkyCoord(l, b, unit=(u.radian, u.radian), frame='galactic')
    return a.fk5.ra.radian, a.fk5.dec.radian


def fmt(x):
    return f'{x:.2f}'


def gen_cli_case(rng, work, k):
    """a command line: list of (flag, [numbers as strings]) plus region files; everything near one sky position so that the
    stages overlap"""
    D = rng.choice([3, 4, 5, 5, 6])
    ra0, dec0 = rng.uniform(20, 340), rng.uniform(-50, 50)
    g = rng.random() < 0.35

    def circle():
        return [fmt(ra0 + rng.uniform(-12, 12)), fmt(dec0 + rng.uniform(-12, 12)), fmt(rng.uniform(2, 14))]

    def polygon():
        a, b = rng.uniform(3, 12), rng.uniform(3, 12)
        x, y = ra0 + rng.uniform(-10, 10), dec0 + rng.uniform(-10, 10)
        pts = [(x - a, y - b), (x + a, y - b), (x + a * rng.uniform(0.3, 1), y + b), (x - a * rng.uniform(0.3, 1), y + b)]
        if rng.random() < 0.4:
            pts = pts[:3]
        return [fmt(v) for p in pts for v in p]
    case = {'D': D, 'galactic': g, 'ci': [circle() for _ in range(rng.choice([0, 1, 1, 2]))],
            'co': [circle() for _ in range(rng.choice([0, 1, 1, 2]))],
            'pi': [polygon() for _ in range(rng.choice([0, 1, 1, 2]))],
            'po': [polygon() for _ in range(rng.choice([0, 0, 1]))], 'add': [], 'rem': []}
    # region files: built from real circles at their own depth
    for key, depths in (('add', [D, D, D - 1, D + 1]), ('rem', [D])):
        for j in range(rng.choice([0, 1, 1, 2] if key == 'add' else [0, 0, 1])):
            Do = max(1, rng.choice(depths))
            cc = circle()
            case[key].append({'depth': Do, 'circle': cc, 'file': os.path.join(work, f'cli{k}_{key}{j}.mim')})
    return case


def cli_truth(case, flags, hyp):
    """independent: healpy queries at depth D combined by set algebra"""
    D = case['D']
    g = case['galactic']

    def check(pix, d):
        pix = np.asarray(pix)
        ok = pix.dtype.kind in 'iu' and (len(pix) == 0 or (pix.min() >= 0 and pix.max() < 12 * 4 ** d))
        hyp['n'] += 1
        if not ok:
            hyp['bad'] += 1
        return set(int(p) for p in pix)

    def disc(c, d, conv):
        ra, dec, rad = np.radians(np.array([float(x) for x in c]))
        if conv:
            ra, dec = gal2fk5(np.array([ra]), np.array([dec]))
            ra, dec = ra[0], dec[0]
        return check(hp_disc(d, ra, dec, rad), d)

    def poly(p, conv):
        pts = np.radians(np.array([float(x) for x in p])).reshape(-1, 2)
        if conv:
            ra, dec = gal2fk5(pts[:, 0], pts[:, 1])
            pts = np.array([ra, dec]).T
        return check(hp_poly(D, pts), D)
    T = set()
    for o in case['add']:
        own = disc(o['circle'], o['depth'], False)
        T |= rc.deepest(D, [(o['depth'], p) for p in own])
    for o in case['rem']:
        T -= disc(o['circle'], o['depth'], False)
    for c in case['ci']:
        T |= disc(c, D, g)
    for c in case['co']:
        T -= disc(c, D, g)
    for p in case['pi']:
        T |= poly(p, g and flags.get('galactic_incl_polygons', False))
    for p in case['po']:
        T -= poly(p, g and flags.get('galactic_excl_polygons', False))
    return T


def call_main(argv):
    """AegeanTools.CLI.MIMAS.main(argv) in-process; returns (return value or exception, stdout)"""
    from AegeanTools.CLI import MIMAS as cli
    out, err = io.StringIO(), io.StringIO()
    try:
        with contextlib.redirect_stdout(out), contextlib.redirect_stderr(err):
            rv = cli.main(argv)
    except SystemExit as e:
        rv = ('SystemExit', e.code, err.getvalue()[-300:])
    except Exception as e:  # noqa
        rv = ('raised', type(e).__name__, str(e)[:200])
    return rv, out.getvalue()


def run_cli_case(case, work, k, flags, hyp, rng=None):
    """returns list of problems"""
    from AegeanTools import MIMAS
    from AegeanTools.regions import Region
    import healpy as hp
    problems = []
    D = case['D']
    # operand files through the command line itself
    for o in case['add'] + case['rem']:
        rv, _ = call_main(['-o', o['file'], '-depth', str(o['depth']), '+c'] + o['circle'])
        if rv not in (None, 0) or not os.path.exists(o['file']):
            return [f'MIMAS -o {os.path.basename(o["file"])} -depth {o["depth"]} +c {o["circle"]} failed: {rv}']
    parts = [['-o', os.path.join(work, f'cli{k}.mim')], ['-depth', str(D)]]
    for key, flag in (('add', '+r'), ('rem', '-r')):
        for o in case[key]:
            parts.append([flag, o['file']])
    for key, flag in (('ci', '+c'), ('co', '-c'), ('pi', '+p'), ('po', '-p')):
        for c in case[key]:
            parts.append([flag] + c)
    if case['galactic']:
        parts.append(['-g'])
    # the order of the options on the command line must not matter: the stages run in the documented order
    if rng is not None:
        case['perm'] = list(range(len(parts)))
        rng.shuffle(case['perm'])
    perm = case.get('perm') or list(range(len(parts)))
    argv = [a for i in perm for a in parts[i]]
    case['argv'] = argv
    out = argv[argv.index('-o') + 1]
    rv, _ = call_main(argv)
    if rv not in (None, 0):
        return [f'MIMAS {" ".join(argv)} returned {rv}']
    if not os.path.exists(out):
        return [f'MIMAS {" ".join(argv)} wrote no file']
    saved = Region.load(out)
    obs = region_obs(saved, problems)
    # library level, same container built by hand
    cont = MIMAS.Dummy(maxdepth=D)
    cont.galactic = case['galactic']
    cont.add_region = [[o['file']] for o in case['add']]
    cont.rem_region = [[o['file']] for o in case['rem']]
    for key, attr in (('ci', 'include_circles'), ('co', 'exclude_circles'), ('pi', 'include_polygons'), ('po', 'exclude_polygons')):
        setattr(cont, attr, [[float(x) for x in c] for c in case[key]])
    lib = MIMAS.combine_regions(cont)
    obs_lib = region_obs(lib, problems)
    if saved.maxdepth != D:
        problems.append(f'-depth {D} gave a region of maxdepth {saved.maxdepth}')
    if obs != obs_lib:
        problems.append('the region written by the command line differs from combine_regions on the same container')
    T = cli_truth(case, flags, hyp)
    if set(obs[1]) != T:
        problems.append(f'command line result differs from the set expression over independent healpy queries: extra '
                        f'{sorted(set(obs[1]) - T)[:6]} missing {sorted(T - set(obs[1]))[:6]}')
    else:
        problems += normal_form_problems(obs[0], D, T)
    # --area
    rv, text = call_main(['--area', out])
    m = re.match(r'(.*) represents an area of (\S+) deg\^2\s*$', text)
    if rv != 0 or not m or m.group(1) != out:
        problems.append(f'--area printed {text!r} (returned {rv})')
    else:
        a = float(m.group(2))
        want = len(T) * hp.nside2pixarea(2 ** D, degrees=True)
        if a != lib.get_area():
            problems.append(f'--area printed {a!r} but get_area() of the combined region is {lib.get_area()!r}')
        if abs(a - want) > 1e-9 * max(want, 1e-30):
            problems.append(f'--area printed {a!r} but the pixel set has area {want!r}')
    return problems


def run_cli_intersect(rng, work, hyp):
    """--intersect a --intersect b -o out; single file; unequal depth"""
    from AegeanTools.regions import Region
    problems = []
    D = rng.choice([4, 5])
    ra0, dec0 = rng.uniform(30, 300), rng.uniform(-40, 40)
    files, sets = [], []
    for j in range(3):
        f = os.path.join(work, f'int{j}.mim')
        c = [fmt(ra0 + 3 * j), fmt(dec0), fmt(8 + j)]
        rv, _ = call_main(['-depth', str(D), '-o', f, '+c'] + c)
        files.append(f)
        ra, dec, rad = np.radians([float(x) for x in c])
        sets.append(set(int(p) for p in hp_disc(D, ra, dec, rad)))
    out = os.path.join(work, 'int_out.mim')
    argv = ['-o', out]
    for f in files:
        argv += ['--intersect', f]
    rv, _ = call_main(argv)
    if rv != 0 or not os.path.exists(out):
        problems.append(f'MIMAS {" ".join(argv)} returned {rv}')
    else:
        r = Region.load(out)
        obs = region_obs(r, problems)
        T = sets[0] & sets[1] & sets[2]
        if set(obs[1]) != T:
            problems.append('--intersect of three circles is not the intersection of their pixel sets')
        else:
            problems += normal_form_problems(obs[0], D, T)
    one = os.path.join(work, 'int_one.mim')
    rv, text = call_main(['-o', one, '--intersect', files[0]])
    if rv != 1 or os.path.exists(one):
        problems.append(f'--intersect with a single file returned {rv} (expected 1 and no output file)')
    other = os.path.join(work, 'int_other.mim')
    call_main(['-depth', str(D + 1), '-o', other, '+c', fmt(ra0), fmt(dec0), '5.00'])
    bad = os.path.join(work, 'int_bad.mim')
    rv, _ = call_main(['-o', bad, '--intersect', files[0], '--intersect', other])
    if not (isinstance(rv, tuple) and rv[:2] == ('raised', 'AssertionError')) or os.path.exists(bad):
        problems.append(f'--intersect of regions of depth {D} and {D + 1} gave {rv} (expected AssertionError and no output file)')
    # no -depth: the default depth; and the order `-o` / shapes does not matter
    dflt = os.path.join(work, 'dflt.mim')
    rv, _ = call_main(['+c', fmt(ra0), fmt(dec0), '1.50', '-o', dflt])
    want = gen_consts().get('cli_default_depth')
    if rv not in (None, 0) or not os.path.exists(dflt):
        problems.append(f'MIMAS +c .. -o file (no -depth) returned {rv}')
    else:
        r = Region.load(dflt)
        ra, dec, rad = np.radians([float(fmt(ra0)), float(fmt(dec0)), 1.5])
        if r.maxdepth != want:
            problems.append(f'no -depth gave maxdepth {r.maxdepth}, generated cli_default_depth is {want}')
        elif set(int(p) for p in r.get_demoted()) != set(int(p) for p in hp_disc(want, ra, dec, rad)):
            problems.append('no -depth: the region is not the circle at the default depth')
    # a +r option with two file names loads only the first (nargs='*' and r[0]); recorded as a note, not a failure
    two = os.path.join(work, 'two.mim')
    rv, _ = call_main(['-depth', str(D), '-o', two, '+r', files[0], files[2]])
    note = None
    if rv in (None, 0) and os.path.exists(two):
        got = set(int(p) for p in Region.load(two).get_demoted())
        if got == sets[0] and got != (sets[0] | sets[2]):
            note = ('suspicious: `+r a.mim b.mim` (one option, two file names; nargs="*") silently ignores b.mim: combine_regions loads '
                    'r[0] only')
    return problems, {'argv': argv, 'note': note}


def gen_consts():
    out = {}
    try:
        with open(os.path.join(vlib.COQ, 'Gen', 'Combine.v')) as fh:
            for m in re.finditer(r'Definition (\w+) : Z := \(?(-?\d+)\)?\.', fh.read()):
                out[m.group(1)] = int(m.group(2))
    except OSError:
        pass
    return out


def galactic_polygon_finding(ctx, flags):
    """replay of Refuted/C08x_galactic_polygons.v on the real code (real healpy and astropy)"""
    from AegeanTools import MIMAS
    c = MIMAS.Dummy(maxdepth=5)
    c.galactic = True
    c.include_polygons = [[10, 10, 20, 10, 15, 20]]
    got = set(int(p) for p in MIMAS.combine_regions(c).get_demoted())
    pts = np.radians(np.array([[10, 10], [20, 10], [15, 20]], dtype=float))
    fk = set(int(p) for p in hp_poly(5, pts))
    ra, dec = gal2fk5(pts[:, 0], pts[:, 1])
    gal = set(int(p) for p in hp_poly(5, np.array([ra, dec]).T))
    converts = flags.get('galactic_incl_polygons', False)
    if converts:
        ctx.oblige('galactic polygons: the generated constant says +p converts; the real result is the galactic triangle', got == gal,
                   f'got {len(got)} pixels, galactic triangle {len(gal)}, FK5 triangle {len(fk)}')
        return
    ctx.oblige('recorded finding replayed: with galactic=True a +p polygon is used as FK5 (equals the FK5 triangle, disjoint from '
               'the galactic one) - Refuted/C08x_galactic_polygons.v', got == fk and not (got & gal),
               f'got {len(got)} pixels, FK5 triangle {len(fk)}, galactic triangle {len(gal)}, overlap with galactic {len(got & gal)}')
    text = None
    for kind, t in vlib.known_findings('C08'):
        if kind == 'finding' and 'galactic' in t and 'polygon' in t:
            text = t
    if text:
        ctx.known_lines.append(text)
    else:
        ctx.notes.append('finding not yet in known_findings.txt: MIMAS -g (container.galactic) is ignored for +p / -p polygons: '
                         'Dummy(maxdepth=5), galactic=True, include_polygons=[[10,10,20,10,15,20]] gives the FK5 triangle')


# ------------------------------------------------------------------------------------------ entry points
def all_combine_cases(ctx):
    rng = ctx.rng
    quick = ctx.tier == 'quick'
    cases = [('fixed', c) for c in fixed_containers()]
    for prof, n in (('small', 260 if quick else 2500), ('mid', 120 if quick else 1200), ('deep', 12 if quick else 200)):
        for _ in range(n):
            cases.append((f'random-{prof}', gen_bounded(rng, prof)))
    return cases


def run_extra(ctx, model_ok=True):
    t0 = time.time()
    rng = ctx.rng
    quick = ctx.tier == 'quick'
    # translator obligation for the extraction point of this extension (GEN of c08.py lists only Regions)
    try:
        with open(os.path.join(vlib.COQ, 'Gen', 'FAILED.json')) as fh:
            failed = json.load(fh)
    except Exception as e:  # noqa
        failed = {'*': str(e)}
    err = failed.get('Combine') or failed.get('*')
    ctx.oblige(f'translate: coq/Gen/Combine.v regenerates from {vlib.REPO}', not err, err)
    names = vlib.theorems_of('C08x')
    if model_ok:
        for n in names:
            ctx.oblige(f'theorem {n}', True)
        ax, out = vlib.print_assumptions(ctx, 'C08x', names)
        if ax is None:
            ctx.oblige('Print Assumptions (C08x) runs', False, out)
        else:
            for n in names:
                badax = vlib.axioms_ok(ax.get(n, ['<missing>']))
                ctx.axioms[n] = ax.get(n, ['<missing>'])
                ctx.oblige(f'axioms of {n} within the allow-list', not badax, badax)
        if ctx.tier == 'thorough' and os.environ.get('VERIF_NO_COQCHK') != '1':
            cok, cax, clog = vlib.coqchk('C08x')
            if cok is None:
                ctx.notes.append('C08x: ' + clog)
            else:
                ctx.oblige('coqchk -o re-checks Props/C08x.vo and everything it depends on', cok, clog)
                badax = vlib.axioms_ok(cax)
                ctx.oblige('coqchk (C08x): axioms of the whole dependency cone within the allow-list', not badax, badax)
    flags = gen_flags()
    ctx.rule += (' EXTENSION (combine_regions / intersect_regions / CLI): containers with 0-3 entries per stage over a common pixel '
                 'pool (so that stages interact), region files of equal / lower / higher depth, galactic flag; distinct = distinct '
                 'container; non-trivial = at least two non-empty stages.')
    work = os.path.join(ctx.work, 'c08x')
    # ---- library level: combine_regions
    cases = all_combine_cases(ctx)
    exprs, impls, metas = [], [], []
    nviol = 0
    for bucket, c in cases:
        obs, problems = run_combine(c, work, flags)
        nonempty = [k for k in STAGES if c[k]]
        key = ('combine', json.dumps(c, sort_keys=True)) if len(nonempty) >= 2 else None
        ctx.case(key=key, bucket='combine-' + bucket,
                 sample={'container': describe(c)} if bucket == 'random-small' and len(nonempty) >= 4 else None)
        hk = f'combine-nonempty-stages:{len(nonempty)}'
        ctx.hist[hk] = ctx.hist.get(hk, 0) + 1
        if obs is None:
            ctx.hist['combine-raises'] = ctx.hist.get('combine-raises', 0) + 1
        if problems:
            nviol += 1
            if nviol <= 3:
                small = shrink_container(c, lambda x: combine_problem(x, work, flags) is not None)
                ctx.mismatch('combine_regions vs the documented set expression', describe(small), impl=combine_problem(small, work, flags),
                             is_violation={'kind': 'combine', 'container': small, 'what': combine_problem(small, work, flags)})
        exprs.append(f'combine_obs ({g_container(c)})')
        impls.append(canon_obs(obs))
        metas.append(c)
    ctx.oblige(f'oracle: {len(cases)} containers, combine_regions + save_region equal the set expression '
               '((((+r \\ -r) U +c) \\ -c) U +p) \\ -p, in normal form; AssertionError exactly for -r files of another depth',
               nviol == 0, f'{nviol} containers differ')
    # ---- library level: intersect_regions
    icases = [[], [{'depth': 3, 'cells': [(2, 0)]}],
              [{'depth': 3, 'cells': [(2, 0), (3, 77)]}, {'depth': 3, 'cells': [(3, 1), (3, 2), (3, 77)]},
               {'depth': 3, 'cells': [(2, 0), (2, 19)]}],
              [{'depth': 3, 'cells': [(2, 0)]}, {'depth': 2, 'cells': [(2, 0)]}],
              [{'depth': 2, 'cells': [(2, 0)]}, {'depth': 3, 'cells': [(2, 0)]}, {'depth': 2, 'cells': [(2, 0)]}]]
    icases += [gen_intersect(rng) for _ in range(90 if quick else 900)]
    iexprs, iimpls = [], []
    niv = 0
    for fl in icases:
        got, problems = run_intersect(fl, work)
        ctx.case(key=('intersect', json.dumps(fl, sort_keys=True)) if len(fl) >= 2 else None, bucket=f'intersect-{min(len(fl), 4)}-files')
        if problems:
            niv += 1
            if niv <= 2:
                ctx.mismatch('intersect_regions vs the intersection of the pixel sets', {'files': [rc.g_region(o) for o in fl]},
                             impl=problems[0], is_violation={'kind': 'intersect', 'files': fl, 'what': problems[0]})
        iexprs.append(f'intersect_obs {g_filelist(fl)}')
        iimpls.append(got)
    ctx.oblige(f'oracle: {len(icases)} file lists, intersect_regions is the intersection for equal depths, Exception for fewer than '
               'two files, AssertionError for unequal depths', niv == 0, f'{niv} lists differ')
    t_impl = time.time() - t0
    # ---- model
    if model_ok:
        t1 = time.time()
        vals, err = vlib.coq_eval(ctx, IMPORTS, exprs + iexprs, shard=60, workers=12)
        if vals is None:
            ctx.oblige('model evaluation (vm_compute) of the containers', False, err)
        else:
            nbad = 0
            for v, iv, c in zip(vals[:len(exprs)], impls, metas):
                mv = canon_combine_model(v)
                if mv != iv and not (mv is not None and iv is not None and list(mv) == list(iv)):
                    nbad += 1
                    if nbad <= 3:
                        ctx.mismatch('combine_regions vs Model.CombineModel (stored pixels per level, get_demoted)', describe(c),
                                     impl=iv, model=mv)
            ctx.oblige(f'correspondence: {len(exprs)} containers, result of combine_regions (after save_region / load) equal to the '
                       'model, AssertionError <-> None', nbad == 0, f'{nbad} containers differ')
            nb2 = 0
            for v, iv, fl in zip(vals[len(exprs):], iimpls, icases):
                code, (levels, dem) = v
                mv = (code, ([sorted(l) for l in levels], sorted(set(dem))))
                gv = (iv[0], ([list(l) for l in iv[1][0]], list(iv[1][1]))) if iv[0] == 0 else (iv[0], ([], []))
                if mv != gv:
                    nb2 += 1
                    if nb2 <= 3:
                        ctx.mismatch('intersect_regions vs Model.CombineModel', {'files': [rc.g_region(o) for o in fl]}, impl=gv, model=mv)
            ctx.oblige(f'correspondence: {len(iexprs)} file lists, intersect_regions equal to the model (region / Exception / '
                       'AssertionError)', nb2 == 0, f'{nb2} lists differ')
            ctx.traces += len(vals)
        ctx.notes.append(f'C08x: implementation {t_impl:.1f}s, model evaluation {time.time() - t1:.1f}s')
    # ---- command line, real healpy
    import logging
    root = logging.getLogger()
    saved_handlers, saved_level = list(root.handlers), root.level
    hyp = {'n': 0, 'bad': 0}
    ncli = 24 if quick else 200
    nbad = 0
    try:
        for k in range(ncli):
            case = gen_cli_case(rng, work, k)
            problems = run_cli_case(case, work, k, flags, hyp, rng)
            nonempty = [s for s in STAGES if case[s]]
            ctx.case(key=('cli', ' '.join(case.get('argv', []))) if len(nonempty) >= 2 else None, bucket='cli-combine',
                     sample={'argv': ' '.join(os.path.basename(a) if a.endswith('.mim') else a for a in case.get('argv', []))}
                     if k < 2 else None)
            if problems:
                nbad += 1
                if nbad <= 2:
                    ctx.mismatch('MIMAS command line vs library and independent healpy queries', {'argv': case.get('argv')},
                                 impl=problems[0], is_violation={'kind': 'cli', 'case': case, 'what': problems[0]})
        ctx.oblige(f'command line: {ncli} runs of CLI.MIMAS.main (-o -depth +r -r +c -c +p -p -g), saved .mim equal to combine_regions on '
                   'the same container and to the set expression over independent healpy queries; --area prints get_area() of it',
                   nbad == 0, f'{nbad} runs differ')
        problems, info = run_cli_intersect(rng, work, hyp)
        ctx.case(key=('cli-intersect', ' '.join(info['argv'])), bucket='cli-intersect')
        ctx.oblige('command line: --intersect of three files is the intersection; a single file returns 1 and writes nothing; '
                   'unequal depths raise AssertionError and write nothing; without -depth the region has the default depth',
                   not problems, problems[:2])
        if info.get('note'):
            ctx.notes.append(info['note'])
        galactic_polygon_finding(ctx, flags)
    finally:
        for h in list(root.handlers):
            if h not in saved_handlers:
                root.removeHandler(h)
        root.setLevel(saved_level)
    ctx.hyp['healpy query_disc / query_polygon (inclusive, nest) return valid nested pixel ids for nside 2^depth'] = hyp['n']
    ctx.oblige('library hypothesis: healpy query answers are valid nested pixel ids for their level (shape_ok of wf)', hyp['bad'] == 0,
               f"{hyp['bad']} of {hyp['n']} answers invalid")
    ctx.notes.append(f'C08x: total {time.time() - t0:.1f}s')


def search_extra(ctx):
    """bounded search for a container on which the real code leaves the documented set expression"""
    rng = ctx.rng
    flags = gen_flags()
    work = os.path.join(ctx.work, 'c08x_search')
    t0 = time.time()
    pool = [c for c in fixed_containers()]
    i = 0
    while time.time() - t0 < 25:
        c = pool[i] if i < len(pool) else gen_bounded(rng, rng.choice(['small', 'small', 'mid']))
        i += 1
        p = combine_problem(c, work, flags)
        if p:
            small = shrink_container(c, lambda x: combine_problem(x, work, flags) is not None)
            return {'kind': 'combine', 'container': small, 'what': combine_problem(small, work, flags)}
        if i % 3 == 0:
            fl = gen_intersect(rng)
            got, problems = run_intersect(fl, work)
            if problems:
                return {'kind': 'intersect', 'files': fl, 'what': problems[0]}
    return None


def fix_operand(o):
    o['cells'] = [tuple(c) for c in o['cells']]
    return o


def replay_extra(ctx, fi):
    flags = gen_flags()
    work = os.path.join(ctx.work, 'c08x_replay')
    if fi['kind'] == 'combine':
        c = fi['container']
        for k in ('add', 'rem'):
            c[k] = [fix_operand(o) for o in c[k]]
        p = combine_problem(c, work, flags)
        print('container:', json.dumps(describe(c), indent=1))
    elif fi['kind'] == 'intersect':
        fl = [fix_operand(o) for o in fi['files']]
        got, problems = run_intersect(fl, work)
        p = problems[0] if problems else None
        print('files:', [rc.g_region(o) for o in fl])
    else:
        hyp = {'n': 0, 'bad': 0}
        os.makedirs(work, exist_ok=True)
        case = fi['case']
        for o in case['add'] + case['rem']:
            o['file'] = os.path.join(work, os.path.basename(o['file']))
        problems = run_cli_case(case, work, 0, flags, hyp)
        p = problems[0] if problems else None
        print('command line:', ' '.join(case.get('argv', [])))
    print('implementation:', p or 'property holds on this input')
    return 1 if p else 0
