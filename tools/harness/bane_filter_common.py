"""Shared pieces of the C06 harness: FITS fixtures (2-D/3-D/4-D, BSCALE), batched real runs of BANE.filter_image under a
watchdog, the realised stripe width, Gallina literals and decoding of the Q-valued model output."""
import ast
import json
import os
import subprocess
import time
from fractions import Fraction

import numpy as np
from astropy.io import fits

import vlib
from fixtures import make_header, write_image

NANCODE = -99999999
WATCHDOG = 150

PREAMBLE = """From Coq Require Import ZArith QArith Bool List.
From Aegean Require Import Gen.BaneSync Gen.BaneFilter Lib.Stats Model.BaneFilter Model.BaneProtocol.
Import ListNotations.
Open Scope Z_scope.
Definition row (l : list Z) : list (option Q) := map (fun x => if x =? (%d) then None else Some (inject_Z x)) l.
Definition enc (o : option Q) : option (Z * Z) := match o with Some q => Some (Qnum q, Zpos (Qden q)) | None => None end.
Definition encq (q : Q) : Z * Z := (Qnum q, Zpos (Qden q)).
Definition enct (t : list (list (option Q))) := map (map enc) t.
Definition run_mr (rows cols sr sc br bc w : Z) (mask : bool) (t : list (list Z)) :=
  let o := run_maxrange (the_geom rows cols sr sc br bc w mask) (map row t) in (enct (fst o), enct (snd o)).
Definition run_bq (rows cols sr sc br bc w : Z) (mask : bool) (t : list (list Z)) :=
  enct (run_bkg_q (the_geom rows cols sr sc br bc w mask) (map row t)).
Definition clipq (l : list Z) := let r := the_sigmaclip_q (map inject_Z l) in
  ([Qnum (fst r); Zpos (Qden (fst r)); Qnum (snd r); Zpos (Qden (snd r))], enc (the_margin_q (map inject_Z l))).
Definition lay (rows w : Z) := map (fun k => (st_ymin (the_geom rows 1 1 1 4 4 w true) k, st_ymax (the_geom rows 1 1 1 4 4 w true) k))
                                   (zrange 0 (nstripes (the_geom rows 1 1 1 4 4 w true))).
""" % NANCODE


def width_source(repo):
    """source text of width_y in filter_mc_sharemem (evaluated by Python itself: its float semantics are Python's)"""
    with open(os.path.join(repo, 'AegeanTools', 'BANE.py')) as fh:
        tree = ast.parse(fh.read())
    for n in ast.walk(tree):
        if isinstance(n, ast.FunctionDef) and n.name == 'filter_mc_sharemem':
            for a in ast.walk(n):
                if isinstance(a, ast.Assign) and ast.unparse(a.targets[0]) == 'width_y':
                    return ast.unparse(a.value)
    return None


_WCODE = {}


def stripe_width(rows, cores, nslice, step):
    """rows per stripe that filter_mc_sharemem realises for this request (step = (row step, col step))"""
    if nslice is None or cores == 1:
        nslice = cores
    if nslice <= 1:
        return rows
    if 'c' not in _WCODE:
        _WCODE['c'] = compile(width_source(vlib.REPO), 'width_y', 'eval')
    return int(eval(_WCODE['c'], {'max': max, 'int': int, 'min': min}, {'img_y': rows, 'nslice': nslice, 'step_size': tuple(step)}))


def write_fits_case(path, arr, naxis=2, bscale=None, cube=None):
    """arr: 2-D float array = the image BANE should see (after BSCALE).  naxis 3/4: the plane `cube` = (index, depth) of a cube
    whose other planes hold junk.  bscale: the file stores arr / bscale (exact for powers of two) and carries BSCALE."""
    arr = np.asarray(arr, dtype=np.float64)
    raw = arr if bscale is None else arr / bscale
    rows, cols = arr.shape
    if naxis == 2:
        data = raw.astype(np.float32)
    else:
        idx, depth = cube or (0, 1)
        planes = [np.full(arr.shape, 7777.0 + 13 * k) for k in range(depth)]
        planes[idx] = raw
        data = np.stack(planes).astype(np.float32)
        if naxis == 4:
            data = data[None, ...]
    h = make_header((rows, cols), naxis=naxis)
    write_image(path, data, h)
    if bscale is not None:
        with fits.open(path, mode='update', do_not_scale_image_data=True) as a:
            a[0].header['BSCALE'] = float(bscale)
            a.flush()
    return path


def run_batch(ctx, jobs, tag='b', watchdog=WATCHDOG):
    """real runs in one subprocess under a watchdog. returns {id: result dict}; a job without result hung or was killed"""
    jf = os.path.join(ctx.work, f'jobs_{tag}_{time.time_ns()}.json')
    with open(jf, 'w') as fh:
        json.dump(jobs, fh)
    runner = os.path.join(vlib.VERIF, 'tools', 'harness', 'c06_runner.py')
    env = dict(os.environ)
    env.pop('AEGEAN_VERIF_BANE_PLAN', None)
    out = ''
    try:
        r = subprocess.run(['timeout', '-s', 'KILL', str(watchdog), vlib.PY, runner, jf], env=env, capture_output=True, text=True,
                           timeout=watchdog + 30)
        out = r.stdout
        err = r.stderr
    except subprocess.TimeoutExpired as e:
        out = (e.stdout or b'').decode() if isinstance(e.stdout, bytes) else (e.stdout or '')
        err = 'timeout'
    res = {}
    started = []
    for line in out.splitlines():
        if line.startswith('RESULT '):
            d = json.loads(line[7:])
            res[d['id']] = d
        elif line.startswith('START '):
            started.append(json.loads(line[6:])['id'])
    missing = [j['id'] for j in jobs if j['id'] not in res]
    if missing:
        # hung or crashed: kill stray workers of OUR runner and remove their segments
        subprocess.run(['pkill', '-KILL', '-f', jf], capture_output=True)
        for m in missing:
            res[m] = {'id': m, 'raised': None, 'hung': True, 'started': m in started, 'stderr': err[-500:]}
    return res


def split_batches(jobs, n):
    n = max(1, min(n, len(jobs)))
    return [jobs[i::n] for i in range(n)]


def load_maps(job):
    return np.load(job['save'] + '_bkg.npy'), np.load(job['save'] + '_rms.npy')


# ---- Gallina literals / decoding
def g_table(arr):
    """2-D array of small integers / nan -> list (list Z) with the NaN code"""
    rows = []
    for r in np.asarray(arr):
        rows.append('[' + '; '.join(vlib.zlit(NANCODE) if not np.isfinite(x) else vlib.zlit(int(x)) for x in r) + ']')
    return '[' + '; '.join(rows) + ']'


def g_bool(b):
    return 'true' if b else 'false'


def dec(o):
    """decoded enc value -> Fraction or None"""
    if o is None:
        return None
    n, d = o[1]
    return Fraction(n, d)


def dec_table(t):
    return [[dec(x) for x in row] for row in t]


def is_dyadic(fr):
    d = fr.denominator
    return d & (d - 1) == 0


def pow2(n):
    return n >= 1 and n & (n - 1) == 0


def weights_dyadic(rows, cols, step, w):
    """are all interpolation weights dyadic rationals (every grid cell of every stripe has a power-of-two width)? Then, on
    small-integer images, every intermediate value of the implementation is exact in binary64 and float32."""
    widths = {step[1]} if cols >= step[1] else set()
    if cols % step[1]:
        widths.add(cols % step[1])
    for ymin in range(0, rows, w):
        h = min(ymin + w, rows) - ymin
        if h >= step[0]:
            widths.add(step[0])
        if h % step[0]:
            widths.add(h % step[0])
    return all(pow2(x) for x in widths)


def compare_map(model, impl, what, exact=True):
    """model: table of Fraction/None; impl: float32 array.  exact (all interpolation weights dyadic, small integer pixels):
    equality where float32 represents the model value; otherwise |diff| <= 2^-21 max(1,|m|) (binary64 evaluation + float32
    rounding).  returns message or None"""
    impl = np.asarray(impl)
    if impl.shape != (len(model), len(model[0]) if model else 0):
        return f'{what}: shape {impl.shape} vs model {(len(model), len(model[0]) if model else 0)}'
    for y, row in enumerate(model):
        for c, m in enumerate(row):
            f = float(impl[y, c])
            if m is None:
                if not np.isnan(f):
                    return f'{what}[{y},{c}]: implementation {f}, model NaN'
                continue
            if not np.isfinite(f):
                return f'{what}[{y},{c}]: implementation {f}, model {m}'
            fm = Fraction(f)
            if exact and is_dyadic(m) and float(np.float32(float(m))) == float(m):
                if fm != m:
                    return f'{what}[{y},{c}]: implementation {f!r}, model {m} (exact comparison)'
            elif abs(fm - m) > Fraction(1, 2 ** 21) * max(1, abs(m)):
                return f'{what}[{y},{c}]: implementation {f!r}, model {float(m)!r} = {m}'
    return None
