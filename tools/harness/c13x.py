"""C13 (extension) - the global-data glue of the source finder: SourceFinder.load_globals / _make_bkg_rms / _load_aux_image,
get_aux_files, and the first lines of find_sources_in_image / priorized_fit_islands / save_background_files.

Proved (Props/C13x.v, axiom-free): background subtracted exactly once; decision table of the maps (file > forced value > BANE);
BANE not consulted when both files / both values are given; negation of image + background (file or forced) negates data and
background and keeps the noise (hypothesis on BANE: C06_scale with -1); accepted aux images have the image's shape; the early
return (a loaded object ignores later requests; a call that raised in _load_aux_image leaves the raw image behind).
Tied here: translator point Globals; exact correspondence of Model.Globals.calls with the real load_globals on integer-valued FITS
files (histories of one or two calls on one object), with source_finder.filter_image replaced IN THIS PROCESS by an exactly
computable function (background = image mirrored left-right, noise = max - min) whose Gallina twin is bane_fake; an independent
Python oracle of the documented decision table (so that a difference is reported as a violation with the concrete case).
Validated, not proved: the real BANE.filter_image keeps the shape and is sign-symmetric (one small image per run); one real
find_sources_in_image run on img / -img with bkgin = +/-bkg and rmsin (catalogue mirrored)."""
import json
import logging
import os
import re
import time
import warnings

import numpy as np

import vlib

EXTRA_TARGETS = ['Props/C13x.vo', 'Refuted/C13x_cube_default.vo']
GEN_EXTRA = ['Globals']
IMPORTS = ("From Coq Require Import ZArith List Bool.\nFrom Aegean Require Import Gen.Globals Model.Globals.\n"
           "Import ListNotations.\nOpen Scope Z_scope.\n")
TRUSTED_EXTRA = [
    'translator point Globals (tools/points_c13x.py): early return, order of the effectful statements of load_globals (stage list), '
    'conditions of the BANE / replacement blocks as boolean functions, map written and file read by each replacement, operand of '
    'the in-place subtraction, curvature constants, mask block, fills / short cut / box size / filter_image keywords / takes of '
    '_make_bkg_rms, shape test of _load_aux_image, transparent expansion and row range of load_image_band, keyword pass-through of '
    'the three callers, find_islands arguments, get_aux_files / save_background_files suffixes; every other statement is refused',
    'hand-written straight-line skeleton Model/Globals.v over those leaves (the stage ORDER is asserted by the leaf lemma lg_stages_eq, '
    'not interpreted) - tied by exact correspondence on histories of load_globals calls',
    'fits_tools.expand answers (C15) and the planes astropy reads are inputs of the model; scipy maximum_filter / minimum_filter with '
    'the default reflect border = extreme over the clipped window (validated through the correspondence, finite images only)',
]
ASSUMPTIONS_EXTRA = [
    'glue correspondence: pixel values, forced values and expanded aux maps are integer multiples of 1/8 (checked), so that the float '
    'arithmetic of the glue is exact; curvature maps are compared on images without blank pixels only',
    'BANE enters the theorems as a function of the selected image plane; its hypotheses (shape kept, sign symmetry) are C06 theorems '
    'about the BANE model and are re-validated here on the real filter_image for one image per run (negation exactly, IEEE is '
    'sign-symmetric)',
    'recorded behaviour, not treated as violations: load_globals on an object that already holds data is a no-op whatever file is '
    'named (second catalogue describes the first image); after an AegeanError in _load_aux_image the object keeps the raw image; '
    'cube_index=None (the API default) means the first plane (repaired in load_globals; Refuted/C13x_cube_default.v keeps the old '
    'behaviour: IndexError on every 3-D / 4-D file); for a 2-D file the index handed to BANE may be None or 0 (same plane)',
]

logging.disable(logging.CRITICAL)
warnings.simplefilter('ignore')
SCALE = 8


# ------------------------------------------------------------------------------------------ the stand-in for BANE
BANE_CALLS = []


def fake_filter_image(im_name, out_base, step_size=None, box_size=None, twopass=False, cores=None, mask=True, compressed=False,
                      nslice=None, cube_index=None):
    from AegeanTools.fits_tools import load_image_band
    BANE_CALLS.append({'im_name': im_name, 'out_base': out_base, 'step_size': step_size, 'box_size': box_size, 'cores': cores,
                       'cube_index': cube_index})
    d, _ = load_image_band(im_name, cube_index=0 if cube_index is None else cube_index)
    d = np.array(d, dtype=np.float64)
    return d[:, ::-1].copy(), np.full(d.shape, np.nanmax(d) - np.nanmin(d))


class patched_bane:
    def __enter__(self):
        import AegeanTools.source_finder as sfm
        self.m, self.old = sfm, sfm.filter_image
        sfm.filter_image = fake_filter_image
        return self

    def __exit__(self, *a):
        self.m.filter_image = self.old


# ------------------------------------------------------------------------------------------ cases
def nax(c):
    """NAXIS of the image file of a call (2, 3 or 4; a 4-D file has shape (1, planes, rows, columns))"""
    return c.get('naxis', 3 if c.get('is3d') else 2)


def gen_plane(rng, shape, blanks):
    r, c = shape
    style = rng.choice(['random', 'random', 'ramp', 'peaks'])
    if style == 'random':
        a = [[rng.randint(-6, 6) for _ in range(c)] for _ in range(r)]
    elif style == 'ramp':
        a = [[y - x + rng.choice([0, 0, 1]) for x in range(c)] for y in range(r)]
    else:
        a = [[0] * c for _ in range(r)]
        for _ in range(3):
            a[rng.randrange(r)][rng.randrange(c)] = rng.choice([9, -9, 5])
    if blanks:
        for _ in range(rng.randint(1, 3)):
            a[rng.randrange(r)][rng.randrange(c)] = None
    return a


def gen_aux(rng, shape, kind):
    """aux file spec: kind in plain | compressed | badshape"""
    r, c = shape
    if kind == 'badshape':
        r2, c2 = rng.choice([(r + 1, c), (r, c - 1), (c, r) if r != c else (r + 2, c)])
        return {'compressed': False, 'data': [[rng.randint(0, 4) for _ in range(c2)] for _ in range(r2)], 'factor': 0}
    if kind == 'compressed':
        k = rng.choice([1, 2, 3])
        data = [[k] * c for _ in range(r)] if rng.random() < 0.5 else [[4 * (x + y) + k for x in range(c)] for y in range(r)]
        return {'compressed': True, 'data': data, 'factor': rng.choice([2, 4])}
    return {'compressed': False, 'data': [[rng.randint(-3, 5) for _ in range(c)] for _ in range(r)], 'factor': 0}


def gen_call(rng, shape=None):
    shape = shape or (rng.randint(4, 8), rng.randint(4, 9))
    naxis = rng.choice([2, 2, 2, 2, 2, 3, 3, 3, 4])
    is3d = naxis >= 3
    do_curve = rng.random() < 0.4
    blanks = (not do_curve) and rng.random() < 0.4
    planes = [gen_plane(rng, shape, blanks) for _ in range(rng.randint(2, 3) if is3d else 1)]
    ci = rng.choice([None, None, 0, 1]) if not is3d else rng.choice([None, None, 0, 1, len(planes) - 1])

    def aux():
        k = rng.choice(['none', 'none', 'plain', 'plain', 'compressed', 'badshape'] if min(shape) >= 6 else
                       ['none', 'none', 'plain', 'plain', 'badshape'])
        return None if k == 'none' else gen_aux(rng, shape, k)
    return {'is3d': is3d, 'naxis': naxis, 'planes': planes, 'ci': ci, 'rms': rng.choice([None, None, 1, 2, 4]),
            'bkg': rng.choice([None, None, 0, 3, -2]), 'rmsin': aux(), 'bkgin': aux(), 'do_curve': do_curve,
            'mask': rng.choice(['none', 'none', 'obj', 'file', 'missing']), 'cores': rng.choice([1, 2, 3])}


def fixed_cases():
    """the decision table on one small image: every combination of forced rms / bkg and plain files"""
    img = [[0, 1, 5, 1, 0, -2], [2, 9, 3, -4, 0, 1], [0, 1, 0, 1, -7, 1], [3, 0, 2, 0, 1, 0]]
    bk = {'compressed': False, 'data': [[1] * 6, [2] * 6, [0] * 6, [-1] * 6], 'factor': 0}
    rm = {'compressed': False, 'data': [[2] * 6] * 4, 'factor': 0}
    other0 = [[v + 10 for v in row] for row in img]
    cube = {'is3d': True, 'naxis': 3, 'planes': [img, other0], 'ci': None, 'rms': 1, 'bkg': 0, 'rmsin': None, 'bkgin': None,
            'do_curve': False, 'mask': 'none', 'cores': 1}
    # cube_index not given: the first plane (forced maps; BANE on the cube; a 4-D file; then index 1 on a fresh object)
    out = [[cube], [dict(cube, rms=None, bkg=None)], [dict(cube, naxis=4, do_curve=True)], [dict(cube, ci=1)]]
    for rms in (None, 4):
        for bkg in (None, 3):
            for rmsin in (None, rm):
                for bkgin in (None, bk):
                    out.append([{'is3d': False, 'planes': [img], 'ci': None, 'rms': rms, 'bkg': bkg, 'rmsin': rmsin, 'bkgin': bkgin,
                                 'do_curve': True, 'mask': 'none', 'cores': 1}])
    bad = {'compressed': False, 'data': [[1] * 5] * 4, 'factor': 0}
    two = out[4][0]
    a = dict(two, bkgin=bad, rms=2)
    b = dict(two, bkgin=bk, rms=2)
    out.append([a, b])                                              # raise, then the repeated call with a good file
    other = [[v + 10 for v in row] for row in img]
    out.append([dict(two, rms=1, bkg=0), dict(two, planes=[other], rms=1, bkg=0)])    # second call, another image
    out.append([dict(cube), dict(cube, ci=1)])                                           # plane 0, then a no-op
    return out


def gen_history(rng):
    first = gen_call(rng)
    if rng.random() < 0.3:
        shape = (len(first['planes'][0]), len(first['planes'][0][0]))
        return [first, gen_call(rng, shape if rng.random() < 0.5 else None)]
    return [first]


# ------------------------------------------------------------------------------------------ Gallina
def g_px(v):
    return 'None' if v is None else f'Some {vlib.zlit(v * SCALE)}'


def g_img(a):
    return '[' + '; '.join('[' + '; '.join(g_px(v) for v in row) + ']' for row in a) + ']'


def g_zimg_scaled(a):
    """a: list of rows of already scaled ints"""
    return '[' + '; '.join('[' + '; '.join(f'Some {vlib.zlit(v)}' for v in row) + ']' for row in a) + ']'


def g_opt(v, f=lambda x: x):
    return 'None' if v is None else f'(Some {f(v)})'


def g_aux(a):
    if a is None:
        return 'None'
    exp = g_zimg_scaled(a['expanded8']) if a.get('expanded8') is not None else '[]'
    return f"(Some (mkAux {'true' if a['compressed'] else 'false'} {g_zimg_scaled(a['stored8'])} {exp}))"


def g_call(c):
    mask = {'none': 'MNone', 'obj': '(MObj 1)', 'file': '(MFile true 2)', 'missing': '(MFile false 2)'}[c['mask']]
    return (f"(mkIn {'true' if nax(c) >= 3 else 'false'} [{'; '.join(g_img(p) for p in c['planes'])}] "
            f"{g_opt(c['ci'], lambda k: f'{k}%nat')} {g_opt(c['rms'], lambda v: vlib.zlit(v * SCALE))} "
            f"{g_opt(c['bkg'], lambda v: vlib.zlit(v * SCALE))} {g_aux(c['rmsin'])} {g_aux(c['bkgin'])} "
            f"{'true' if c['do_curve'] else 'false'} {mask})")


def g_history(h):
    return 'obs_calls [' + '; '.join(g_call(c) for c in h) + ']'


def canon_model(v):
    """parsed Coq value of obs_calls -> comparable python"""
    def opt(x, f=lambda y: y):
        return None if x is None else f(x[1])

    def img(a):
        return [[None if p is None else p[1] for p in row] for row in a]
    out = []
    for ok, (im, bk, rm), (cv, reg, ci) in v:
        out.append({'ok': ok, 'img': opt(im, img), 'bkg': opt(bk, img), 'rms': opt(rm, img), 'curve': opt(cv), 'region': opt(reg),
                    'ci': opt(ci)})
    return out


# ------------------------------------------------------------------------------------------ the real code
def scaled(arr):
    """numpy array -> rows of ints (value * 8) / None; raises ValueError when a value is not a multiple of 1/8"""
    if arr is None:
        return None
    a = np.asarray(arr, dtype=np.float64) * SCALE
    out = []
    for row in a:
        r = []
        for v in row:
            if np.isnan(v):
                r.append(None)
            elif v == int(v):
                r.append(int(v))
            else:
                raise ValueError(f'value {v / SCALE!r} is not a multiple of 1/8')
        out.append(r)
    return out


def to_array(rows):
    return np.array([[np.nan if v is None else float(v) for v in row] for row in rows], dtype=np.float64)


def write_planes(path, planes, naxis):
    from astropy.io import fits
    from fixtures import make_header
    arr = [to_array(p) for p in planes]
    h = make_header(arr[0].shape, cdelt=10.0 / 3600, beam=(30.0 / 3600, 30.0 / 3600, 0.0))
    naxis = {False: 2, True: 3}.get(naxis, naxis)
    data = arr[0] if naxis == 2 else np.stack(arr) if naxis == 3 else np.stack(arr)[None, ...]
    hdu = fits.PrimaryHDU(data)
    for k, v in h.items():
        if k not in hdu.header:
            hdu.header[k] = v
    hdu.writeto(path, overwrite=True)
    return h


def prepare_aux(a, path, shape):
    """writes the aux file; fills stored8 / expanded8 (what the real expand answers) in the spec"""
    from AegeanTools.fits_tools import compress, expand
    if a is None:
        return None
    full = path + '.full.fits'
    write_planes(full, [a['data']], False)
    if a['compressed']:
        compress(full, a['factor'], outfile=path)
        from astropy.io import fits
        a['stored8'] = scaled(fits.getdata(path))
        try:
            a['expanded8'] = scaled(expand(path)[0].data)
        except ValueError:
            # interpolated values that are not multiples of 1/8: use the file uncompressed
            a['compressed'] = False
    if not a['compressed']:
        os.replace(full, path)
        a['stored8'] = scaled(to_array(a['data']))
        a['expanded8'] = None
    return path


_REGION = {}


def region_fixture(work):
    from AegeanTools.regions import Region
    if 'obj' not in _REGION:
        r = Region(maxdepth=3)
        r.add_pixels([1, 5, 17], 3)
        _REGION['obj'] = r
    path = os.path.join(work, 'mask.mim')
    if not os.path.exists(path):
        r2 = Region(maxdepth=3)
        r2.add_pixels([2, 40], 3)
        r2.save(path)
    return _REGION['obj'], path


def run_history(h, work, tag):
    """the real load_globals on ONE SourceFinder object, call after call.  returns (observations, bane argument problems)"""
    from AegeanTools.source_finder import SourceFinder
    from AegeanTools.BANE import get_step_size
    os.makedirs(work, exist_ok=True)
    obj, mfile = region_fixture(work)
    sf = SourceFinder()
    obs, problems = [], []
    with patched_bane():
        for k, c in enumerate(h):
            base = os.path.join(work, f'{tag}_{k}')
            hdr = write_planes(base + '.fits', c['planes'], nax(c))
            shape = (len(c['planes'][0]), len(c['planes'][0][0]))
            kw = {}
            for nm in ('rmsin', 'bkgin'):
                p = prepare_aux(c[nm], f'{base}_{nm}.fits', shape)
                if p:
                    kw[nm] = p
            mask = {'none': None, 'obj': obj, 'file': mfile, 'missing': os.path.join(work, 'no_such_file.mim')}[c['mask']]
            del BANE_CALLS[:]
            ok, err = True, None
            try:
                sf.load_globals(base + '.fits', rms=None if c['rms'] is None else float(c['rms']),
                                bkg=None if c['bkg'] is None else float(c['bkg']), cores=c['cores'], do_curve=c['do_curve'],
                                mask=mask, cube_index=c['ci'], **kw)
            except Exception as e:  # noqa
                ok, err = False, f'{type(e).__name__}: {e}'
            g = sf.global_data
            reg = g.region
            rid = None if reg is None else 1 if reg is obj else 2 if sorted(reg.get_demoted()) == [2, 40] else -1
            try:
                o = {'ok': ok, 'img': scaled(g.img), 'bkg': scaled(g.bkgimg), 'rms': scaled(g.rmsimg),
                     'curve': None if g.dcurve is None else [[int(v) for v in row] for row in np.asarray(g.dcurve)],
                     'region': rid, 'ci': getattr(g, 'cube_index', None)}
            except ValueError as e:
                o = {'ok': ok, 'error': str(e)}
            o['raised'] = err
            o['bane_calls'] = len(BANE_CALLS)
            obs.append(o)
            for bc in BANE_CALLS:
                st = get_step_size(g.header if g.header is not None else hdr)
                want = {'im_name': base + '.fits', 'out_base': None, 'step_size': st, 'box_size': (5 * st[0], 5 * st[1]),
                        'cores': c['cores'], 'cube_index': 0 if c['ci'] is None else c['ci']}
                if c['ci'] is None and nax(c) == 2 and bc.get('cube_index') is None:
                    want['cube_index'] = None       # a 2-D file: None and 0 name the same plane
                if {k2: (tuple(v) if isinstance(v, (list, tuple)) else v) for k2, v in bc.items()} != want:
                    problems.append(f'call {k}: filter_image received {bc}, expected {want}')
    return obs, problems


# ------------------------------------------------------------------------------------------ independent oracle (documented behaviour)
def oracle(h):
    """what the documentation of load_globals promises, on a fresh object per history: per call either 'no-op' (object already
    holds data), 'raises', or the three maps"""
    out = []
    state = None
    for c in h:
        if state is not None:
            out.append(dict(state, ok=True, noop=True))
            continue
        raw = c['planes'][c['ci'] or 0] if nax(c) >= 3 else c['planes'][0]     # cube_index not given: the first plane
        R, C = len(raw), len(raw[0])
        fin = [v for row in raw for v in row if v is not None]

        def aux(a):
            d = a['expanded8'] if a['compressed'] else a['stored8']
            return d if (len(d), len(d[0])) == (R, C) else 'bad'
        need_bane = not (c['rmsin'] and c['bkgin']) and not (c['rms'] is not None and c['bkg'] is not None)
        bkg = [[c['bkg'] * SCALE] * C for _ in range(R)] if c['bkg'] is not None else \
            [[None if v is None else v * SCALE for v in row[::-1]] for row in raw]
        rms = [[c['rms'] * SCALE] * C for _ in range(R)] if c['rms'] is not None else [[(max(fin) - min(fin)) * SCALE] * C for _ in range(R)]
        bad = False
        if c['bkgin']:
            bkg = aux(c['bkgin'])
            bad = bad or bkg == 'bad'
        if c['rmsin'] and not bad:
            rms = aux(c['rmsin'])
            bad = bad or rms == 'bad'
        raw8 = [[None if v is None else v * SCALE for v in row] for row in raw]
        if bad:
            state = {'img': raw8}            # recorded behaviour: the raw image stays in the object
            out.append({'ok': False, 'img': raw8})
            continue
        img = [[None if (a is None or b is None) else a - b for a, b in zip(ra, rb)] for ra, rb in zip(raw8, bkg)]
        state = {'img': img, 'bkg': bkg, 'rms': rms, 'region': {'none': None, 'obj': 1, 'file': 2, 'missing': None}[c['mask']],
                 'bane_calls': 1 if need_bane else 0}
        if c['ci'] is not None or nax(c) >= 3:
            state['ci'] = c['ci'] or 0
        out.append(dict(state, ok=True))
    return out


def history_problem(h, work, tag='h'):
    """message when the real code leaves the documented behaviour on this history (independent of the Coq model)"""
    obs, problems = run_history(h, work, tag)
    if problems:
        return problems[0], obs
    for k, (o, w) in enumerate(zip(obs, oracle(h))):
        if 'error' in o:
            return f"call {k}: {o['error']}", obs
        if o['ok'] != w['ok']:
            return f"call {k}: {'returned' if o['ok'] else 'raised ' + str(o['raised'])}, expected {'a normal return' if w['ok'] else 'an exception'}", obs
        for f in ('img', 'bkg', 'rms', 'region', 'ci'):
            if f in w and o.get(f) != w[f]:
                return f"call {k}: global_data.{f if f in ('region', 'ci') else f + ('' if f == 'img' else 'img')} differs from the documented value", obs
        if 'bane_calls' in w and not w.get('noop') and o['bane_calls'] != w['bane_calls']:
            return f"call {k}: BANE was called {o['bane_calls']} times, expected {w['bane_calls']}", obs
        if w.get('noop') and o['bane_calls']:
            return f"call {k}: BANE was called on an object that already holds data", obs
    return None, obs


def describe(h):
    def aux(a):
        return None if a is None else {'compressed': a['compressed'], 'factor': a['factor'], 'data': a['data']}
    return [{**{k: c[k] for k in ('planes', 'ci', 'rms', 'bkg', 'do_curve', 'mask', 'cores')}, 'naxis': nax(c), 'is3d': nax(c) >= 3,
             'rmsin': aux(c['rmsin']), 'bkgin': aux(c['bkgin'])} for c in h]


def impl_view(obs):
    return [{k: o.get(k) for k in ('ok', 'img', 'bkg', 'rms', 'curve', 'region', 'ci')} for o in obs]


# ------------------------------------------------------------------------------------------ other checks
def gen_strings():
    out = {}
    try:
        with open(os.path.join(vlib.COQ, 'Gen', 'Globals.v')) as fh:
            for m in re.finditer(r'Definition (\w+) : string := "([^"]*)"\.', fh.read()):
                out[m.group(1)] = m.group(2)
    except OSError:
        pass
    return out


def aux_files_problem(work):
    from AegeanTools.source_finder import get_aux_files
    s = gen_strings()
    d = os.path.join(work, 'auxfiles')
    os.makedirs(d, exist_ok=True)
    base = os.path.join(d, 'field.v2.fits')
    want = {}
    for key, present in (('bkg', True), ('rms', False), ('mask', True), ('cat', False), ('psf', True)):
        suf = s.get('aux_suffix_' + key)
        if suf is None:
            return f'generated suffix of {key} missing'
        p = os.path.join(d, 'field.v2' + suf)
        if present:
            open(p, 'w').close()
        want[key] = p if present else None
    got = get_aux_files(base)
    return None if got == want else f'get_aux_files({base}) = {got}, expected {want}'


def real_bane_hypotheses(work):
    """shape and sign symmetry of the real BANE.filter_image on one small image"""
    from AegeanTools.BANE import filter_image
    rs = np.random.RandomState(7)
    img = np.round(rs.normal(0, 4, (40, 48))) + np.add.outer(np.arange(40), np.arange(48)) // 8
    p, n = os.path.join(work, 'bane_p.fits'), os.path.join(work, 'bane_n.fits')
    write_planes(p, [img.tolist()], False)
    write_planes(n, [(-img).tolist()], False)
    bp, rp = filter_image(im_name=p, out_base=None, step_size=(4, 4), box_size=(20, 20), cores=1)
    bn, rn = filter_image(im_name=n, out_base=None, step_size=(4, 4), box_size=(20, 20), cores=1)
    if bp.shape != img.shape or rp.shape != img.shape:
        return f'filter_image returns shapes {bp.shape}, {rp.shape} for an image of shape {img.shape}'
    if not (np.array_equal(bn, -bp, equal_nan=True) and np.array_equal(rn, rp, equal_nan=True)):
        return 'filter_image(-img) is not (-bkg, rms) of filter_image(img)'
    return None


E2E_SPEC = {'shape': [64, 64], 'rms0': 0.5, 'sources': [[10.0, 20.3, 20.6, 1.6, 1.3, 30.0], [-7.5, 44.2, 40.7, 1.5, 1.3, -20.0]],
            'noise_seed': 11, 'noise': 0.2, 'mode': 'maps', 'bkg0': 1.5, 'ic': 5, 'oc': 4, 'blank': [], 'blank_in': 'img'}


def end_to_end(ctx):
    from harness import c13
    p = c13.run_finder(ctx, E2E_SPEC, False, False, False, 'x')
    n = c13.run_finder(ctx, E2E_SPEC, True, False, False, 'x')
    if len(p) != 2:
        return f'{len(p)} rows for the two-source image', p, n
    return c13.rows_mirrored(p, n), p, n


def cube_end_to_end(ctx, work):
    """find_sources_in_image(cube) with default arguments (cube_index not given; real BANE) completes and equals cube_index=0"""
    from astropy.io import fits
    from AegeanTools.source_finder import SourceFinder
    from fixtures import make_header
    from harness import c13
    a = dict(E2E_SPEC, mode='forced', bkg0=0.0)
    img, _, _ = c13.build_image(a)
    other, _, _ = c13.build_image(dict(a, sources=[[12.0, 30.0, 30.0, 1.6, 1.3, 10.0]], noise_seed=12))
    os.makedirs(work, exist_ok=True)
    path = os.path.join(work, 'cube_e2e.fits')
    hdu = fits.PrimaryHDU(np.stack([img, other]).astype(np.float64))
    for k, v in make_header(img.shape).items():
        if k not in hdu.header:
            hdu.header[k] = v
    hdu.writeto(path, overwrite=True)

    def rows(**kw):
        return [(s.island, s.source, float(s.peak_flux), float(s.ra), float(s.dec), float(s.a), float(s.b), float(s.pa), int(s.flags))
                for s in SourceFinder().find_sources_in_image(path, cores=1, **kw)]
    try:
        dflt = rows()
    except Exception as e:  # noqa
        return f'find_sources_in_image(<2 x 64 x 64 cube>) with cube_index not given raised {type(e).__name__}: {e}'
    zero = rows(cube_index=0)
    if not zero:
        return 'no rows for plane 0 of the cube'
    if dflt != zero:
        return f'cube_index not given: {len(dflt)} rows, cube_index=0: {len(zero)} rows, or different values'
    return None


def behaviour_notes(ctx, work):
    """the recorded behaviours of the early return, replayed on the real find_sources_in_image (two images, one object)"""
    from AegeanTools.source_finder import SourceFinder
    from fixtures import make_header, write_image
    from harness import c13
    a = dict(E2E_SPEC, mode='forced', bkg0=0.0)
    b = dict(a, sources=[[12.0, 30.0, 30.0, 1.6, 1.3, 10.0]])
    paths = []
    for k, spec in enumerate((a, b)):
        img, _, _ = c13.build_image(spec)
        pth = os.path.join(work, f'two_{k}.fits')
        write_image(pth, img.astype(np.float64), make_header(img.shape))
        paths.append(pth)
    kw = dict(rms=0.5, bkg=0.0, cores=1)
    sf = SourceFinder()
    first = sf.find_sources_in_image(paths[0], **kw)
    second = sf.find_sources_in_image(paths[1], **kw)
    fresh = SourceFinder().find_sources_in_image(paths[1], **kw)
    same_as_first = [(s.island, round(s.peak_flux, 6)) for s in second] == [(s.island, round(s.peak_flux, 6)) for s in first]
    return len(first), len(second), len(fresh), same_as_first


# ------------------------------------------------------------------------------------------ entry points
def all_histories(ctx):
    rng = ctx.rng
    n = 70 if ctx.tier == 'quick' else 700
    return [('fixed', h) for h in fixed_cases()] + [('random', gen_history(rng)) for _ in range(n)]


def bucket_of(h):
    c = h[0]
    src = lambda f, v: 'file' if c[f] else 'forced' if c[v] is not None else 'bane'   # noqa: E731
    return f"bkg-{src('bkgin', 'bkg')}/rms-{src('rmsin', 'rms')}" + ('/2calls' if len(h) > 1 else '')


def run_extra(ctx, model_ok=True):
    t0 = time.time()
    # (the translator obligation of Gen/Globals.v is reported by check.py: GEN of c13.py includes GEN_EXTRA)
    names = vlib.theorems_of('C13x')
    if model_ok:
        for n in names:
            ctx.oblige(f'theorem {n}', True)
        ax, out = vlib.print_assumptions(ctx, 'C13x', names)
        if ax is None:
            ctx.oblige('Print Assumptions (C13x) runs', False, out)
        else:
            for n in names:
                badax = ax.get(n, ['<missing>'])       # files over Z / lists must be axiom-free
                ctx.axioms[n] = badax
                ctx.oblige(f'axioms of {n}: none', not badax, badax)
        if ctx.tier == 'thorough' and os.environ.get('VERIF_NO_COQCHK') != '1':
            cok, cax, clog = vlib.coqchk('C13x')
            if cok is None:
                ctx.notes.append('C13x: ' + clog)
            else:
                ctx.oblige('coqchk -o re-checks Props/C13x.vo and everything it depends on', cok, clog)
                ctx.oblige('coqchk (C13x): no axioms in the dependency cone', not cax, cax)
    ctx.rule += (' EXTENSION (load_globals glue): histories of one or two load_globals calls on one SourceFinder object; per call a '
                 '2-D, 3-D or 4-D integer-valued FITS file (cube_index given or not), forced rms / bkg or none, rmsin / bkgin plain / BANE-compressed / of another '
                 'shape / absent, cube_index, do_curve, mask as object / file / missing file; distinct = distinct history; non-trivial '
                 '= at least one of the four map options is set.')
    work = os.path.join(ctx.work, 'c13x')
    hist = all_histories(ctx)
    exprs, impls, metas = [], [], []
    nviol = 0
    for k, (bucket, h) in enumerate(hist):
        msg, obs = history_problem(h, work, f'h{k}')
        c = h[0]
        nontrivial = any(c[f] is not None for f in ('rms', 'bkg', 'rmsin', 'bkgin'))
        ctx.case(key=('glue', json.dumps(describe(h), sort_keys=True)) if nontrivial else None, bucket='glue-' + bucket_of(h),
                 sample={'history': describe(h)} if bucket == 'random' and len(h) == 2 and k % 7 == 0 else None)
        for c2 in h:
            for f in ('rmsin', 'bkgin'):
                if c2[f]:
                    kind = 'compressed' if c2[f]['compressed'] else 'plain'
                    ctx.hist['aux-' + kind] = ctx.hist.get('aux-' + kind, 0) + 1
        if msg:
            nviol += 1
            if nviol <= 3:
                ctx.mismatch('load_globals vs the documented decision table (file > forced value > BANE, background subtracted once)',
                             describe(h), impl=msg, is_violation={'kind': 'glue', 'history': describe(h), 'what': msg})
        exprs.append(g_history(h))
        impls.append(impl_view(obs))
        metas.append(h)
    ctx.oblige(f'oracle: {len(hist)} histories, global_data.img / bkgimg / rmsimg / region / cube_index, exceptions, number and '
               'arguments of the BANE calls (file name, out_base=None, box = 5 x step, cores, cube_index) as documented',
               nviol == 0, f'{nviol} histories differ')
    if model_ok:
        t1 = time.time()
        vals, err = vlib.coq_eval(ctx, IMPORTS, exprs, shard=40, workers=6)
        if vals is None:
            ctx.oblige('model evaluation (vm_compute) of the histories', False, err)
        else:
            nbad = 0
            for v, iv, h in zip(vals, impls, metas):
                mv = canon_model(v)
                # a call that failed before anything was stored leaves bkgimg / rmsimg as None in both
                if mv != iv:
                    nbad += 1
                    if nbad <= 3:
                        ctx.mismatch('load_globals vs Model.Globals.calls (ok flag, img, bkgimg, rmsimg, dcurve, region, cube_index after '
                                     'every call)', describe(h), impl=iv, model=mv)
            ctx.oblige(f'correspondence: {len(exprs)} histories, state of the SourceFinder object after every call equal to the model '
                       '(exception <-> false)', nbad == 0, f'{nbad} histories differ')
            ctx.traces += len(vals)
        ctx.notes.append(f'C13x: model evaluation {time.time() - t1:.1f}s')
    p = aux_files_problem(work)
    ctx.case(key=('aux-files',), bucket='get_aux_files')
    ctx.oblige('get_aux_files: generated suffix table, existing files returned, missing ones None (base = name without the LAST '
               'extension)', p is None, p)
    p = real_bane_hypotheses(work)
    ctx.hyp['BANE.filter_image keeps the image shape and filter_image(-img) = (-bkg, rms) exactly (hypotheses of C13x_shapes / '
            'C13x_negation; C06_shape / C06_scale about the BANE model)'] = 1
    ctx.oblige('library hypothesis: the real BANE.filter_image keeps the shape and is sign-symmetric', p is None, p)
    msg, pr, nr = end_to_end(ctx)
    ctx.case(key=('e2e', 'maps'), bucket='finder-img/-img-with-bkgin-rmsin')
    ctx.oblige('end to end: find_sources_in_image on img and -img with bkgin = +/-bkg and rmsin gives mirrored catalogues (2 sources)',
               msg is None, msg)
    if msg:
        ctx.mismatch('finder on img / -img with background and noise files', {'spec': E2E_SPEC}, impl=msg,
                     is_violation={'kind': 'e2e', 'spec': E2E_SPEC, 'what': msg})
    msg = cube_end_to_end(ctx, work)
    ctx.case(key=('e2e', 'cube'), bucket='finder-cube-default-index')
    ctx.oblige('end to end: find_sources_in_image on a 2 x 64 x 64 cube with default arguments (cube_index not given, real BANE) '
               'completes and equals the run with cube_index=0', msg is None, msg)
    if msg:
        ctx.mismatch('finder on a cube without cube_index', {'cube': 'E2E_SPEC (forced) + a second plane'}, impl=msg,
                     is_violation={'kind': 'cube-e2e', 'what': msg})
    try:
        n1, n2, n3, same = behaviour_notes(ctx, work)
        ctx.notes.append(f'C13x recorded behaviour: one SourceFinder object, find_sources_in_image(A) then (B): the second call returns '
                         f'{n2} rows {"identical to" if same else "different from"} the {n1} rows of A (a fresh object finds {n3} in B) - '
                         'load_globals returns early when the object holds data (C13x_reload_is_noop_partial)')
    except Exception as e:  # noqa
        ctx.notes.append(f'C13x: two-image replay crashed: {type(e).__name__}: {e}')
    ctx.notes.append(f'C13x: total {time.time() - t0:.1f}s')


def search_extra(ctx):
    rng = ctx.rng
    work = os.path.join(ctx.work, 'c13x_search')
    t0 = time.time()
    pool = fixed_cases()
    i = 0
    while time.time() - t0 < 20:
        h = pool[i] if i < len(pool) else gen_history(rng)
        i += 1
        try:
            msg, _ = history_problem(h, work, 's')
        except Exception as e:  # noqa
            msg = f'harness: {type(e).__name__}: {e}'
        if msg:
            # shrink: drop the second call, then options one at a time
            def bad(x):
                try:
                    return history_problem(x, work, 's')[0] is not None
                except Exception:  # noqa
                    return True
            if len(h) > 1 and bad(h[:1]):
                h = h[:1]
            for f, v in (('rmsin', None), ('bkgin', None), ('rms', None), ('bkg', None), ('mask', 'none'), ('do_curve', False)):
                for k in range(len(h)):
                    if h[k][f] != v:
                        t = [dict(c) for c in h]
                        t[k][f] = v
                        if bad(t):
                            h = t
            return {'kind': 'glue', 'history': describe(h), 'what': history_problem(h, work, 's')[0]}
    return None


def replay_extra(ctx, fi):
    work = os.path.join(ctx.work, 'c13x_replay')
    if fi['kind'] == 'cube-e2e':
        msg = cube_end_to_end(ctx, work)
    elif fi['kind'] == 'glue':
        h = fi['history']
        msg, obs = history_problem(h, work, 'r')
        print('history:', json.dumps(describe(h))[:3000])
        for k, o in enumerate(obs):
            print(f'  call {k}:', {x: o.get(x) for x in ("ok", "raised", "bane_calls", "img", "bkg", "rms")})
    else:
        msg, p, n = end_to_end(ctx)
        print('spec:', json.dumps(fi.get('spec')))
    print('implementation:', msg or 'property holds on this input')
    return 1 if msg else 0
