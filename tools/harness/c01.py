"""C01 - closed-loop recovery of an injected elliptical Gaussian.

Ties and validations (the theorems are in coq/Props/C01.v):
 (A) certified correspondence of SourceFinder.result_to_components (called on hand-made lmfit.Parameters, no optimiser, real
     WCSHelper) with Model/Recovery.to_component: the pixels at which the WCS is queried, the ellipse conversion (gcd / bear of the
     generated Gen/Sphere.v, the minor-axis defect factor), arcseconds / fix_shape / pa_limit / RA wrap, integrated flux.
 (A') the pixels mapped by fitting.errors for err_a / err_b and their great-circle distance vs the generated leaves.
 (B) certified correspondence of the bounds / start values of SourceFinder.estimate_lmfit_parinfo with the generated leaves.
 (C) library hypotheses: WCS round trip, conformality / point symmetry / uniform scale residues on the sampled sources.
 (D) optimiser hypothesis: the real closed loop (inject -> find_sources_in_image -> compare with the independently computed truth)
     with the property's noise-free tolerances; the derived amplitude-bound condition is evaluated for every injection.
 (E) the recorded finding (amplitude bound excludes the truth) is replayed on the implementation.
"""
import logging
import math
import os
import time

os.environ.setdefault('TQDM_DISABLE', '1')   # no progress bars from the finder

import numpy as np

import vlib
from vlib import rlit

GEN = ['Recovery', 'Gauss', 'Sphere', 'SmallIsland']
EXTRA_TARGETS = ['Refuted/C01_amp_bound.vo', 'Refuted/C01_shape_cap.vo']
LEVEL = 'proof'
TRUSTED = [
    'Coq 8.16.1 kernel; Coquelicot; the real-number axioms of the standard library and functional extensionality as listed by Print Assumptions',
    'translator tools/points_c01.py (R back end): whole-function reading of WCSHelper.sky2pix_ellipse / pix2sky_ellipse (self.sky2pix / '
    'self.pix2sky -> function arguments S / P, tuple unpacking, augmented assignments), get_beamarea_pix, CC2FHWM / FWHM2CC, the shape '
    'matchers for fix_shape, pa_limit (two while loops), the statement order of result_to_components, the bounds block and the '
    'params.add keywords of estimate_lmfit_parinfo; tools/translate_points.py for Gen/Gauss.v; tools/points_c17.py for Gen/Sphere.v',
    'Model/Recovery.v: pa_limit `while` loops unrolled 4 times (proved sufficient for |pa| <= 450; reachable values lie in (-180, 270]); '
    'the pixel beam is what get_psf_sky2pix returns without a psf map; one component per call (components are independent)',
    'Interval tactic: each per-case lemma |model - implementation value| <= tol is checked by the kernel',
    'astropy.wcs / wcslib (never modelled: P, S are variables; hypotheses validated below), lmfit / MINPACK (optimiser hypothesis, validated '
    'by the closed loop), numpy, astropy.coordinates.SkyCoord (independent truth of the closed loop)',
]
ASSUMPTIONS = [
    'binary64 round-off of the implementation is bounded per case: 2^-36 relative + 2^-46 absolute on O(1) sines / cosines (gcd, bear as in C17), '
    '1e-10 deg on angles, 1e-9 relative on axes and fluxes; pixel coordinates of WCS queries 1e-9 pixel',
    'the WCS is continuous: its value at a query pixel rounded to binary64 stands for its value at the exact real pixel (|difference| <= 1e-9 pixel)',
    'closed loop: forced noise level rms = |amp| / SNR, background 0, innerclip 5, outerclip 4, cores = 1; isolated single source, wholly inside the image',
    'position angle is compared only for axis ratio >= 1.15 (undefined for a circular source)',
    '"exactly one component" is validated only for sources whose sampled image has a single 3x3 local maximum (one summit); a failure is '
    'attributed to the recorded ridge-split finding ONLY when it has its exact signature (>= 2 components, all unflagged or all with FITERR alone, each with the injected a, b, '
    'pa, within a pixel of the injected position, peaks summing to the injected peak within 0.1 %); anything else is a violation',
    'noisy images: "within 5 reported standard errors" is decided by execution only; reported errors of -1 (not estimated) are skipped; strict for white '
    'noise of the forced rms with docov off at S/N 100-400 on compact sources (both tiers); for beam-correlated noise with docov on and for internal BANE estimates '
    '(thorough) up to 10 % outliers are tolerated (the noise model of the fit is then only approximate)',
]
CC = 2 * math.sqrt(2 * math.log(2))
NAMES = ['amp', 'xo', 'yo', 'sx', 'sy', 'theta']
PROJS = ['SIN', 'TAN', 'ZEA', 'ARC', 'STG']
KNOWN = dict(proj='SIN', crval=(150.0, -30.0), cdelt=10.0 / 3600, shape=(40, 44), beam_pix=(3.0, 3.0, 0.0),
             xo=20.5, yo=22.5, sx=3.0 / CC, sy=3.0 / CC, th=0.0, amp=1.0, snr=1e4, docov=True)
KNOWN_TIE = dict(proj='SIN', crval=(150.0, -30.0), cdelt=10.0 / 3600, shape=(40, 44), beam_pix=(4.0, 4.0, 0.0),
                 xo=20.5, yo=22.5, sx=8.0 / CC, sy=4.0 / CC, th=45.0, amp=1.0, snr=100.0, docov=False)
KNOWN_RIDGE = dict(proj='SIN', crval=(150.0, -30.0), cdelt=10.0 / 3600, shape=(80, 90), beam_pix=(4.5, 4.0, 0.0),
                   xo=40.3, yo=45.6, sx=20.0 / CC, sy=5.0 / CC, th=30.0, amp=1.0, snr=100.0, docov=False)
KNOWN_CAP = dict(proj='SIN', crval=(150.0, -30.0), cdelt=10.0 / 3600, shape=(72, 78), beam_pix=(4.0, 4.0, 0.0),
                 xo=36.1, yo=38.95, sx=16.0 / CC, sy=4.0 / CC, th=0.0, amp=1.0, snr=5.2, docov=False)
KNOWN_THIN = dict(proj='SIN', crval=(0.0005, 45.0), cdelt=2.0 / 3600, shape=(50, 56), beam_pix=(3.0, 3.0, 0.0), xo=25.18481059899647,
                  yo=28.196629193821433, sx=9.9 / CC, sy=3.3 / CC, th=-88.5, amp=-4.0, snr=5.6, docov=False)
logging.disable(logging.CRITICAL)

HEADER = ("From Coq Require Import Reals Lra.\nFrom Interval Require Import Tactic.\n"
          "From Aegean Require Import Lib.RBase Gen.Sphere Lib.Sphere Gen.Gauss Gen.Recovery Model.FitModel Model.Recovery "
          "Proofs.RecoveryProofs.\nOpen Scope R_scope.\n"
          "Ltac kill_minmax := repeat match goal with "
          "| |- context [Rmax ?a ?b] => first [rewrite (Rmax_left a b) by interval with (i_prec 90) | rewrite (Rmax_right a b) by interval with (i_prec 90)] "
          "| |- context [Rmin ?a ?b] => first [rewrite (Rmin_left a b) by interval with (i_prec 90) | rewrite (Rmin_right a b) by interval with (i_prec 90)] end.")


def tol_unit(v):
    return rlit(abs(v) * 2.0 ** -36 + 2.0 ** -46)


# ------------------------------------------------------------------------------------------
# fixtures
def header_of(spec):
    from fixtures import make_header
    cd = spec['cdelt']
    bm = spec['beam_pix']
    return make_header(spec['shape'], proj=spec['proj'], crval=spec['crval'], cdelt=cd,
                       beam=(bm[0] * cd, bm[1] * cd, bm[2]))


def helper_of(spec):
    from AegeanTools.wcs_helpers import WCSHelper
    return WCSHelper.from_header(header_of(spec))


def norm_pa(pa):
    while pa <= -90:
        pa += 180
    while pa > 90:
        pa -= 180
    return pa


def truth_of(spec):
    """independent of AegeanTools: astropy WCS + SkyCoord separation / position angle"""
    from astropy.wcs import WCS
    from astropy.coordinates import SkyCoord
    import astropy.units as u
    h = header_of(spec)
    w = WCS(h, naxis=2)

    def sky(x, y):     # x = row (0-based), y = column (0-based)
        r = w.all_pix2world([[y + 1, x + 1]], 1)[0]
        return SkyCoord(r[0] * u.deg, r[1] * u.deg)
    xo, yo, sx, sy, th = spec['xo'], spec['yo'], spec['sx'], spec['sy'], spec['th']
    if sy > sx:
        sx, sy, th = sy, sx, th + 90
    t = math.radians(th)
    c = sky(xo, yo)
    m = sky(xo + sx * CC * math.cos(t), yo + sx * CC * math.sin(t))
    n = sky(xo + sy * CC * math.cos(t - math.pi / 2), yo + sy * CC * math.sin(t - math.pi / 2))
    a = c.separation(m).deg * 3600
    b = c.separation(n).deg * 3600
    pa = norm_pa(c.position_angle(m).deg)
    bmaj, bmin = h['BMAJ'] * 3600, h['BMIN'] * 3600
    return dict(ra=float(c.ra.deg), dec=float(c.dec.deg), peak=spec['amp'], a=a, b=b, pa=pa, int_flux=spec['amp'] * a * b / (bmaj * bmin),
                pixscale=abs(h['CDELT2']))


def render(spec):
    from AegeanTools import fitting
    xx, yy = np.indices(spec['shape'])
    return fitting.elliptical_gaussian(xx.astype(float), yy.astype(float), spec['amp'], spec['xo'], spec['yo'], spec['sx'], spec['sy'],
                                       spec['th'])


def noise_for(spec, seed):
    rs = np.random.RandomState(seed)
    n = rs.normal(size=spec['shape'])
    if spec.get('correlated', spec.get('docov', True)):
        from scipy.ndimage import gaussian_filter
        bm = spec['beam_pix']
        n = gaussian_filter(n, sigma=(bm[0] / CC, bm[1] / CC), mode='wrap')   # beam-correlated (axis-aligned beam)
    return n / n.std()


def run_finder(ctx, spec, tag='loop'):
    """the real blind finder on the injected image; returns rows (dicts)"""
    from AegeanTools.source_finder import SourceFinder
    from fixtures import write_image
    img = render(spec)
    rms = abs(spec['amp']) / spec['snr']
    if spec.get('noise_seed') is not None:
        img = img + rms * noise_for(spec, spec['noise_seed'])
    if spec.get('pedestal') is not None:
        img = img + spec['pedestal'][0]
    path = os.path.join(ctx.work, f'{tag}.fits')
    write_image(path, img.astype(np.float64), header_of(spec))
    kw = dict(cores=1, innerclip=5, outerclip=4, docov=bool(spec.get('docov', True)))
    if not spec.get('internal'):
        kw.update(rms=rms, bkg=0.0)
    if spec.get('pedestal') is not None:
        # the source sits on a constant background level: either the level is given (bkg=level) or only the noise is given and the
        # background is left to the finder's own estimate (rms=.., bkg not given: the documented "--forcerms" alone)
        level, mode = spec['pedestal']
        if mode == 'given':
            kw.update(rms=rms, bkg=level)
        else:
            kw.pop('bkg', None)
    found = SourceFinder(log=logging.getLogger('c01')).find_sources_in_image(path, **kw)
    rows = []
    for s in found:
        rows.append({k: float(getattr(s, k)) for k in ('ra', 'dec', 'peak_flux', 'a', 'b', 'pa', 'int_flux', 'err_ra', 'err_dec',
                                                       'err_peak_flux', 'err_a', 'err_b', 'err_pa', 'err_int_flux', 'local_rms')}
                    | {'flags': int(s.flags), 'island': int(s.island), 'source': int(s.source)})
    return rows


def sky_sep_deg(ra1, dec1, ra2, dec2):
    """Vincenty formula (independent of angle_tools.gcd), degrees"""
    l1, p1, l2, p2 = (math.radians(v) for v in (ra1, dec1, ra2, dec2))
    dl = l2 - l1
    num = math.hypot(math.cos(p2) * math.sin(dl), math.cos(p1) * math.sin(p2) - math.sin(p1) * math.cos(p2) * math.cos(dl))
    den = math.sin(p1) * math.sin(p2) + math.cos(p1) * math.cos(p2) * math.cos(dl)
    return math.degrees(math.atan2(num, den))


def padiff(a, b):
    d = (a - b) % 180.0
    return min(d, 180.0 - d)


# ------------------------------------------------------------------------------------------
# the derived conditions under which the box of estimate_lmfit_parinfo contains the truth (C01_truth_within_bounds_partial)
def box_conditions(spec, innerclip=5.0):
    img = render(spec)
    amp = spec['amp']
    pk = float(np.max(img) if amp > 0 else np.min(img))
    g = pk / amp
    rms = abs(amp) / spec['snr']
    lhs = abs(amp) * (1 - 1.05 * g)
    sx, sy = max(spec['sx'], spec['sy']), min(spec['sx'], spec['sy'])
    ba, bb = spec['beam_pix'][0], spec['beam_pix'][1]
    # summits = 4-connected groups of 3x3 local maxima above the outer clip.  A sampled noise-free Gaussian has more than one when two
    # diagonal pixels tie exactly, or when an oblique ridge of axis ratio >~ 3.5 puts a second lattice minimum of its quadratic form a
    # knight's move away (depends on axis ratio, angle and sub-pixel centre only, not on the sampling)
    from scipy.ndimage import label, maximum_filter
    pos = img if amp > 0 else -img
    nsummit = int(label((maximum_filter(pos, size=3) == pos) & (pos > 4.0 * rms))[1])
    # the island of an isolated noise-free source = its pixels at or above the outer clip; the shape cap of estimate_lmfit_parinfo is
    # (max(xsize, ysize) + 1) sqrt(2) FWHM2CC (or 1.1 x the beam sigma when that is larger) - C01_truth_within_bounds_partial carries it
    isl = np.argwhere(pos >= 4.0 * rms)
    ext = (int(isl[:, 0].max() - isl[:, 0].min() + 1), int(isl[:, 1].max() - isl[:, 1].min() + 1)) if len(isl) else (0, 0)
    cap = max((max(ext) + 1) * math.sqrt(2) / CC, max(ba / CC, bb / CC * 1.01) * 1.1)
    return {'g': g, 'amp_condition': lhs <= innerclip * rms, 'amp_margin': (innerclip * rms - lhs) / abs(amp), 'single_summit': nsummit == 1,
            'island_extent': ext, 'island_npix': int(len(isl)), 'cap_condition': sx <= cap * (1 + 1e-12), 'cap_margin': (cap - sx) / sx,
            'position_condition': 2 * sx ** 2 <= sy ** 2 * (ba ** 2 + bb ** 2) * (1 + 1e-12),
            'beam_condition': bb / CC <= sy * (1 + 1e-12)}


def loop_problem(ctx, spec, tag='loop'):
    """the property on the implementation for one injection: None or a message"""
    tr = truth_of(spec)
    rows = run_finder(ctx, spec, tag)
    noisy = spec.get('noise_seed') is not None
    if noisy:
        # detections of noise peaks elsewhere in the image are not components "for" the injected source
        rows = [r for r in rows if sky_sep_deg(r['ra'], r['dec'], tr['ra'], tr['dec']) * 3600 <= 1.5 * tr['a']]
    if len(rows) != 1:
        return f'{len(rows)} components reported for one injected source', rows, tr
    r = rows[0]
    sep = sky_sep_deg(r['ra'], r['dec'], tr['ra'], tr['dec'])
    ratio = max(spec['sx'], spec['sy']) / min(spec['sx'], spec['sy'])
    if not noisy:
        if not (0 <= r['ra'] < 360):
            return f"ra = {r['ra']!r} outside [0, 360)", rows, tr
        if sep > 0.02 * tr['pixscale']:
            return f"position off by {sep / tr['pixscale']:.4f} pixel (> 0.02)", rows, tr
        for k, kt, tol in (('peak_flux', 'peak', 1e-3), ('a', 'a', 5e-3), ('b', 'b', 5e-3), ('int_flux', 'int_flux', 5e-3)):
            if abs(r[k] - tr[kt]) > tol * abs(tr[kt]):
                return f"{k} = {r[k]!r}, injected {tr[kt]!r}: relative error {abs(r[k] - tr[kt]) / abs(tr[kt]):.3e} > {tol}", rows, tr
        if ratio >= 1.15 and padiff(r['pa'], tr['pa']) > 0.5:
            return f"pa = {r['pa']!r}, injected {tr['pa']!r} (> 0.5 deg)", rows, tr
        if not (-90 < r['pa'] <= 90) or r['a'] < r['b']:
            return f"reported shape not canonical: a = {r['a']}, b = {r['b']}, pa = {r['pa']}", rows, tr
        return None, rows, tr
    # noisy: within 5 reported standard errors (errors of -1 = not estimated are skipped)
    cosd = max(math.cos(math.radians(tr['dec'])), 1e-6)
    dra = ((r['ra'] - tr['ra'] + 180) % 360 - 180) * cosd
    checks = [('ra', dra, r['err_ra']), ('dec', r['dec'] - tr['dec'], r['err_dec']),
              ('peak_flux', r['peak_flux'] - tr['peak'], r['err_peak_flux']), ('a', r['a'] - tr['a'], r['err_a']),
              ('b', r['b'] - tr['b'], r['err_b']), ('int_flux', r['int_flux'] - tr['int_flux'], r['err_int_flux'])]
    if ratio >= 1.3:
        checks.append(('pa', padiff(r['pa'], tr['pa']), r['err_pa']))
    for k, d, e in checks:
        if e is None or not math.isfinite(e) or e <= 0:
            continue
        if abs(d) > 5 * e:
            return f"noisy image: {k} differs from the injected value by {abs(d) / e:.2f} reported standard errors (> 5)", rows, tr
    return None, rows, tr


# ------------------------------------------------------------------------------------------
# injection streams
def gen_spec(rng, k, want_ok=None, big=False):
    proj = PROJS[k % 5]
    dec = rng.choice([-85.0, -60.0, -30.0, 0.0, 20.0, 45.0, 72.0, 85.0]) + rng.uniform(-0.5, 0.5) * (k % 2)
    ra = rng.choice([0.0005, 359.9995, 150.0, 12.5, 275.0, 180.0])
    cdelt = rng.choice([2.0, 10.0, 30.0, 120.0]) / 3600
    bpix = rng.choice([3.0, 4.0, 5.0, 6.0, 8.0])
    bratio = rng.choice([1.0, 1.0, 1.3])
    bpa = rng.choice([0.0, 0.0, 35.0, -60.0]) if bratio > 1 else 0.0
    beam_pix = (bpix * bratio, bpix, bpa)
    # source at least as large as the beam (both axes >= beam major axis keeps it simple and true for every orientation)
    base = beam_pix[0] / CC
    sy = base * rng.choice([1.0, 1.0, 1.2, 1.6])
    axr = rng.choice([1.0, 1.2, 1.5, 2.0])
    sx = sy * axr
    th = rng.uniform(-180, 180) if k % 3 else rng.choice([0.0, 90.0, -90.0, 45.0, 180.0])
    n = int(2 * math.ceil(5.5 * sx) + 12)
    shape = (n, n + 4)
    frac = rng.choice([(0.0, 0.0), (0.5, 0.5), (0.5, 0.0), (0.25, -0.4), (rng.uniform(-.5, .5), rng.uniform(-.5, .5))])
    xo, yo = shape[0] // 2 + frac[0], shape[1] // 2 + frac[1]
    amp = rng.choice([1.0, 0.02, 37.5, -1.0, -4.0])
    snr = rng.choice([20.0, 60.0, 200.0, 1000.0, 10000.0])
    spec = dict(proj=proj, crval=(ra, dec), cdelt=cdelt, shape=shape, beam_pix=beam_pix, xo=xo, yo=yo, sx=sx, sy=sy, th=th, amp=amp, snr=snr,
                docov=bool(k % 2 == 0))
    if want_ok is not None:
        for _ in range(40):
            c = box_conditions(spec)
            if not c['single_summit']:
                spec['xo'] += 0.013        # break the exact tie between two diagonal pixels (recorded finding, replayed separately)
                continue
            ok = c['amp_condition']
            # stay clear of the boundary so that the 0.1 % tolerance decides cleanly
            clear = c['amp_margin'] > 2e-3 if want_ok else c['amp_margin'] < -5e-3
            if ok == want_ok and clear:
                break
            spec['snr'] = rng.choice([20.0, 60.0, 200.0]) if want_ok else rng.choice([3000.0, 10000.0, 100000.0])
            if not want_ok:
                spec['xo'], spec['yo'] = shape[0] // 2 + 0.5, shape[1] // 2 + 0.5
                spec['beam_pix'] = (3.0, 3.0, 0.0) if _ > 5 else spec['beam_pix']
                if _ > 5:
                    spec['sx'] = spec['sy'] = 3.0 / CC
            else:
                if _ > 5:
                    spec['xo'], spec['yo'] = float(shape[0] // 2), float(shape[1] // 2)
    return spec


def ridge_split_signature(rows, tr):
    """the recorded finding: >= 2 components, each with the injected shape, within a pixel of the injected position, unflagged, whose peak
    fluxes sum to the injected peak; flags 0, or FITERR alone on all of them"""
    from AegeanTools import flags as aflags
    if len(rows) < 2:
        return False
    for r in rows:
        # unflagged, or FITERR alone on every component (the fit of two coincident components is degenerate and is sometimes reported as such)
        if r['flags'] not in (0, aflags.FITERR) or r['flags'] != rows[0]['flags']:
            return False
        if abs(r['a'] - tr['a']) > 5e-3 * tr['a'] or abs(r['b'] - tr['b']) > 5e-3 * tr['b'] or padiff(r['pa'], tr['pa']) > 0.5:
            return False
        if sky_sep_deg(r['ra'], r['dec'], tr['ra'], tr['dec']) > 1.0 * tr['pixscale']:
            return False
    return abs(sum(r['peak_flux'] for r in rows) - tr['peak']) <= 1e-3 * abs(tr['peak'])


def classify(ctx, spec, tag):
    """one noise-free injection -> (class, message, rows, truth, conditions); class in pass / amp_bound / ridge_split / violation"""
    c = box_conditions(spec)
    msg, rows, tr = loop_problem(ctx, spec, tag)
    if not msg:
        return 'pass', None, rows, tr, c
    if ridge_split_signature(rows, tr):
        return 'ridge_split', msg, rows, tr, c
    if not c['amp_condition']:
        return 'amp_bound', msg, rows, tr, c
    if 0 < min(c['island_extent']) <= 2 and len(rows) == 1 and rows[0]['flags'] & 4:
        # recorded finding: an island at most 2 pixels across is not given the six-parameter fit; the component is FLAGGED FIXED2PSF
        return 'fixed2psf', msg, rows, tr, c
    if not c['cap_condition'] and len(rows) == 1 and rows[0]['a'] < tr['a']:
        # recorded finding: the island-size cap of sx / sy excludes the true major axis (faint elongated source: the island is shorter
        # than the source); the reported major axis is then too SHORT
        return 'shape_cap', msg, rows, tr, c
    return 'violation', msg, rows, tr, c


def gen_elongated(rng, k):
    """strongly elongated sources: axis ratio 2.5 - 5, every orientation with extra weight next to the image axes, S/N 20 and 100"""
    bmin = rng.choice([4.0, 4.0, 3.5, 5.0])
    beam_pix = (bmin * rng.choice([1.0, 1.125]), bmin, 0.0)
    minor = beam_pix[0] * rng.choice([1.0, 1.1, 1.25])          # FWHM px, >= beam major axis
    axr = rng.choice([2.5, 3.0, 4.0, 5.0])
    mode = k % 4
    th = (rng.uniform(0, 360) if mode == 0 else rng.uniform(78, 84) + 180 * rng.randrange(2) if mode == 1 else
          rng.uniform(96, 102) + 180 * rng.randrange(2) if mode == 2 else rng.choice([-12.0, -6.0, 6.0, 12.0]) + 90 * rng.randrange(4))
    sy, sx = minor / CC, minor * axr / CC
    n = int(2 * math.ceil(4.0 * sx) + 16)
    shape = (n, n + 10)
    return dict(proj=PROJS[k % 5], crval=(rng.choice([0.0005, 359.9995, 150.0, 275.0]), rng.choice([-85.0, -30.0, 0.0, 45.0, 72.0])),
                cdelt=rng.choice([2.0, 10.0, 30.0]) / 3600, shape=shape, beam_pix=beam_pix,
                xo=shape[0] // 2 + rng.uniform(-.5, .5), yo=shape[1] // 2 + rng.uniform(-.5, .5), sx=sx, sy=sy, th=th,
                amp=rng.choice([1.0, 0.02, -4.0]), snr=rng.choice([20.0, 100.0]), docov=bool(k % 3 == 0))


def gen_narrow(rng, k):
    """faint sources elongated along a pixel axis whose island (pixels above the outer clip) is only 3 - 5 pixels wide: minor axis = beam
    (3 - 4 px FWHM), axis ratio 2.5 - 4, S/N 5.4 - 14; the width realised is recorded in box_conditions()['island_extent']"""
    bp = rng.choice([3.0, 3.5, 4.0])
    axr = rng.choice([2.5, 3.0, 4.0])
    sy = bp / CC * rng.choice([1.0, 1.0, 1.1])
    sx = sy * axr
    th = rng.choice([0.0, 90.0, 180.0, -90.0]) + rng.choice([0.0, 0.0, 1.5, -2.0])
    n = int(2 * math.ceil(4.0 * sx) + 16)
    shape = (n, n + 6)
    spec = dict(proj=PROJS[k % 5], crval=(rng.choice([0.0005, 150.0, 275.0]), rng.choice([-60.0, -30.0, 0.0, 45.0])),
                cdelt=rng.choice([2.0, 10.0, 30.0]) / 3600, shape=shape, beam_pix=(bp, bp, 0.0),
                xo=shape[0] // 2 + rng.uniform(-.2, .2), yo=shape[1] // 2 + rng.uniform(-.2, .2), sx=sx, sy=sy, th=th,
                amp=rng.choice([1.0, 0.02, -4.0]), snr=rng.choice([5.4, 5.6, 6.0, 6.5, 7.0, 8.0, 10.0, 14.0]), docov=bool(k % 2))
    return spec


# ------------------------------------------------------------------------------------------
# (A) result_to_components on hand-made parameters
class Recorder:
    """records every pixel at which WCSHelper.pix2sky is evaluated, with the value"""

    def __init__(self, wh):
        self.q = []
        self.orig = wh.pix2sky
        wh.pix2sky = self

    def __call__(self, pixel):
        r = self.orig(pixel)
        self.q.append((float(pixel[0]), float(pixel[1]), float(r[0]), float(r[1])))
        return r


def call_rtc(wh, pars, offsets, shape):
    """the real SourceFinder.result_to_components on hand-made lmfit.Parameters (no optimiser)"""
    import lmfit
    from AegeanTools.source_finder import SourceFinder
    from AegeanTools.models import IslandFittingData, DummyLM
    from AegeanTools import flags
    sf = SourceFinder(log=logging.getLogger('c01'))
    gd = sf.global_data
    gd.wcshelper = gd.psfhelper = wh
    gd.img = np.zeros(shape)
    gd.rmsimg = np.ones(shape)
    gd.bkgimg = np.zeros(shape)
    gd.blank = False
    xmin, xmax, ymin, ymax = offsets
    model = lmfit.Parameters()
    for n, v in zip(NAMES, pars):
        model.add('c0_' + n, value=float(v), vary=True)
    model.add('c0_flags', value=0, vary=False)
    model.add('components', value=1, vary=False)
    isle = IslandFittingData(0, i=np.zeros((xmax - xmin, ymax - ymin)), scalars=(5, 4, None), offsets=offsets, doislandflux=False)
    rec = Recorder(wh)
    try:
        # FITERR: errors() returns at once (no standard errors on hand-made parameters, no further WCS queries)
        out = sf.result_to_components(DummyLM(), model, isle, flags.FITERR)
    finally:
        wh.pix2sky = rec.orig
    return out, rec.q


def rtc_case(rng, k):
    proj = PROJS[k % 5]
    dec = rng.choice([-85.0, -45.0, -30.0, 0.0, 33.0, 60.0, 85.0])
    ra = rng.choice([0.0003, 359.9997, 150.0, 45.0, 270.0])
    cdelt = rng.choice([2.0, 10.0, 45.0]) / 3600
    bp = rng.choice([3.0, 4.0, 6.0])
    spec = dict(proj=proj, crval=(ra, dec), cdelt=cdelt, shape=(70, 80), beam_pix=(bp * rng.choice([1.0, 1.4]), bp, rng.choice([0.0, 25.0])))
    xmin, ymin = rng.randrange(0, 40), rng.randrange(0, 50)
    xs, ys = rng.randrange(6, 25), rng.randrange(6, 25)
    sx = rng.uniform(1.0, 4.0)
    sy = sx * rng.choice([0.4, 0.7, 0.9, 1.3, 2.0])     # the optimiser may return sy > sx
    th = rng.uniform(-250, 250)
    if k % 7 == 0:
        th = rng.choice([0.0, 90.0, -90.0, 180.0, 45.0])
    pars = [rng.choice([-1, 1]) * rng.uniform(0.01, 20), rng.uniform(1, xs - 1), rng.uniform(1, ys - 1), sx, sy, th]
    return spec, pars, (xmin, xmin + xs, ymin, ymin + ys)


def rtc_goals(wh, spec, pars, offsets):
    """returns (goals, python-level problem or None, info)"""
    from AegeanTools import angle_tools
    amp, xo, yo, sx, sy, th = [float(v) for v in pars]
    xmin, xmax, ymin, ymax = offsets
    out, q_impl = call_rtc(wh, pars, offsets, spec['shape'])
    if len(out) != 1:
        return [], f'result_to_components returned {len(out)} objects for one component', None
    s = out[0]
    # the pixels at which the model says the WCS is queried (certified below against the generated leaves)
    X, Y = xo + xmin + 1, yo + ymin + 1
    SXF, SYF = sx * CC, sy * CC
    t = math.radians(th)
    Q = [(X, Y), (X + SXF * math.cos(t), Y + SXF * math.sin(t)),
         (X + SYF * math.cos(math.radians(th - 90)), Y + SYF * math.sin(math.radians(th - 90)))]
    if len(q_impl) < 3:
        return [], f'result_to_components evaluated the WCS {len(q_impl)} times, the model needs 3 pixels', None
    for i, (qm, qi) in enumerate(zip(Q, q_impl[:3])):
        if abs(qm[0] - qi[0]) > 1e-9 or abs(qm[1] - qi[1]) > 1e-9:
            what = ['the centre', 'the end of the major axis', 'the end of the minor axis'][i]
            return [], (f'result_to_components evaluates the WCS for {what} at pixel ({qi[0]!r}, {qi[1]!r}); the model (island coordinate + '
                        f'offset + 1, FWHM = sigma * CC2FHWM) says ({qm[0]!r}, {qm[1]!r})'), None
    # the real pix2sky_ellipse at the model's arguments: raw ellipse and the sky values at the three pixels
    rec = Recorder(wh)
    try:
        raw = [float(v) for v in wh.pix2sky_ellipse((X, Y), SXF, SYF, th)]
    finally:
        wh.pix2sky = rec.orig
    (c0, c1, c2) = [(r[2], r[3]) for r in rec.q[:3]]
    RA, DEC, MAJ, MIN, PA = raw
    g2 = float(angle_tools.gcd(c0[0], c0[1], c2[0], c2[1]))
    b2 = float(angle_tools.bear(c0[0], c0[1], c2[0], c2[1]))
    goals = []
    L = rlit
    args = ' '.join(L(v) for v in [amp, xo, yo, sx, sy, th])
    # G1 query pixels
    e = f"(rtc_ellipse_args (rtc_x_pix {L(xo)} {L(xmin)}) (rtc_y_pix {L(yo)} {L(ymin)}) {L(sx)} {L(sy)} {L(th)})"
    tp = L(1e-9)
    goals.append(
        f"Goal let e := {e} in let m := major_end (t5_1 e) (t5_2 e) (t5_3 e) (t5_5 e) in let n := minor_end (t5_1 e) (t5_2 e) (t5_4 e) (t5_5 e) in "
        f"Rabs (t5_1 e - {L(rec.q[0][0])}) <= {tp} /\\ Rabs (t5_2 e - {L(rec.q[0][1])}) <= {tp} /\\ "
        f"Rabs (fst m - {L(rec.q[1][0])}) <= {tp} /\\ Rabs (snd m - {L(rec.q[1][1])}) <= {tp} /\\ "
        f"Rabs (fst n - {L(rec.q[2][0])}) <= {tp} /\\ Rabs (snd n - {L(rec.q[2][1])}) <= {tp}. "
        f"Proof. unfold rtc_ellipse_args, rtc_x_pix, rtc_y_pix, major_end, minor_end, t5_1, t5_2, t5_3, t5_4, t5_5, CC2FHWM, rad; "
        f"cbn [fst snd]; cbv zeta; repeat split; interval with (i_prec 90). Qed.")
    # G2..G5 gcd / bear at the recorded sky points
    for (pt, gv, bv, what) in ((c1, MAJ, PA, 'major'), (c2, g2, b2, 'minor')):
        a4 = ' '.join(L(v) for v in (c0[0], c0[1], pt[0], pt[1]))
        # gcd = deg (atan2 h z), h = |u x v| = hypot y x, z = u.v: the angle of (z, h) is within asin(tol) of the implementation's value
        tg = tol_unit(math.sin(math.radians(gv)))
        goals.append(f"Goal exists y x z, gcd {a4} = deg (atan2 (hypot y x) z) /\\ "
                     f"Rabs (hypot y x * cos (rad {L(gv)}) - z * sin (rad {L(gv)})) <= {tg} /\\ "
                     f"0 <= z * cos (rad {L(gv)}) + hypot y x * sin (rad {L(gv)}) + {tg}. "
                     f"Proof. eexists; eexists; eexists; split; [apply gcd_eq|]. unfold sep_y, sep_x, sep_z, hypot, rad. "
                     f"split; interval with (i_prec 120). Qed.")
        yy = math.sin(math.radians(pt[0] - c0[0])) * math.cos(math.radians(pt[1]))
        xx = math.cos(math.radians(c0[1])) * math.sin(math.radians(pt[1])) - math.sin(math.radians(c0[1])) * math.cos(math.radians(pt[1])) \
            * math.cos(math.radians(pt[0] - c0[0]))
        tt = tol_unit(math.hypot(xx, yy))
        goals.append(f"Goal exists y x, bear {a4} = deg (atan2 y x) /\\ Rabs (y * cos (rad {L(bv)}) - x * sin (rad {L(bv)})) <= {tt} /\\ "
                     f"0 <= x * cos (rad {L(bv)}) + y * sin (rad {L(bv)}) + {tt}. "
                     f"Proof. eexists; eexists; split; [apply bear_eq|]. unfold bear_y, bear_x, rad. split; interval with (i_prec 120). Qed.")
    # G6 the defect factor of the minor axis
    goals.append(f"Goal Rabs ({L(g2)} * Rabs (cos (rad ({L(PA)} - ({L(b2)} - 90)))) - {L(MIN)}) <= {L(abs(MIN) * 1e-9 + 1e-16)}. "
                 f"Proof. unfold rad. interval with (i_prec 90). Qed.")
    # G7 arcseconds, fix_shape, pa_limit, RA wrap on the raw ellipse;  G8 integrated flux
    psfa, psfb = float(wh._psf_a), float(wh._psf_b)
    ta, tb = L(abs(s.a) * 1e-9), L(abs(s.b) * 1e-9)
    swap = MAJ * 3600 < MIN * 3600
    p90 = PA + 90 if swap else PA
    lem = ('pa_limit_id' if -90 < p90 <= 90 else 'pa_limit_up' if 90 < p90 <= 270 else 'pa_limit_up2' if 270 < p90 <= 450 else
           'pa_limit_down' if -270 < p90 <= -90 else 'pa_limit_down2')
    if min(abs(p90 - v) for v in (-270, -90, 90, 270)) < 1e-9 or abs(MAJ - MIN) < 1e-12 * MAJ:
        return [], None, {'raw': raw, 'impl': [s.ra, s.dec, s.peak_flux, s.a, s.b, s.pa, s.int_flux], 'swap': swap, 'skipped': True}
    wrap = ("destruct (Rlt_dec _ 0) as [Hneg|Hneg]; [|exfalso; lra]" if RA < 0 else "destruct (Rlt_dec _ 0) as [Hneg|Hneg]; [exfalso; lra|]")
    goals.append(
        f"Goal let k := finish_component ({L(RA)}, {L(DEC)}, {L(MAJ)}, {L(MIN)}, {L(PA)}) (rtc_peak {L(amp)}) "
        f"(rtc_int_flux (rtc_peak {L(amp)}) {L(sx)} {L(sy)} / beamarea_pix {L(psfa)} {L(psfb)}) in "
        f"Rabs (k_ra k - {L(s.ra)}) <= {L(1e-10)} /\\ Rabs (k_dec k - {L(s.dec)}) <= {L(1e-10)} /\\ k_peak k = {L(s.peak_flux)} /\\ "
        f"Rabs (k_a k - {L(s.a)}) <= {ta} /\\ Rabs (k_b k - {L(s.b)}) <= {tb} /\\ Rabs (k_pa k - {L(s.pa)}) <= {L(1e-10)} /\\ "
        f"Rabs (k_int k - {L(s.int_flux)}) <= {L(abs(s.int_flux) * 1e-9)}. "
        f"Proof. cbv zeta. unfold finish_component, t5_1, t5_2, t5_3, t5_4, t5_5. cbn [fst snd]. "
        f"rewrite (proj1 rtc_factor_eq), (proj2 rtc_factor_eq). rewrite {'fix_shape_swap' if swap else 'fix_shape_keep'} by lra. cbn [fst snd]. "
        f"rewrite {lem} by lra. rewrite (proj1 (rtc_ra_wrap_eq _)), ?(proj2 (rtc_ra_wrap_eq _)). unfold Rltb. {wrap}. "
        f"cbn [k_ra k_dec k_peak k_a k_b k_pa k_int]. rewrite !rtc_peak_eq, rtc_int_flux_eq, beamarea_pix_eq, CC2FHWM_eq. "
        f"repeat split; try reflexivity; interval with (i_prec 90). Qed.")
    info = {'raw': raw, 'impl': [s.ra, s.dec, s.peak_flux, s.a, s.b, s.pa, s.int_flux], 'swap': swap}
    return goals, None, info


# ------------------------------------------------------------------------------------------
# (A') fitting.errors: err_a / err_b on hand-made parameters with standard errors
def errs_goals(wh, pars, stderrs, xy):
    """the real fitting.errors; returns (goals, problem).  The model (Gen/Recovery.err_a_ref ..) says which two pixels are mapped"""
    import lmfit
    from AegeanTools import fitting
    from AegeanTools.models import ComponentSource
    amp, _, _, sx, sy, th = [float(v) for v in pars]
    X, Y = xy
    model = lmfit.Parameters()
    for n, v, e in zip(NAMES, [amp, X, Y, sx, sy, th], stderrs):
        model.add('c0_' + n, value=float(v), vary=True)
        model['c0_' + n].stderr = float(e)
    src_ = ComponentSource()
    src_.source, src_.flags, src_.peak_flux, src_.a, src_.b, src_.int_flux = 0, 0, amp, 30.0, 20.0, amp
    rec = Recorder(wh)
    try:
        fitting.errors(src_, model, wh)
    finally:
        wh.pix2sky = rec.orig
    esx, esy = float(stderrs[3]), float(stderrs[4])
    t, t9 = math.radians(th), math.radians(th + 90)
    want = [(X + sx * CC * math.cos(t), Y + sx * CC * math.sin(t)), (X + (sx + esx) * CC * math.cos(t), Y + (sx + esx) * CC * math.sin(t)),
            (X + sy * CC * math.cos(t9), Y + sy * CC * math.sin(t9)), (X + (sy + esy) * CC * math.cos(t9), Y + (sy + esy) * CC * math.sin(t9))]
    if len(rec.q) != 8:
        return [], f'fitting.errors evaluated the WCS {len(rec.q)} times (expected 8: centre, position, 2 x pa, 2 x major, 2 x minor)'
    got = rec.q[4:8]
    names = ['end of the FWHM major axis', 'that end with sx + err_sx', 'end of the FWHM minor axis', 'that end with sy + err_sy']
    for w, g, nm in zip(want, got, names):
        if abs(w[0] - g[0]) > 1e-9 or abs(w[1] - g[1]) > 1e-9:
            return [], (f'fitting.errors maps pixel ({g[0]!r}, {g[1]!r}) for the {nm}; the propagated axis error needs ({w[0]!r}, {w[1]!r}) '
                        f'(sigma * CC2FHWM along (cos, sin) of theta / theta + 90)')
    L = rlit
    a6 = ' '.join(L(v) for v in (X, Y, sx, sy))
    tp = L(1e-9)
    parts = []
    for fn, extra, g in (('err_a_ref', '', got[0]), ('err_a_off', L(esx), got[1]), ('err_b_ref', '', got[2]), ('err_b_off', L(esy), got[3])):
        e = f"({fn} {a6} {extra} {L(th)})"
        parts += [f"Rabs (fst {e} - {L(g[0])}) <= {tp}", f"Rabs (snd {e} - {L(g[1])}) <= {tp}"]
    goals = ["Goal " + " /\\ ".join(parts) + ". Proof. unfold err_a_ref, err_a_off, err_b_ref, err_b_off, CC2FHWM, rad; cbn [fst snd]; "
             "repeat split; interval with (i_prec 90). Qed."]
    # the model says the pair is exchanged when sx < sy (err_axes_follow_shape, certified in the first goal)
    ea, eb = (float(src_.err_b), float(src_.err_a)) if sx < sy else (float(src_.err_a), float(src_.err_b))
    goals[0] = goals[0].replace("Goal ", "Goal err_axes_follow_shape = true /\\ ", 1).replace("Proof. ", "Proof. split; [reflexivity|]. ", 1)
    for (r, o, val, fac) in ((got[0], got[1], ea, 'err_a_factor'), (got[2], got[3], eb, 'err_b_factor')):
        if val <= 0:
            continue
        a4 = ' '.join(L(v) for v in (r[2], r[3], o[2], o[3]))
        # the atan2 form of gcd carries an absolute round-off of a few 2^-53 rad (cancellation in the cross product of two nearly
        # equal unit vectors), i.e. ~1e-10 arcsec on these sub-arcsecond lengths: 2^-30 relative + 2^-48 rad absolute
        v = math.sin(math.radians(val / 3600))
        te = rlit(abs(v) * 2.0 ** -30 + 2.0 ** -48)
        ge = f"(rad ({L(val)} / 3600))"
        goals.append(f"Goal {fac} = 3600 /\\ exists y x z, gcd {a4} = deg (atan2 (hypot y x) z) /\\ "
                     f"Rabs (hypot y x * cos {ge} - z * sin {ge}) <= {te} /\\ 0 <= z * cos {ge} + hypot y x * sin {ge} + {te}. "
                     f"Proof. split; [reflexivity|]. eexists; eexists; eexists; split; [apply gcd_eq|]. "
                     f"unfold sep_y, sep_x, sep_z, hypot, rad. split; interval with (i_prec 140). Qed.")
    return goals, None


# ------------------------------------------------------------------------------------------
# (B) estimate_lmfit_parinfo bounds
def parinfo_case(rng, k):
    bp = rng.choice([3.0, 4.0, 5.5])
    spec = dict(proj=PROJS[k % 5], crval=(rng.choice([10.0, 200.0]), rng.choice([-40.0, 15.0, 70.0])), cdelt=rng.choice([5.0, 20.0]) / 3600,
                shape=(50, 50), beam_pix=(bp * rng.choice([1.0, 1.5]), bp, rng.choice([0.0, 40.0])))
    xs, ys = rng.randrange(5, 14), rng.randrange(5, 14)
    px, py = rng.randrange(1, xs - 1), rng.randrange(1, ys - 1)
    sign = -1 if k % 3 == 0 else 1
    sg = rng.uniform(1.2, 2.5)
    xx, yy = np.indices((xs, ys))
    rms = rng.choice([0.01, 0.05, 0.2])
    amp = sign * rng.uniform(8, 200) * rms
    data = amp * np.exp(-((xx - px - rng.uniform(-.4, .4)) ** 2 + (yy - py - rng.uniform(-.4, .4)) ** 2) / (2 * sg * sg))
    ic, oc = rng.choice([(5.0, 4.0), (6.0, 3.0), (10.0, 10.0)])
    return spec, data, rms, ic, oc, (rng.randrange(0, 30), rng.randrange(0, 30))


def parinfo_goals(wh, spec, data, rms, ic, oc, offs):
    from AegeanTools.source_finder import SourceFinder
    from scipy.ndimage import maximum_filter, minimum_filter
    sf = SourceFinder(log=logging.getLogger('c01'))
    sf.global_data.wcshelper = sf.global_data.psfhelper = wh
    curve = np.zeros(data.shape, dtype=np.int8)
    curve[np.where(maximum_filter(data, size=3) == data)] = -1
    curve[np.where(minimum_filter(data, size=3) == data)] = 1
    rmsimg = np.full(data.shape, rms)
    p = sf.estimate_lmfit_parinfo(data, rmsimg, curve, None, ic, oc, offsets=offs)
    if p is None or int(p['components'].value) != 1:
        return None, None
    L = rlit
    neg = bool(np.nanmax(data) < 0)
    pk = float(np.nanmin(data) if neg else np.nanmax(data))
    px, py = [int(v) for v in np.unravel_index(np.nanargmin(data) if neg else np.nanargmax(data), data.shape)]
    if float(p['c0_amp'].value) != pk or float(p['c0_xo'].value) != px or float(p['c0_yo'].value) != py:
        return [], (f"start values: amp, xo, yo = {p['c0_amp'].value}, {p['c0_xo'].value}, {p['c0_yo'].value}; the model starts at the peak "
                    f"pixel value {pk} at ({px}, {py})")
    ba, bb = float(wh._psf_a), float(wh._psf_b)
    geo = ' '.join(L(v) for v in (px, py, ba, bb, data.shape[0], data.shape[1]))
    amp4 = ' '.join(L(v) for v in (pk, rms, ic, oc))
    sfx = 'neg' if pk <= 0 else 'pos'

    def near(expr, v):
        return f"Rabs ({expr} - {L(v)}) <= {L(abs(v) * 1e-12 + 1e-15)}"
    parts = [near(f"amp_min_{sfx} {amp4}", p['c0_amp'].min), near(f"amp_max_{sfx} {amp4}", p['c0_amp'].max)]
    for nm, fn in (('xo', 'xo_bounds'), ('yo', 'yo_bounds'), ('sx', 'sx_bounds'), ('sy', 'sy_bounds')):
        parts += [near(f"fst ({fn} {geo})", p['c0_' + nm].min), near(f"snd ({fn} {geo})", p['c0_' + nm].max)]
    parts += [near(f"fst (shape_init {geo})", p['c0_sx'].value), near(f"snd (shape_init {geo})", p['c0_sy'].value)]
    g = ("Goal " + " /\\ ".join(parts) + ". Proof. unfold amp_min_pos, amp_max_pos, amp_min_neg, amp_max_neg, xo_bounds, yo_bounds, sx_bounds, "
         "sy_bounds, shape_init, FWHM2CC, CC2FHWM, hypot; cbv zeta; cbn [fst snd]; repeat split; kill_minmax; interval with (i_prec 90). Qed.")
    if not (p['c0_theta'].min == -np.inf and p['c0_theta'].max == np.inf and float(p['c0_theta'].value) == float(wh._psf_theta)):
        return [], 'theta is bounded or does not start at the pixel beam angle'
    return [g], None


# ------------------------------------------------------------------------------------------
# (C) WCS hypotheses on a source
def wcs_residues(spec):
    """round trip P o S at the centre and the ends of the axes; conformality / symmetry / scale residues (relative)"""
    from AegeanTools import angle_tools
    wh = helper_of(spec)
    tr = truth_of(spec)
    ra, dec, a, b, pa = tr['ra'], tr['dec'], tr['a'] / 3600, tr['b'] / 3600, tr['pa']
    worst = 0.0
    for (r, t) in ((0.0, 0.0), (a, pa), (b, pa - 90), (b, pa + 90), (a, pa + 180)):
        q = angle_tools.translate(ra, dec, r, t) if r > 0 else (ra, dec)
        back = wh.pix2sky(wh.sky2pix(q))
        worst = max(worst, sky_sep_deg(float(back[0]), float(back[1]), float(q[0]), float(q[1])))
    x, y, sxf, syf, th = [float(v) for v in wh.sky2pix_ellipse((ra, dec), a, b, pa)]
    _, _, a2, b2, pa2 = [float(v) for v in wh.pix2sky_ellipse((x, y), sxf, syf, th)]
    conf = max(abs(a2 - a) / a, abs(b2 - b) / b, padiff(pa2, pa) / 57.3)
    h = header_of(spec)
    scale_src = math.sqrt(sxf * syf / (a * b))
    scale_ref = math.sqrt(float(wh._psf_a) * float(wh._psf_b) / (h['BMAJ'] * h['BMIN']))
    return worst, conf, abs(scale_src / scale_ref - 1)


# ------------------------------------------------------------------------------------------
def known_finding_replay(ctx):
    """replays the recorded inputs on the implementation; returns the KNOWN-FINDING lines that still reproduce"""
    lines = []
    spec = dict(KNOWN)
    msg, rows, tr = loop_problem(ctx, spec, 'known')
    c = box_conditions(spec)
    if msg and not c['amp_condition'] and len(rows) == 1:
        ratio = rows[0]['peak_flux'] / tr['peak']
        lines.append(f"amplitude bound excludes the truth: beam 3 px FWHM, centre offset (0.5, 0.5) px, S/N 1e4 -> reported peak = {ratio:.4f} x injected "
                     f"(= 1.05 g + 5/SNR, g = {c['g']:.4f}), a = {rows[0]['a'] / tr['a']:.4f} x injected, flags = {rows[0]['flags']}; "
                     f"condition amp (1 - 1.05 g) <= innerclip rms violated")
    cls, msg, rows, tr, c = classify(ctx, dict(KNOWN_CAP), 'known')
    if cls == 'shape_cap':
        lines.append(f"island-size cap excludes the truth: 16 x 4 px FWHM source (beam 4 px) along the rows at S/N 5.2: island {c['island_extent']} px, "
                     f"cap {(max(c['island_extent']) + 1) * math.sqrt(2):.2f} px FWHM < 16 -> reported a = {rows[0]['a'] / tr['a']:.4f} x injected, "
                     f"peak = {rows[0]['peak_flux'] / tr['peak']:.4f} x injected, flags = {rows[0]['flags']}; condition sx <= (max(xsize, ysize) + 1) sqrt2 FWHM2CC violated")
    cls, msg, rows, tr, c = classify(ctx, dict(KNOWN_THIN), 'known')
    if cls == 'fixed2psf':
        lines.append(f"island 2 pixels across is fixed to the psf: 9.9 x 3.3 px FWHM source (beam 3 px) along the columns at S/N 5.6: island "
                     f"{c['island_extent']} px -> one component flagged FIXED2PSF (flags = {rows[0]['flags']}) with a = {rows[0]['a'] / tr['a']:.4f} x injected, "
                     f"peak = {rows[0]['peak_flux'] / tr['peak']:.4f} x injected")
    parts = []
    for name, spec in (('exact tie (2:1, theta 45, centre exactly (0.5, 0.5) px off a pixel centre)', dict(KNOWN_TIE)),
                       ('oblique ridge (4:1, 20 x 5 px FWHM, theta 30, centre (40.3, 45.6), S/N 100)', dict(KNOWN_RIDGE))):
        cls, msg, rows, tr, c = classify(ctx, spec, 'known')
        if cls == 'ridge_split':
            parts.append(f"{name}: {len(rows)} components with the injected shape, peaks " + ' + '.join(f"{r['peak_flux'] / tr['peak']:.4f}" for r in rows)
                         + f" x injected, flags 0 ({'predicted' if not c['single_summit'] else 'NOT predicted'} by the count of 3x3 local maxima)")
    if parts:
        lines.append("ridge split: an isolated noise-free elongated source whose sampled image has more than one 3x3 local maximum is reported as "
                     "several components of identical shape whose peak fluxes sum to the injected peak - " + '; '.join(parts))
    return lines


def run(ctx, model_ok=True):
    rng = ctx.rng
    quick = ctx.tier == 'quick'
    ctx.rule = ('(A) result_to_components on hand-made parameters x real WCSHelper (5 projections, RA wrap, |dec| <= 85): WCS query pixels, gcd/bear, '
                'defect factor, fix_shape/pa_limit/RA wrap/int_flux vs the model through interval lemmas; distinct = (projection, swap needed, '
                'pa_limit branch, RA wrap) classes and parameter tuples. (B) estimate_lmfit_parinfo bounds on small islands (both signs). '
                '(C) WCS hypotheses on the injected sources. (D) closed loop on the real finder: injection = (projection, CRVAL, CDELT, beam, '
                'sub-pixel offset, PA, axis ratio, amplitude, S/N, docov); non-trivial = every injection (all have sub-pixel structure); the derived '
                'amplitude condition is evaluated for each.')
    t0 = time.time()
    # ---- (A)
    goals, metas = [], []
    ncase = 14 if quick else 80
    nbadpy = nbaderr = 0
    for k in range(ncase):
        spec, pars, offsets = rtc_case(rng, k)
        wh = helper_of(spec)
        gs, problem, info = rtc_goals(wh, spec, pars, offsets)
        case = {'spec': spec, 'pars': pars, 'offsets': offsets}
        if problem:
            nbadpy += 1
            if nbadpy <= 3:
                ctx.mismatch('result_to_components vs Model/Recovery.to_component (WCS query pixels)', case, impl=problem)
            continue
        raw = info['raw']
        branch = 'id' if -90 < raw[4] + (90 if info['swap'] else 0) <= 90 else 'wrap'
        ctx.case(key=('rtc', spec['proj'], info['swap'], branch, round(pars[5], 3)), bucket=f"rtc {spec['proj']}",
                 sample={'params': pars, 'offsets': offsets, 'reported': info['impl']} if k < 2 else None)
        for g in gs:
            goals.append(g)
            metas.append(case | {'impl': info['impl']})
        if k < (6 if quick else 30):
            stderrs = [abs(pars[0]) * 0.02, rng.uniform(.01, .2), rng.uniform(.01, .2), pars[3] * rng.uniform(.01, .1),
                       pars[4] * rng.uniform(.01, .1), rng.uniform(.2, 5)]
            xy = (pars[1] + offsets[0] + 1, pars[2] + offsets[2] + 1)
            gs2, problem2 = errs_goals(wh, pars, stderrs, xy)
            if problem2:
                nbaderr += 1
                ctx.mismatch('fitting.errors vs the generated err_a / err_b leaves (WCS query pixels)', case | {'stderr': stderrs}, impl=problem2)
            for g in gs2:
                goals.append(g)
                metas.append(case | {'what': 'err_a / err_b of fitting.errors', 'stderr': stderrs})
    ctx.oblige(f'correspondence: result_to_components queries the WCS at the pixels of the model ({ncase} parameter sets)', nbadpy == 0,
               f'{nbadpy} cases differ')
    ctx.oblige('correspondence: fitting.errors maps the ends of the FWHM axes for sigma and sigma + stderr (err_a, err_b)', nbaderr == 0,
               f'{nbaderr} cases differ')
    # ---- (B)
    nb = 8 if quick else 40
    nbad_b = 0
    for k in range(nb):
        spec, data, rms, ic, oc, offs = parinfo_case(rng, k)
        wh = helper_of(spec)
        gs, problem = parinfo_goals(wh, spec, data, rms, ic, oc, offs)
        if gs is None:
            continue
        case = {'spec': spec, 'data': data.tolist(), 'rms': rms, 'ic': ic, 'oc': oc}
        if problem:
            nbad_b += 1
            ctx.mismatch('estimate_lmfit_parinfo vs generated bounds', case, impl=problem)
            continue
        ctx.case(key=('parinfo', k, float(data.flat[0])), bucket='parinfo ' + ('neg' if np.nanmax(data) < 0 else 'pos'))
        for g in gs:
            goals.append(g)
            metas.append(case | {'what': 'bounds of estimate_lmfit_parinfo'})
    ctx.oblige(f'correspondence: estimate_lmfit_parinfo starts at the peak pixel, theta free ({nb} islands)', nbad_b == 0)
    if model_ok:
        bad = vlib.coq_certify(ctx, HEADER, goals, shard=10 if quick else 24)
        for kk, err in bad[:4]:
            m = metas[kk] if 0 <= kk < len(metas) else {}
            ctx.mismatch('certified correspondence: implementation value differs from the Coq model', m, impl=m.get('impl'), model=err[-400:])
        ctx.oblige(f'certified correspondence: {len(goals)} interval lemmas (result_to_components: query pixels, gcd, bear, defect, finish; '
                   f'estimate_lmfit_parinfo bounds)', not bad, f'{len(bad)} shards failed')
        ctx.traces += len(goals)
    ctx.notes.append(f'correspondence took {time.time() - t0:.1f}s')
    # ---- (D) closed loop + (C) hypotheses on the same sources
    t1 = time.time()
    nloop = 30 if quick else 400
    n_viol_target = 5 if quick else 50
    stats = {'satisfied_pass': 0, 'satisfied_fail': 0, 'violated_fail': 0, 'violated_pass': 0, 'ridge_split': 0, 'ridge_split_predicted': 0}
    worst_rt = worst_conf = worst_scale = 0.0
    nfail = 0

    flagcases = []

    def one(spec, k, bucket, tag):
        nonlocal nfail
        cls, msg, rows, tr, c = classify(ctx, spec, tag)
        if rows and len({r['island'] for r in rows}) == 1:
            flagcases.append((spec, c['island_npix'], min(c['island_extent']), len(rows), [r['flags'] for r in rows]))
        ctx.case(key=(bucket, k, spec['proj'], spec['snr'], round(spec['th'], 3)), bucket=f"{bucket} {spec['proj']} {'cov' if spec['docov'] else 'nocov'}",
                 sample={'injection': spec, 'amp_condition': c['amp_condition'], 'result': msg or 'recovered'} if k < 2 else None)
        if cls == 'ridge_split':
            stats['ridge_split'] += 1
            stats['ridge_split_predicted'] += int(not c['single_summit'])
        elif cls == 'violation':
            stats['satisfied_fail'] += 1
            nfail += 1
            if nfail <= 3:
                ctx.mismatch('closed loop (optimiser hypothesis): the injected source is not recovered although the derived conditions hold '
                             '(and the failure does not have the signature of the recorded ridge split)',
                             {'injection': spec, 'conditions': c, 'truth': tr, 'reported': rows}, impl=msg,
                             is_violation={'kind': 'loop', 'injection': spec, 'what': msg, 'truth': tr, 'reported': rows})
        elif cls == 'amp_bound':
            stats['violated_fail'] += 1
        elif cls in ('shape_cap', 'fixed2psf'):
            stats[cls] = stats.get(cls, 0) + 1
        else:
            stats['satisfied_pass' if c['amp_condition'] else 'violated_pass'] += 1
        return cls
    for k in range(nloop):
        want_ok = not (k % (nloop // n_viol_target) == 1)
        spec = gen_spec(rng, k, want_ok=want_ok)
        one(spec, k, 'loop', f'l{k % 4}')
        if k < (12 if quick else 100):
            rt, conf, sc = wcs_residues(spec)
            worst_rt, worst_conf, worst_scale = max(worst_rt, rt), max(worst_conf, conf), max(worst_scale, sc)
    # strongly elongated sources (axis ratio 2.5 - 5)
    nel = 16 if quick else 120
    el = {'pass': 0, 'ridge_split': 0, 'amp_bound': 0, 'shape_cap': 0, 'fixed2psf': 0, 'violation': 0}
    for k in range(nel):
        el[one(gen_elongated(rng, k), k, 'elongated', f'e{k % 4}')] += 1
    ctx.extra['elongated'] = el
    # faint narrow islands (3 - 5 pixels across): the six-parameter fit must still be made (FIXED2PSF is for islands <= 2 pixels across)
    nnar = 16 if quick else 100
    nar = {'pass': 0, 'ridge_split': 0, 'amp_bound': 0, 'shape_cap': 0, 'fixed2psf': 0, 'violation': 0}
    widths = {}
    for k in range(nnar):
        spec = gen_narrow(rng, k)
        w = min(box_conditions(spec)['island_extent'])
        widths[w] = widths.get(w, 0) + 1
        nar[one(spec, k, f'narrow island ({w} px)', f'n{k % 4}')] += 1
    ctx.extra['narrow'] = {'classes': nar, 'island_widths': widths}
    # sources on a constant background level (the injected Gaussian is the signal ABOVE the background): level given (bkg=level), or
    # only the noise level given (rms=.., background estimated by the finder itself)
    npd = 6 if quick else 40
    pdc = {'pass': 0, 'ridge_split': 0, 'amp_bound': 0, 'shape_cap': 0, 'fixed2psf': 0, 'violation': 0}
    for k in range(npd):
        spec = gen_spec(rng, k, want_ok=True)
        spec['pedestal'] = (rng.choice([0.035, -0.02, 0.3, 1.5]) * abs(spec['amp']), 'given' if k % 2 else 'estimated')
        pdc[one(spec, k, f"pedestal {spec['pedestal'][1]}", f'p{k % 4}')] += 1
    ctx.extra['pedestal'] = pdc
    ctx.notes.append(f"narrow-island injections (minor axis = beam, along a pixel axis, S/N 5.4-14): {nar}; island widths {widths}")
    ctx.notes.append(f"elongated injections (axis ratio 2.5-5, all orientations, S/N 20 / 100): {el}")
    # flags of every reported component = Model.SmallIsland.fit_flags of its island (optimiser bits FITERR, WCSERR put aside)
    if model_ok and flagcases:
        pre = 'From Coq Require Import ZArith NArith.\nFrom Aegean Require Import Gen.SmallIsland Model.SmallIsland.\nOpen Scope Z_scope.\n'
        uniq = sorted({(n, d, c) for _, n, d, c, _ in flagcases})
        vals, err = vlib.coq_eval(ctx, pre, [f'Z.of_N (fit_flags {n} {d} {c})' for n, d, c in uniq])
        if vals is None:
            ctx.oblige('model evaluation (vm_compute) of Model.SmallIsland.fit_flags', False, err)
        else:
            want = dict(zip(uniq, [int(v) for v in vals]))
            nbadf = 0
            for spec, n, d, c, fl in flagcases:
                got = {f & ~(2 | 32) for f in fl}
                if got != {want[(n, d, c)]}:
                    nbadf += 1
                    if nbadf <= 2:
                        what = (f'island of {n} pixels, {d} pixels across, {c} component(s): flags {fl} but estimate_lmfit_parinfo / _fit_island '
                                f'of the unmodified code give {want[(n, d, c)]} (FIXED2PSF = 4: the shape is not fitted)')
                        ctx.mismatch('flags of the reported components vs Model.SmallIsland.fit_flags', {'injection': spec}, impl=fl, model=want[(n, d, c)],
                                     is_violation={'kind': 'loop', 'injection': spec, 'what': what} if (4 in {g & 4 for g in got}) and not want[(n, d, c)] & 4 else None)
            ctx.oblige(f'correspondence: flags of the components of {len(flagcases)} injected islands ({len(uniq)} distinct (pixels, width, components)) '
                       f'= Model.SmallIsland.fit_flags', nbadf == 0, f'{nbadf} differ')
    nsat = stats['satisfied_pass'] + stats['satisfied_fail']
    ctx.oblige(f'optimiser hypothesis (closed loop): of {nloop + nel + nnar} noise-free injections ({nel} with axis ratio 2.5-5, {nnar} with islands 3-5 pixels across) the {nsat} that satisfy '
               f'amp (1 - 1.05 g) <= innerclip rms and sx <= island-size cap, whose island is more than 2 pixels across, and do not show the recorded ridge-split signature are recovered within the tolerances',
               nfail == 0, f'{nfail} failures')
    ctx.hyp['minimize returns the zero-residual truth when started inside the box (closed loop, derived conditions hold)'] = stats['satisfied_pass']
    ctx.extra['amp_condition_table'] = stats
    ctx.notes.append(f"closed loop classes: {stats}; every failure is either a violation of the derived amplitude condition or has the ridge-split "
                     f"signature: {stats['satisfied_fail'] == 0}; {stats['ridge_split_predicted']} of {stats['ridge_split']} ridge splits are predicted "
                     f"by the count of 3x3 local maxima of the injected image ('exactly one component' is validated only for a single summit)")
    ctx.oblige('library hypothesis: pix2sky o sky2pix = id at the centre and the ends of the axes (<= 1e-9 deg)', worst_rt <= 1e-9, worst_rt)
    ctx.hyp['wcs_roundtrip_at: pix2sky (sky2pix q) = q within 1e-9 deg'] = (12 if quick else 100) * 5
    ctx.oblige('library hypothesis: conformal_at / locally_conformal (pix2sky_ellipse o sky2pix_ellipse = id within 1e-3 relative)', worst_conf <= 1e-3,
               worst_conf)
    ctx.hyp[f'conformal / point-symmetric WCS at the source: residue <= 1e-3 (worst seen {worst_conf:.2e})'] = 12 if quick else 100
    ctx.oblige('library hypothesis: uniform_scale (pixel scale at the source = at the reference pixel within 1e-3)', worst_scale <= 1e-3, worst_scale)
    ctx.hyp[f'uniform_scale: residue <= 1e-3 (worst seen {worst_scale:.2e})'] = 12 if quick else 100
    ctx.notes.append(f'closed loop took {time.time() - t1:.1f}s')
    # ---- noisy images, validated by execution only.  (i) clean stream, both tiers, strict: white noise of the forced rms, no covariance
    # weighting, S/N 100-400, compact elongated sources away from the pixel axes: every column within 5 reported standard errors
    nclean = 10 if quick else 60
    nbadc = 0
    for k in range(nclean):
        spec = gen_spec(rng, k, want_ok=True)
        # compact enough that pixel noise cannot make a second local maximum (drop over one pixel along the major axis >= 7 noise sigma)
        bp = rng.choice([4.0, 4.5])
        axr = rng.choice([1.5, 1.7])
        sy = bp / CC
        n = int(2 * math.ceil(5.5 * sy * axr) + 12)
        spec.update(beam_pix=(bp, bp, 0.0), sx=sy * axr, sy=sy, th=rng.choice([-1, 1]) * rng.uniform(50, 80), shape=(n, n + 4),
                    xo=n // 2 + rng.uniform(-.45, .45), yo=(n + 4) // 2 + rng.uniform(-.45, .45), amp=rng.choice([1.0, 0.02, 37.5]),
                    snr=rng.choice([100.0, 200.0, 400.0]), docov=False, correlated=False, noise_seed=rng.randrange(10 ** 6))
        msg, rows, tr = loop_problem(ctx, spec, f'c{k % 4}')
        ctx.case(key=('noisy-clean', k, spec['noise_seed']), bucket='noisy white forced')
        if msg:
            nbadc += 1
            if nbadc <= 3:
                ctx.mismatch('noisy closed loop (white noise, forced rms, docov off): a reported value is further than 5 reported standard '
                             'errors from the injected one', {'injection': spec, 'truth': tr, 'reported': rows}, impl=msg,
                             is_violation={'kind': 'loop', 'injection': spec, 'what': msg, 'truth': tr, 'reported': rows})
    ctx.oblige(f'noisy closed loop: {nclean} white-noise injections, every column (position, peak, a, b, pa, int_flux) within 5 reported '
               f'standard errors', nbadc == 0, f'{nbadc} of {nclean}')
    # (ii) mixed stream (thorough): beam-correlated noise with docov on, forced and internal (BANE) rms; statistical allowance
    if not quick:
        nn, nbadn = 0, 0
        for k in range(40):
            spec = gen_spec(rng, k, want_ok=True)
            spec['snr'] = rng.choice([30.0, 80.0, 200.0])
            spec['amp'] = abs(spec['amp'])
            spec['noise_seed'] = rng.randrange(10 ** 6)
            # beam-correlated noise is what docov models; (white noise with docov off is the strict stream above, correlated noise with docov
            # off is a mis-specified fit whose errors are understated by design)
            spec['correlated'] = spec['docov'] = True
            if k % 10 == 0:
                spec['internal'] = True
                spec['shape'] = (max(spec['shape'][0], 260), max(spec['shape'][1], 264))
                spec['xo'] += spec['shape'][0] // 2 - int(spec['xo'])
                spec['yo'] += spec['shape'][1] // 2 - int(spec['yo'])
            msg, rows, tr = loop_problem(ctx, spec, f'n{k % 4}')
            nn += 1
            ctx.case(key=('noisy', k), bucket='noisy ' + ('internal' if spec.get('internal') else 'forced'))
            if msg:
                nbadn += 1
                ctx.notes.append(f'noisy injection {k} {spec}: {msg}')
        ctx.extra['noisy'] = {'injections': nn, 'outside_5_sigma_or_not_single': nbadn}
        # statistical statement: mis-modelled noise (correlated noise, estimated rms) gives a few outliers; a gross rate is a failure
        ctx.oblige(f'noisy closed loop (correlated noise / docov on / internal rms): at most 10 % of {nn} injections deviate by more than 5 '
                   f'reported standard errors', nbadn <= 0.10 * nn, f'{nbadn} of {nn}')
    # ---- (E) recorded finding
    recorded = [t for kind, t in vlib.known_findings('C01') if kind == 'finding']
    lines = known_finding_replay(ctx)
    for line in lines:
        key = ('amplitude' if line.startswith('amplitude') else 'island-size cap' if line.startswith('island-size cap') else
               'fixed to the psf' if line.startswith('island 2 pixels') else 'identical shape')
        if any(key in t for t in recorded):
            ctx.known_lines.append(line)
        else:
            inj = KNOWN if key == 'amplitude' else KNOWN_CAP if key == 'island-size cap' else KNOWN_THIN if key == 'fixed to the psf' else KNOWN_RIDGE
            ctx.mismatch('closed loop: this input fails and is not listed in known_findings.txt', inj, impl=line,
                         is_violation={'kind': 'loop', 'injection': inj, 'what': line})


# ------------------------------------------------------------------------------------------
def shrink(ctx, spec, msg):
    """towards the plainest injection that still fails (and is still a violation, not a recorded class)"""
    plain = dict(proj='SIN', crval=(150.0, -30.0), cdelt=10.0 / 3600, amp=1.0, docov=False, snr=100.0)
    cur = dict(spec)
    for k, v in plain.items():
        trial = dict(cur)
        trial[k] = v
        cls, m, _, _, _ = classify(ctx, trial, 'shrink')
        if cls == 'violation':
            cur, msg = trial, m
    return cur, msg


def search(ctx):
    rng = ctx.rng
    t0 = time.time()
    k = 0
    while time.time() - t0 < 150:
        spec = gen_narrow(rng, k) if k % 3 == 2 else gen_elongated(rng, k) if k % 2 else gen_spec(rng, k, want_ok=True)
        k += 1
        cls, msg, rows, tr, c = classify(ctx, spec, 'search')
        if cls == 'violation':
            spec, msg = shrink(ctx, spec, msg)
            _, rows, tr = loop_problem(ctx, spec, 'search')
            return {'kind': 'loop', 'injection': spec, 'what': msg, 'truth': tr, 'reported': rows}
    return None


def replay(ctx, obj):
    fi = obj.get('failing_input')
    if not fi or fi.get('kind') != 'loop':
        print('replay file has no concrete injection; broken obligations were:')
        for b in obj.get('broken', []):
            print('  ', b.get('what'), str(b.get('detail', b.get('case', '')))[:400])
        return 1
    spec = fi['injection']
    spec['crval'] = tuple(spec['crval'])
    spec['shape'] = tuple(spec['shape'])
    spec['beam_pix'] = tuple(spec['beam_pix'])
    msg, rows, tr = loop_problem(ctx, spec, 'replay')
    print('injection:', spec)
    print('truth    :', tr)
    print('reported :', rows)
    print('implementation:', msg or 'property holds on this input')
    return 1 if msg else 0
