"""Shared by C08 and C12: op sequences on real Region objects vs Model/RegionModel.v."""
import copy
import os
import pickle

import numpy as np

import vlib

IMPORTS = ("From Coq Require Import ZArith List.\nFrom Aegean Require Import Gen.Regions Model.RegionModel.\n"
           "Import ListNotations.\nOpen Scope Z_scope.\n")


# ---- an operand region: (depth, [(level, pixel), ...], normalised?)
def g_region(o):
    depth, cells = o['depth'], o['cells']
    return 'mkRegion %d [%s] false' % (depth, '; '.join(f'({d}, {vlib.zlit(p)})' for d, p in cells))


def py_region(o):
    from AegeanTools.regions import Region
    r = Region(maxdepth=o['depth'])
    by = {}
    for d, p in o['cells']:
        by.setdefault(d, []).append(p)
    for d, ps in by.items():
        r.add_pixels(ps, d)
    return r


def g_op(op):
    k = op['op']
    if k in ('AddPixels', 'AddShape'):
        return f"{k} {op['d']} {vlib.zlist(op['ps'])}"
    if k == 'Union':
        return f"Union ({g_region(op['o'])}) {'true' if op['renorm'] else 'false'}"
    if k in ('Without', 'Intersect', 'SymDiff'):
        return f"{k} ({g_region(op['o'])})"
    if k == 'Within':
        return f"Within {vlib.zlist(op['qs'])}"
    return k


def g_trace(D, ops):
    return f"trace (init {D}) [{'; '.join(g_op(o) for o in ops)}]"


def deepest(D, cells):
    """truth: set of depth-D pixels covered by cells; finer cells are degraded"""
    s = set()
    for d, p in cells:
        if d <= D:
            k = 4 ** (D - d)
            s.update(range(p * k, (p + 1) * k))
        else:
            s.add(p // 4 ** (d - D))
    return s


class Impl:
    """runs ops on a real Region; keeps an independent truth set of deepest-level pixels"""

    def __init__(self, D, work):
        from AegeanTools.regions import Region
        import healpy as hp
        self.hp = hp
        self.D = D
        self.r = Region(maxdepth=D)
        self.truth = set()
        self.raw_since_norm = False   # a non-renormalising add happened since the last renorm
        self.work = work
        self.problems = []            # direct violations of the property (oracle)
        self.known_area = False
        self.operands = []            # (operand Region object, its own truth): an operation must not change its operand later

    def levels(self):
        out = []
        for d in range(1, self.D + 1):
            lv = self.r.pixeldict.get(d, set())
            for p in lv:
                if not isinstance(p, (int, np.integer)) or isinstance(p, bool):
                    self.problems.append(f'level {d} stores a non-integer pixel id {p!r}')
                elif not (0 <= int(p) < 12 * 4 ** d):
                    self.problems.append(f'level {d} stores an invalid pixel id {p!r}')
            try:
                out.append(sorted(int(p) if float(p) == int(p) else p for p in lv))
            except Exception:
                out.append(sorted(lv))
        return out

    def within(self, qs):
        hp = self.hp
        qa = np.array([max(q, 0) for q in qs])
        theta, phi = hp.pix2ang(2 ** self.D, qa, nest=True)
        ra, dec = phi, np.pi / 2 - theta
        ra = np.array(ra, dtype=float)
        dec = np.array(dec, dtype=float)
        for i, q in enumerate(qs):
            if q < 0:
                ra[i] = np.nan
        return [bool(b) for b in self.r.sky_within(ra, dec, degin=False)]

    def step(self, op):
        """returns out_code list (as the model's out_code)"""
        k = op['op']
        r = self.r
        D = self.D
        hp = self.hp
        if k == 'AddPixels':
            r.add_pixels(list(op['ps']), op['d'])
            self.truth |= deepest(D, [(op['d'], p) for p in op['ps']])
            self.raw_since_norm = True
            return [0]
        if k == 'AddShape':
            import AegeanTools.regions as regions
            saved = regions.hp.query_disc
            try:
                regions.hp.query_disc = lambda *a, **kw: np.array(op['ps'], dtype=np.int64)
                r.add_circles(0.1, 0.2, 0.01, depth=op['d'])
            finally:
                regions.hp.query_disc = saved
            self.truth |= deepest(D, [(op['d'], p) for p in op['ps']])
            self.raw_since_norm = False
            return [0]
        if k == 'Union':
            o = py_region(op['o'])
            self.operands.append((o, deepest(op['o']['depth'], op['o']['cells']), g_op(op)[:80]))
            r.union(o, renorm=op['renorm'])
            self.truth |= deepest(D, op['o']['cells'])
            self.raw_since_norm = not op['renorm']
            return [0]
        if k in ('Without', 'Intersect', 'SymDiff'):
            o = py_region(op['o'])
            self.operands.append((o, deepest(op['o']['depth'], op['o']['cells']), g_op(op)[:80]))
            try:
                getattr(r, {'Without': 'without', 'Intersect': 'intersect', 'SymDiff': 'symmetric_difference'}[k])(o)
            except AssertionError:
                return [1]
            t = deepest(op['o']['depth'], op['o']['cells'])
            if k == 'Without':
                self.truth -= t
            elif k == 'Intersect':
                self.truth &= t
            else:
                self.truth ^= t
            self.raw_since_norm = False
            return [0]
        if k == 'Within':
            res = self.within(op['qs'])
            exp = [q in self.truth for q in op['qs']]
            if res != exp:
                self.problems.append(f'sky_within answers {res} but set algebra gives {exp} for pixels {op["qs"]}')
            return [2] + [1 if b else 0 for b in res]
        if k == 'GetDemoted':
            res = r.get_demoted()
            for p in res:
                if not isinstance(p, (int, np.integer)):
                    self.problems.append(f'get_demoted returns a non-integer pixel id {p!r}')
            res = sorted(res)
            if set(res) != self.truth:
                self.problems.append(f'get_demoted differs from set algebra: extra {sorted(set(res) - self.truth)[:5]} '
                                     f'missing {sorted(self.truth - set(res))[:5]}')
            return [3] + [int(p) for p in res]
        if k == 'GetArea':
            a = r.get_area()
            counts = [len(r.pixeldict.get(d, ())) for d in range(1, D + 1)]
            exp = 0
            for d in range(1, D + 1):
                exp += counts[d - 1] * hp.nside2pixarea(2 ** d, degrees=True)
            if a != exp:
                self.problems.append(f'get_area {a!r} is not the sum over levels {exp!r}')
            true_area = len(self.truth) * hp.nside2pixarea(2 ** D, degrees=True)
            if abs(a - true_area) > 1e-9 * max(true_area, 1e-30):
                if self.raw_since_norm:
                    self.known_area = True      # recorded finding: overlap after raw adds (see known_findings.txt)
                else:
                    self.problems.append(f'get_area {a!r} but the pixel set has area {true_area!r}')
            return [4] + counts
        if k == 'Uniq':
            res = sorted(int(u) for u in r._uniq())
            # decode and compare with the truth (C12)
            cov = set()
            for u in res:
                d = (int(u // 4).bit_length() - 1) // 2
                p = u - 4 * 4 ** d
                cov |= deepest(D, [(d, p)])
            if cov != self.truth:
                self.problems.append(f'NUNIQ list decodes to a different pixel set: extra {sorted(cov - self.truth)[:5]} '
                                     f'missing {sorted(self.truth - cov)[:5]}')
            return [3] + res
        if k == 'SaveLoad':
            from AegeanTools.regions import Region
            p = os.path.join(self.work, 'r.mim')
            r.save(p)
            self.r = Region.load(p)
            return [0]
        if k == 'Renorm':
            r._renorm()
            self.raw_since_norm = False
            return [0]
        raise ValueError(k)

    def check_state(self):
        """abs(r) must equal the truth after every op (on a copy: queries mutate the representation)"""
        c = copy.deepcopy(self.r)
        got = set(c.get_demoted())
        if got != self.truth:
            self.problems.append(f'region content differs from set algebra: extra {sorted(got - self.truth)[:5]} '
                                 f'missing {sorted(self.truth - got)[:5]}')
        # operands of earlier operations are regions too: nothing done to self afterwards may change them (shared set objects)
        for o, t, what in self.operands:
            try:
                og = set(int(p) for p in copy.deepcopy(o).get_demoted())
            except Exception as e:  # noqa
                og = {f'raised {type(e).__name__}'}
            if og != t:
                self.problems.append(f'the operand of an earlier operation ({what}) no longer holds its own pixel set: extra '
                                     f'{sorted(map(str, og - t))[:5]} missing {sorted(map(str, t - og))[:5]}')
                break


def run_impl(D, ops, work):
    """returns (trace as the model prints it, problems, known_area_flag)"""
    im = Impl(D, work)
    tr = []
    for op in ops:
        try:
            out = im.step(op)
        except Exception as e:  # noqa
            im.problems.append(f'{op["op"]} raised {type(e).__name__}: {e}')
            tr.append(('raised', None))
            break
        lv = im.levels()
        im.check_state()
        tr.append((out, lv))
    return tr, im.problems, im.known_area


def canon_model(t):
    """model trace value -> comparable (out, levels) with sorted sets"""
    out = []
    for o, lv in t:
        o = list(o)
        if o and o[0] == 3:
            o = [3] + sorted(set(o[1:]))   # a Python set: duplicates in the list model are immaterial
        out.append((o, [sorted(l) for l in lv]))
    return out


def canon_impl(t):
    return [(list(o) if o != 'raised' else 'raised', lv) for o, lv in t]
