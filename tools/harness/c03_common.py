"""C03 helpers: test images, runs of the real finder, catalogue rows as plain data, the independent
Python oracle of the property's clauses, and the Gallina literals for Model/CatalogRows.v.

Everything that touches AegeanTools is importable both by the harness process and by the fresh-process
runner (c03_runner.py)."""
import json
import logging
import math
import os
import re
import sys
from fractions import Fraction

import numpy as np

sys.path.insert(0, os.path.dirname(os.path.dirname(os.path.abspath(__file__))))
from fixtures import make_header, write_image  # noqa: E402

IMPORTS = ("From Coq Require Import ZArith NArith QArith Bool List.\n"
           "From Aegean Require Import Lib.FVal Gen.CatRows Model.CatalogRows.\n"
           "Import ListNotations.\nOpen Scope Z_scope.\n")
ERR_NAMES = ['err_ra', 'err_dec', 'err_peak_flux', 'err_int_flux', 'err_a', 'err_b', 'err_pa']
FLOAT_COLS = ['ra', 'dec', 'a', 'b', 'pa', 'peak_flux', 'int_flux', 'psf_a', 'psf_b', 'local_rms', 'background',
              'residual_mean', 'residual_std', 'psf_pa'] + ERR_NAMES
CLAUSES = {1: 'a >= b > 0', 2: '-90 < pa <= 90', 3: '0 <= ra < 360', 4: '|dec| <= 90', 5: 'flags < 128',
           6: 'each err_* positive-finite or exactly -1', 7: 'ra_str agrees with ra', 8: 'dec_str agrees with dec',
           9: 'int_flux = peak*a*b/(psf_a*psf_b) within 1 %', 10: 'island, source >= 0'}
RMS = 0.01
quiet = logging.getLogger('c03quiet')
quiet.addHandler(logging.NullHandler())
quiet.setLevel(logging.CRITICAL)
quiet.propagate = False
# wcs_helpers warns on every load of a header with a rotated CD matrix
logging.getLogger('Aegean').setLevel(logging.CRITICAL)


# ------------------------------------------------------------------------------------------
# images
def gauss(shape, amp, r, c, sx, sy, th):
    from AegeanTools import fitting
    yy, xx = np.indices(shape)
    return fitting.elliptical_gaussian(yy.astype(float), xx.astype(float), amp, r, c, sx, sy, th)


KINDS = ['iso', 'pair', 'px1', 'px3', 'neg', 'long', 'px2', 'faintpair', 'posneg', 'bright']
# further kinds used by the rotated / medium-field images only: elongated sources at other angles
ELONGATED = ['long', 'long45', 'longm20', 'iso', 'long0']


def make_image(spec):
    """spec: dict(seed, ncell, cell, nsrc, kinds, noise, nanblock, edge, crval, cdelt) -> float32 image"""
    rs = np.random.RandomState(spec['seed'])
    n, cell = spec['ncell'], spec['cell']
    shape = (n * cell, n * cell)
    img = rs.normal(0, RMS, size=shape) * (1.0 if spec.get('noise', True) else 0.0)
    kinds = spec.get('kinds') or KINDS
    k = 0
    for i in range(n):
        for j in range(n):
            if k >= spec['nsrc']:
                break
            r = i * cell + cell / 2 + rs.uniform(-2, 2)
            c = j * cell + cell / 2 + rs.uniform(-2, 2)
            kind = kinds[k % len(kinds)]
            ri, ci = int(r), int(c)
            if kind == 'iso':
                img += gauss(shape, rs.uniform(0.3, 2), r, c, rs.uniform(1.3, 2.5), rs.uniform(1.3, 2.5), rs.uniform(-90, 90))
            elif kind == 'pair':
                img += gauss(shape, 1, r, c, 1.5, 1.3, 20)
                img += gauss(shape, 0.7, r + 3, c + 4, 1.5, 1.3, 20)
            elif kind == 'faintpair':
                img += gauss(shape, 0.12, r, c, 1.4, 1.3, 0)
                img += gauss(shape, 0.1, r + 2.5, c - 2.5, 1.4, 1.3, 0)
            elif kind == 'px1':
                img[ri, ci] += 0.2
            elif kind == 'px2':
                img[ri, ci:ci + 2] += 0.2
            elif kind == 'px3':
                img[ri, ci:ci + 2] += 0.2
                img[ri + 1, ci] += 0.15
            elif kind == 'neg':
                img -= gauss(shape, 0.8, r, c, 1.6, 1.4, -40)
            elif kind == 'long':
                img += gauss(shape, 0.5, r, c, 3, 1.3, 70)
            elif kind == 'long45':
                img += gauss(shape, 1.0, r, c, 3, 1.3, 45)
            elif kind == 'longm20':
                img += gauss(shape, 0.7, r, c, 2.8, 1.4, -20)
            elif kind == 'long0':
                img += gauss(shape, 0.6, r, c, 3.2, 1.5, 0)
            elif kind == 'posneg':
                img += gauss(shape, 0.6, r, c - 2.5, 1.4, 1.3, 10)
                img -= gauss(shape, 0.6, r, c + 2.5, 1.4, 1.3, 10)
            elif kind == 'bright':
                img += gauss(shape, 50.0, r, c, 1.5, 1.3, -60)
            k += 1
    if spec.get('edge'):
        # sources whose centre is on / just outside the image edge
        img += gauss(shape, 1.0, 0.2, shape[1] / 2, 1.5, 1.4, 0)
        img += gauss(shape, 0.8, shape[0] / 2, shape[1] - 0.6, 1.5, 1.4, 30)
        img += gauss(shape, 0.8, shape[0] - 1.0, 1.0, 1.6, 1.4, 45)
    if spec.get('nanblock'):
        b = cell // 2
        img[b:b + cell, b:b + cell // 2] = np.nan          # cuts through the first cell's source
        img[shape[0] - 3:, : shape[1] // 3] = np.nan
    return img.astype(np.float32)


def spec_header(spec, shape):
    """FITS header of a spec.  Extra keys (handled here, tools/fixtures.py is unchanged): proj ('SIN', 'TAN', ...);
    rot = rotation of the pixel grid in degrees, written as a CDi_j matrix (wcs = 'CD', the CDELT cards are removed)
    or as PCi_j + CDELT (wcs = 'PC')"""
    h = make_header(shape, proj=spec.get('proj', 'SIN'), crval=tuple(spec.get('crval', (150.0, -30.0))),
                    cdelt=spec.get('cdelt', 10.0 / 3600), beam=tuple(spec.get('beam', (30.0 / 3600, 30.0 / 3600, 0.0))))
    rot = spec.get('rot')
    if rot is not None:
        c, s = math.cos(math.radians(rot)), math.sin(math.radians(rot))
        cd1, cd2 = h['CDELT1'], h['CDELT2']
        if spec.get('wcs', 'CD') == 'CD':
            # CD = [[cdelt1 cos, -cdelt2 sin], [cdelt1 sin, cdelt2 cos]]
            h['CD1_1'], h['CD1_2'], h['CD2_1'], h['CD2_2'] = cd1 * c, -cd2 * s, cd1 * s, cd2 * c
            del h['CDELT1']
            del h['CDELT2']
        else:
            r = cd2 / cd1
            h['PC1_1'], h['PC1_2'], h['PC2_1'], h['PC2_2'] = c, -s * r, s / r, c
    return h


def write_spec_image(spec, path):
    """spec['cube'] = k: the file is a k-plane cube whose FIRST plane is the image (the other planes hold something else);
    every entry point of the finder is called without cube_index, which must then read the first plane (as BANE does)"""
    img = make_image(spec)
    data = img
    if spec.get('cube'):
        data = np.stack([img] + [(-0.5 * img + 0.25 * k).astype(np.float32) for k in range(1, int(spec['cube']))])
    write_image(path, data, spec_header(spec, img.shape))
    return img


# ------------------------------------------------------------------------------------------
# rows as plain data
def _f(x):
    """JSON-able float: finite -> float, else 'nan' / 'inf' / '-inf'; None stays None"""
    if x is None:
        return None
    x = float(x)
    if math.isnan(x):
        return 'nan'
    if math.isinf(x):
        return 'inf' if x > 0 else '-inf'
    return x


def unf(x):
    if isinstance(x, str):
        return float(x)
    return x


def comp_row(s):
    d = {'island': int(s.island), 'source': int(s.source), 'uuid': str(s.uuid), 'flags': int(s.flags),
         'ra_str': s.ra_str, 'dec_str': s.dec_str}
    for c in FLOAT_COLS:
        d[c] = _f(getattr(s, c))
    return d


def island_row(s):
    return {'island': int(s.island), 'components': int(s.components), 'pixels': int(s.pixels),
            'x_width': int(s.x_width), 'y_width': int(s.y_width), 'extent': [int(v) for v in s.extent],
            'flags': int(s.flags), 'peak_flux': _f(s.peak_flux), 'ra': _f(s.ra), 'dec': _f(s.dec),
            'ra_str': s.ra_str, 'dec_str': s.dec_str, 'int_flux': _f(s.int_flux), 'uuid': str(s.uuid)}


def split_catalogue(found):
    from AegeanTools.models import ComponentSource, IslandSource
    comps = [comp_row(s) for s in found if isinstance(s, ComponentSource)]
    isles = [island_row(s) for s in found if isinstance(s, IslandSource)]
    return comps, isles


def sources_from_rows(rows):
    from AegeanTools.models import ComponentSource
    out = []
    for r in rows:
        s = ComponentSource()
        for k, v in r.items():
            setattr(s, k, unf(v) if k in FLOAT_COLS else v)
        out.append(s)
    return out


def run_blind(path, doislandflux=False, **kw):
    from AegeanTools.source_finder import SourceFinder
    sf = SourceFinder(log=quiet)
    found = sf.find_sources_in_image(path, rms=RMS, bkg=0.0, cores=1, innerclip=5, outerclip=4,
                                     doislandflux=doislandflux, **kw)
    return split_catalogue(found)


def run_priorized(path, cat_rows, stage, regroup, record=None):
    """record: a list that receives the island groups the run formed (lists of uuids), observed by wrapping
    cluster.regroup_dbscan / source_finder.island_itergen inside this process"""
    from AegeanTools import cluster
    from AegeanTools import source_finder as sfm
    sf = sfm.SourceFinder(log=quiet)
    if record is None:
        found = sf.priorized_fit_islands(path, catalogue=sources_from_rows(cat_rows), stage=stage, rms=RMS, bkg=0.0,
                                         cores=1, doregroup=regroup)
        return split_catalogue(found)
    real_db, real_it = cluster.regroup_dbscan, sfm.island_itergen

    def wrap_db(*a, **k):
        groups = real_db(*a, **k)
        record.extend([[s.uuid for s in g] for g in groups])
        return groups

    def wrap_it(*a, **k):
        groups = list(real_it(*a, **k))
        record.extend([[s.uuid for s in g] for g in groups])
        return iter(groups)
    cluster.regroup_dbscan, sfm.island_itergen = wrap_db, wrap_it
    try:
        found = sf.priorized_fit_islands(path, catalogue=sources_from_rows(cat_rows), stage=stage, rms=RMS, bkg=0.0,
                                         cores=1, doregroup=regroup)
    finally:
        cluster.regroup_dbscan, sfm.island_itergen = real_db, real_it
    return split_catalogue(found)


EXT_COLS = ('ra', 'dec', 'peak_flux', 'a', 'b', 'pa', 'psf_a', 'psf_b', 'psf_pa')


def write_external_catalogue(cat_rows, fname, how):
    """a catalogue file as a third party would make it for --input: positions, fluxes, shapes and psf only.
    how = 'nouuid': no uuid / island / source columns;  'masked': a uuid column whose cells are masked (fits / csv)"""
    from astropy.table import MaskedColumn, Table
    t = Table()
    for c in EXT_COLS:
        t[c] = [float(unf(r[c])) for r in cat_rows]
    if how == 'zeroerr':
        # a table from another tool whose uncertainty columns are filled with zeros ("not measured"): 0 is neither positive nor the
        # -1 marker, so an uncertainty that is copied to the output must come out as -1
        for c in ('err_ra', 'err_dec', 'err_peak_flux', 'err_int_flux', 'err_a', 'err_b', 'err_pa'):
            t[c] = [0.0] * len(cat_rows)
    if how == 'masked':
        t['island'] = [int(r['island']) for r in cat_rows]
        t['source'] = [int(r['source']) for r in cat_rows]
        t['uuid'] = MaskedColumn(['x' * 36] * len(cat_rows), mask=[True] * len(cat_rows))
    if fname.endswith('.vot'):
        from astropy.io.votable import from_table, writeto
        writeto(from_table(t), fname)
    else:
        t.write(fname, overwrite=True)
    return fname


def run_priorized_file(path, fname, stage, regroup):
    """priorized fitting with the input catalogue given as a FILE (the path aegean --input takes: load_table + table_to_source_list)"""
    from AegeanTools import source_finder as sfm
    sf = sfm.SourceFinder(log=quiet)
    found = sf.priorized_fit_islands(path, catalogue=fname, stage=stage, rms=RMS, bkg=0.0, cores=1, doregroup=regroup)
    return split_catalogue(found)


def strip_uuid(rows):
    return [{k: v for k, v in r.items() if k != 'uuid'} for r in rows]


# ------------------------------------------------------------------------------------------
# independent detection of the islands (for the island rows and the small-island flags)
def detect(img, inner=5.0, outer=4.0):
    """islands as the blind finder defines them: 8-connected groups of pixels with |img|/rms >= outer that
    contain a pixel with |img|/rms > inner; in scipy label order.  Returns list of dicts."""
    from scipy.ndimage import find_objects, label
    data = np.asarray(img, dtype=np.float64)
    snr = np.abs(data) / RMS
    ok = np.isfinite(snr)
    flood = np.zeros(data.shape, dtype=bool)
    flood[ok] = snr[ok] >= outer
    lab, n = label(flood, structure=np.ones((3, 3)))
    out = []
    for k, sl in enumerate(find_objects(lab)):
        own = lab[sl] == k + 1
        s = snr[sl]
        if not np.any(s[own] > inner):
            continue
        d = data[sl]
        strict = int(np.sum(own & (np.abs(d) - outer * RMS > 0)))
        vals = d[own]
        peak = float(vals.max()) if vals.max() > 0 else float(vals.min())
        if vals.max() < 0:
            peak = float(vals.min())
        out.append({'extent': [int(sl[0].start), int(sl[0].stop), int(sl[1].start), int(sl[1].stop)],
                    'npix': int(own.sum()), 'npix_strict': strict, 'peak': peak,
                    'mindim': int(min(sl[0].stop - sl[0].start, sl[1].stop - sl[1].start))})
    return out


# ------------------------------------------------------------------------------------------
# the independent Python oracle of the property's clauses
def _fin(x):
    return isinstance(x, float) and math.isfinite(x)


def oracle_row(r):
    """list of violated clause numbers (same numbering as Model.CatalogRows.row_failures)"""
    from AegeanTools import angle_tools
    bad = []
    a, b, pa, ra, dec = (unf(r[k]) for k in ('a', 'b', 'pa', 'ra', 'dec'))
    if not (_fin(a) and _fin(b) and a >= b > 0):
        bad.append(1)
    if not (_fin(pa) and -90 < pa <= 90):
        bad.append(2)
    if not (_fin(ra) and 0 <= ra < 360):
        bad.append(3)
    if not (_fin(dec) and abs(dec) <= 90):
        bad.append(4)
    if not (0 <= r['flags'] and (r['flags'] & ~0b1111111) == 0):
        bad.append(5)
    for e in ERR_NAMES:
        v = unf(r[e])
        if not (_fin(v) and (v > 0 or v == -1.0)):
            bad.append(6)
            break
    try:
        back = angle_tools.ra2dec(r['ra_str'])
        d = abs(back - ra)
        d = min(d, abs(d - 360.0))
        if not (re.fullmatch(r'\d\d:\d\d:\d\d\.\d\d', r['ra_str']) and d <= 15 * 0.005 / 3600 * (1 + 1e-6) + 1e-9):
            bad.append(7)
    except Exception:
        bad.append(7)
    try:
        back = angle_tools.dec2dec(r['dec_str'])
        if not (re.fullmatch(r'[+-]\d\d:\d\d:\d\d\.\d\d', r['dec_str']) and abs(back - dec) <= 0.005 / 3600 * (1 + 1e-6) + 1e-9
                and (r['dec_str'][0] == '-') == (dec < 0)):
            bad.append(8)
    except Exception:
        bad.append(8)
    pk, fl, pa_, pb_ = (unf(r[k]) for k in ('peak_flux', 'int_flux', 'psf_a', 'psf_b'))
    if not (all(_fin(v) for v in (pk, fl, pa_, pb_, a, b)) and pa_ > 0 and pb_ > 0
            and abs(fl - pk * a * b / (pa_ * pb_)) <= 0.01 * abs(pk * a * b / (pa_ * pb_))):
        bad.append(9)
    if r['island'] < 0 or r['source'] < 0:
        bad.append(10)
    return bad


def oracle_catalogue(rows):
    """(per-row failures, pairs unique, uuids unique, contiguous)"""
    pairs = [(r['island'], r['source']) for r in rows]
    by = {}
    for i, s in pairs:
        by.setdefault(i, []).append(s)
    contiguous = all(sorted(v) == list(range(len(v))) for v in by.values())
    uu = [r['uuid'] for r in rows]
    return ([oracle_row(r) for r in rows], len(set(pairs)) == len(pairs), len(set(uu)) == len(uu), contiguous)


def oracle_islands(comps, isles, det):
    """island rows against component rows and the detection; list of messages"""
    msgs = []
    ids = [i['island'] for i in isles]
    if len(set(ids)) != len(ids):
        msgs.append('island numbers not unique')
    count = {}
    for c in comps:
        count[c['island']] = count.get(c['island'], 0) + 1
    for c in count:
        if c not in ids:
            msgs.append(f'component island {c} has no island row')
    byext = {tuple(d['extent']): d for d in det}
    for i in isles:
        n = i['island']
        d = byext.get(tuple(i['extent']))
        if d is None:
            msgs.append(f"island {n}: extent {i['extent']} is not the bounding box of any detected island")
            continue
        if i['components'] != count.get(n, 0):
            msgs.append(f"island {n}: components={i['components']} but {count.get(n, 0)} component rows")
        if i['pixels'] != d['npix_strict']:
            msgs.append(f"island {n}: pixels={i['pixels']} but {d['npix_strict']} pixels above the flood level")
        if (i['x_width'], i['y_width']) != (d['extent'][1] - d['extent'][0], d['extent'][3] - d['extent'][2]):
            msgs.append(f"island {n}: widths {i['x_width']}x{i['y_width']} vs extent {d['extent']}")
        if unf(i['peak_flux']) != np.float32(d['peak']):
            msgs.append(f"island {n}: peak_flux {i['peak_flux']} but brightest pixel {d['peak']}")
        if i['flags'] & ~0b1111111:
            msgs.append(f"island {n}: flags {i['flags']}")
    return msgs


# ------------------------------------------------------------------------------------------
# Gallina literals
def qlit(x):
    fr = Fraction(float(x))
    n, d = fr.numerator, fr.denominator
    return f"(({n}) # {d})" if n < 0 else f"({n} # {d})"


def flit(x):
    x = unf(x)
    if x is None:
        return 'NaN'
    x = float(x)
    if math.isnan(x):
        return 'NaN'
    if math.isinf(x):
        return 'PInf' if x > 0 else 'NInf'
    return f"(Fin {qlit(x)})"


_SEXA = re.compile(r'([+-]?)(\d\d):(\d\d):(\d\d)\.(\d\d)')


def sexalit(s, signed):
    m = _SEXA.fullmatch(s) if isinstance(s, str) else None
    if not m or (signed and m.group(1) == '') or (not signed and m.group(1) != ''):
        return 'None'
    neg = 'true' if m.group(1) == '-' else 'false'
    return f"(Some (mkSexa {neg} {int(m.group(2))} {int(m.group(3))} {int(m.group(4))} {int(m.group(5))}))"


def zl(n):
    n = int(n)
    return f"({n})" if n < 0 else str(n)


def rowlit(r):
    errs = '; '.join(flit(r[e]) for e in ERR_NAMES)
    uu = int(r['uuid'].replace('-', ''), 16)
    fl = r['flags']
    return (f"(mkRow {zl(r['island'])} {zl(r['source'])} {uu} {fl if fl >= 0 else 0}%N {flit(r['ra'])} {flit(r['dec'])} "
            f"{flit(r['a'])} {flit(r['b'])} {flit(r['pa'])} {flit(r['peak_flux'])} {flit(r['int_flux'])} "
            f"{flit(r['psf_a'])} {flit(r['psf_b'])} [{errs}] {sexalit(r['ra_str'], False)} {sexalit(r['dec_str'], True)})")


def catlit(rows):
    return '[' + '; '.join(rowlit(r) for r in rows) + ']'


def irowlit(i, d):
    e = i['extent']
    de = d['extent']
    return (f"(mkIrow {zl(i['island'])} {zl(i['components'])} {zl(i['pixels'])} {zl(i['x_width'])} {zl(i['y_width'])} "
            f"{zl(e[0])} {zl(e[1])} {zl(e[2])} {zl(e[3])} {max(i['flags'], 0)}%N, "
            f"mkDet {zl(d['npix_strict'])} {zl(de[0])} {zl(de[1])} {zl(de[2])} {zl(de[3])})")


def dump(obj):
    return json.dumps(obj, sort_keys=True)
