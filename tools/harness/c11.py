"""C11 - region-restricted finding = unrestricted finding filtered by island membership."""
import json
import time
import warnings

import numpy as np

import vlib
from fixtures import make_header
from harness import islands_common as ic

GEN = ['Islands']
LEVEL = 'proof'
TRUSTED = [
    'Coq 8.16.1 kernel + vm_compute; all C11 theorems are axiom-free',
    'translator tools/translate.py: which pixels the region test looks at (np.where(own)), which offsets are added to which '
    'index, the (column, row) order, the +1 and the origin argument of wcs_pix2world, degin=True, the `continue` on no hit',
    'hand-written Model/IslandModel.v (region test = existsb over own pixels) tied by exact correspondence on find_islands(region=..)',
    'astropy.wcs (wcs_pix2world, tabulated over the image by the harness and handed to the model as `inside`), '
    'Region.sky_within / healpy.ang2pix (membership answers are inputs of the model), scipy.ndimage.label',
    'command line glue AegeanTools/CLI/aegean.py (argument parsing, defaults, option -> keyword mapping, argument order, output '
    'naming) is not modelled in Coq; it is tied on every run by tools/harness/cli_cases.py: aegean --region command lines (a region that keeps some islands, with and without --negative, and the same image without --region) run in subprocesses and '
    'the files they write equal, bit for bit (tables apart from uuids), those of the library call that --help and the docstrings promise',
]
ASSUMPTIONS = ['wcs_pix2world(p, origin) is the position of FITS pixel p + 1 - origin (validated on every run)',
               'fitting is a function of the island (box, pixels, mask) only, so identical islands give identical components']


def mk_region_case(rng):
    """image + WCS + region; non-square so that an axis mix-up shows"""
    from AegeanTools.regions import Region
    from AegeanTools.wcs_helpers import WCSHelper
    R, C = rng.randint(3, 14), rng.randint(3, 14)
    while R == C:
        C = rng.randint(3, 14)
    style = rng.choice(['lshape', 'blobs', 'diag', 'levels', 'blobs', 'bigblob', 'bigblob'])
    blob = None
    if style == 'bigblob' and min(R, C) >= 6:
        # one large filled island (so that it has interior pixels) plus small ones; used with a region that is SMALLER than the
        # island and lies wholly inside its interior
        case = ic.gen_image(rng, (R, C), 'blobs')
        h, w = rng.randint(3, R - 2), rng.randint(3, C - 2)
        r0, c0 = rng.randint(0, R - h), rng.randint(0, C - w)
        for nm, val in (('bkg', 0.0), ('rms', 2.0)):
            case[nm][r0:r0 + h, c0:c0 + w] = val
        case['im'][r0:r0 + h, c0:c0 + w] = 2.0 * (case['seed'][0] // case['seed'][1] + 3) * rng.choice([1, -1])
        blob = (r0 + rng.randint(1, h - 2), c0 + rng.randint(1, w - 2))      # an interior pixel (row, col)
    else:
        case = ic.gen_image(rng, (R, C), style if style != 'bigblob' else 'blobs')
    proj = rng.choice(['SIN', 'TAN', 'ZEA', 'ARC', 'STG'])
    crval = (rng.choice([0.01, 359.99, 150.0, 210.5]), rng.choice([-70.0, -30.0, 0.0, 45.0, 80.0]))
    cdelt = rng.choice([0.2, 0.5, 1.0])
    crpix = (rng.uniform(-3, C + 3), rng.uniform(-3, R + 3))
    h = make_header((R, C), proj=proj, crval=crval, cdelt=cdelt, crpix=crpix)
    with warnings.catch_warnings():
        warnings.simplefilter('ignore')
        wh = WCSHelper.from_header(h)
    depth = rng.choice([5, 6, 7, 8, 9])
    reg = Region(maxdepth=depth)
    # a circle centred on a random image pixel, radius of a few pixels
    x, y = rng.uniform(1, C), rng.uniform(1, R)
    ra, dec = wh.wcs.wcs_pix2world([[x, y]], 1)[0]
    rad = cdelt * rng.uniform(0.6, max(R, C) * 0.4)
    kind = rng.choice(['deep', 'deep', 'coarse', 'union', 'pixels', 'all', 'level', 'wholesky'])
    if blob is not None and rng.random() < 0.8:
        kind = 'tiny'
    if kind == 'tiny':
        # the single deepest-level HEALPix pixel under the centre of an interior pixel of the big island (much smaller than an image pixel)
        import healpy as hp
        depth = rng.choice([11, 12])
        reg = Region(maxdepth=depth)
        bra, bdec = wh.wcs.wcs_pix2world([[blob[1] + 1, blob[0] + 1]], 1)[0]
        reg.add_pixels([int(hp.ang2pix(2 ** depth, np.pi / 2 - np.radians(bdec), np.radians(bra), nest=True))], depth)
    elif kind == 'deep':
        reg.add_circles(np.radians(ra), np.radians(dec), np.radians(rad))
    elif kind == 'coarse':
        # inserted at a coarser level: levels between it and maxdepth stay empty
        reg.add_circles(np.radians(ra), np.radians(dec), np.radians(rad), depth=max(1, depth - rng.randint(1, 3)))
    elif kind == 'union':
        reg.add_circles(np.radians(ra), np.radians(dec), np.radians(rad * 0.5))
        other = Region(maxdepth=max(1, depth - rng.randint(1, 3)))
        x2, y2 = rng.uniform(1, C), rng.uniform(1, R)
        ra2, dec2 = wh.wcs.wcs_pix2world([[x2, y2]], 1)[0]
        other.add_circles(np.radians(ra2), np.radians(dec2), np.radians(rad * 0.7))
        reg.union(other, renorm=rng.random() < 0.5)
    elif kind == 'pixels':
        import healpy as hp
        d = max(1, depth - rng.randint(0, 3))
        pix = hp.query_disc(2 ** d, hp.ang2vec(np.pi / 2 - np.radians(dec), np.radians(ra)), np.radians(rad), inclusive=True, nest=True)
        reg.add_pixels(pix, d)          # raw, not renormalised
    elif kind == 'level':
        # cells of ANY level 1..depth (level 1 = the 48 coarsest cells a region can store), raw and through add_circles
        import healpy as hp
        d = rng.randint(1, depth)
        big = max(rad, np.degrees(hp.nside2resol(2 ** d)) * rng.uniform(0.3, 1.2))
        if rng.random() < 0.5:
            pix = hp.query_disc(2 ** d, hp.ang2vec(np.pi / 2 - np.radians(dec), np.radians(ra)), np.radians(big), inclusive=rng.random() < 0.5, nest=True)
            if len(pix) == 0:
                pix = [int(hp.ang2pix(2 ** d, np.pi / 2 - np.radians(dec), np.radians(ra), nest=True))]
            reg.add_pixels(pix, d)
        else:
            reg.add_circles(np.radians(ra), np.radians(dec), np.radians(big), depth=d)
    elif kind == 'wholesky':
        # the coarsest description of the whole sky, optionally with a hole cut at the deepest level
        reg.add_pixels(range(48), 1)
        if rng.random() < 0.6:
            hole = Region(maxdepth=depth)
            hole.add_circles(np.radians(ra), np.radians(dec), np.radians(rad))
            reg.without(hole)
    else:
        reg.add_circles(np.radians(ra), np.radians(dec), np.radians(60.0))   # covers the whole image
    # tabulate inside(x, y) for FITS pixels over [0, C+1] x [0, R+1] INDEPENDENTLY of Region.sky_within:
    # position from the WCS, deepest-level pixel from healpy, membership in the pixel set expanded from pixeldict here
    import copy
    import healpy as hp
    pts = [(xx, yy) for yy in range(0, R + 2) for xx in range(0, C + 2)]
    sky = wh.wcs.wcs_pix2world(pts, 1)
    ipix = hp.ang2pix(2 ** depth, np.pi / 2 - np.radians(sky[:, 1]), np.radians(sky[:, 0]), nest=True)
    stored = {int(d): {int(p) for p in ps} for d, ps in copy.deepcopy(reg.pixeldict).items() if ps}
    # a position is inside iff the ancestor of its deepest-level pixel at some level d is stored at that level (nested scheme)
    ins = [any((int(q) >> (2 * (depth - d))) in ps for d, ps in stored.items() if d <= depth) for q in ipix]
    table = {p for p, b in zip(pts, ins) if b}
    # hypothesis validation: origin convention of wcs_pix2world
    s0 = wh.wcs.wcs_pix2world([(p[0] - 1, p[1] - 1) for p in pts[:20]], 0)
    conv_ok = bool(np.allclose(s0, sky[:20], rtol=0, atol=1e-10))
    return case, wh, reg, table, conv_ok, {'shape': [R, C], 'proj': proj, 'crval': crval, 'cdelt': cdelt, 'crpix': crpix,
                                            'depth': depth, 'circle': [float(ra), float(dec), float(rad)], 'kind': kind, 'region': {str(d): sorted(int(p) for p in ps) for d, ps in reg.pixeldict.items() if ps}}


def membership_table(wh, reg, depth, R, C):
    """inside(x, y) for FITS pixels over [0, C+1] x [0, R+1], INDEPENDENT of Region.sky_within (WCS position, healpy pixel,
    ancestors looked up in a copy of pixeldict)"""
    import copy
    import healpy as hp
    pts = [(xx, yy) for yy in range(0, R + 2) for xx in range(0, C + 2)]
    sky = wh.wcs.wcs_pix2world(pts, 1)
    ipix = hp.ang2pix(2 ** depth, np.pi / 2 - np.radians(sky[:, 1]), np.radians(sky[:, 0]), nest=True)
    stored = {int(d): {int(p) for p in ps} for d, ps in copy.deepcopy(reg.pixeldict).items() if ps}
    ins = [any((int(q) >> (2 * (depth - d))) in ps for d, ps in stored.items() if d <= depth) for q in ipix]
    return {p for p, b in zip(pts, ins) if b}


def stored_json(reg):
    return {str(d): sorted(int(p) for p in ps) for d, ps in reg.pixeldict.items() if ps}


def reuse_op(rng, wh, meta):
    """a modification of a region that has already been queried: pixels added (a disc elsewhere on the image) or removed
    (a disc around the original centre); given as pixel lists so that the replay file is self-contained"""
    import healpy as hp
    R, C = meta['shape']
    depth = meta['depth']
    if rng.random() < 0.5:
        x, y = rng.uniform(1, C), rng.uniform(1, R)
        ra, dec = wh.wcs.wcs_pix2world([(x, y)], 1)[0]
        kind = 'add'
    else:
        ra, dec = meta['circle'][0], meta['circle'][1]
        kind = 'without'
    rad = max(meta['circle'][2], 1e-3) * rng.uniform(0.5, 1.5)
    d = max(1, depth - rng.randint(0, 2))
    ps = hp.query_disc(2 ** d, hp.ang2vec(np.pi / 2 - np.radians(dec), np.radians(ra)), np.radians(rad), inclusive=True, nest=True)
    return {'op': kind, 'd': int(d), 'ps': sorted(int(p) for p in ps)}


def apply_reuse_op(reg, op, depth):
    from AegeanTools.regions import Region
    if op['op'] == 'add':
        reg.add_pixels(op['ps'], op['d'])
    else:
        other = Region(maxdepth=depth)
        other.add_pixels(op['ps'], op['d'])
        reg.without(other)


def reuse_problem(case, wh, reg, meta, op):
    """finder with the region; modify the SAME region object; finder again: the second run must follow the modified region"""
    R, C = meta['shape']
    free = ic.run_impl(case)
    out = []
    for step in (0, 1):
        if step == 1:
            apply_reuse_op(reg, op, meta['depth'])
        table = membership_table(wh, reg, meta['depth'], R, C)
        got = ic.run_impl(case, region=reg, wcs=wh)
        exp = [isl for isl in free if isinstance(isl[1], list) and any((c + 1, r + 1) in table for r, c in isl[1])]
        out.append((got, exp))
        if got != exp:
            return (f'{"first" if step == 0 else "second (after the region was modified: " + op["op"] + ")"} run with the region: '
                    f'{len(got)} islands, filter by own-pixel membership of the region as it is now gives {len(exp)}'), out
    return None, out


def run_reuse(ctx, n):
    rng = ctx.rng
    nbad = changed = 0
    for k in range(n):
        case, wh, reg, table, conv_ok, meta = mk_region_case(rng)
        before = stored_json(reg)
        op = reuse_op(rng, wh, meta)
        try:
            msg, out = reuse_problem(case, wh, reg, meta, op)
        except Exception as e:  # noqa
            msg, out = f'find_islands raised {type(e).__name__}: {e}', []
        diff = len(out) == 2 and out[0][1] != out[1][1]
        changed += diff
        ctx.case(key=json.dumps(['reuse', ic.case_json(case), meta, op], sort_keys=True) if diff else None,
                 bucket=f'region reused after {op["op"]}: kept islands {"change" if diff else "same"}')
        if msg:
            nbad += 1
            if nbad <= 3:
                m2 = dict(meta, region=before, reuse_op=op)
                ctx.mismatch('region object reused by a second finder run after it was modified', {**ic.case_json(case), **m2}, impl=msg,
                             is_violation={'case': ic.case_json(case), 'meta': m2, 'what': msg})
    ctx.oblige(f'region reuse: {n} (finder run; modify the same Region; finder run) sequences follow the region as it is at each run '
               f'({changed} sequences where the modification changes the kept islands)', nbad == 0, f'{nbad} sequences differ')
    ctx.oblige('region reuse: some sequences change the set of kept islands', changed > 0 or n < 10, f'{changed} of {n}')


def run(ctx, model_ok=True):
    rng = ctx.rng
    quick = ctx.tier == 'quick'
    ctx.rule = ('non-square integer images (L shapes, blobs, diagonals, mosaics; NaN blocks) with a real WCS (5 projections, CRPIX '
                'on/off image, RA wrap, high dec) and a real Region (circle of random radius, depths 5-8, sometimes the whole '
                'image). find_islands(region=..) vs the Coq model fed with the tabulated membership of FITS pixels, and vs '
                '"unrestricted islands filtered by own-pixel membership". distinct = distinct (image, wcs, region); non-trivial = '
                'the region keeps some but not all islands.')
    exprs, impls, metas = [], [], []
    n = 240 if quick else 3000
    conv = 0
    t0 = time.time()
    for k in range(n):
        case, wh, reg, table, conv_ok, meta = mk_region_case(rng)
        conv += 1
        if not conv_ok:
            ctx.oblige('library hypothesis: wcs_pix2world(p, 0) = wcs_pix2world(p + 1, 1)', False, json.dumps(meta))
        try:
            got = ic.run_impl(case, region=reg, wcs=wh)
            free = ic.run_impl(case)
        except Exception as e:  # noqa
            ctx.mismatch('find_islands(region=...) raised', {**ic.case_json(case), **meta}, impl=f'{type(e).__name__}: {e}',
                         is_violation={'case': ic.case_json(case), 'meta': meta, 'what': f'find_islands raised {type(e).__name__}: {e}'})
            continue
        inside = lambda x, y: (x, y) in table  # noqa: E731
        exp = [isl for isl in free if isinstance(isl[1], list) and any(inside(c + 1, r + 1) for r, c in isl[1])]
        nontriv = 0 < len(exp) < len(free)
        ctx.case(key=json.dumps([ic.case_json(case), meta], sort_keys=True) if nontriv else None,
                 bucket=f'kept {"none" if not exp else "all" if len(exp) == len(free) else "some"}',
                 sample={**meta, 'islands': len(free), 'kept': len(exp)} if nontriv and len(ctx.samples) < 3 else None)
        if got != exp:
            ctx.mismatch('region-restricted find_islands vs filter of the unrestricted run', {**ic.case_json(case), **meta},
                         impl=got, model=exp,
                         is_violation={'case': ic.case_json(case), 'meta': meta,
                                       'what': f'with the region {len(got)} islands {got[:2]}, filter by own-pixel membership gives {len(exp)} {exp[:2]}'})
            continue
        tb = '[' + '; '.join(f'({x}, {y})' for x, y in sorted(table)) + ']'
        exprs.append(f'obs_region {ic.g_image(case)} {ic.g_clip(case["flood"])} {ic.g_clip(case["seed"])} '
                     f'(fun x y => existsb (fun q : Z * Z => (fst q =? x) && (snd q =? y)) {tb})')
        impls.append(got)
        metas.append((case, meta))
    ctx.hyp['wcs_pix2world(p, origin) = position of FITS pixel p + 1 - origin'] = conv
    ctx.notes.append(f'{n} cases on the implementation in {time.time() - t0:.1f}s')
    if model_ok and exprs:
        vals, err = vlib.coq_eval(ctx, ic.IMPORTS, exprs, shard=60, workers=12)
        if vals is None:
            ctx.oblige('model evaluation (vm_compute) of Model.IslandModel.obs_region', False, err)
        else:
            nbad = 0
            for v, iv, (case, meta) in zip(vals, impls, metas):
                mv = [(b, own) for b, own, unm in ic.canon_model(v)]
                if mv != iv:
                    nbad += 1
                    if nbad <= 3:
                        ctx.mismatch('find_islands(region) vs Model.IslandModel.obs_region', {**ic.case_json(case), **meta}, impl=iv, model=mv)
            ctx.oblige(f'correspondence: {len(vals)} (image, wcs, region) cases equal to the model', nbad == 0, f'{nbad} differ')
            ctx.traces = len(vals)
    # ---- command line tie: the argument glue of AegeanTools/CLI vs the library call that --help promises
    run_reuse(ctx, 60 if quick else 600)
    from harness import cli_cases
    cli_cases.hook(ctx, cli_cases.aegean_region_cli, 'aegean --region')


def _one(rng):
    case, wh, reg, table, conv_ok, meta = mk_region_case(rng)
    try:
        got = ic.run_impl(case, region=reg, wcs=wh)
        free = ic.run_impl(case)
    except Exception as e:  # noqa
        return {'case': ic.case_json(case), 'meta': meta, 'what': f'find_islands raised {type(e).__name__}: {e}'}
    exp = [isl for isl in free if any((c + 1, r + 1) in table for r, c in isl[1])]
    if got != exp:
        return {'case': ic.case_json(case), 'meta': meta,
                'what': f'with the region {len(got)} islands, filter by own-pixel membership gives {len(exp)}'}
    return None


def _one_reuse(rng):
    case, wh, reg, table, conv_ok, meta = mk_region_case(rng)
    before = stored_json(reg)
    op = reuse_op(rng, wh, meta)
    try:
        msg, _ = reuse_problem(case, wh, reg, meta, op)
    except Exception as e:  # noqa
        msg = f'find_islands raised {type(e).__name__}: {e}'
    if msg:
        return {'case': ic.case_json(case), 'meta': dict(meta, region=before, reuse_op=op), 'what': msg}
    return None


def search(ctx):
    t0 = time.time()
    k = 0
    while time.time() - t0 < 120:
        k += 1
        r = _one(ctx.rng) if k % 2 else _one_reuse(ctx.rng)
        if r:
            return r
    return None


def replay(ctx, obj):
    fi = obj.get('failing_input')
    if not fi:
        print('replay file has no concrete input; broken obligations were:')
        for b in obj.get('broken', []):
            print('  ', b.get('what'), str(b.get('detail', b.get('case', '')))[:400])
        return 1
    if fi.get('kind') == 'cli':
        from harness import cli_cases
        return cli_cases.replay_cli(ctx, fi)
    from AegeanTools.regions import Region
    from AegeanTools.wcs_helpers import WCSHelper
    case = ic.case_from_json(fi['case'])
    m = fi['meta']
    h = make_header(tuple(m['shape']), proj=m['proj'], crval=m['crval'], cdelt=m['cdelt'], crpix=m['crpix'])
    wh = WCSHelper.from_header(h)
    reg = Region(maxdepth=m['depth'])
    for d, ps in m.get('region', {}).items():
        reg.add_pixels(ps, int(d))
    R, C = m['shape']
    if m.get('reuse_op'):
        msg, out = reuse_problem(case, wh, reg, m, m['reuse_op'])
        for k, (g, e) in enumerate(out):
            print(f'run {k + 1}: with region {len(g)} islands, expected {len(e)}')
        print('implementation:', msg or 'property holds on this sequence')
        return 1 if msg else 0
    got = ic.run_impl(case, region=reg, wcs=wh)
    free = ic.run_impl(case)
    import healpy as hp
    stored = {int(d): {int(p) for p in ps} for d, ps in m.get('region', {}).items()}
    exp = []
    for isl in free:
        sky = wh.wcs.wcs_pix2world([(c + 1, r + 1) for r, c in isl[1]], 1)
        ipix = hp.ang2pix(2 ** m['depth'], np.pi / 2 - np.radians(sky[:, 1]), np.radians(sky[:, 0]), nest=True)
        if any((int(q) >> (2 * (m['depth'] - d))) in ps for q in ipix for d, ps in stored.items()):
            exp.append(isl)
    print('with region:', got)
    print('expected   :', exp)
    return 0 if got == exp else 1
