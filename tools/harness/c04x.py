"""C04 (extension) - the noise / covariance model of the fit: fitting.Cmatrix, fitting.Bmatrix, the whitening of lmfit_jacobian /
do_lmfit and the Fisher matrices of covar_errors.

Hooked into the C04 check: tools/harness/c04.py calls run_extra(ctx, model_ok) at the end of run(), search_extra(ctx) at the start
of search(), replay_extra for replay files whose kind starts with 'c04x'; EXTRA_TARGETS there lists EXTRA_TARGETS of this module.
(The C04 harness already checks `Bmatrix(C).Bmatrix(C)^T.C ~ I` for ONE fixed well-conditioned C and lmfit_jacobian against
transpose((J/errs).B); this module adds the model of Cmatrix / Bmatrix / Fisher, the eigh / inv hypotheses, ill-conditioned C
where the clip is active, the C branch of covar_errors and further non-symmetric square roots.)

  (a) Cmatrix  : 1-40 distinct pixels (blobs with masked holes, lines, scattered), sx != sy in [0.4, 6] (wide beams on packed islands make C ill-conditioned), theta in (-180, 180).
                 Sampled entries are compared with Model.NoiseModel.cmatrix through interval-certified lemmas; every entry is
                 compared with fitting.elliptical_gaussian (certified pointwise by C04) at the transposed index pair; shape,
                 symmetry, exact unit diagonal and 0 < C <= 1 (the C04x_cmatrix_* theorems) are observed on the real output.
  (b) Bmatrix  : on those real C: the hypotheses of C04x_bmatrix_contract are validated on scipy.linalg.eigh (residuals of
                 C = Q diag(L) Q^T, Q^T Q = I, Q Q^T = I, ascending L); the real B is compared with Q.dot(diag(1/sqrt(clip L)))
                 (whole matrix numerically; sampled entries - clipped columns first - through certified lemmas over bm_val, the
                 side condition `l < minL` / `minL <= l` is proved in Coq for the exact binary64 values); B B^T C ~ I is required
                 exactly where the MODEL says the clip is inactive, with a tolerance proportional to the condition number;
                 where it is active B B^T (Q diag(clip L) Q^T) ~ I is required instead (C04x_bmatrix_clipped_inverse).
  (c) stderr   : covar_errors (both branches, scalar and per-pixel errs) against sqrt(diag(inv(M Cinv M^T))) (fisher_ref) for
                 B = Bmatrix(C), the Cholesky root and Bmatrix(C).R with a random orthogonal R - all satisfy B B^T C = I;
                 the hypotheses on scipy.linalg.inv (C Cinv = I, Cinv C = I) are validated.
  (d) residual : do_lmfit with a non-symmetric B returns result.residual = model - data (whitened and un-whitened on one side).
"""
import json
import math
import os
import time
import warnings
from fractions import Fraction

import numpy as np

import vlib
from vlib import rlit

EXTRA_TARGETS = ['Props/C04x.vo']
GEN_EXTRA = ['Noise']
TRUSTED_EXTRA = [
    'translator point Noise (tools/points_c04x.py): arguments of the elliptical_gaussian call and zip order of Cmatrix; eigh call, '
    'minL, clip, 1/sqrt and Q.dot(S) of Bmatrix; order / side of noise scaling and whitening in lmfit_jacobian and the residual '
    'closure of do_lmfit; the Fisher products and sqrt(diag(inv(.))) of both branches of covar_errors; fails closed',
    'hand-written Model/NoiseModel.v (finite sums, matrix product, cmatrix, bmatrix, lmfit_jac, fisher_B / fisher_C / fisher_ref) '
    'tied by the certified entry comparisons and the stderr comparison below',
    'scipy.linalg.eigh / inv: hypotheses of the theorems, validated by residuals on every run; numpy matrix products and '
    'numpy.linalg.qr / cholesky (inputs of the comparison)',
]
ASSUMPTIONS_EXTRA = [
    'Cmatrix: pixels of an island are distinct; sx, sy non-zero',
    'Bmatrix contract B B^T C = I only when every eigenvalue of C is >= 1e-9 * the largest (otherwise B B^T is the inverse of the '
    'matrix with the clipped spectrum: C04x_bmatrix_clipped_inverse); largest eigenvalue positive',
    'errs=None is the noise vector 1, B=None is the identity in Model.NoiseModel.lmfit_jac',
    'numeric residual tolerances: eigh / inv hypotheses 1e-12 * n (relative to the largest entry); B B^T C ~ I within '
    '64 * n * 2^-52 * cond(clipped spectrum)',
]
HEADER = ("From Coq Require Import Reals List Lra.\nFrom Interval Require Import Tactic.\n"
          "From Aegean Require Import Lib.RBase Gen.Gauss Gen.Noise Model.NoiseModel Proofs.NoiseProofs.\n"
          "Import ListNotations.\nOpen Scope R_scope.")
NAMES = ['amp', 'xo', 'yo', 'sx', 'sy', 'theta']
EPS = 2.0 ** -52


# ------------------------------------------------------------------------------------------ generators
def gen_pixels(rng, n=None, style=None):
    """1-40 distinct integer pixels: (x list, y list) as np.where would give them (row-major order) or shuffled"""
    n = n or rng.choice([1, 2, 3, 5, 8, 12, 20, 30, 40])
    style = style or rng.choice(['blob', 'blob', 'masked', 'line', 'scatter'])
    x0, y0 = rng.randint(0, 50), rng.randint(0, 50)
    if style == 'line':
        pts = [(x0 + k, y0) if n % 2 else (x0, y0 + k) for k in range(min(n, 10))]
    elif style == 'scatter':
        pts = list({(x0 + rng.randint(0, 9), y0 + rng.randint(0, 9)) for _ in range(n)})
    else:
        w = max(1, int(math.ceil(math.sqrt(n * (1.6 if style == 'masked' else 1.0)))))
        w = min(w, 9)
        box = [(x0 + i, y0 + j) for i in range(w) for j in range(w + 1)]
        if style == 'masked':
            rng.shuffle(box)
        pts = sorted(box[:n])
    if rng.random() < 0.2:
        rng.shuffle(pts)
    return [p[0] for p in pts], [p[1] for p in pts]


def gen_beam(rng, small=False, big=False):
    lo, hi = (0.45, 0.95) if small else (3.0, 6.0) if big else (0.4, 3.0)
    sx, sy = rng.uniform(lo, hi), rng.uniform(lo, hi)
    if abs(sx - sy) < 0.05:
        sy += 0.1
    return sx, sy, rng.uniform(-180, 180)


# ------------------------------------------------------------------------------------------ (a) Cmatrix
def cmatrix_problem(xs, ys, sx, sy, th):
    """observations on the real Cmatrix that need no Coq: returns (message or None, C)"""
    from AegeanTools import fitting
    x, y = np.array(xs), np.array(ys)
    C = np.asarray(fitting.Cmatrix(x, y, sx, sy, th))
    n = len(xs)
    if C.shape != (n, n):
        return f'Cmatrix of {n} pixels has shape {C.shape}', C
    if not np.all(np.isfinite(C)):
        return 'Cmatrix has non-finite entries', C
    if not np.all(np.diag(C) == 1.0):
        return f'Cmatrix diagonal is not 1: {np.diag(C)[:5].tolist()} (C04x_cmatrix_unit_diagonal)', C
    if not (np.all(C > 0) and np.all(C <= 1.0)):
        return 'Cmatrix has an entry outside (0, 1] (C04x_cmatrix_entries_in_unit_interval)', C
    if not np.allclose(C, C.T, rtol=1e-12, atol=0):
        return 'Cmatrix is not symmetric (C04x_cmatrix_symmetric)', C
    for i in range(n):
        # row i = centre i; fitting.elliptical_gaussian itself is certified pointwise by the C04 check
        row = np.array([float(fitting.elliptical_gaussian(float(xs[j]), float(ys[j]), 1.0, float(xs[i]), float(ys[i]), sx, sy, th))
                        for j in range(n)])
        if not np.allclose(C[i], row, rtol=1e-11, atol=1e-300):
            j = int(np.argmax(np.abs(C[i] - row)))
            return (f'Cmatrix[{i}][{j}] = {C[i][j]!r} but the unit Gaussian centred on pixel {i} = ({xs[i]}, {ys[i]}) evaluated at pixel '
                    f'{j} = ({xs[j]}, {ys[j]}) is {row[j]!r}'), C
    return None, C


def cmatrix_goals(xs, ys, sx, sy, th, C, rng, k=5):
    n = len(xs)
    pts = '[' + '; '.join(f'({rlit(float(a))}, {rlit(float(b))})' for a, b in zip(xs, ys)) + ']'
    pairs = {(0, n - 1), (n - 1, 0), (n // 2, n // 2)}
    while len(pairs) < min(k, n * n):
        pairs.add((rng.randrange(n), rng.randrange(n)))
    goals, metas = [], []
    for (i, j) in sorted(pairs):
        v = float(C[i][j])
        tol = rlit(max(abs(v), 1e-3) * 2.0 ** -36)
        goals.append(f"Goal Rabs (cmatrix {pts} {rlit(sx)} {rlit(sy)} {rlit(th)} {i}%nat {j}%nat - {rlit(v)}) <= {tol}. Proof. "
                     f"unfold cmatrix; cbn [nth fst snd]; unfold cm_entry, gauss, rad; cbv zeta. interval with (i_prec 80). Qed.")
        metas.append(('Cmatrix entry', {'x': list(xs), 'y': list(ys), 'sx': sx, 'sy': sy, 'theta': th, 'i': i, 'j': j}, v))
    return goals, metas


# ------------------------------------------------------------------------------------------ (b) Bmatrix
def model_clip(L):
    """the clip of Model.NoiseModel.clipped on the exact binary64 eigenvalues: (minL as Fraction, [active?])"""
    minl = Fraction(1e-9) * Fraction(float(L[-1]))
    return minl, [Fraction(float(l)) < minl for l in L]


def bmatrix_problem(C):
    """returns (message or None, info).  info: n, L, Q, B, active flags, hypothesis residuals"""
    from scipy.linalg import eigh
    from AegeanTools import fitting
    n = len(C)
    C0 = C.copy()
    with warnings.catch_warnings():
        warnings.simplefilter('ignore')
        B = np.asarray(fitting.Bmatrix(C))
    if not np.array_equal(C, C0):
        return 'Bmatrix modified its argument', None
    L, Q = eigh(C0)
    info = {'n': n, 'L': L, 'Q': Q, 'B': B}
    scale = float(np.max(np.abs(C0)))
    hyp = {
        'C = Q diag(L) Q^T': float(np.max(np.abs(Q.dot(np.diag(L)).dot(Q.T) - C0))) / scale,
        'Q^T Q = I': float(np.max(np.abs(Q.T.dot(Q) - np.eye(n)))),
        'Q Q^T = I': float(np.max(np.abs(Q.dot(Q.T) - np.eye(n)))),
    }
    info['hyp'] = hyp
    info['hyp_ok'] = all(v <= 1e-12 * max(n, 4) for v in hyp.values()) and bool(np.all(np.diff(L) >= 0))
    if B.shape != (n, n) or not np.all(np.isfinite(B)):
        return f'Bmatrix returned shape {B.shape} / non-finite entries for a {n} x {n} correlation matrix', info
    if not L[-1] > 0:
        return None, info
    minl, active = model_clip(L)
    info['active'] = active
    info['minL'] = float(minl)
    cl = np.array([float(minl) if a else float(l) for a, l in zip(active, L)])
    info['clipped'] = cl
    Bm = Q * (1.0 / np.sqrt(cl))[None, :]          # Q.dot(diag(1/sqrt(clip L)))
    bscale = float(np.max(np.abs(Bm)))
    if not np.allclose(B, Bm, rtol=1e-10, atol=1e-12 * bscale):
        i, k = np.unravel_index(int(np.argmax(np.abs(B - Bm))), B.shape)
        return (f'Bmatrix[{i}][{k}] = {B[i][k]!r}; the model Q.dot(diag(1/sqrt(max(L, 1e-9*L[-1])))) gives {Bm[i][k]!r} '
                f'(eigenvalue {L[k]!r}, minL {float(minl)!r}, clip {"active" if active[k] else "inactive"} for this column)'), info
    cond = float(cl[-1] / cl[0])
    tol = 64 * n * EPS * cond + 1e-12
    BBt = B.dot(B.T)
    info['cond'] = cond
    if any(active):
        Cc = Q.dot(np.diag(cl)).dot(Q.T)
        r = float(np.max(np.abs(BBt.dot(Cc) - np.eye(n))))
        if r > tol:
            return f'clip active: B B^T (Q diag(clip L) Q^T) differs from I by {r} (tolerance {tol})', info
    else:
        r = float(np.max(np.abs(BBt.dot(C0) - np.eye(n))))
        if r > tol:
            return (f'every eigenvalue is >= 1e-9 * the largest (smallest {L[0]!r}, largest {L[-1]!r}) but B B^T C differs from I by {r} '
                    f'(tolerance {tol}): the contract B.dot(B\') = inv(C) is broken'), info
    return None, info


def bmatrix_goals(info, rng, k=4):
    n, L, Q, B, active = info['n'], info['L'], info['Q'], info['B'], info['active']
    cols = [c for c in range(n) if active[c]][:2] + [n - 1, 0]
    while len(cols) < k + 1:
        cols.append(rng.randrange(n))
    goals, metas = [], []
    for c in cols[:k]:
        i = rng.randrange(n)
        q, l, lref, v = float(Q[i][c]), float(L[c]), float(L[-1]), float(B[i][c])
        tol = rlit(max(abs(v), 1e-3) * 2.0 ** -36)
        lem = 'bm_val_active' if active[c] else 'bm_val_inactive'
        goals.append(f"Goal Rabs (bm_val {rlit(q)} {rlit(l)} {rlit(lref)} - {rlit(v)}) <= {tol}. Proof. "
                     f"rewrite {lem} by (rewrite bm_minL_documented; unfold bm_eps; lra). "
                     f"rewrite ?bm_minL_documented; unfold bm_eps. interval with (i_prec 80). Qed.")
        metas.append(('Bmatrix entry', {'i': i, 'column': c, 'Q[i][c]': q, 'L[c]': l, 'L[-1]': lref, 'clip': lem}, v))
    return goals, metas


# ------------------------------------------------------------------------------------------ (c) stderr
def gen_fit_case(rng):
    """a small island with masked pixels, 1-2 components, a correlated noise model with a well-conditioned C"""
    h, w = rng.randint(5, 7), rng.randint(5, 7)
    nmask = rng.randint(0, 4)
    masked = sorted({(rng.randrange(h), rng.randrange(w)) for _ in range(nmask)})
    nc = rng.choice([1, 1, 2])
    comps = []
    for i in range(nc):
        amp = rng.choice([-1, 1]) * rng.uniform(0.5, 8)
        sx, sy = rng.uniform(0.9, 2.0), rng.uniform(0.9, 2.0)
        if abs(sx - sy) < 0.3:
            sy += 0.5
        comps.append([amp, (h - 1) * (0.3 + 0.4 * i) + rng.uniform(-.3, .3), (w - 1) * (0.3 + 0.4 * i) + rng.uniform(-.3, .3), sx, sy,
                      rng.uniform(-180, 180)])
    varies = [[int(rng.random() < 0.6) for _ in range(6)] for _ in range(nc)]
    if not any(any(v) for v in varies):
        varies[0][0] = 1
    return {'shape': [h, w], 'masked': [list(m) for m in masked], 'components': comps, 'vary': varies,
            'beam': list(gen_beam(rng, small=True)), 'root': rng.choice(['bmatrix', 'cholesky', 'rotated']),
            'errs': rng.choice(['scalar', 'vector']), 'seed': rng.randrange(10 ** 6)}


def fit_setup(case):
    from AegeanTools import fitting
    h, w = case['shape']
    rs = np.random.RandomState(case['seed'])
    data = rs.normal(size=(h, w))
    for (a, b) in case['masked']:
        data[a, b] = np.nan
    mask = np.where(np.isfinite(data))
    n = len(mask[0])
    errs = 0.37 if case['errs'] == 'scalar' else rs.uniform(0.2, 0.9, size=n)
    sx, sy, th = case['beam']
    C = np.asarray(fitting.Cmatrix(mask[0], mask[1], sx, sy, th))
    with warnings.catch_warnings():
        warnings.simplefilter('ignore')
        if case['root'] == 'cholesky':
            B = np.linalg.inv(np.linalg.cholesky(C)).T
        else:
            B = np.asarray(fitting.Bmatrix(C.copy()))
            if case['root'] == 'rotated':
                R, _ = np.linalg.qr(rs.normal(size=(n, n)))
                B = B.dot(R)
    return data, mask, errs, C, B


def stderr_problem_x(case, hyp=None):
    """returns (message or None, status)"""
    from scipy.linalg import inv
    from AegeanTools import fitting
    from harness import c04
    data, mask, errs, C, B = fit_setup(case)
    n = len(mask[0])
    L = np.linalg.eigvalsh(C)
    if not (L[0] > 1e-7 * L[-1]):
        return None, 'skipped: C is not well conditioned'
    Cinv = inv(C)
    r1 = float(np.max(np.abs(C.dot(Cinv) - np.eye(n))))
    r2 = float(np.max(np.abs(Cinv.dot(C) - np.eye(n))))
    if hyp is not None:
        hyp['n'] += 1
        hyp['worst'] = max(hyp['worst'], r1, r2)
        if max(r1, r2) > 1e-8:
            hyp['bad'] += 1
    r3 = float(np.max(np.abs(B.dot(B.T).dot(C) - np.eye(n))))
    if r3 > 1e-6:
        return (f'the whitening matrix ({case["root"]}) of a well-conditioned C (eigenvalues {L[0]!r} .. {L[-1]!r}) does not satisfy '
                f'B B^T C = I: residual {r3}'), 'checked'
    comps, varies = case['components'], case['vary']
    pars = c04.mkpars(comps, varies)
    M = np.vstack(fitting.jacobian(pars, mask[0], mask[1])) / errs          # rows = free parameters (certified by C04)
    F = M.dot(Cinv).dot(M.T)                                               # Model.NoiseModel.fisher_ref
    if not np.all(np.isfinite(F)) or np.linalg.cond(F) > 1e8:
        return None, 'skipped: Fisher matrix is not well conditioned'
    sig = np.sqrt(np.diag(np.linalg.inv(F)))
    free = [(i, p) for i, v in enumerate(varies) for p, vv in enumerate(v) if vv]
    for branch in ('B', 'C'):
        with warnings.catch_warnings():
            warnings.simplefilter('ignore')
            out = fitting.covar_errors(c04.mkpars(comps, varies), data, errs=errs, B=B, C=(C.copy() if branch == 'C' else None))
        for k, (i, p) in enumerate(free):
            have = out[f'c{i}_{NAMES[p]}'].stderr
            if have is None or not math.isclose(have, sig[k], rel_tol=1e-6, abs_tol=0):
                return (f'covar_errors (C {"given" if branch == "C" else "= None"}, B = {case["root"]} root with B B^T C = I, errs {case["errs"]}): '
                        f'stderr of component {i} {NAMES[p]} is {have!r}; sqrt of its diagonal entry of inv((J/errs) C^-1 (J/errs)^T) is '
                        f'{float(sig[k])!r}'), 'checked'
    # is the case discriminating?  the same computation with B on the other side
    Fl = (B.dot(M.T)).T.dot(B.dot(M.T))
    try:
        sl = np.sqrt(np.diag(np.linalg.inv(Fl)))
        disc = not np.allclose(sl, sig, rtol=1e-4)
    except Exception:
        disc = True
    return None, 'checked-discriminating' if disc else 'checked'


# ------------------------------------------------------------------------------------------ (d) residual of do_lmfit
def residual_problem(case):
    from AegeanTools import fitting
    from harness import c04
    data, mask, errs, C, B = fit_setup(case)
    comps = case['components']
    truth = c04.mkpars(comps, [[0] * 6 for _ in comps])
    data = data * 0.01
    data[mask] += fitting.ntwodgaussian_lmfit(truth)(*mask)
    start = [[c[0] * 0.9, c[1] + 0.1, c[2] - 0.1, c[3], c[4], c[5]] for c in comps]
    pars = c04.mkpars(start, [[1, 1, 1, 0, 0, 0] for _ in comps])
    try:
        with warnings.catch_warnings():
            warnings.simplefilter('ignore')
            result, _ = fitting.do_lmfit(data, pars, B=B)
    except Exception as e:  # the fit itself is the business of C01 / C03
        return None, f'skipped: {type(e).__name__}'
    want = fitting.ntwodgaussian_lmfit(result.params)(*mask) - data[mask]
    got = np.asarray(result.residual)
    scale = max(1e-6, float(np.max(np.abs(want))))
    if got.shape != want.shape or not np.allclose(got, want, rtol=0, atol=1e-7 * scale):
        return (f'do_lmfit with a non-symmetric B ({case["root"]}): result.residual is not model - data at the fitted parameters '
                f'(max difference {float(np.max(np.abs(got - want))) if got.shape == want.shape else "shape"}, scale {scale}): the residual is '
                f'whitened and un-whitened on different sides'), 'checked'
    return None, 'checked'


# ------------------------------------------------------------------------------------------ driver
def _failed_gen():
    try:
        with open(os.path.join(vlib.COQ, 'Gen', 'FAILED.json')) as fh:
            return json.load(fh)
    except Exception as e:  # noqa
        return {'*': str(e)}


def run_extra(ctx, model_ok=True):
    t0 = time.time()
    rng = ctx.rng
    quick = ctx.tier == 'quick'
    failed = _failed_gen()
    err = failed.get('Noise') or failed.get('*')
    ctx.oblige(f'translate: coq/Gen/Noise.v regenerates from {vlib.REPO}', not err, err)
    names = vlib.theorems_of('C04x')
    if model_ok:
        for nme in names:
            ctx.oblige(f'theorem {nme}', True)
        ax, out = vlib.print_assumptions(ctx, 'C04x', names)
        if ax is None:
            ctx.oblige('Print Assumptions (C04x) runs', False, out)
        else:
            for nme in names:
                badax = vlib.axioms_ok(ax.get(nme, ['<missing>']))
                ctx.axioms[nme] = ax.get(nme, ['<missing>'])
                ctx.oblige(f'axioms of {nme} within the allow-list', not badax, badax)
        if ctx.tier == 'thorough' and os.environ.get('VERIF_NO_COQCHK') != '1':
            cok, cax, clog = vlib.coqchk('C04x')
            if cok is None:
                ctx.notes.append('C04x: ' + clog)
            else:
                ctx.oblige('coqchk -o re-checks Props/C04x.vo and everything it depends on', cok, clog)
                badax = vlib.axioms_ok(cax)
                ctx.oblige('coqchk (C04x): axioms of the whole dependency cone within the allow-list', not badax, badax)
    ctx.rule += (' EXTENSION (noise model): (d) Cmatrix / Bmatrix on 1-40 distinct pixels (blob, masked blob, line, scattered), '
                 'sx != sy in [0.4, 6], theta in (-180, 180): sampled entries through certified lemmas, whole matrices numerically, eigh '
                 'hypotheses by residuals; (e) covar_errors (both branches) against sqrt(diag(inv(J C^-1 J^T))) for three square roots of '
                 'inv(C); (f) do_lmfit residual with a non-symmetric B. distinct = distinct (pixel list, beam) / fit case; non-trivial = at '
                 'least 2 pixels.')
    # ---- (a) + (b)
    ncase = 15 if quick else 120
    goals, metas = [], []
    eigh_hyp = {'n': 0, 'bad': 0, 'worst': 0.0}
    nactive = ninactive = 0
    sizes = [1, 2, 3, 5, 8, 12, 20, 30, 40]
    for k in range(ncase):
        cls = (k // len(sizes) + k) % 3          # 0: wide beam on a packed island (ill-conditioned C), 1: any, 2: narrow beam
        xs, ys = gen_pixels(rng, n=sizes[k % len(sizes)] if k < 2 * len(sizes) else None)
        if cls == 0 and len(xs) < 16:
            xs, ys = gen_pixels(rng, n=rng.choice([20, 30, 40]), style=rng.choice(['blob', 'masked']))
        sx, sy, th = gen_beam(rng, small=(cls == 2), big=(cls == 0))
        n = len(xs)
        inp = {'kind': 'c04x_matrix', 'x': xs, 'y': ys, 'sx': sx, 'sy': sy, 'theta': th}
        ctx.case(key=('c04x-pix', tuple(xs), tuple(ys), sx) if n >= 2 else None, bucket=f'c04x-pixels:{"1" if n == 1 else "2-8" if n <= 8 else "9-20" if n <= 20 else "21-40"}',
                 sample={'pixels': n, 'sx': sx, 'sy': sy, 'theta': th} if k in (5, 8) else None)
        msg, C = cmatrix_problem(xs, ys, sx, sy, th)
        if msg:
            ctx.mismatch('Cmatrix vs Model.NoiseModel.cmatrix', {'pixels': n, 'sx': sx, 'sy': sy, 'theta': th}, impl=msg,
                         is_violation=dict(inp, what=msg))
            continue
        g, m = cmatrix_goals(xs, ys, sx, sy, th, C, rng, k=4 if quick else 6)
        goals += g
        metas += [(a, dict(b, **{'kind': 'c04x_matrix'}), c) for a, b, c in m]
        msg, info = bmatrix_problem(C)
        if info is not None and 'hyp' in info:
            eigh_hyp['n'] += 1
            eigh_hyp['worst'] = max(eigh_hyp['worst'], *info['hyp'].values())
            if not info['hyp_ok']:
                eigh_hyp['bad'] += 1
                ctx.notes.append(f'C04x: eigh hypothesis residuals {info["hyp"]} on {n} pixels')
        if msg:
            ctx.mismatch('Bmatrix vs Model.NoiseModel.bmatrix', {'pixels': n, 'sx': sx, 'sy': sy, 'theta': th}, impl=msg,
                         is_violation=dict(inp, what=msg))
            continue
        if info is None or 'active' not in info:
            continue
        if any(info['active']):
            nactive += 1
        else:
            ninactive += 1
        hk = 'c04x-clip:' + ('active' if any(info['active']) else 'inactive')
        ctx.hist[hk] = ctx.hist.get(hk, 0) + 1
        g, m = bmatrix_goals(info, rng, k=3 if quick else 5)
        goals += g
        metas += [(a, dict(b, **inp), c) for a, b, c in m]
    ctx.hyp['scipy.linalg.eigh: C = Q diag(L) Q^T, Q^T Q = I, Q Q^T = I (max residual <= 1e-12 n), L ascending'] = eigh_hyp['n']
    ctx.oblige(f'library hypothesis validated: contract of scipy.linalg.eigh on {eigh_hyp["n"]} real correlation matrices '
               f'(worst residual {eigh_hyp["worst"]:.2e})', eigh_hyp['bad'] == 0 and eigh_hyp['n'] > 0, eigh_hyp)
    ctx.oblige(f'coverage: the clip of Bmatrix was active on {nactive} and inactive on {ninactive} generated matrices (both needed)',
               (nactive > 0 and ninactive > 0) or bool(ctx.failures))
    if model_ok and goals:
        bad = vlib.coq_certify(ctx, HEADER, goals, shard=12)
        for k, errt in bad[:4]:
            what, a, v = metas[k] if 0 <= k < len(metas) else ('?', None, None)
            viol = None
            if isinstance(a, dict) and 'x' in a:
                viol = {'kind': 'c04x_matrix', 'x': a['x'], 'y': a['y'], 'sx': a['sx'], 'sy': a['sy'], 'theta': a['theta'],
                        'what': f'{what} {({kk: vv for kk, vv in a.items() if kk not in ("x", "y")})} = {v!r} differs from the Coq model'}
            ctx.mismatch(f'certified correspondence: {what} differs from Model.NoiseModel', {'args': a}, impl=v, model=errt[-300:], is_violation=viol)
        ctx.oblige(f'certified correspondence: {len(goals)} interval lemmas (entries of Cmatrix and of Bmatrix, clipped and unclipped columns)',
                   not bad, f'{len(bad)} shards failed')
        ctx.traces += len(goals)
    # ---- (c) stderr, (d) residual
    inv_hyp = {'n': 0, 'bad': 0, 'worst': 0.0}
    nchecked = ndisc = 0
    for k in range(18 if quick else 150):
        case = gen_fit_case(rng)
        case['root'] = ['bmatrix', 'cholesky', 'rotated'][k % 3]
        nfree = sum(sum(v) for v in case['vary'])
        ctx.case(key=('c04x-fit', json.dumps(case, sort_keys=True)), bucket=f'c04x-stderr:{case["root"]}',
                 sample={k2: case[k2] for k2 in ('shape', 'masked', 'vary', 'beam', 'root', 'errs')} if k == 1 else None)
        msg, status = stderr_problem_x(case, inv_hyp)
        if msg:
            ctx.mismatch('covar_errors vs Model.NoiseModel.fisher_ref', {'vary': case['vary'], 'root': case['root'], 'free': nfree}, impl=msg,
                         is_violation=dict(case, kind='c04x_stderr', what=msg))
            continue
        if status.startswith('checked'):
            nchecked += 1
            ndisc += status.endswith('discriminating')
    ctx.hyp['scipy.linalg.inv: C Cinv = I and Cinv C = I (max residual <= 1e-8)'] = inv_hyp['n']
    ctx.oblige(f'library hypothesis validated: scipy.linalg.inv is a two-sided inverse on {inv_hyp["n"]} real correlation matrices '
               f'(worst residual {inv_hyp["worst"]:.2e})', inv_hyp['bad'] == 0 and inv_hyp['n'] > 0, inv_hyp)
    ctx.oblige(f'correspondence: stderr of both branches of covar_errors equals sqrt(diag(inv(fisher_ref))) on {nchecked} fit cases '
               f'({ndisc} of them tell the side of B apart)', (nchecked > 0 and ndisc > 0) or bool(ctx.failures))
    ctx.traces += nchecked
    nres = 0
    for k in range(3 if quick else 20):
        case = gen_fit_case(rng)
        case['root'] = ['cholesky', 'rotated'][k % 2]
        ctx.case(key=('c04x-res', json.dumps(case, sort_keys=True)), bucket='c04x-residual')
        msg, status = residual_problem(case)
        if msg:
            ctx.mismatch('do_lmfit residual whitening', {'root': case['root']}, impl=msg, is_violation=dict(case, kind='c04x_residual', what=msg))
        elif status == 'checked':
            nres += 1
    ctx.oblige(f'correspondence: do_lmfit whitens and un-whitens the residual on the same side ({nres} fits with a non-symmetric B)',
               nres > 0 or bool(ctx.failures))
    ctx.notes.append(f'C04x: total {time.time() - t0:.1f}s')


def matrix_problem(fi):
    msg, C = cmatrix_problem(fi['x'], fi['y'], fi['sx'], fi['sy'], fi['theta'])
    if msg:
        return msg
    msg, info = bmatrix_problem(C)
    if msg:
        return msg
    if info is not None and not info.get('hyp_ok', True):
        return f'scipy.linalg.eigh does not meet its contract on this matrix: {info["hyp"]}'
    return None


def search_extra(ctx):
    """bounded search for an input on which the real code leaves the noise model (no Coq involved)"""
    rng = ctx.rng
    t0 = time.time()
    k = 0
    while time.time() - t0 < 20:
        k += 1
        xs, ys = gen_pixels(rng, n=rng.choice([2, 3, 5, 8]))
        sx, sy, th = gen_beam(rng, small=(k % 2 == 0))
        fi = {'kind': 'c04x_matrix', 'x': xs, 'y': ys, 'sx': sx, 'sy': sy, 'theta': th}
        msg = matrix_problem(fi)
        if msg:
            return dict(fi, what=msg)
        case = gen_fit_case(rng)
        msg, _ = stderr_problem_x(case)
        if msg:
            return dict(case, kind='c04x_stderr', what=msg)
        if k % 4 == 0:
            case['root'] = 'cholesky'
            msg, _ = residual_problem(case)
            if msg:
                return dict(case, kind='c04x_residual', what=msg)
    return None


def replay_extra(ctx, fi):
    kind = fi.get('kind')
    if kind == 'c04x_matrix':
        msg = matrix_problem(fi)
        print(f"pixels x={fi['x']} y={fi['y']} sx={fi['sx']!r} sy={fi['sy']!r} theta={fi['theta']!r}")
    elif kind == 'c04x_stderr':
        msg, _ = stderr_problem_x(fi)
        print('fit case:', json.dumps({k: v for k, v in fi.items() if k != 'what'}))
    else:
        msg, _ = residual_problem(fi)
        print('fit case:', json.dumps({k: v for k, v in fi.items() if k != 'what'}))
    print('implementation:', msg or 'property holds on this input')
    return 1 if msg else 0
