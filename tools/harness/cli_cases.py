"""Command line vs library call: the glue in AegeanTools/CLI/*.py (argument parsing, defaults, option -> keyword
mapping, x/y order, unit conversions, output naming) for BANE, MIMAS, AeRes and aegean.

A case = (tool, setup recipes, argument list with RELATIVE file names, the library call that the --help text and the
docstrings promise for this argument list).  The inputs are built once in <case>/cli and copied to <case>/lib; the
command line runs in a subprocess with cwd = <case>/cli, the library call in a fresh subprocess (this file with --lib)
with cwd = <case>/lib.  Afterwards the two directories must hold the same set of file names (output naming) with the
same contents: FITS images header card by header card and data bit for bit (NaN positions and payloads included),
tables column by column apart from uuid columns / uuid4 strings, region files pixel set by pixel set.  Both paths run
the same float operations on the same input bytes, so the comparison is exact.  Only when the library call does not
reproduce ITSELF bit for bit in a second fresh process (never seen) is the comparison relaxed to 1e-12 relative.

The promised mapping is written down here independently of the repository's argparse code (`promised_*`): it is the
specification, read off `<tool> --help` and the docstrings of the library functions.  Where the help text and the
behaviour of the code disagree and the code is self-consistent (command line = library) the case follows the code and
the disagreement is appended to ctx.notes ("documentation discrepancy"); see DOC_NOTES.

Public: bane_cli, mimas_mask_cli, aeres_cli, aegean_cli (all cases) and aegean_table_cli / aegean_region_cli /
aegean_polarity_cli (the parts hooked into C03 / C11 / C13), each (ctx, thorough=None) -> (problems, number of runs);
replay_cli(ctx, failing_input) -> exit code.
"""
import json
import math
import os
import re
import shutil
import subprocess
import sys
import time
from concurrent.futures import ThreadPoolExecutor

import numpy as np

sys.path.insert(0, os.path.dirname(os.path.dirname(os.path.abspath(__file__))))
import vlib  # noqa: E402
from fixtures import make_header, write_image  # noqa: E402

MODULE = {'BANE': 'BANE', 'MIMAS': 'MIMAS', 'AeRes': 'AeRes', 'aegean': 'aegean'}
SNIPPET = 'import sys; from AegeanTools.CLI import {m}; sys.exit({m}.main(sys.argv[1:]))'
PAR = 6
CLI_TIMEOUT = 240
UUID = re.compile(r'[0-9a-f]{8}-[0-9a-f]{4}-[0-9a-f]{4}-[0-9a-f]{4}-[0-9a-f]{12}')
DOC_NOTES = []     # documentation discrepancies seen in this process (also appended to ctx.notes)


def _env():
    e = dict(os.environ)
    e.update(PYTHONPATH=vlib.REPO, PYTHONHASHSEED='0', PYTHONDONTWRITEBYTECODE='1', PYTHONWARNINGS='ignore', TQDM_DISABLE='1',
             OMP_NUM_THREADS='1', OPENBLAS_NUM_THREADS='1', MKL_NUM_THREADS='1')
    return e


def command_line(tool, args):
    return ' '.join([tool] + [a if re.fullmatch(r'[\w.,+/=:-]+', a) else repr(a) for a in args])


# ------------------------------------------------------------------------------------------ inputs (setup recipes)
def _gauss(shape, amp, r, c, sx, sy, th):
    yy, xx = np.indices(shape).astype(float)
    t = math.radians(th)
    dr, dc = yy - r, xx - c
    u = dr * math.cos(t) + dc * math.sin(t)
    w = -dr * math.sin(t) + dc * math.cos(t)
    return amp * np.exp(-0.5 * (u * u / (sx * sx) + w * w / (sy * sy)))


def _header(rec, shape):
    return make_header(tuple(shape), proj=rec.get('proj', 'SIN'), crval=tuple(rec.get('crval', (150.0, -30.0))),
                       cdelt=rec.get('cdelt', 10.0 / 3600), beam=tuple(rec['beam']) if rec.get('beam') else (30.0 / 3600, 30.0 / 3600, 0.0),
                       bscale=rec.get('bscale'))


def _stack(rec, img, hdr):
    """planes: the image is plane `plane` of a cube whose other planes hold different data"""
    planes = rec.get('planes')
    if not planes:
        return img, hdr
    rs = np.random.RandomState(rec.get('seed', 0) + 77)
    cube = np.stack([img if k == rec.get('plane', 0) else (rs.normal(5.0, 3.0, img.shape)).astype(img.dtype) for k in range(planes)])
    hdr = hdr.copy()
    hdr['NAXIS'] = 3
    hdr['NAXIS3'] = planes
    hdr['CTYPE3'], hdr['CRVAL3'], hdr['CRPIX3'], hdr['CDELT3'] = 'FREQ', 1.0e8, 1.0, 1.0e6
    return cube, hdr


def _b_noise_image(rec, d):
    """noise + gradient (+ a blank block, + a few blank pixels); values are what BANE / MIMAS / AeRes work on"""
    shape = tuple(rec['shape'])
    rs = np.random.RandomState(rec['seed'])
    yy, xx = np.indices(shape).astype(float)
    img = rs.normal(rec.get('mean', 2.0), rec.get('sigma', 1.0), shape) + 0.05 * yy - 0.03 * xx
    img[rs.randint(0, shape[0], 5), rs.randint(0, shape[1], 5)] += 40.0      # outliers for the sigma clipping
    if rec.get('nan', True):
        img[shape[0] // 3: shape[0] // 3 + 5, shape[1] // 2: shape[1] // 2 + 7] = np.nan
        img[1, 2] = np.nan
    img = img.astype(rec.get('dtype', 'float32'))
    img, hdr = _stack(rec, img, _header(rec, shape))
    write_image(os.path.join(d, rec['name']), img, hdr)


SOURCES = [  # amp / rms, row, col, sx, sy, theta  (image 60 x 84, rms 0.01)
    [100.0, 15.3, 20.4, 1.6, 1.3, 30.0], [30.0, 14.6, 60.2, 1.4, 1.3, 0.0],
    [80.0, 40.2, 29.7, 1.5, 1.3, 20.0], [50.0, 43.1, 33.9, 1.5, 1.3, 20.0],      # a blend: two summits in one island
    [5.6, 46.0, 66.0, 1.3, 1.3, 0.0],                                              # between seed clips 5 and 6
    [-60.0, 29.8, 50.3, 1.6, 1.4, -40.0], [-20.0, 50.4, 12.2, 1.4, 1.3, 0.0]]
RMS, BKG = 0.01, 0.02


def sky_image(rec):
    shape = tuple(rec.get('shape', (60, 84)))
    rs = np.random.RandomState(rec['seed'])
    img = rs.normal(0.0, 0.2 * RMS, shape) + BKG
    for a, r, c, sx, sy, th in rec.get('sources', SOURCES):
        img += _gauss(shape, a * RMS, r, c, sx, sy, th)
    return img.astype('float32')


def _b_sky_image(rec, d):
    img = sky_image(rec)
    img, hdr = _stack(rec, img, _header(rec, img.shape))
    write_image(os.path.join(d, rec['name']), img, hdr)


def _b_map_image(rec, d):
    """a smooth positive (rms) or smooth (bkg) map with the header of the sky image"""
    shape = tuple(rec.get('shape', (60, 84)))
    yy, xx = np.indices(shape).astype(float)
    if rec['what'] == 'rms':
        m = RMS * (1.0 + 0.3 * xx / shape[1] + 0.2 * yy / shape[0])
    else:
        m = BKG + RMS * (0.4 * np.sin(xx / 17.0) + 0.3 * yy / shape[0])
    write_image(os.path.join(d, rec['name']), m.astype('float32'), _header(rec, shape))


def _b_psf_image(rec, d):
    """psf map: 3 planes (a, b, pa) in degrees on the grid of the sky image"""
    shape = tuple(rec.get('shape', (60, 84)))
    yy, xx = np.indices(shape).astype(float)
    a = 32.0 / 3600 * (1 + 0.1 * xx / shape[1])
    b = 29.0 / 3600 * (1 + 0.05 * yy / shape[0])
    pa = np.full(shape, 10.0)
    hdr = _header(rec, shape)
    hdr['NAXIS'] = 3
    hdr['NAXIS3'] = 3
    write_image(os.path.join(d, rec['name']), np.stack([a, b, pa]).astype('float32'), hdr)


def _pix2sky(rec, pts):
    """sky positions (deg) of 0-based (row, col) positions on the image described by rec"""
    from astropy.wcs import WCS
    w = WCS(_header(rec, tuple(rec.get('shape', (60, 84)))), naxis=2)
    return w.wcs_pix2world(np.array([[c + 1.0, r + 1.0] for r, c in pts]), 1)


def _b_region(rec, d):
    from AegeanTools.regions import Region
    reg = Region(maxdepth=rec['depth'])
    for (r, c, rad) in rec['circles_pix']:           # (row, col, radius in degrees) on the image of the recipe
        ra, dec = _pix2sky(rec, [(r, c)])[0]
        reg.add_circles(np.radians(ra), np.radians(dec), np.radians(rad))
    reg.save(os.path.join(d, rec['name']))


def _write_table(t, path):
    if path.endswith(('.vot', '.xml')):
        t.write(path, format='votable', overwrite=True)
    elif path.endswith('.tab'):
        t.write(path, format='ascii.tab', overwrite=True)
    else:
        t.write(path, overwrite=True)


def _b_position_table(rec, d):
    """a table with positions spread over (and beyond) the image, custom coordinate column names, other columns"""
    from astropy.table import Table
    rs = np.random.RandomState(rec['seed'])
    R, C = rec['shape']
    n = rec['n']
    pts = [(rs.uniform(-2, R + 1), rs.uniform(-2, C + 1)) for _ in range(n)]
    sky = _pix2sky(rec, pts)
    t = Table()
    t['id'] = np.arange(100, 100 + n, dtype=np.int64)
    t[rec['racol']] = sky[:, 0]
    t['flux'] = rs.uniform(-1, 1, n)
    t[rec['deccol']] = sky[:, 1]
    if rec.get('decoy'):
        # columns with the DEFAULT names that hold other positions (all far away): a dropped --colnames is visible
        t['ra'] = (sky[:, 0] + 180.0) % 360.0
        t['dec'] = -sky[:, 1]
    t['name'] = np.array([f'src{k:03d}' for k in range(n)], dtype='U6')
    _write_table(t, os.path.join(d, rec['name']))


CANON = ['ra', 'dec', 'peak_flux', 'a', 'b', 'pa']


def _b_catalogue(rec, d):
    """a component catalogue for AeRes (rec['names']: canonical -> column name) or for priorized fitting"""
    from astropy.table import Table
    names = rec.get('names') or dict(zip(CANON, CANON))
    srcs = rec['sources']          # amp, row, col, a_arcsec, b_arcsec, pa, local_rms
    sky = _pix2sky(rec, [(s[1], s[2]) for s in srcs])
    cols = {}
    if rec.get('full'):
        cols['island'] = np.arange(len(srcs), dtype=np.int64)
        cols['source'] = np.zeros(len(srcs), dtype=np.int64)
    vals = {'ra': sky[:, 0], 'dec': sky[:, 1], 'peak_flux': [s[0] for s in srcs], 'a': [s[3] for s in srcs],
            'b': [s[4] for s in srcs], 'pa': [s[5] for s in srcs]}
    for c in CANON:
        cols[names[c]] = np.array(vals[c], dtype=float)
    cols['local_rms'] = np.array([s[6] for s in srcs], dtype=float)
    if rec.get('full'):
        for k, v in (('psf_a', 30.0), ('psf_b', 30.0), ('psf_pa', 0.0), ('err_ra', 1e-5), ('err_dec', 2e-5), ('err_a', 0.5), ('err_b', 0.25),
                     ('err_pa', 1.5), ('err_peak_flux', 1e-3)):
            cols[k] = np.full(len(srcs), v)
        cols['uuid'] = np.array([f'input-{k:03d}' for k in range(len(srcs))])
    for k, v in (rec.get('extra') or {}).items():
        cols[k] = np.array(v, dtype=float)
    _write_table(Table(cols), os.path.join(d, rec['name']))


def _b_copy(rec, d):
    shutil.copyfile(os.path.join(d, rec['src']), os.path.join(d, rec['name']))


def _b_mef(rec, d):
    """multi-extension file: the sky image is HDU `hdu`, the primary HDU holds other data"""
    from astropy.io import fits
    img = sky_image(rec)
    hdr = _header(rec, img.shape)
    junk = np.random.RandomState(3).normal(1.0, 1.0, img.shape).astype('float32')
    hl = [fits.PrimaryHDU(data=junk, header=hdr)] + [fits.ImageHDU(data=img if k == rec['hdu'] else junk, header=hdr) for k in range(1, rec['hdu'] + 1)]
    fits.HDUList(hl).writeto(os.path.join(d, rec['name']), overwrite=True)


def _b_mkdir(rec, d):
    os.makedirs(os.path.join(d, rec['name']), exist_ok=True)


BUILDERS = {'mkdir': _b_mkdir, 'noise_image': _b_noise_image, 'sky_image': _b_sky_image, 'map_image': _b_map_image, 'psf_image': _b_psf_image,
            'region': _b_region, 'position_table': _b_position_table, 'catalogue': _b_catalogue, 'copy': _b_copy, 'mef': _b_mef}


def build_inputs(setup, d):
    import warnings
    os.makedirs(d, exist_ok=True)
    with warnings.catch_warnings():
        warnings.simplefilter('ignore')
        for rec in setup:
            BUILDERS[rec['kind']](rec, d)


# ------------------------------------------------------------------------------------------ the promised mapping
def _parse(args, spec, prefix='-'):
    """tiny option reader (independent of argparse): spec = {flag: (number of values, converter)} -> (positionals, {flag: value})"""
    pos, opt, i = [], {}, 0
    while i < len(args):
        a = args[i]
        if a in spec:
            n, conv = spec[a]
            vals = [conv(v) for v in args[i + 1:i + 1 + n]]
            if len(vals) != n:
                raise ValueError(f'{a} needs {n} values')
            opt.setdefault(a, [])
            opt[a].append(True if n == 0 else vals[0] if n == 1 else vals)
            i += 1 + n
        else:
            if a[:1] in prefix and not re.fullmatch(r'-?[\d.]+(e-?\d+)?', a):
                raise ValueError(f'option {a} is not in the promised mapping')
            pos.append(a)
            i += 1
    return pos, opt


def _last(opt, flag, default=None):
    return opt[flag][-1] if flag in opt else default


BANE_SPEC = {'--out': (1, str), '--grid': (2, int), '--box': (2, int), '--cores': (1, int), '--stripes': (1, int), '--slice': (1, int),
             '--nomask': (0, None), '--noclobber': (0, None), '--compress': (0, None)}


def promised_bane(args, exists=lambda f: False):
    """BANE --help: --out basename (default FileName_{bkg,rms}.fits), --grid / --box "the [x,y] size" -> step_size / box_size
    ("tuple of the x,y step size"), --cores -> cores, --stripes "number of slices" -> nslice, --slice -> cube_index,
    --nomask -> mask=False, --compress -> compressed=True, --noclobber: don't run if BOTH outputs exist (exit 1)"""
    pos, o = _parse(args, BANE_SPEC)
    image = pos[0]
    base = _last(o, '--out', os.path.splitext(image)[0])
    if '--noclobber' in o and exists(base + '_bkg.fits') and exists(base + '_rms.fits'):
        return {'fn': 'none', 'rc': 1}
    g, b = _last(o, '--grid'), _last(o, '--box')
    return {'fn': 'bane', 'rc': 0,
            'kw': {'im_name': image, 'out_base': base, 'step_size': g, 'box_size': b, 'cores': _last(o, '--cores'),
                   'nslice': _last(o, '--stripes'), 'cube_index': _last(o, '--slice', 0), 'mask': '--nomask' not in o,
                   'compressed': '--compress' in o}}


MIMAS_SPEC = {'--maskimage': (3, str), '--maskcat': (3, str), '--fitsmask': (3, str), '--negate': (0, None), '--colnames': (2, str),
              '-o': (1, str), '-depth': (1, int), '+c': (3, float), '-c': (3, float)}


def promised_mimas(args):
    """MIMAS --help: --maskimage region.mim file.fits masked.fits -> mask_file(region, in, out, negate); --maskcat region.mim INCAT
    OUTCAT -> mask_catalog(region, in, out, negate, racol, deccol) with --colnames RA_name DEC_name (default ra, dec); --negate
    "exclude data that is outside of the region instead"; -o out -depth N +c ra dec radius / -c ... (decimal degrees): circles added,
    then circles removed.  --fitsmask is listed in --help but the code answers "not yet implemented" and exits 1: the case follows
    the code (documentation discrepancy)."""
    pos, o = _parse(args, MIMAS_SPEC, prefix='-+')
    neg = '--negate' in o
    if '--fitsmask' in o:
        return {'fn': 'none', 'rc': 1}
    if '--maskimage' in o:
        r, i, out = _last(o, '--maskimage')
        return {'fn': 'mask_file', 'rc': 0, 'kw': {'regionfile': r, 'infile': i, 'outfile': out, 'negate': neg}}
    if '--maskcat' in o:
        r, i, out = _last(o, '--maskcat')
        ra, dec = _last(o, '--colnames', ['ra', 'dec'])
        return {'fn': 'mask_catalog', 'rc': 0, 'kw': {'regionfile': r, 'infile': i, 'outfile': out, 'negate': neg, 'racol': ra, 'deccol': dec}}
    if '-o' in o:
        return {'fn': 'region', 'rc': 0, 'kw': {'outfile': _last(o, '-o'), 'maxdepth': _last(o, '-depth', 8),
                                                 'add': o.get('+c', []), 'remove': o.get('-c', [])}}
    raise ValueError('no promised mapping for these MIMAS arguments')


AERES_SPEC = {'-c': (1, str), '--catalog': (1, str), '-f': (1, str), '--fitsimage': (1, str), '-r': (1, str), '--residual': (1, str),
              '-m': (1, str), '--model': (1, str), '--add': (0, None), '--mask': (0, None), '--sigma': (1, float), '--frac': (1, float),
              '--racol': (1, str), '--deccol': (1, str), '--peakcol': (1, str), '--acol': (1, str), '--bcol': (1, str), '--pacol': (1, str)}


def promised_aeres(args):
    """AeRes --help: -c catalog -f image -r residual [-m model]; --add "add components instead of subtracting"; --mask "just mask
    them"; --sigma "if masking, pixels above this SNR are masked" (default 4); --frac "if masking, pixels above frac*peak_flux are
    masked" (default 0 = not used -> frac=None); --racol/--deccol/--peakcol/--acol/--bcol/--pacol -> colmap"""
    pos, o = _parse(args, AERES_SPEC)
    cat = _last(o, '-c', _last(o, '--catalog'))
    img = _last(o, '-f', _last(o, '--fitsimage'))
    res = _last(o, '-r', _last(o, '--residual'))
    if cat is None or img is None or res is None:
        return {'fn': 'none', 'rc': 1}
    frac = _last(o, '--frac', 0.0)
    return {'fn': 'make_residual', 'rc': 0,
            'kw': {'fitsfile': img, 'catalog': cat, 'rfile': res, 'mfile': _last(o, '-m', _last(o, '--model')), 'add': '--add' in o,
                   'mask': '--mask' in o, 'frac': frac if frac > 0 else None, 'sigma': _last(o, '--sigma', 4.0),
                   'colmap': {'ra_col': _last(o, '--racol', 'ra'), 'dec_col': _last(o, '--deccol', 'dec'),
                              'peak_col': _last(o, '--peakcol', 'peak_flux'), 'a_col': _last(o, '--acol', 'a'),
                              'b_col': _last(o, '--bcol', 'b'), 'pa_col': _last(o, '--pacol', 'pa')}}}


AEGEAN_SPEC = {'--find': (0, None), '--hdu': (1, int), '--beam': (3, float), '--slice': (1, int), '--forcerms': (1, float),
               '--forcebkg': (1, float), '--cores': (1, int), '--noise': (1, str), '--background': (1, str), '--psf': (1, str),
               '--out': (1, str), '--table': (1, str), '--blankout': (0, None), '--colprefix': (1, str), '--maxsummits': (1, float),
               '--seedclip': (1, float), '--floodclip': (1, float), '--island': (0, None), '--nopositive': (0, None),
               '--negative': (0, None), '--region': (1, str), '--nocov': (0, None), '--priorized': (1, int), '--ratio': (1, float),
               '--noregroup': (0, None), '--input': (1, str), '--catpsf': (1, str), '--regroup-eps': (1, float)}


def promised_aegean(args, exists=lambda f: True):
    """aegean --help -> SourceFinder.find_sources_in_image / priorized_fit_islands keywords:
    --hdu hdu_index; --beam major minor pa (degrees) -> beam=Beam(major, minor, pa); --slice cube_index; --forcerms rms; --forcebkg
    bkg; --cores cores; --noise rmsin; --background bkgin; --psf imgpsf; --maxsummits max_summits; --seedclip innerclip (default 5);
    --floodclip outerclip (default 4); --island doislandflux; --nopositive "don't report sources with positive fluxes" nopositive;
    --negative "report sources with negative fluxes" -> nonegative = not given; --region mask; --nocov docov=False; --blankout
    blank + <image base>_blank.fits; --priorized stage (turns blind finding off unless --find); --ratio ratio; --noregroup
    doregroup=False; --input catalogue; --catpsf catpsf; --regroup-eps regroup_eps (arcmin); --table name(s) -> save_catalog of
    everything found; --colprefix prefix; --out text file.  --nopositive without --negative: nothing to find, exit 0."""
    pos, o = _parse(args, AEGEAN_SPEC)
    image = pos[0]
    nopos, neg = '--nopositive' in o, '--negative' in o
    if not exists(image):
        return {'fn': 'none', 'rc': 1}
    if nopos and not neg:
        return {'fn': 'none', 'rc': 0}
    if any(f in o and not exists(_last(o, f)) for f in ('--noise', '--background', '--psf', '--catpsf', '--region')):
        return {'fn': 'none', 'rc': 1}          # "check that the aux input files exist"
    stage = _last(o, '--priorized', 0)
    common = {'hdu_index': _last(o, '--hdu', 0), 'rms': _last(o, '--forcerms'), 'bkg': _last(o, '--forcebkg'),
              'cores': _last(o, '--cores'), 'rmsin': _last(o, '--noise'), 'bkgin': _last(o, '--background'),
              'imgpsf': _last(o, '--psf'), 'docov': '--nocov' not in o, 'cube_index': _last(o, '--slice', 0),
              'outerclip': _last(o, '--floodclip', 4.0)}
    lib = {'fn': 'aegean', 'rc': 0, 'image': image, 'beam': _last(o, '--beam'), 'outfile': _last(o, '--out'),
           'tables': _last(o, '--table'), 'prefix': _last(o, '--colprefix'), 'find': None, 'prior': None, 'blank_name': None}
    if not stage or '--find' in o:
        lib['find'] = dict(common, max_summits=_last(o, '--maxsummits'), innerclip=_last(o, '--seedclip', 5.0),
                           doislandflux='--island' in o, nopositive=nopos, nonegative=not neg, mask=_last(o, '--region'),
                           blank='--blankout' in o)
        if '--blankout' in o:
            lib['blank_name'] = os.path.splitext(image)[0] + '_blank.fits'
    if stage:
        if _last(o, '--input') is None or not exists(_last(o, '--input')):
            return {'fn': 'none', 'rc': 1}
        lib['prior'] = dict(common, catalogue=_last(o, '--input'), catpsf=_last(o, '--catpsf'), stage=stage, ratio=_last(o, '--ratio'),
                            doregroup='--noregroup' not in o, regroup_eps=_last(o, '--regroup-eps'))
    return lib


PROMISED = {'BANE': promised_bane, 'MIMAS': promised_mimas, 'AeRes': promised_aeres, 'aegean': promised_aegean}


# ------------------------------------------------------------------------------------------ the library side (fresh process)
def _lib_main(arg):
    import logging
    import warnings
    warnings.simplefilter('ignore')
    logging.disable(logging.CRITICAL)
    lib = json.loads(arg)
    out = {'raised': None}
    try:
        fn = lib['fn']
        if fn == 'bane':
            from AegeanTools import BANE
            kw = dict(lib['kw'])
            for k in ('step_size', 'box_size'):
                kw[k] = None if kw[k] is None else list(kw[k])
            res = BANE.filter_image(**kw)
            out['returned_none'] = res is None
        elif fn == 'mask_file':
            from AegeanTools import MIMAS
            MIMAS.mask_file(**lib['kw'])
        elif fn == 'mask_catalog':
            from AegeanTools import MIMAS
            MIMAS.mask_catalog(**lib['kw'])
        elif fn == 'region':
            from AegeanTools.regions import Region
            kw = lib['kw']
            reg = Region(maxdepth=kw['maxdepth'])
            for ra, dec, rad in kw['add']:
                reg.add_circles(np.radians(ra), np.radians(dec), np.radians(rad))
            for ra, dec, rad in kw['remove']:
                r2 = Region(maxdepth=kw['maxdepth'])
                r2.add_circles(np.radians(ra), np.radians(dec), np.radians(rad))
                reg.without(r2)
            reg.save(kw['outfile'])
        elif fn == 'make_residual':
            from AegeanTools import AeRes
            kw = dict(lib['kw'])
            AeRes.make_residual(kw.pop('fitsfile'), kw.pop('catalog'), kw.pop('rfile'), **kw)
        elif fn == 'aegean':
            from AegeanTools.catalogs import save_catalog
            from AegeanTools.source_finder import SourceFinder
            from AegeanTools.wcs_helpers import Beam
            quiet = logging.getLogger('cli_cases_quiet')
            quiet.addHandler(logging.NullHandler())
            quiet.propagate = False
            np.seterr(invalid='ignore', divide='ignore')
            sf = SourceFinder(log=quiet)
            beam = Beam(*lib['beam']) if lib['beam'] else None
            fh = open(lib['outfile'], 'w') if lib['outfile'] else None
            found = []
            if lib['find'] is not None:
                found += list(sf.find_sources_in_image(lib['image'], outfile=fh, beam=beam, **lib['find']))
                if lib['blank_name']:
                    sf.save_image(lib['blank_name'])
            if lib['prior'] is not None:
                found += list(sf.priorized_fit_islands(lib['image'], outfile=fh, beam=beam, **lib['prior']))
            if fh:
                fh.close()
            out['nsources'] = len(found)
            if found and lib['tables']:
                for t in lib['tables'].split(','):
                    save_catalog(t, found, prefix=lib['prefix'])
        elif fn != 'none':
            raise ValueError(f'unknown library call {fn}')
    except BaseException as e:  # noqa
        import traceback
        out['raised'] = f'{type(e).__name__}: {str(e)[-300:]} | {traceback.format_exc()[-700:]}'
    print('RESULT ' + json.dumps(out), flush=True)


def _run(cmd, cwd, timeout):
    t0 = time.time()
    try:
        r = subprocess.run(['timeout', '-k', '5', str(timeout)] + cmd, cwd=cwd, env=_env(), stdout=subprocess.PIPE, stderr=subprocess.PIPE,
                           text=True, timeout=timeout + 30)
        return {'rc': r.returncode, 'out': r.stdout[-3000:], 'err': r.stderr[-3000:], 'wall': round(time.time() - t0, 2)}
    except subprocess.TimeoutExpired:
        return {'rc': 124, 'out': '', 'err': 'timed out', 'wall': round(time.time() - t0, 2)}


def run_cli(tool, args, cwd):
    return _run([vlib.PY, '-c', SNIPPET.format(m=MODULE[tool])] + list(args), cwd, CLI_TIMEOUT)


def run_lib(lib, cwd):
    if lib['fn'] == 'none':
        return {'rc': 0, 'result': {'raised': None}, 'wall': 0.0}
    r = _run([vlib.PY, os.path.abspath(__file__), '--lib', json.dumps(lib)], cwd, CLI_TIMEOUT)
    line = [ln for ln in r['out'].splitlines() if ln.startswith('RESULT ')]
    r['result'] = json.loads(line[-1][7:]) if line else None
    return r


# ------------------------------------------------------------------------------------------ canonical contents of a file
def _cards(h):
    return [(c.keyword, repr(c.value), c.comment) for c in h.cards]


def _is_uuid_col(name):
    return name.lower() == 'uuid' or name.lower().endswith('_uuid')


def _table_items(t):
    items = [('columns', [n for n in t.colnames if not _is_uuid_col(n)])]
    for n in t.colnames:
        if _is_uuid_col(n):
            continue
        col = t[n]
        mask = getattr(col, 'mask', None)
        arr = np.asarray(col.filled(0) if hasattr(col, 'filled') and col.dtype.kind in 'fiub' else col)
        if arr.dtype.kind in 'SUO':
            arr = np.array([UUID.sub('UUID', str(v)) for v in arr.tolist()], dtype=object)
        items.append((f'column {n} dtype', str(col.dtype)))
        items.append((f'column {n}', arr))
        if mask is not None and np.any(mask):
            items.append((f'column {n} mask', np.asarray(mask)))
    return items


def canon_file(path):
    """-> list of (label, value); value = numpy array (compared bit for bit) or plain python data"""
    import warnings
    ext = os.path.splitext(path)[1][1:].lower()
    with warnings.catch_warnings():
        warnings.simplefilter('ignore')
        if ext == 'fits':
            from astropy.io import fits
            from astropy.table import Table
            items = []
            with fits.open(path, memmap=False) as hl:
                items.append(('number of HDUs', len(hl)))
                for k, h in enumerate(hl):
                    if isinstance(h, (fits.BinTableHDU, fits.TableHDU)):
                        items += [(f'hdu {k} {a}', b) for a, b in _table_items(Table.read(path, hdu=k))]
                    else:
                        # raw = stored values; BSCALE/BZERO stay in the header cards
                        items.append((f'hdu {k} header', _cards(h.header)))
                        items.append((f'hdu {k} data', None if h.data is None else np.array(h.data)))
            return items
        if ext in ('vot', 'xml', 'vo'):
            from astropy.table import Table
            return _table_items(Table.read(path, format='votable'))
        if ext == 'mim':
            from AegeanTools.regions import Region
            reg = Region.load(path)
            return [('maxdepth', int(reg.maxdepth)),
                    ('pixels', {int(d): sorted(int(p) for p in ps) for d, ps in reg.pixeldict.items() if ps})]
        with open(path, 'rb') as fh:
            raw = fh.read()
        try:
            text = raw.decode()
        except UnicodeDecodeError:
            return [('bytes', raw)]
        return [('text', [UUID.sub('UUID', ln) for ln in text.splitlines()])]


def _num_tokens(line):
    out = []
    for tok in re.split(r'[,\s|]+', line.strip()):
        try:
            out.append(float(tok))
        except ValueError:
            out.append(tok)
    return out


def _same(a, b, exact):
    if isinstance(a, np.ndarray) or isinstance(b, np.ndarray):
        if not (isinstance(a, np.ndarray) and isinstance(b, np.ndarray)) or a.shape != b.shape or a.dtype != b.dtype:
            return False
        if a.dtype.kind == 'O':
            return a.tolist() == b.tolist()
        if np.ascontiguousarray(a).tobytes() == np.ascontiguousarray(b).tobytes():
            return True
        if exact or a.dtype.kind not in 'fc':
            return False
        return bool(np.array_equal(np.isnan(a), np.isnan(b)) and np.allclose(a, b, rtol=1e-12, atol=0, equal_nan=True))
    if a == b:
        return True
    if exact:
        return False
    if isinstance(a, list) and isinstance(b, list) and len(a) == len(b) and all(isinstance(x, str) for x in a + b):
        for x, y in zip(a, b):
            tx, ty = _num_tokens(x), _num_tokens(y)
            if len(tx) != len(ty):
                return False
            for u, v in zip(tx, ty):
                if isinstance(u, float) and isinstance(v, float):
                    if not (u == v or (math.isnan(u) and math.isnan(v)) or abs(u - v) <= 1e-12 * max(abs(u), abs(v))):
                        return False
                elif u != v:
                    return False
        return True
    return False


def _describe(label, a, b):
    if isinstance(a, np.ndarray) and isinstance(b, np.ndarray) and a.shape == b.shape and a.dtype == b.dtype and a.dtype.kind in 'fiub':
        fa, fb = a.astype(float).ravel(), b.astype(float).ravel()
        diff = ~((fa == fb) | (np.isnan(fa) & np.isnan(fb)))
        k = int(np.argmax(diff)) if diff.any() else 0
        idx = tuple(int(i) for i in np.unravel_index(k, a.shape))
        return (f'{label}: {int(diff.sum())} of {a.size} values differ, first at {idx}: command line {float(fa[k])!r}, library {float(fb[k])!r}'
                f' ({int(np.isnan(fa).sum())} vs {int(np.isnan(fb).sum())} NaN)')
    if isinstance(a, list) and isinstance(b, list):
        if len(a) != len(b):
            only_c = [x for x in a if x not in b][:1]
            only_l = [x for x in b if x not in a][:1]
            return (f'{label}: {len(a)} entries from the command line, {len(b)} from the library call; first entry only in the command-line '
                    f'output: {str(only_c)[:260]}; first entry only in the library output: {str(only_l)[:260]}')
        for k, (x, y) in enumerate(zip(a, b)):
            if x != y:
                return f'{label}: entry {k} differs: command line {str(x)[:300]!r}, library {str(y)[:300]!r}'
    sa = a.tolist() if isinstance(a, np.ndarray) else a
    sb = b.tolist() if isinstance(b, np.ndarray) else b
    return f'{label}: command line {str(sa)[:300]}, library {str(sb)[:300]}'


def _files(d):
    return sorted(os.path.relpath(os.path.join(r, f), d) for r, _, fs in os.walk(d) for f in fs)


def compare_dirs(dc, dl, exact=True):
    """-> list of differences (strings) between the files of the command-line directory and of the library directory"""
    fc, fl = _files(dc), _files(dl)
    diffs = []
    if fc != fl:
        diffs.append(f'files written: command line only {sorted(set(fc) - set(fl))}, library call only {sorted(set(fl) - set(fc))}')
    for f in sorted(set(fc) & set(fl)):
        try:
            a, b = canon_file(os.path.join(dc, f)), canon_file(os.path.join(dl, f))
        except Exception as e:  # noqa
            diffs.append(f'{f}: cannot be read back ({type(e).__name__}: {e})')
            continue
        if [x[0] for x in a] != [x[0] for x in b]:
            diffs.append(f'{f}: structure differs: {[x[0] for x in a][:12]} vs {[x[0] for x in b][:12]}')
            continue
        for (label, x), (_, y) in zip(a, b):
            if not _same(x, y, exact):
                diffs.append(_describe(f'{f} {label}', x, y))
                break
    return diffs


# ------------------------------------------------------------------------------------------ one case
def _case_dir(ctx, case):
    return os.path.join(ctx.work, 'cli', case['tool'], re.sub(r'\W+', '_', case['name']))


def prepare(ctx, case):
    """inputs are built once (<case>/pristine) and copied to the directory of each path"""
    base = _case_dir(ctx, case)
    shutil.rmtree(base, ignore_errors=True)
    dp, dc, dl = (os.path.join(base, k) for k in ('pristine', 'cli', 'lib'))
    build_inputs(case['setup'], dp)
    shutil.copytree(dp, dc)
    shutil.copytree(dp, dl)
    exists = lambda f: os.path.exists(os.path.join(dp, f))  # noqa: E731
    case['lib'] = PROMISED[case['tool']](case['args'], exists) if case['tool'] in ('BANE', 'aegean') else PROMISED[case['tool']](case['args'])
    return dc, dl


def public(case, what):
    return {'tool': case['tool'], 'args': list(case['args']), 'what': what, 'name': case['name'],
            'command': command_line(case['tool'], case['args']) + '   (cwd: a directory holding the files of `setup`)',
            'library_call': case.get('lib'), 'setup': case['setup'], 'checks': case.get('checks', []),
            'both_fail_ok': bool(case.get('both_fail_ok'))}


def judge(ctx, case, dc, dl, rc, rl):
    """-> problem text or None"""
    lib = case['lib']
    tail = (rc['err'] or rc['out']).strip().splitlines()[-3:]
    if rc['rc'] == 124:
        return f'the command line did not finish within {CLI_TIMEOUT} s'
    if rl['rc'] == 124:
        return f'the library call did not finish within {CLI_TIMEOUT} s (not a command-line matter; reported as a failure of the case)'
    if rl.get('result') is None:
        return f'the library call ended without a result (exit {rl["rc"]}): {rl.get("err", "")[-400:]}'
    if rl['result']['raised']:
        if rc['rc'] == 0:
            return f'the library call raised {rl["result"]["raised"][:500]} while the command line exited 0'
        if case.get('both_fail_ok'):
            ctx.notes.append(f"command line case {case['tool']} {case['name']}: the command line (exit {rc['rc']}) and the library call fail "
                             f"alike: {rl['result']['raised'][:200]}")
            return None
        return f'both paths failed: command line exit {rc["rc"]} {tail}, library {rl["result"]["raised"][:400]}'
    if rc['rc'] != lib['rc']:
        return f'exit code {rc["rc"]} (promised {lib["rc"]}); last output: {tail}'
    diffs = compare_dirs(dc, dl, exact=True)
    if diffs:
        # exactness is claimed only where the library call reproduces itself in another fresh process
        d2 = dl + '2'
        shutil.rmtree(d2, ignore_errors=True)
        shutil.copytree(os.path.join(os.path.dirname(dl), 'pristine'), d2)
        r2 = run_lib(lib, d2)
        if r2.get('result') and not r2['result']['raised'] and compare_dirs(dl, d2, exact=True):
            ctx.notes.append(f"command line case {case['tool']} {case['name']}: the library call does not reproduce itself bit for bit; "
                             'compared to 1e-12 relative')
            diffs = compare_dirs(dc, dl, exact=False)
    msgs = diffs[:3]
    for chk in case.get('checks', []):
        msg = CHECKS[chk[0]](dc, *chk[1:])
        if msg:
            msgs.append('independent check of the command-line output: ' + msg)
    return '; '.join(msgs) if msgs else None


# ---- independent checks on the command-line output itself (not via the library call)
def _peaks(dc, table):
    from astropy.table import Table
    p = os.path.join(dc, table)
    if not os.path.exists(p):
        return None
    return [float(v) for v in Table.read(p)['peak_flux']]


def _chk_signs(dc, table, want):
    """want: '+' only positive rows (at least one), '-' only negative rows, '+-' both present, 'none' no table"""
    pk = _peaks(dc, table)
    if want == 'none':
        return None if pk is None else f'{table} was written ({len(pk)} rows) although nothing was to be reported'
    if pk is None:
        return f'{table} was not written'
    npos, nneg = sum(1 for v in pk if v > 0), sum(1 for v in pk if v < 0)
    ok = {'+': npos > 0 and nneg == 0, '-': nneg > 0 and npos == 0, '+-': npos > 0 and nneg > 0}[want]
    return None if ok else f'{table}: {npos} rows with positive and {nneg} with negative peak flux; the options promise "{want}"'


def _chk_exists(dc, *names):
    miss = [n for n in names if not os.path.exists(os.path.join(dc, n))]
    return f'promised output file(s) missing: {miss}' if miss else None


def _chk_absent(dc, *names):
    have = [n for n in names if os.path.exists(os.path.join(dc, n))]
    return f'file(s) written that should not exist: {have}' if have else None


def _chk_rows(dc, table, lo, hi):
    pk = _peaks(dc, table)
    n = 0 if pk is None else len(pk)
    return None if lo <= n <= hi else f'{table}: {n} rows, expected between {lo} and {hi} for the injected sources'


CHECKS = {'signs': _chk_signs, 'exists': _chk_exists, 'absent': _chk_absent, 'rows': _chk_rows}


def run_cases(ctx, cases):
    """-> (problems, number of command-line runs)"""
    if not cases:
        return [], 0
    prepared = [(c,) + prepare(ctx, c) for c in cases]
    with ThreadPoolExecutor(max_workers=PAR) as ex:
        fc = [ex.submit(run_cli, c['tool'], c['args'], dc) for c, dc, dl in prepared]
        fl = [ex.submit(run_lib, c['lib'], dl) for c, dc, dl in prepared]
        rcs, rls = [f.result() for f in fc], [f.result() for f in fl]
    probs = []
    for (c, dc, dl), rc, rl in zip(prepared, rcs, rls):
        msg = judge(ctx, c, dc, dl, rc, rl)
        if msg:
            # a failure counts only if it repeats (fork / shared memory / a loaded machine can fail a run transiently)
            dc, dl = prepare(ctx, c)
            rc, rl = run_cli(c['tool'], c['args'], dc), run_lib(c['lib'], dl)
            msg2 = judge(ctx, c, dc, dl, rc, rl)
            if msg2:
                probs.append(public(c, msg2))
            else:
                ctx.notes.append(f"command line case {c['tool']} {c['name']}: a difference was not reproduced on repetition (transient): {msg[:300]}")
        ctx.case(key=('cli', c['tool'], c['name'], tuple(c['args'])), bucket=f"command line {c['tool']}")
        ctx.evaluations -= 1          # the caller adds the number of runs
        c['_dirs'] = (dc, dl)
        c['_wall'] = (rc['wall'], rl['wall'])
    return probs, len(cases)


def _cleanup(ctx, cases):
    for c in cases:
        shutil.rmtree(_case_dir(ctx, c), ignore_errors=True)
        c.pop('_dirs', None)
        c.pop('_wall', None)


def _note(ctx, text):
    if text not in DOC_NOTES:
        DOC_NOTES.append(text)
    line = 'documentation discrepancy (command line help vs behaviour; command line = library call): ' + text
    if line not in ctx.notes:
        ctx.notes.append(line)


def _thorough(ctx, thorough):
    return (ctx.tier == 'thorough') if thorough is None else bool(thorough)


# ------------------------------------------------------------------------------------------ BANE
def bane_cases(ctx, thorough=False):
    img = {'kind': 'noise_image', 'name': 'img.fits', 'shape': [40, 56], 'seed': 11}
    cube = {'kind': 'noise_image', 'name': 'cube.fits', 'shape': [36, 52], 'seed': 12, 'planes': 2, 'plane': 1, 'nan': False,
            'beam': [40.0 / 3600, 22.5 / 3600, 0.0]}                  # default grid = ceil(4 * sqrt(40 * 22.5) / 10) = 12
    cases = [
        {'name': 'grid4x8', 'setup': [img], 'args': ['img.fits', '--grid', '4', '8', '--box', '12', '24', '--cores', '1'],
         'checks': [['exists', 'img_bkg.fits', 'img_rms.fits']]},
        {'name': 'grid8x4-stripes-nomask-out', 'setup': [img, {'kind': 'mkdir', 'name': 'maps'}],
         'args': ['img.fits', '--grid', '8', '4', '--box', '24', '12', '--cores', '2', '--stripes', '3', '--nomask', '--out', 'maps/o'],
         'checks': [['exists', 'maps']]},
        {'name': 'compress', 'setup': [img], 'args': ['img.fits', '--compress', '--grid', '4', '8', '--box', '20', '16', '--cores', '1']},
        {'name': 'slice1-default-grid', 'setup': [cube], 'args': ['cube.fits', '--slice', '1', '--cores', '2', '--stripes', '2']},
        {'name': 'noclobber-existing', 'setup': [img, {'kind': 'copy', 'src': 'img.fits', 'name': 'img_bkg.fits'},
                                                {'kind': 'copy', 'src': 'img.fits', 'name': 'img_rms.fits'}],
         'args': ['img.fits', '--noclobber', '--grid', '4', '8', '--cores', '1']},
        {'name': 'noclobber-one-missing', 'setup': [img, {'kind': 'copy', 'src': 'img.fits', 'name': 'img_bkg.fits'}],
         'args': ['img.fits', '--noclobber', '--grid', '8', '8', '--box', '16', '24', '--cores', '2']},
    ]
    if thorough:
        rng = ctx.rng
        cases.append({'name': 'defaults', 'setup': [cube], 'args': ['cube.fits']})
        cases.append({'name': 'bscale', 'setup': [dict(img, bscale=0.5)], 'args': ['img.fits', '--grid', '5', '7', '--box', '15', '21', '--cores', '1']})
        for k in range(8):
            g = [rng.choice([2, 3, 4, 5, 8]), rng.choice([2, 3, 4, 6, 8, 16])]
            b = [g[0] * rng.choice([2, 3, 5]), g[1] * rng.choice([2, 3, 4])]
            cores = rng.choice([1, 2, 3])
            a = ['img.fits', '--grid', str(g[0]), str(g[1]), '--box', str(max(4, b[0])), str(max(4, b[1])), '--cores', str(cores)]
            if rng.random() < 0.5:
                a += ['--stripes', str(rng.randint(1, cores))]
            if rng.random() < 0.4:
                a += ['--nomask']
            if rng.random() < 0.3:
                a += ['--compress']
            if rng.random() < 0.3:
                a += ['--out', f'o{k}']
            cases.append({'name': f'random{k}', 'setup': [dict(img, shape=[rng.randint(30, 48), rng.randint(50, 64)], seed=100 + k)], 'args': a})
    for c in cases:
        c['tool'] = 'BANE'
    return cases


def _kinks(arr, axis):
    """indices along `axis` where a piecewise (bi)linear map changes slope"""
    a = np.asarray(arr, dtype=float)
    a = a if axis == 0 else a.T
    d2 = np.abs(a[2:] - 2 * a[1:-1] + a[:-2])
    scale = np.nanmax(np.abs(a)) or 1.0
    with np.errstate(invalid='ignore'):
        hit = np.nanmax(np.where(np.isfinite(d2), d2, 0.0), axis=1) > 1e-4 * scale
    return [int(i) + 1 for i in np.nonzero(hit)[0]]


def bane_doc_probe(ctx, cases):
    """which axis does the FIRST value of --grid step along?  (help: "The [x,y] size of the grid"; docstring: "x,y step size")"""
    from astropy.io import fits
    c = next((c for c in cases if c['name'] == 'grid4x8' and c.get('_dirs')), None)
    if c is None:
        return
    p = os.path.join(c['_dirs'][0], 'img_bkg.fits')
    if not os.path.exists(p):
        return
    bkg = fits.getdata(p)
    kr, kc = _kinks(bkg, 0), _kinks(bkg, 1)
    if not kr or not kc:
        return
    rows_first = all(k % 4 == 0 for k in kr) and all(k % 8 == 0 for k in kc) and any(k % 8 for k in kr)
    cols_first = all(k % 8 == 0 for k in kr) and all(k % 4 == 0 for k in kc) and any(k % 8 for k in kc)
    if rows_first:
        _note(ctx, 'BANE --grid A B (help: "The [x,y] size of the grid to use"; filter_image docstring: "Tuple of the x,y step size in '
              'pixels") steps A pixels along y (rows, NAXIS2) and B pixels along x (columns, NAXIS1): `BANE img.fits --grid 4 8 --box 12 24 '
              f'--cores 1` on a 40 x 56 (rows x columns) image gives a background map whose slope changes at rows {kr[:5]}.. (multiples of 4) '
              f'and at columns {kc[:5]}.. (multiples of 8); --box uses the same [rows, columns] order (sigma_filter: box_size[0] for rows). '
              'The command line and the library agree with each other; both disagree with the documented [x,y].')
    elif not cols_first:
        ctx.notes.append(f'BANE --grid axis probe inconclusive: slope changes at rows {kr[:6]} and columns {kc[:6]}')


def bane_box_default_probe(ctx):
    """help of --box: "Default = 5*grid"; the code uses 6*grid: library calls with the explicit boxes tell which one the default is"""
    setup = [{'kind': 'noise_image', 'name': 'img.fits', 'shape': [40, 56], 'seed': 11}]
    dirs = {}
    for tag, box in (('default', None), ('five', [20, 20]), ('six', [24, 24])):
        d = os.path.join(ctx.work, 'cli', 'BANE', 'boxprobe', tag)
        shutil.rmtree(d, ignore_errors=True)
        build_inputs(setup, d)
        dirs[tag] = d
    libs = {tag: {'fn': 'bane', 'rc': 0, 'kw': {'im_name': 'img.fits', 'out_base': 'img', 'step_size': [4, 4], 'box_size': box, 'cores': 1,
                                                 'nslice': None, 'cube_index': 0, 'mask': True, 'compressed': False}}
            for tag, box in (('default', None), ('five', [20, 20]), ('six', [24, 24]))}
    with ThreadPoolExecutor(max_workers=3) as ex:
        res = dict(zip(libs, ex.map(lambda t: run_lib(libs[t], dirs[t]), libs)))
    if all(r.get('result') and not r['result']['raised'] for r in res.values()):
        five, six = not compare_dirs(dirs['default'], dirs['five']), not compare_dirs(dirs['default'], dirs['six'])
        if six and not five:
            _note(ctx, 'BANE --box help says "Default = 5*grid"; the default box of filter_image (and of the command line, which passes None) '
                  'is 6*grid: with --grid 4 4 and no --box the maps equal those of box 24 24, not 20 20 (Aegean\'s internal call uses 5*grid).')
    shutil.rmtree(os.path.join(ctx.work, 'cli', 'BANE', 'boxprobe'), ignore_errors=True)


def bane_cli(ctx, thorough=None):
    th = _thorough(ctx, thorough)
    cases = bane_cases(ctx, th)
    probs, n = run_cases(ctx, cases)
    try:
        bane_doc_probe(ctx, cases)
        if th:
            bane_box_default_probe(ctx)
    except Exception as e:  # noqa
        ctx.notes.append(f'BANE documentation probe crashed: {type(e).__name__}: {e}')
    _cleanup(ctx, cases)
    return probs, n


# ------------------------------------------------------------------------------------------ MIMAS
MIMG = {'shape': [24, 31], 'cdelt': 0.05, 'crval': [210.5, -26.7], 'proj': 'TAN'}


def mimas_cases(ctx, thorough=False):
    img = dict(MIMG, kind='noise_image', name='in.fits', seed=21, nan=False, dtype='float32')
    cube = dict(MIMG, kind='noise_image', name='cube.fits', seed=22, nan=False, planes=3, plane=1, dtype='float64')
    reg = dict(MIMG, kind='region', name='reg.mim', depth=9, circles_pix=[[9.0, 12.0, 0.33], [18.0, 25.0, 0.15]])
    tab = dict(MIMG, kind='position_table', name='in.csv', seed=23, n=30, racol='ra', deccol='dec')
    tabc = dict(MIMG, kind='position_table', name='in.fits', seed=24, n=30, racol='RAJ2000', deccol='DEJ2000', decoy=True)
    tabv = dict(MIMG, kind='position_table', name='in.vot', seed=25, n=25, racol='alpha', deccol='delta', decoy=True)
    ra0, dec0 = 210.5, -26.7
    cases = [
        {'name': 'maskimage', 'setup': [img, reg], 'args': ['--maskimage', 'reg.mim', 'in.fits', 'out.fits']},
        {'name': 'maskimage-negate', 'setup': [img, reg], 'args': ['--maskimage', 'reg.mim', 'in.fits', 'out.fits', '--negate']},
        {'name': 'maskimage-cube-negate', 'setup': [cube, reg], 'args': ['--negate', '--maskimage', 'reg.mim', 'cube.fits', 'masked.fits']},
        {'name': 'maskcat-csv', 'setup': [tab, reg], 'args': ['--maskcat', 'reg.mim', 'in.csv', 'out.csv']},
        {'name': 'maskcat-fits-colnames-negate', 'setup': [tabc, reg],
         'args': ['--maskcat', 'reg.mim', 'in.fits', 'out.fits', '--colnames', 'RAJ2000', 'DEJ2000', '--negate']},
        {'name': 'maskcat-vot-colnames', 'setup': [tabv, reg], 'args': ['--maskcat', 'reg.mim', 'in.vot', 'out.csv', '--colnames', 'alpha', 'delta']},
        {'name': 'region-circles', 'setup': [],
         'args': ['-o', 'made.mim', '-depth', '7', '+c', str(ra0), str(dec0), '3.5', '-c', str(ra0 + 1.0), str(dec0 + 0.5), '1.25']},
        {'name': 'region-default-depth', 'setup': [], 'args': ['+c', str(ra0), str(dec0), '1.5', '-o', 'made.mim']},
        {'name': 'fitsmask-not-implemented', 'setup': [img, dict(img, name='mask.fits', seed=29)],
         'args': ['--fitsmask', 'mask.fits', 'in.fits', 'out.fits'], 'checks': [['absent', 'out.fits']]},
    ]
    if thorough:
        rng = ctx.rng
        for k in range(8):
            shape = [rng.randint(8, 30), rng.randint(8, 30)]
            base = dict(MIMG, shape=shape, proj=rng.choice(['SIN', 'TAN', 'ZEA']), crval=[rng.choice([0.01, 150.0, 359.9]), rng.choice([-60.0, 10.0, 75.0])])
            rg = dict(base, kind='region', name='r.mim', depth=rng.choice([8, 9, 10]),
                      circles_pix=[[rng.uniform(0, shape[0]), rng.uniform(0, shape[1]), rng.uniform(0.1, 0.5)]])
            neg = ['--negate'] if rng.random() < 0.5 else []
            if k % 2:
                names = rng.choice([['ra', 'dec'], ['RAJ2000', 'DEJ2000'], ['dec', 'ra']])
                ext = rng.choice(['csv', 'fits', 'vot'])
                tb = dict(base, kind='position_table', name='c.' + ext, seed=300 + k, n=rng.randint(1, 40), racol=names[0], deccol=names[1],
                          decoy=names[0] not in ('ra', 'dec'))
                a = ['--maskcat', 'r.mim', 'c.' + ext, 'o.' + ('csv' if ext == 'vot' else ext)] + neg + ([] if names == ['ra', 'dec'] else ['--colnames'] + names)
                cases.append({'name': f'random{k}', 'setup': [tb, rg], 'args': a})
            else:
                im = dict(base, kind='noise_image', name='i.fits', seed=300 + k, nan=rng.random() < 0.5,
                          dtype=rng.choice(['float32', 'float64']), **({'planes': 2, 'plane': 0} if rng.random() < 0.4 else {}))
                cases.append({'name': f'random{k}', 'setup': [im, rg], 'args': ['--maskimage', 'r.mim', 'i.fits', 'o.fits'] + neg})
    for c in cases:
        c['tool'] = 'MIMAS'
    return cases


def mimas_mask_cli(ctx, thorough=None):
    cases = mimas_cases(ctx, _thorough(ctx, thorough))
    probs, n = run_cases(ctx, cases)
    c = next((c for c in cases if c['name'] == 'fitsmask-not-implemented'), None)
    if c is not None and not any(p['name'] == c['name'] for p in probs):
        _note(ctx, 'MIMAS --fitsmask mask.fits file.fits masked_file.fits is listed in --help ("Use a fits file as a mask for another fits '
              'file") but the command answers "The --fitsmask option is not yet implemented.", exits 1 and writes nothing; MIMAS.py has no '
              'function for it. Images are masked with --maskimage region.mim file.fits masked.fits (MIMAS.mask_file), which is what the '
              'cases exercise.')
    _cleanup(ctx, cases)
    return probs, n


# ------------------------------------------------------------------------------------------ AeRes
AIMG = {'shape': [40, 56]}
ASRC = [[1.0, 12.3, 15.6, 45.0, 32.0, 25.0, 0.004], [0.6, 28.8, 40.1, 60.0, 35.0, -50.0, 0.01],
        [-0.8, 20.2, 30.4, 38.0, 30.0, 80.0, 0.006], [0.5, 39.2, 54.8, 50.0, 40.0, 0.0, 0.02]]       # last one: centre near the corner
ANAMES = [dict(zip(CANON, CANON)),
          dict(zip(CANON, ['RAJ2000', 'DEJ2000', 'Sp', 'maj', 'min', 'ang'])),
          dict(zip(CANON, ['ra', 'dec', 'peak_flux', 'b', 'a', 'pa']))]             # column b holds the major axis


def _aeres_names_args(names):
    flag = {'ra': '--racol', 'dec': '--deccol', 'peak_flux': '--peakcol', 'a': '--acol', 'b': '--bcol', 'pa': '--pacol'}
    out = []
    for c in CANON:
        if names[c] != c:
            out += [flag[c], names[c]]
    return out


def aeres_cases(ctx, thorough=False):
    img = dict(AIMG, kind='noise_image', name='img.fits', seed=31, nan=False, sigma=0.05, mean=0.0)

    def cat(ext, names, extra=None):
        return dict(AIMG, kind='catalogue', name='cat.' + ext, sources=ASRC, names=names, extra=extra)
    # decoy columns with the default names next to the custom ones: a dropped --racol ... is visible
    decoy = {'ra': [10.0] * 4, 'dec': [5.0] * 4, 'peak_flux': [9.0] * 4, 'a': [100.0] * 4, 'b': [90.0] * 4, 'pa': [45.0] * 4}
    cases = [
        {'name': 'subtract-model', 'setup': [img, cat('csv', ANAMES[0])], 'args': ['-c', 'cat.csv', '-f', 'img.fits', '-r', 'res.fits', '-m', 'model.fits'],
         'checks': [['exists', 'res.fits', 'model.fits']]},
        {'name': 'add-custom-columns', 'setup': [img, cat('fits', ANAMES[1], decoy)],
         'args': ['--catalog', 'cat.fits', '--fitsimage', 'img.fits', '--residual', 'r.fits', '--model', 'm.fits', '--add'] + _aeres_names_args(ANAMES[1])},
        {'name': 'mask-sigma7', 'setup': [img, cat('vot', ANAMES[0])],
         'args': ['-c', 'cat.vot', '-f', 'img.fits', '-r', 'res.fits', '-m', 'model.fits', '--mask', '--sigma', '7']},
        {'name': 'mask-frac-sigma', 'setup': [img, cat('csv', ANAMES[2])],
         'args': ['-c', 'cat.csv', '-f', 'img.fits', '-r', 'res.fits', '--mask', '--frac', '0.3', '--sigma', '2'] + _aeres_names_args(ANAMES[2]),
         'checks': [['absent', 'model.fits']]},
        {'name': 'mask-default-sigma', 'setup': [img, cat('csv', ANAMES[0])], 'args': ['-c', 'cat.csv', '-f', 'img.fits', '-r', 'res.fits', '--mask']},
    ]
    if thorough:
        rng = ctx.rng
        cases.append({'name': 'missing-residual-name', 'setup': [img, cat('csv', ANAMES[0])], 'args': ['-c', 'cat.csv', '-f', 'img.fits']})
        for k in range(8):
            names = ANAMES[k % 3]
            ext = ['csv', 'fits', 'vot', 'tab'][k % 4]
            a = ['-c', 'cat.' + ext, '-f', 'img.fits', '-r', f'res{k}.fits'] + (['-m', f'mod{k}.fits'] if rng.random() < 0.6 else [])
            mode = rng.choice(['sub', 'add', 'mask-sigma', 'mask-frac', 'mask-both'])
            if mode == 'add':
                a += ['--add']
            if mode.startswith('mask'):
                a += ['--mask']
                if mode in ('mask-sigma', 'mask-both'):
                    a += ['--sigma', str(rng.choice([1.5, 3, 10, 25]))]
                if mode in ('mask-frac', 'mask-both'):
                    a += ['--frac', str(rng.choice([0.1, 0.5, 0.9]))]
            a += _aeres_names_args(names)
            shape = [rng.randint(30, 50), rng.randint(40, 64)]
            srcs = [[rng.choice([1.0, -0.7, 0.3]), rng.uniform(0, shape[0]), rng.uniform(0, shape[1]), rng.uniform(45, 70), rng.uniform(30, 44),
                     rng.uniform(-89, 89), rng.choice([0.004, 0.02])] for _ in range(rng.randint(1, 5))]
            cases.append({'name': f'random{k}', 'args': a,
                          'setup': [dict(img, shape=shape, seed=400 + k),
                                    dict(kind='catalogue', name='cat.' + ext, shape=shape, sources=srcs, names=names,
                                         extra={kk: vv[:1] * len(srcs) for kk, vv in decoy.items()} if names is ANAMES[1] else None)]})
    for c in cases:
        c['tool'] = 'AeRes'
    return cases


def aeres_cli(ctx, thorough=None):
    cases = aeres_cases(ctx, _thorough(ctx, thorough))
    probs, n = run_cases(ctx, cases)
    _cleanup(ctx, cases)
    return probs, n


# ------------------------------------------------------------------------------------------ aegean
SKY = {'kind': 'sky_image', 'name': 'img.fits', 'seed': 41}
FORCED = ['--forcerms', str(RMS), '--forcebkg', str(BKG)]
# the input catalogue of the priorized runs: the injected sources (sizes in arcsec; 10 arcsec pixels), slightly off
PCAT_SRC = [[a * RMS, r + 0.2, c - 0.15, 2.3548 * sx * 10.0 * 1.05, 2.3548 * sy * 10.0, 90.0 - th, RMS] for a, r, c, sx, sy, th in SOURCES
            if abs(a) > 10] + [[0.3, 75.0, 30.0, 35.0, 30.0, 0.0, RMS]]           # the last one is outside the image


def _pcat(ext):
    return {'kind': 'catalogue', 'name': 'prior.' + ext, 'sources': PCAT_SRC, 'full': True}


def aegean_table_cases(ctx, thorough=False):
    """blind finding with --table (C01/C03) and priorized fitting with --input (C03/C05)"""
    cases = [
        {'name': 'blind-clips-csv', 'setup': [SKY], 'args': ['img.fits'] + FORCED + ['--seedclip', '6', '--floodclip', '3', '--cores', '1', '--table', 'out.csv'],
         'checks': [['exists', 'out_comp.csv'], ['signs', 'out_comp.csv', '+'], ['rows', 'out_comp.csv', 4, 4]]},
        {'name': 'blind-default-clips-island-maxsummits-beam', 'setup': [SKY],
         'args': ['img.fits', '--forcebkg', str(BKG), '--forcerms', str(RMS), '--maxsummits', '1', '--island', '--beam', '0.0095', '0.0075', '20',
                  '--cores', '2', '--table', 'cat.fits,cat.vot', '--negative'],
         'checks': [['exists', 'cat_comp.fits', 'cat_isle.fits', 'cat_comp.vot', 'cat_isle.vot'], ['signs', 'cat_comp.fits', '+-']]},
        {'name': 'blind-internal-bane-cores2', 'setup': [SKY], 'args': ['img.fits', '--cores', '2', '--table', 'o.csv']},
        {'name': 'priorized2-ratio1-noregroup', 'setup': [SKY, _pcat('csv')],
         'args': ['img.fits'] + FORCED + ['--priorized', '2', '--input', 'prior.csv', '--ratio', '1.0', '--noregroup', '--floodclip', '3',
                                          '--cores', '1', '--table', 'p.csv'],
         'checks': [['exists', 'p_comp.csv'], ['rows', 'p_comp.csv', 5, 6]]},
        {'name': 'priorized3-ratio-none-regroup-eps', 'setup': [SKY, _pcat('fits')],
         'args': ['img.fits', '--priorized', '3', '--input', 'prior.fits', '--regroup-eps', '0.5', '--cores', '1', '--table', 'p.fits,p.tab'] + FORCED,
         'checks': [['exists', 'p_comp.fits', 'p_comp.tab']]},
        {'name': 'priorized1-ratio1.25', 'setup': [SKY, _pcat('vot')],
         'args': ['img.fits', '--priorized', '1', '--ratio', '1.25', '--input', 'prior.vot', '--cores', '1', '--table', 'p.csv', '--nocov'] + FORCED},
    ]
    if thorough:
        rmsf = {'kind': 'map_image', 'name': 'noise.fits', 'what': 'rms'}
        bkgf = {'kind': 'map_image', 'name': 'back.fits', 'what': 'bkg'}
        psf = {'kind': 'psf_image', 'name': 'psf.fits'}
        cases += [
            {'name': 'blind-internal-bane-cores1', 'setup': [SKY], 'args': ['img.fits', '--cores', '1', '--table', 'o.csv', '--forcebkg', str(BKG)]},
            {'name': 'blind-noise-background-files', 'setup': [SKY, rmsf, bkgf],
             'args': ['img.fits', '--noise', 'noise.fits', '--background', 'back.fits', '--cores', '1', '--table', 'o.fits', '--negative']},
            {'name': 'blind-psf-nocov-prefix-out', 'setup': [SKY, psf],
             'args': ['img.fits', '--psf', 'psf.fits', '--nocov', '--colprefix', 'ag', '--out', 'list.txt', '--cores', '1', '--table', 'o.csv'] + FORCED},
            {'name': 'blind-slice1', 'setup': [dict(SKY, name='cube.fits', planes=2, plane=1)],
             'args': ['cube.fits', '--slice', '1', '--cores', '1', '--table', 'o.csv'] + FORCED},
            {'name': 'blind-hdu1', 'setup': [{'kind': 'mef', 'name': 'mef.fits', 'seed': 41, 'hdu': 1}],
             'args': ['mef.fits', '--hdu', '1', '--cores', '1', '--table', 'o.csv'] + FORCED},
            # find_sources_in_image(blank=True) raises IndexError with the pinned numpy (img[[idx, idy]] = nan): both paths fail alike
            {'name': 'blind-blankout', 'setup': [SKY], 'args': ['img.fits', '--blankout', '--cores', '1', '--table', 'o.csv'] + FORCED,
             'both_fail_ok': True},
            {'name': 'find-and-priorized', 'setup': [SKY, _pcat('csv')],
             'args': ['img.fits', '--find', '--priorized', '1', '--input', 'prior.csv', '--cores', '1', '--table', 'o.csv', '--ratio', '1'] + FORCED},
            {'name': 'priorized-no-input', 'setup': [SKY], 'args': ['img.fits', '--priorized', '1', '--cores', '1', '--table', 'o.csv'] + FORCED,
             'checks': [['absent', 'o_comp.csv']]},
            {'name': 'priorized2-psf-catpsf', 'setup': [SKY, _pcat('csv'), psf, dict(psf, name='cpsf.fits')],
             'args': ['img.fits', '--priorized', '2', '--input', 'prior.csv', '--psf', 'psf.fits', '--catpsf', 'cpsf.fits', '--cores', '1',
                      '--table', 'o.csv'] + FORCED},
        ]
    for c in cases:
        c['tool'] = 'aegean'
    return cases


def aegean_region_cases(ctx, thorough=False):
    reg = {'kind': 'region', 'name': 'reg.mim', 'depth': 13, 'circles_pix': [[20.0, 25.0, 0.07]]}      # 25 pixels: keeps 2 of the 4 positive islands
    cases = [
        {'name': 'region', 'setup': [SKY, reg], 'args': ['img.fits', '--region', 'reg.mim', '--cores', '1', '--table', 'in.csv'] + FORCED,
         'checks': [['rows', 'in_comp.csv', 1, 4]]},
        {'name': 'region-negative', 'setup': [SKY, reg],
         'args': ['img.fits', '--region', 'reg.mim', '--negative', '--seedclip', '6', '--cores', '1', '--table', 'in.fits'] + FORCED},
        {'name': 'no-region', 'setup': [SKY, reg], 'args': ['img.fits', '--cores', '1', '--table', 'all.csv'] + FORCED,
         'checks': [['rows', 'all_comp.csv', 5, 5]]},
    ]
    if thorough:
        far = {'kind': 'region', 'name': 'far.mim', 'depth': 10, 'circles_pix': [[400.0, 400.0, 0.2]]}
        cases.append({'name': 'region-elsewhere', 'setup': [SKY, far], 'args': ['img.fits', '--region', 'far.mim', '--cores', '1', '--table', 'o.csv'] + FORCED,
                      'checks': [['absent', 'o_comp.csv']]})
        cases.append({'name': 'region-missing-file', 'setup': [SKY], 'args': ['img.fits', '--region', 'nothere.mim', '--cores', '1', '--table', 'o.csv'] + FORCED})
    for c in cases:
        c['tool'] = 'aegean'
    return cases


def aegean_polarity_cases(ctx, thorough=False):
    base = ['img.fits', '--cores', '1'] + FORCED
    cases = [
        {'name': 'polarity-default', 'setup': [SKY], 'args': base + ['--table', 'o.csv'], 'checks': [['signs', 'o_comp.csv', '+']]},
        {'name': 'polarity-negative', 'setup': [SKY], 'args': base + ['--negative', '--table', 'o.csv'], 'checks': [['signs', 'o_comp.csv', '+-']]},
        {'name': 'polarity-negative-nopositive', 'setup': [SKY], 'args': base + ['--nopositive', '--negative', '--table', 'o.csv'],
         'checks': [['signs', 'o_comp.csv', '-']]},
        {'name': 'polarity-nopositive-alone', 'setup': [SKY], 'args': base + ['--nopositive', '--table', 'o.csv'],
         'checks': [['signs', 'o_comp.csv', 'none']]},
    ]
    if thorough:
        cases.append({'name': 'polarity-negative-island', 'setup': [SKY], 'args': base + ['--negative', '--nopositive', '--island', '--table', 'o.fits'],
                      'checks': [['signs', 'o_comp.fits', '-']]})
    for c in cases:
        c['tool'] = 'aegean'
    return cases


def _aegean(ctx, gen, thorough):
    cases = gen(ctx, _thorough(ctx, thorough))
    probs, n = run_cases(ctx, cases)
    _cleanup(ctx, cases)
    return probs, n


def aegean_table_cli(ctx, thorough=None):
    return _aegean(ctx, aegean_table_cases, thorough)


def aegean_region_cli(ctx, thorough=None):
    return _aegean(ctx, aegean_region_cases, thorough)


def aegean_polarity_cli(ctx, thorough=None):
    return _aegean(ctx, aegean_polarity_cases, thorough)


def aegean_cli(ctx, thorough=None):
    """all aegean cases: blind --table, priorized --input, --region, --negative / --nopositive"""
    probs, n = [], 0
    for f in (aegean_table_cli, aegean_region_cli, aegean_polarity_cli):
        p, k = f(ctx, thorough)
        probs += p
        n += k
    return probs, n


# ------------------------------------------------------------------------------------------ hook + replay
def hook(ctx, fn, tool):
    """the block added at the end of run() of a property harness"""
    t0 = time.time()
    try:
        probs, n = fn(ctx)
    except Exception as e:  # noqa
        import traceback
        ctx.oblige(f'command line {tool}: cases ran', False, traceback.format_exc()[-1500:])
        return
    ctx.evaluations += n
    ctx.rule = (ctx.rule or '') + (f' Command line: {n} {tool} command lines (subprocess, relative file names in a scratch directory) vs the '
                                   'library call with the documented option mapping in a fresh process; every file written is compared (FITS '
                                   'cards and data bit for bit, tables apart from uuids, exit codes, file names).')
    for p in probs[:2]:
        ctx.mismatch('command line vs library call', p, impl=p['what'], is_violation={'kind': 'cli', **p})
    ctx.oblige(f'command line {tool}: {n} runs equal the library call with the documented option mapping', not probs, probs[:1])
    ctx.notes.append(f'command line {tool}: {n} runs in {time.time() - t0:.1f}s')


def replay_cli(ctx, fi):
    """re-run the stored command line (inputs rebuilt from the stored setup recipes) against the promised library call"""
    case = {'tool': fi['tool'], 'name': 'replay-' + fi.get('name', 'case'), 'args': list(fi['args']), 'setup': fi['setup'],
            'checks': fi.get('checks', []), 'both_fail_ok': fi.get('both_fail_ok', False)}
    print('command line:', command_line(case['tool'], case['args']))
    print('inputs      :', json.dumps(case['setup'])[:800])
    probs, _ = run_cases(ctx, [case])
    print('library call:', json.dumps(case.get('lib'))[:800])
    _cleanup(ctx, [case])
    if probs:
        print('STILL DIFFERENT:', probs[0]['what'])
        return 1
    print('the command line now equals the promised library call on this input')
    return 0


if __name__ == '__main__':
    if len(sys.argv) == 3 and sys.argv[1] == '--lib':
        _lib_main(sys.argv[2])
