"""C05 - priorized fitting measures the catalogued sources where and as catalogued.

Three layers (see DESIGN.md s.7 C05):
 1 exact correspondence of the placement / vary / copy-back logic: the real priorized_fit_islands is run with
   the optimiser replaced by the identity (monkey-patched do_lmfit), the four WCS conversions replaced by an
   affine map with exact binary arithmetic and FWHM2CC = 1/2, on images whose pixel values encode their own
   coordinates; everything observable (vary flags, offsets, where the data cut-out was taken from, every
   parameter value and limit handed to the optimiser, every returned component) is compared EXACTLY with
   Model/Priorized.v evaluated by vm_compute on the same inputs;
 2 library hypotheses of the theorems validated on the real libraries (WCS inverse, ellipse inverse, FWHM2CC,
   lmfit keeps non-varying parameters and returns every component);
 3 real runs on exact noise-free catalogue images with the property's tolerances as oracle (also the search).
"""
import json
import math
import os
import time

import numpy as np

import vlib
from harness import priorized_common as pc

GEN = ['Priorized']
LEVEL = 'proof'
EXTRA_TARGETS = ['Refuted/C05_half_pixel.vo', 'Refuted/C05_shape_clipped.vo']
TRUSTED = [
    'Coq 8.16.1 kernel + vm_compute; all C05 theorems are axiom-free (Closed under the global context)',
    'translator tools/points_c05.py (Q back end on tools/trcore.py): FITS->array -1, int(round()) of the pixel, the accept test, '
    'src.a/3600, *FWHM2CC, width / xwidth / ywidth, the four bound updates, int() slices, the -= xmin / -= ymin shifts of value, min '
    'and max, xo/yo limits, s_lims, vary=stage>=k, the copy-back tests and statements, flags.PRIORIZED / FIXED2PSF, x_pix / y_pix, '
    '*CC2FHWM, *3600 of result_to_components; statement order (reject before bookkeeping) and everything non-arithmetic is '
    'matched on the AST and refused otherwise',
    'hand-written skeleton Model/Priorized.v (filter, fold, zip, fix_shape, pa_limit, lmfit clipping of the initial value) tied by '
    'exact correspondence on the real priorized_fit_islands with do_lmfit := identity and an affine WCS',
    'section variables validated by sampling on every run: astropy/wcslib through WCSHelper (pix2sky inverts sky2pix; ellipse '
    'conversion inverts within half a sigma), FWHM2CC*CC2FHWM = 1, lmfit (non-varying parameters unchanged, every component '
    'returned, initial value clipped into [min, max])',
    'NOT proved, validated by real runs only: convergence of Levenberg-Marquardt to the catalogue values on noise-free images; '
    'cluster.resize, regroup_dbscan / island_itergen, catalogs.load_table (exercised, not modelled)',
    'the harness (generators, renderer of the noise-free model - cross-checked against AeRes.make_model -, comparison)',
]
ASSUMPTIONS = [
    'exact correspondence inputs are dyadic rationals (positions multiples of 1/8 pixel, sizes multiples of 1/8 pixel, angles multiples '
    'of 1/4 degree, scale 256 pixels/degree, FWHM2CC patched to 1/2) so that every binary64 operation of the code is exact; the only '
    'inexact operation, 0.8*min(..) of a clipped shape limit, is compared to 1e-13 relative',
    'the model works on finite rational coordinates: a sky position that wcslib cannot project (NaN pixel) is outside the model; the '
    'translator recognises the guard that skips it (C05_unprojectable_skipped) and the real runs contain such sources',
    'noise-free recovery is checked with rms=1e-3, bkg=0, 10 arcsec pixels, 30 arcsec beam, SIN projection, sources of FWHM 3-9.5 pixels',
    '"equal to the input" for shapes that are not freed is checked to 2e-5 relative / 0.01 deg: the round trip pix2sky_ellipse o '
    'sky2pix_ellipse of the real WCS is itself only good to ~1e-6 (that is C16)',
    'resize changes catalogue shapes when the catalogue psf differs from the image psf; the runs use psf columns equal to the image beam '
    '(or ratio=1), so "input value" = catalogue value',
]

FINDING_KEYS = {'psf': 'psf columns'}


def known_classes():
    ks = {}
    for kind, text in vlib.known_findings('C05'):
        if kind != 'finding':
            continue
        for cls, key in FINDING_KEYS.items():
            if key in text:
                ks[cls] = text
    return ks


def classify(case, problems):
    """which recorded finding (if any) explains the failure of this case: only the missing psf columns.
    Sources below the old shape limit and positions that cannot be projected are ordinary cases."""
    if not case['opts']['psf_cols']:
        return 'psf'
    return None


# minimal recorded input of the finding (replayed before a KNOWN-FINDING line is printed)
def finding_probe(cls):
    assert cls == 'psf'
    src = {'uuid': 'u0', 'island': 0, 'source': 0, 'ra': 150.00641, 'dec': -29.98972, 'peak_flux': 1.0, 'a': 60.0, 'b': 35.0,
           'pa': 30.0, 'err_ra': 1e-5, 'err_dec': 2e-5, 'err_a': 0.1, 'err_b': 0.2, 'err_pa': 0.3, 'flags': 0,
           'psf': (30.0, 30.0, 0.0), 'kind': 'in', 'pix': (43.7, 43.0)}
    return {'flavor': 'probe', 'rows': 80, 'cols': 90, 'nan': [], 'cat': [src],
            'opts': {'stage': 1, 'regroup': True, 'ratio': None, 'psf_cols': False, 'input': 'list', 'docov': False}}


def fails_same(ctx, cc, cls):
    pr = pc.check_real(cc, ctx.work, 's', False)[0]
    return bool(pr) and classify(cc, pr) == cls


def real_plan(ctx):
    quick = ctx.tier == 'quick'
    plan = []
    for fl, n in (('plain', 14), ('blend', 16), ('edge', 10), ('reject', 16), ('thin', 4), ('nonsq', 14), ('many', 1)):
        plan += [fl] * (n if quick else n * 8)
    return plan


def run(ctx, model_ok=True):
    rng = ctx.rng
    quick = ctx.tier == 'quick'
    known = known_classes()
    ctx.rule = ('(1) exact cases: images 12..44 x 12..44 whose pixels encode their coordinates, 1-6 islands of 1-3 sources at 1/8-pixel '
                'positions (inside, on the edge, off the image, on blank data / rms pixels, exactly half way between pixels), FWHM '
                '2.5-14 pixels in 1/8 steps (odd and even cut-out widths, b>a, shapes below the shape limit), pa outside (-90,90], '
                'input flags, stages 1-3, regroup on/off, shuffled rows; distinct = distinct (image, catalogue, stage, regroup), '
                'non-trivial = at least one island reaches the optimiser. (2) real runs: noise-free images of 1-30 source catalogues '
                '(isolated, blends 0.9-1.8 FWHM apart, edge, off-image / unprojectable / NaN-pixel sources, minor axis below the shape '
                'limit, >20 islands, non-square (|CDELT2| = 2|CDELT1| and the reverse) and rotated-PC pixels with mildly elongated sources '
                'along both pixel axes and obliquely), list / csv / fits / vot catalogues with and without psf columns, stages 1-3, regroup on/off, ratio '
                'None/1, docov on/off; distinct = distinct case, non-trivial = at least one accepted source.')
    # ---------------- 1 exact correspondence
    n_exact = 160 if quick else 1600
    t0 = time.time()
    cases, obs = [], []
    skipped = 0
    for i in range(n_exact):
        c = pc.gen_exact_case(rng)
        try:
            o = pc.run_exact(c, ctx.work, f'x{i % 8}')
        except Exception as e:  # noqa
            ctx.mismatch('priorized_fit_islands raised on an exact-correspondence case', {'case': c}, impl=f'{type(e).__name__}: {e}',
                         is_violation={'kind': 'exact', 'case': c, 'what': f'{type(e).__name__}: {e}'})
            continue
        cases.append(c)
        obs.append(o)
    ctx.notes.append(f'{len(cases)} exact cases on the implementation in {time.time() - t0:.1f}s')
    if model_ok and cases:
        exprs = [pc.g_obs(c, o['groups']) for c, o in zip(cases, obs)]
        t1 = time.time()
        vals, err = vlib.coq_eval(ctx, pc.IMPORTS, exprs, shard=12, workers=8)
        ctx.notes.append(f'model evaluation (vm_compute) took {time.time() - t1:.1f}s')
        if vals is None:
            ctx.oblige('model evaluation (vm_compute) of Model.Priorized.obs', False, err)
        else:
            nbad = nclip = nrej = nisl = ncomp = ndropped = 0
            for c, o, v in zip(cases, obs, vals):
                m = pc.canon_model(v)
                # an island the optimiser side dropped (too few unmasked pixels) is outside the model
                dropped = any(a is None and b is not None for a, b in zip(o['islands'], m['islands']))
                fitted = sum(1 for a in o['islands'] if a is not None)
                key = None
                if fitted:
                    key = json.dumps([c['rows'], c['cols'], c['stage'], c['regroup'], c['blank'], c['rms_blank'],
                                      [(d['uuid'], d['ra'], d['dec'], d['a'], d['b'], d['pa']) for d in c['cat']]])
                ctx.case(key=key, bucket=f"exact stage {c['stage']} regroup {int(c['regroup'])}",
                         sample={'exact_case': {k: c[k] for k in ('rows', 'cols', 'stage', 'regroup', 'blank')},
                                 'n_sources': len(c['cat'])} if len(ctx.samples) < 2 else None)
                for d in c['cat']:
                    ctx.hist['exact source ' + d['kind']] = ctx.hist.get('exact source ' + d['kind'], 0) + 1
                if dropped:
                    ndropped += 1
                    continue
                nisl += fitted
                ncomp += len(o['out'])
                nrej += sum(len(g) for g in o['groups']) - sum(len(i['uuids']) for i in m['islands'] if i)
                nclip += sum(1 for isle in m['unclipped'] for u in isle if not u)
                diffs = pc.compare_exact(o, m)
                if diffs:
                    nbad += 1
                    if nbad <= 3:
                        ctx.mismatch('priorized_fit_islands (identity optimiser, affine WCS) vs Model.Priorized.obs',
                                     {'case': c, 'differences': [list(map(str, d)) for d in diffs[:6]]},
                                     impl=str(diffs[0][1]), model=str(diffs[0][2]))
            ctx.oblige(f'correspondence: {len(vals) - ndropped} runs / {nisl} fitted islands / {ncomp} components: vary flags, offsets, decoded '
                       f'data cut-out, parameters and limits, returned components equal to the model', nbad == 0, f'{nbad} runs differ')
            ctx.oblige('correspondence is not vacuous (islands are fitted, sources are rejected, few runs lose an island on the optimiser side)',
                       nisl > 0 and nrej > 0 and ndropped * 5 <= len(vals), f'{nisl} {nrej} dropped {ndropped}')
            ctx.traces = len(vals) - ndropped
            ctx.hyp['lmfit.Parameter(value, min, max) moves the initial value into [min, max] (model `clip`)'] = nclip
            ctx.notes.append(f'exact: {nrej} rejected sources, {nclip} clipped shapes, {ndropped} runs with an island dropped by the optimiser side')
    # ---------------- 2 library hypotheses on the real WCS
    w = pc.validate_wcs(rng, 150 if quick else 1500)
    ctx.hyp['wcs_inverts: |pix2sky(sky2pix(p)) - p| <= 1e-9 deg (WCSHelper / wcslib SIN)'] = 150 if quick else 1500
    ctx.oblige('library hypothesis: pix2sky inverts sky2pix (1e-9 deg)', w['pos_deg'] <= 1e-9, w)
    ctx.hyp['wcs_ell_inverts / ell_inverts_at within half a sigma: a, b to 1e-5 relative, pa to 0.01 deg'] = 300 if quick else 3000
    ctx.oblige('library hypothesis: pix2sky_ellipse inverts sky2pix_ellipse at the catalogue position (1e-5 rel, 0.001 deg)',
               w['ab_rel'] <= 1e-5 and w['pa_deg'] <= 1e-3, w)
    ctx.oblige('library hypothesis: ... and at positions within half a sigma of it (1e-5 rel, 0.01 deg)',
               w['ab_rel_shifted'] <= 1e-5 and w['pa_deg_shifted'] <= 1e-2, w)
    ctx.hyp['kf * kc == 1 (FWHM2CC * CC2FHWM, binary64)'] = 1
    ctx.oblige('library hypothesis: FWHM2CC * CC2FHWM = 1 to 1 ulp', w['kf_kc'] <= 3e-16, w)
    ctx.notes.append('wcs validation: ' + json.dumps({k: float(v) for k, v in w.items()}))
    # ---------------- renderer vs AeRes.make_model
    bad_render = check_renderer(ctx, rng)
    ctx.oblige('noise-free renderer agrees with AeRes.make_model (float32, 5 sigma windows)', not bad_render, bad_render)
    # ---------------- 3 real runs
    t2 = time.time()
    kept = moved = 0
    seen_classes = {}
    by_class = {}
    nviol = 0
    for i, fl in enumerate(real_plan(ctx)):
        c = pc.gen_real_case(rng, fl)
        problems, st = pc.check_real(c, ctx.work, f'r{i % 8}')
        kept += st['fixed_kept']
        moved += len(st['fixed_moved'])
        o = c['opts']
        key = json.dumps([fl, o, [(d['uuid'], d['ra'], d['dec'], d['a'], d['b']) for d in c['cat']]], sort_keys=True) \
            if st['accepted'] else None
        ctx.case(key=key, bucket=f"real {fl} stage {o['stage']}",
                 sample={'real_case': {'flavor': fl, 'opts': o, 'n': len(c['cat'])}} if len(ctx.samples) < 5 else None)
        for k2 in (f"input {o['input']}", f"psf_cols {o['psf_cols']}", f"ratio {o['ratio']}", f"regroup {o['regroup']}"):
            ctx.hist[k2] = ctx.hist.get(k2, 0) + 1
        if st['fixed_moved'] and nviol < 3:
            ctx.mismatch('lmfit changed a parameter that does not vary / lost a component', {'case': c, 'moved': st['fixed_moved'][:4]})
        if not problems:
            continue
        cls = classify(c, problems)
        if cls in known:
            seen_classes[cls] = seen_classes.get(cls, 0) + 1
            continue
        nviol += 1
        by_class[cls] = by_class.get(cls, 0) + 1
        if by_class[cls] == 1 and len(by_class) <= 4:
            # one shrunk representative per failure class
            small = pc.shrink_real(c, ctx.work, lambda cc: fails_same(ctx, cc, cls)) if time.time() - t2 < 300 else c
            pr = pc.check_real(small, ctx.work, 's', False)[0] or problems
            ctx.mismatch(f'property oracle on a real priorized run ({cls or "unexplained"})', {'case': small, 'problems': pr[:6]}, impl=pr[0],
                         is_violation={'kind': 'real', 'case': small, 'what': pr[:6], 'class': cls})
    ctx.oblige('real runs on noise-free catalogue images satisfy the property (0.1 % flux, 0.01 pixel, copy-back, rejected sources)',
               nviol == 0, f'{nviol} failing cases by class {by_class}')
    ctx.hyp['fit_keeps_fixed: lmfit returns non-varying parameters bit-identical and every component'] = kept
    ctx.oblige('library hypothesis: lmfit keeps non-varying parameters and returns every component', moved == 0 and kept > 0, f'{moved} moved, {kept} kept')
    ctx.notes.append(f'real runs took {time.time() - t2:.1f}s; failing cases explained by recorded findings: {seen_classes}')
    # ---------------- recorded findings: replay the minimal inputs
    for cls, text in known.items():
        pr, _ = pc.check_real(finding_probe(cls), ctx.work, 'k', False)
        if pr:
            ctx.known_lines.append(text)


def check_renderer(ctx, rng):
    from AegeanTools import AeRes
    from AegeanTools.wcs_helpers import WCSHelper
    for fl in ('blend', 'blend', 'nonsq', 'nonsq'):
        c = pc.gen_real_case(rng, fl)
        wh = WCSHelper.from_header(pc.real_header((c['rows'], c['cols']), c.get('hdr')))
        acc, blank = pc.expected_accept(c, wh)
        img = pc.render(c, wh, acc, blank)
        srcs = [pc.to_source(d) for d in c['cat'] if acc[d['uuid']]]
        m = AeRes.make_model(srcs, (c['rows'], c['cols']), wh)
        peak = max(abs(d['peak_flux']) for d in c['cat'])
        # make_model truncates each source at 5 sigma (<= exp(-12.5) of its peak) and works in float32
        d = np.nanmax(np.abs(np.where(np.isfinite(img), img, 0) - m))
        if not d <= 2e-5 * peak * len(srcs):
            return f'max difference {d} for a catalogue with peak {peak}'
    return ''


def search(ctx):
    rng = ctx.rng
    known = known_classes()
    t0 = time.time()
    n = 0
    while time.time() - t0 < 150:
        c = pc.gen_real_case(rng)
        n += 1
        problems, _ = pc.check_real(c, ctx.work, 'q')
        if problems and classify(c, problems) not in known:
            cls = classify(c, problems)
            small = pc.shrink_real(c, ctx.work, lambda cc: fails_same(ctx, cc, cls))
            pr = pc.check_real(small, ctx.work, 's', False)[0] or problems
            return {'kind': 'real', 'case': small, 'what': pr[:6], 'class': cls}
    ctx.notes.append(f'search: {n} random real cases, no violation')
    return None


def replay(ctx, obj):
    fi = obj.get('failing_input')
    if not fi:
        print('replay file has no concrete input; broken obligations were:')
        for b in obj.get('broken', []):
            print('  ', b.get('what'), str(b.get('detail', b.get('case', '')))[:400])
        return 1
    if fi.get('kind') == 'exact':
        try:
            pc.run_exact(fi['case'], ctx.work, 'p')
            print('implementation: no exception on this exact-correspondence case')
            return 0
        except Exception as e:  # noqa
            print(f'implementation: {type(e).__name__}: {e}')
            return 1
    pr, st = pc.check_real(fi['case'], ctx.work, 'p')
    print('catalogue:', json.dumps([{k: d[k] for k in ("uuid", "ra", "dec", "peak_flux", "a", "b", "pa")} for d in fi['case']['cat']]))
    print('options:', fi['case']['opts'], 'image', fi['case']['rows'], 'x', fi['case']['cols'], 'header', fi['case'].get('hdr') or 'square 10 arcsec pixels',
          'blank boxes', fi['case']['nan'])
    if pr:
        for p in pr[:8]:
            print('implementation:', p)
        return 1
    print('implementation: property holds on this input', st)
    return 0
