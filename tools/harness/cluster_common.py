"""C19 helpers: lattice catalogues, implementation runners, property oracles, Gallina terms."""
import copy
import itertools
import math
from fractions import Fraction

import numpy as np

import vlib

IMPORTS = ("From Coq Require Import ZArith List Bool.\nFrom Aegean Require Import Gen.ClusterShape Lib.Graph Model.Cluster.\n"
           "Import ListNotations.\nOpen Scope Z_scope.\n")

ATTRS = ['background', 'local_rms', 'ra_str', 'dec_str', 'ra', 'err_ra', 'dec', 'err_dec', 'peak_flux', 'err_peak_flux',
         'int_flux', 'err_int_flux', 'a', 'err_a', 'b', 'err_b', 'pa', 'err_pa', 'flags', 'residual_mean', 'residual_std',
         'uuid', 'psf_a', 'psf_b', 'psf_pa', 'peak_pixel', 'vid']

# signed axis permutations: images of the lattice patch (which sits around the south pole / on the
# lower hemisphere) anywhere on the sphere, rational points stay rational
ORIENT = [(p, s) for p in itertools.permutations(range(3)) for s in itertools.product((1, -1), repeat=3)]


def lattice_point(m, n, k, orient):
    """inverse stereographic projection of (m/k, n/k): rational unit vector (x, y, z)/d, then a signed axis permutation"""
    v = (2 * m * k, 2 * n * k, m * m + n * n - k * k)
    d = m * m + n * n + k * k
    g = math.gcd(math.gcd(abs(v[0]), abs(v[1])), math.gcd(abs(v[2]), d))
    v = tuple(c // g for c in v)
    d //= g
    p, s = orient
    return (s[0] * v[p[0]], s[1] * v[p[1]], s[2] * v[p[2]], d)


def radec(pt, rng=None):
    x, y, z, d = pt
    if x == 0 and y == 0:
        ra = 0.0 if rng is None else rng.choice([0.0, 45.0, 123.456, 359.9])    # any RA is the pole
    else:
        ra = math.degrees(math.atan2(y, x)) % 360.0
    dec = math.degrees(math.atan2(z, math.hypot(x, y)))
    return ra, dec


def chord2(p, q):
    """exact squared chord between two lattice points as (numerator, denominator)"""
    num = sum((p[i] * q[3] - q[i] * p[3]) ** 2 for i in range(3))
    return num, (p[3] * q[3]) ** 2


def gen_lattice_catalogue(rng, n, style=None, e=None):
    """n sources on the lattice. returns dict(pts, flux, eps_arcmin, k, orient, style)"""
    style = style or rng.choice(['clusters', 'clusters', 'chain', 'sparse', 'pole', 'wrap', 'dups', 'mixed'])
    e = e or rng.choice([0.5, 1, 2, 4, 4, 10, 30, 60, 240, 900])          # linking length, arcmin
    eps_rad = math.radians(e / 60)
    k = max(3, int(round(rng.uniform(2.0, 5.0) / eps_rad)))          # lattice step ~ eps/2 .. eps/5 (times 1..2)
    orient = rng.choice(ORIENT)
    if style == 'pole':
        orient = rng.choice([((0, 1, 2), (1, 1, 1)), ((0, 1, 2), (1, 1, -1)), ((1, 0, 2), (-1, 1, -1))])   # patch around a pole
        c0 = (0, 0)
    elif style == 'wrap':
        orient = rng.choice([((2, 0, 1), (-1, 1, 1)), ((2, 1, 0), (-1, 1, 1)), ((2, 0, 1), (-1, -1, 1))])  # patch around ra = 0
        c0 = (0, 0)
    else:
        c0 = (rng.randint(-k, k), rng.randint(-k, k))
    pts = []
    reach = max(2, int(3 * math.sqrt(n)))
    if style == 'chain':
        m, nn = c0
        while len(pts) < n:
            pts.append((m, nn))
            step = rng.choice([1, 1, 2, 2, 3, 6])
            if rng.random() < 0.5:
                m += step
            else:
                nn += step
    elif style == 'sparse':
        while len(pts) < n:
            pts.append((c0[0] + rng.randint(-40 * reach, 40 * reach), c0[1] + rng.randint(-40 * reach, 40 * reach)))
    else:
        nc = rng.randint(1, max(1, n // 3))
        centres = [(c0[0] + rng.randint(-3 * reach, 3 * reach), c0[1] + rng.randint(-3 * reach, 3 * reach)) for _ in range(nc)]
        if style in ('pole', 'wrap'):
            centres[0] = (0, 0)
        while len(pts) < n:
            c = rng.choice(centres)
            w = rng.choice([1, 2, 3, 5])
            pts.append((c[0] + rng.randint(-w, w), c[1] + rng.randint(-w, w)))
    if style in ('dups', 'mixed', 'pole') and n > 1:
        for _ in range(max(1, n // 4)):
            pts[rng.randrange(n)] = pts[rng.randrange(n)]
    lpts = [lattice_point(m, nn, k, orient) for m, nn in pts]
    fl = rng.choice(['distinct', 'ties', 'ties', 'allequal'])
    if fl == 'distinct':
        flux = rng.sample(range(-5, 4 * n + 5), n)
    elif fl == 'ties':
        flux = [rng.randint(-1, max(1, n // 3)) for _ in range(n)]
    else:
        flux = [3] * n
    return {'pts': lpts, 'flux': flux, 'eps_arcmin': e, 'k': k, 'style': style, 'fluxes': fl}


def eps_for(cat, rng):
    """DBSCAN eps (float) as AeReg computes it, moved if necessary so that no pair is within 1e-6 relative of it;
    returns (eps float, en, ed) with en/ed within 2^-32 relative of eps^2"""
    e = cat['eps_arcmin']
    pts = sorted(set(cat['pts']))
    ch = []
    for i in range(len(pts)):
        for j in range(i + 1, len(pts)):
            nu, de = chord2(pts[i], pts[j])
            ch.append(math.sqrt(nu / de))
    ch = np.unique(np.array(ch))

    def conv(x):
        return float(2 * np.sin(np.radians(x / 60) / 2))

    def clear(x):
        return len(ch) == 0 or np.min(np.abs(ch - x)) > 4e-6 * x
    eps = conv(e)
    if not clear(eps):
        # the middle of the nearest gap between consecutive separations that is wide enough
        best = None
        for lo, hi in zip(ch[:-1], ch[1:]):
            if hi - lo > 4e-5 * hi:
                mid = 0.5 * (lo + hi)
                if best is None or abs(mid - eps) < abs(best - eps):
                    best = mid
        for cand in ([best] if best is not None else []) + [ch[-1] * 1.01, ch[0] * 0.99]:
            e2 = 60 * math.degrees(2 * math.asin(min(1.0, cand / 2)))
            if 0 < e2 < 10800 and clear(conv(e2)):
                e, eps = e2, conv(e2)
                break
        else:
            raise RuntimeError('no linking length clear of all separations')
    fr = Fraction(eps) ** 2
    sh = 34 - (fr.numerator.bit_length() - fr.denominator.bit_length())
    en = int(fr * (1 << sh)) if sh >= 0 else int(fr / (1 << -sh))
    ed = (1 << sh) if sh >= 0 else 1
    if sh < 0:
        en, ed = int(fr), 1
    return e, eps, en, ed


def make_sources(cat, rng, labels='random'):
    """ComponentSource objects for a lattice catalogue; vid = row id of the original catalogue"""
    from AegeanTools.models import ComponentSource
    out = []
    for i, (pt, f) in enumerate(zip(cat['pts'], cat['flux'])):
        s = ComponentSource()
        s.ra, s.dec = radec(pt, rng)
        s.peak_flux = float(f)
        s.a, s.b, s.pa = float(rng.choice([10, 20, 33])), float(rng.choice([5, 10])), float(rng.choice([0, 30, -45]))
        s.island, s.source = (rng.randint(0, 5), rng.randint(0, 3)) if labels == 'random' else (0, 0)
        s.int_flux = float(i) + 0.5
        s.flags = i % 3
        s.background, s.local_rms = 0.25, 0.5
        s.ra_str, s.dec_str = f'r{i}', f'd{i}'
        s.vid = i
        out.append(s)
    return out


def snapshot(srcs):
    def norm(v):
        if isinstance(v, float) and math.isnan(v):
            return 'nan'
        return v
    return {s.vid: {a: norm(getattr(s, a, None)) for a in ATTRS} for s in srcs}


def obs_groups(groups):
    return [[(int(s.vid), int(s.island), int(s.source)) for s in g] for g in groups]


def run_dbscan_impl(srcs, eps):
    """the real regroup_dbscan on (copies of) the sources; returns (obs, problems with untouched attributes, labels_)"""
    from AegeanTools import cluster
    srcs = [copy.copy(s) for s in srcs]
    before = snapshot(srcs)
    captured = {}
    real = cluster.DBSCAN

    class Spy(real):
        def fit(self, X, *a, **k):
            r = real.fit(self, X, *a, **k)
            captured['labels'] = [int(v) for v in r.labels_]
            captured['X'] = np.array(X)
            captured['params'] = (self.eps, self.min_samples, self.metric)
            return r
    cluster.DBSCAN = Spy
    try:
        groups = cluster.regroup_dbscan(srcs, eps=eps)
    finally:
        cluster.DBSCAN = real
    after = snapshot(srcs)
    changed = [(v, a) for v in before for a in ATTRS if before[v][a] != after[v][a]]
    ids_in = sorted(before)
    return obs_groups(groups), changed, captured, ids_in


def partition_of(obs):
    return sorted(sorted(t[0] for t in g) for g in obs)


def oracle_components(n, adj):
    """reference: connectivity classes of {0..n-1} under adj (set of frozenset pairs / callable)"""
    seen, out = set(), []
    for i in range(n):
        if i in seen:
            continue
        st, comp = [i], []
        seen.add(i)
        while st:
            a = st.pop()
            comp.append(a)
            for b in range(n):
                if b not in seen and adj(a, b):
                    seen.add(b)
                    st.append(b)
        out.append(sorted(comp))
    return sorted(out)


def check_numbering(obs, flux_of):
    """property on one regrouping result: labels unique, island = constant per group, source 0..n-1 by decreasing flux"""
    seen = set()
    for g in obs:
        if not g:
            return 'empty group'
        isl = {t[1] for t in g}
        if len(isl) != 1:
            return f'group {sorted(t[0] for t in g)} carries island labels {sorted(isl)}'
        if sorted(t[2] for t in g) != list(range(len(g))):
            return f'group {sorted(t[0] for t in g)} is numbered {sorted(t[2] for t in g)} instead of 0..{len(g) - 1}'
        byc = sorted(g, key=lambda t: t[2])
        for a, b in zip(byc, byc[1:]):
            if flux_of[a[0]] < flux_of[b[0]]:
                return (f'source {a[0]} (flux {flux_of[a[0]]}) is numbered {a[2]}, before source {b[0]} (flux {flux_of[b[0]]}) '
                        f'numbered {b[2]}')
        for t in g:
            if (t[1], t[2]) in seen:
                return f'label ({t[1]},{t[2]}) used twice'
            seen.add((t[1], t[2]))
    return None


def dbscan_property(cat, eps, en, ed, rng, perm=None, srcs=None):
    """property C19 (DBSCAN variant) on the implementation for one catalogue and one row order; None or message"""
    srcs = srcs or make_sources(cat, rng)
    rows = list(range(len(srcs))) if perm is None else list(perm)
    obs, changed, cap, ids = run_dbscan_impl([srcs[i] for i in rows], eps)
    n = len(srcs)
    flat = sorted(t[0] for g in obs for t in g)
    if flat != sorted(rows):
        return f'sources {sorted(rows)} went in, {flat} came out (each must be in exactly one group)', obs, cap
    pts = cat['pts']

    def adj(a, b):
        nu, de = chord2(pts[a], pts[b])
        return nu * ed <= en * de
    want = oracle_components(n, adj)
    if partition_of(obs) != want:
        return (f'groups {partition_of(obs)} are not the classes {want} of the relation `separation <= linking length`'), obs, cap
    msg = check_numbering(obs, {i: cat['flux'][i] for i in range(n)})
    if msg:
        return msg, obs, cap
    if changed:
        return f'attributes other than island/source changed: {changed[:4]}', obs, cap
    return None, obs, cap


# ------------------------------------------------------------------------------------------ Gallina terms
def g_pt(pt):
    return f'(mkPt {vlib.zlit(pt[0])} {vlib.zlit(pt[1])} {vlib.zlit(pt[2])} {vlib.zlit(pt[3])})'


def g_source(i, pt, dec, flux, isl, src, nbrs=()):
    return (f'(mkSource {i} {g_pt(pt)} {vlib.zlit(dec)} {vlib.zlit(flux)} {vlib.zlit(isl)} {vlib.zlit(src)} '
            f'{vlib.zlist(nbrs)} {7 * i + 1})')


def g_cat(cat, srcs, rows, nbrs=None, decs=None):
    items = []
    for i in rows:
        s = srcs[i]
        items.append(g_source(i, cat['pts'][i] if 'pts' in cat else (0, 0, 1, 1), 0 if decs is None else decs[i],
                              cat['flux'][i], s.island, s.source, () if nbrs is None else nbrs[i]))
    return '[' + '; '.join(items) + ']'


def to_obs(v):
    return [[tuple(t) for t in g] for g in v]


# ------------------------------------------------------------------------------------------ greedy variant
def gen_greedy_catalogue(rng, n, distinct_dec=True):
    """dyadic positions (multiples of 2^-12 deg) in a small field; sizes in arcsec; integer fluxes"""
    U = 4096
    span = max(rng.choice([40, 120, 400, 2000]), 2 * n)        # field size in units of 2^-12 deg (~0.9")
    ra0 = rng.choice([10.0, 180.0, 300.5, 0.25])
    dec0 = rng.choice([-60.0, -26.5, 0.0, 33.0, 75.0])
    ks = rng.sample(range(-span, span + 1), n) if distinct_dec else [rng.randint(-span // 8, span // 8) for _ in range(n)]
    rows = []
    for i in range(n):
        dk = int(dec0 * U) + ks[i]
        rk = int(ra0 * U) + rng.randint(-span, span)
        a = float(rng.choice([8, 12, 20, 45]))
        b = float(rng.choice([4, 8]))
        rows.append({'rk': rk, 'dk': dk, 'ra': rk / U, 'dec': dk / U, 'a': a, 'b': min(a, b), 'pa': float(rng.choice([0, 20, -70, 90]))})
    fl = rng.choice(['distinct', 'ties', 'allequal'])
    flux = rng.sample(range(-5, 4 * n + 5), n) if fl == 'distinct' else \
        [rng.randint(0, max(1, n // 3)) for _ in range(n)] if fl == 'ties' else [2] * n
    fark = rng.choice([0, 1, span // 4, span, 4 * span, int(0.5 * U)])
    return {'rows': rows, 'flux': flux, 'fark': fark, 'far': fark / U, 'unit': U, 'fluxes': fl, 'span': span}


def make_greedy_sources(cat, rng):
    from AegeanTools.models import ComponentSource
    out = []
    for i, (r, f) in enumerate(zip(cat['rows'], cat['flux'])):
        s = ComponentSource()
        s.ra, s.dec, s.a, s.b, s.pa = r['ra'], r['dec'], r['a'], r['b'], r['pa']
        s.peak_flux = float(f)
        s.island, s.source = rng.randint(0, 5), rng.randint(0, 3)
        s.int_flux, s.flags = float(i) + 0.5, i % 3
        s.ra_str, s.dec_str = f'r{i}', f'd{i}'
        s.vid = i
        out.append(s)
    return out


def greedy_links(cat, eps):
    """link(rec, m) exactly as regroup_vectorized evaluates it: |ra_rec - ra_m| <= far / cos(dec_rec) and
    norm_dist(rec, m) < eps, with the implementation's own norm_dist.  Returns (nbrs, all distances)"""
    from AegeanTools import cluster
    rows = cat['rows']
    n = len(rows)
    arr = np.rec.fromrecords([(r['ra'], r['dec'], r['a'], r['b'], r['pa'], float(f)) for r, f in zip(rows, cat['flux'])],
                             names=['ra', 'dec', 'a', 'b', 'pa', 'peak_flux'])
    nbrs, dists = [], []
    for i in range(n):
        rec = arr[i]
        rafar = cat['far'] / np.cos(np.radians(rec.dec))
        d_all = np.broadcast_to(np.atleast_1d(np.asarray(cluster.norm_dist(rec, arr), dtype=float)), (n,))
        li = []
        for j in range(n):
            if j == i:
                continue
            d = float(d_all[j])
            dists.append(d)
            if abs(rec.ra - arr[j].ra) <= rafar and d < eps:
                li.append(j)
        nbrs.append(li)
    return nbrs, dists


def greedy_eps(cat, rng):
    """an eps clear (1e-6 relative) of every pairwise normalised distance"""
    from AegeanTools import cluster  # noqa: F401
    _, dists = greedy_links(cat, 1.0)
    d = np.array([x for x in dists if np.isfinite(x)])
    for _ in range(100):
        eps = rng.choice([0.5, 1.0, 2.0, 4.0, 8.0, 20.0]) * (1 + rng.uniform(0, 0.3))
        if len(d) == 0 or np.min(np.abs(d - eps)) > 4e-6 * eps:
            return float(eps)
    raise RuntimeError('no eps clear of all normalised distances')


def run_greedy_impl(srcs, eps, far):
    from AegeanTools import cluster
    srcs = [copy.copy(s) for s in srcs]
    before = snapshot(srcs)
    groups = cluster.regroup(srcs, eps=eps, far=far)
    after = snapshot(srcs)
    changed = [(v, a) for v in before for a in ATTRS if before[v][a] != after[v][a]]
    return obs_groups(groups), changed


def greedy_property(cat, eps, nbrs, rng, perm=None, srcs=None):
    """partition, every group chain-connected under link, numbering, attributes (implementation only)"""
    srcs = srcs or make_greedy_sources(cat, rng)
    rows = list(range(len(srcs))) if perm is None else list(perm)
    obs, changed = run_greedy_impl([srcs[i] for i in rows], eps, cat['far'])
    flat = sorted(t[0] for g in obs for t in g)
    if flat != sorted(rows):
        return f'sources {sorted(rows)} went in, {flat} came out (each must be in exactly one group)', obs
    for g in obs:
        ids = [t[0] for t in g]
        sub = {a: i for i, a in enumerate(ids)}
        comp = oracle_components(len(ids), lambda a, b: ids[b] in nbrs[ids[a]] or ids[a] in nbrs[ids[b]])
        if len(comp) != 1:
            return f'group {sorted(ids)} is not connected by links inside the group (pieces {[[ids[i] for i in c] for c in comp]})', obs
        del sub
    msg = check_numbering(obs, {i: cat['flux'][i] for i in range(len(srcs))})
    if msg:
        return msg, obs
    if changed:
        return f'attributes other than island/source changed: {changed[:4]}', obs
    return None, obs
